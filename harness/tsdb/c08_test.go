package tsdb

// C08: compaction planning converges and never mixes block classes.
//
// Metadata only: LeveledCompactor.plan is called directly on []dirMeta, CompactBlockMetas produces the
// merged metadata, a 10-line model replaces the set of blocks (planned blocks out, merged block in; a
// rewritten single block loses its tombstones, a fully deleted one disappears, as Compact does).
//
// Enumerated space: every subset of <= N block time ranges out of 18 (9 aligned level-1 slots of
// width 10 over [-30,60), the aligned ranges of width 30 and 90, four misaligned / overlapping ones)
// x every assignment of a head-view class (regular / stale-series / selected-series) to each block
// x at most one block carrying an extra property (failed, 6 % tombstones, all series deleted)
// x out-of-order hint pattern (none / all / alternating) x overlapping compaction on/off;
// ranges {10,30,90}.
//
// Oracle = the statement: a plan is (a) >= 2 blocks forming one overlap group [only if overlapping
// compaction is enabled], or (b) >= 2 pairwise disjoint blocks inside one aligned configured range,
// none failed, not containing the newest block of the class, or (c) one block with tombstones that
// warrant a rewrite (> 5 % or everything deleted); all blocks of a plan have one class; iterating
// plan -> merge reaches the empty plan within 2n+1 steps; merged metadata: out-of-order hint only
// if every input has it, partial-view hints exactly those of the class, time range = hull.

import (
	"context"
	"encoding/binary"
	"fmt"
	"os"
	"sort"
	"strings"
	"sync"
	"sync/atomic"
	"testing"
	"time"

	"github.com/oklog/ulid/v2"

	"github.com/prometheus/prometheus/internal/verif/vx"
)

type c08Span struct{ min, max int64 }

var c08Spans = []c08Span{
	{0, 10}, {10, 20}, {20, 30}, {30, 40}, {40, 50}, {50, 60}, {-10, 0}, {-20, -10}, {-30, -20},
	{0, 30}, {30, 60}, {-30, 0}, {0, 90}, {-90, 0},
	{5, 15}, {-5, 5}, {20, 40}, {0, 60},
}

var c08Ranges = []int64{10, 30, 90}

const (
	c08Regular = iota
	c08Stale
	c08Selected
)

const (
	c08None = iota
	c08Failed
	c08Tomb6
	c08TombAll
)

type c08Block struct {
	id     int
	span   c08Span
	class  int
	extra  int
	ooo    bool
	series uint64
	tombs  uint64
	merged bool
}

func (b c08Block) String() string {
	s := fmt.Sprintf("b%d[%d,%d)%s", b.id, b.span.min, b.span.max, [...]string{"", "/stale", "/selected"}[b.class])
	if b.extra == c08Failed {
		s += "/failed"
	}
	if b.tombs > 0 {
		s += fmt.Sprintf("/tombs=%d of %d", b.tombs, b.series)
	}
	if b.ooo {
		s += "/ooo"
	}
	return s
}

func c08ULID(id int) ulid.ULID {
	var u ulid.ULID
	binary.BigEndian.PutUint64(u[8:], uint64(id)+1)
	return u
}

func (b c08Block) meta() *BlockMeta {
	m := &BlockMeta{ULID: c08ULID(b.id), MinTime: b.span.min, MaxTime: b.span.max}
	m.Stats.NumSeries = b.series
	m.Stats.NumTombstones = b.tombs
	m.Compaction.Level = 1
	m.Compaction.Sources = []ulid.ULID{m.ULID}
	m.Compaction.Failed = b.extra == c08Failed
	if b.ooo {
		m.Compaction.SetOutOfOrder()
	}
	switch b.class {
	case c08Stale:
		m.Compaction.SetStaleSeries()
	case c08Selected:
		m.Compaction.SetSelectedSeries()
	}
	return m
}

type c08Case struct {
	Spans    []int `json:"spans"`   // indices into c08Spans
	Classes  []int `json:"classes"` // per block
	ExtraAt  int   `json:"extra_at"`
	Extra    int   `json:"extra"`
	OOOMode  int   `json:"ooo_mode"` // 0 none, 1 all, 2 alternating
	Overlaps bool  `json:"overlapping_compaction"`
}

func (c c08Case) blocks() []c08Block {
	var out []c08Block
	for i, si := range c.Spans {
		b := c08Block{id: i, span: c08Spans[si], class: c.Classes[i], series: 100}
		if i == c.ExtraAt {
			b.extra = c.Extra
			switch c.Extra {
			case c08Tomb6:
				b.tombs = 6
			case c08TombAll:
				b.tombs = 100
			}
		}
		b.ooo = c.OOOMode == 1 || (c.OOOMode == 2 && i%2 == 0)
		out = append(out, b)
	}
	return out
}

// ---------------------------------------------------------------------------------------------
// oracle
// ---------------------------------------------------------------------------------------------

func c08CheckPlan(overlapEnabled bool, blocks []c08Block, plan []string) (shape, sig, msg string) {
	shape, sig, msg, _, _ = c08CheckPlanSoft(overlapEnabled, blocks, plan)
	return shape, sig, msg
}

func c08CheckPlanSoft(overlapEnabled bool, blocks []c08Block, plan []string) (shape, sig, msg, soft, softMsg string) {
	if len(plan) == 0 {
		return "empty", "", "", soft, softMsg
	}
	byDir := map[string]c08Block{}
	for _, b := range blocks {
		byDir[fmt.Sprintf("b%d", b.id)] = b
	}
	var p []c08Block
	seen := map[string]bool{}
	for _, d := range plan {
		b, ok := byDir[d]
		if !ok || seen[d] {
			return "", "plan-unknown-or-duplicate-block", fmt.Sprintf("plan %v names %q which is not a (distinct) input block", plan, d), soft, softMsg
		}
		seen[d] = true
		p = append(p, b)
	}
	for _, b := range p[1:] {
		if b.class != p[0].class {
			return "", "plan-mixes-block-classes", fmt.Sprintf("plan %v mixes head-view classes", p), soft, softMsg
		}
	}
	if len(p) == 1 {
		b := p[0]
		if b.tombs > 0 && (b.tombs >= b.series || float64(b.tombs)/float64(b.series+1) > 0.05) {
			return "tombstones", "", "", soft, softMsg
		}
		return "", "plan-single-block-without-tombstone-reason", fmt.Sprintf("plan is the single block %v whose tombstones do not warrant a rewrite", b), soft, softMsg
	}
	sort.SliceStable(p, func(i, j int) bool { return p[i].span.min < p[j].span.min })
	hi := p[0].span.max
	overlaps, gaps := 0, 0
	for _, b := range p[1:] {
		if b.span.min < hi {
			overlaps++
		} else {
			gaps++
		}
		if b.span.max > hi {
			hi = b.span.max
		}
	}
	if overlaps > 0 && !overlapEnabled {
		// Reported, but the exploration goes on: the remaining conditions of shape (b) are still
		// checked and the plan/compact loop continues (soft violation, own narrow signature).
		soft = "plan-overlapping-blocks-while-disabled"
		softMsg = fmt.Sprintf("plan %v contains overlapping blocks although overlapping compaction is disabled", p)
	}
	if overlaps > 0 && overlapEnabled {
		if gaps > 0 {
			return "", "plan-neither-overlap-group-nor-disjoint", fmt.Sprintf("plan %v is neither one overlap group nor a set of disjoint blocks", p), soft, softMsg
		}
		return "overlap", "", "", soft, softMsg
	}
	// (b)
	for _, b := range p {
		if b.extra == c08Failed {
			return "", "plan-includes-failed-block", fmt.Sprintf("plan %v contains a block marked as failed", p), soft, softMsg
		}
	}
	// newest of the class: some block of the class with the maximal MinTime must be outside the plan
	maxMin, first := int64(0), true
	for _, b := range blocks {
		if b.class == p[0].class && (first || b.span.min > maxMin) {
			maxMin, first = b.span.min, false
		}
	}
	excluded := false
	for _, b := range blocks {
		if b.class == p[0].class && b.span.min == maxMin && !seen[fmt.Sprintf("b%d", b.id)] {
			excluded = true
		}
	}
	if !excluded {
		return "", "plan-includes-newest-block", fmt.Sprintf("plan %v contains the newest block of its class (blocks %v)", p, blocks), soft, softMsg
	}
	lo := p[0].span.min
	within := false
	for _, iv := range c08Ranges {
		t0 := (lo / iv) * iv
		if lo < 0 && lo%iv != 0 {
			t0 -= iv
		}
		if hi <= t0+iv {
			within = true
		}
	}
	if !within {
		return "", "plan-spans-more-than-one-range", fmt.Sprintf("plan %v [%d,%d) does not lie inside one aligned range of %v", p, lo, hi, c08Ranges), soft, softMsg
	}
	return "range", "", "", soft, softMsg
}

func c08CheckMerged(p []c08Block, m *BlockMeta) (sig, msg string) {
	allOOO := true
	lo, hi := p[0].span.min, p[0].span.max
	for _, b := range p {
		allOOO = allOOO && b.ooo
		lo, hi = min(lo, b.span.min), max(hi, b.span.max)
	}
	if m.Compaction.FromOutOfOrder() && !allOOO {
		return "merged-meta-ooo-hint-from-mixed-inputs", fmt.Sprintf("merged block of %v carries the out-of-order hint although not every input does", p)
	}
	if m.Compaction.FromStaleSeries() != (p[0].class == c08Stale) || m.Compaction.FromSelectedSeries() != (p[0].class == c08Selected) {
		return "merged-meta-partial-view-hint-wrong", fmt.Sprintf("merged block of %v has hints %v", p, m.Compaction.Hints)
	}
	if m.MinTime != lo || m.MaxTime != hi {
		return "merged-meta-time-range-wrong", fmt.Sprintf("merged block of %v has range [%d,%d)", p, m.MinTime, m.MaxTime)
	}
	return "", ""
}

// c08Run plans and compacts until the plan is empty. Returns a description of the trajectory.
func c08Run(r *vx.Run, c *LeveledCompactor, cs c08Case) (traj string, firstShape string) {
	blocks := cs.blocks()
	n := len(blocks)
	nextID := n
	fail := func(sig, msg string, step int) {
		r.Violation(sig, fmt.Sprintf("%s  [step %d; initial blocks %v; overlapping compaction %v; ranges %v]", msg, step, cs.blocks(), cs.Overlaps, c08Ranges), cs)
	}
	var tb strings.Builder
	for step := 0; ; step++ {
		if step > 2*n+1 {
			fail("plan-compact-loop-does-not-converge", fmt.Sprintf("plan still non-empty after %d plan/compact steps; current blocks %v", step, blocks), step)
			return tb.String(), firstShape
		}
		dms := make([]dirMeta, len(blocks))
		for i, b := range blocks {
			dms[i] = dirMeta{dir: fmt.Sprintf("b%d", b.id), meta: b.meta()}
		}
		var plan []string
		var err error
		p, stack := vx.Guard(func() { plan, err = c.plan(dms) })
		if p != nil {
			fail("plan-panic", fmt.Sprintf("plan panicked: %v\n%.1200s", p, stack), step)
			return tb.String(), firstShape
		}
		if err != nil {
			fail("plan-error", err.Error(), step)
			return tb.String(), firstShape
		}
		shape, sig, msg, soft, softMsg := c08CheckPlanSoft(cs.Overlaps, blocks, plan)
		if soft != "" {
			fail(soft, softMsg, step)
			shape += "(overlapping)"
		}
		if sig != "" {
			fail(sig, msg, step)
			return tb.String(), firstShape
		}
		if step == 0 {
			firstShape = shape
		}
		tb.WriteString(shape)
		tb.WriteByte(' ')
		if len(plan) == 0 {
			return tb.String(), firstShape
		}
		// metadata-level compaction
		inPlan := map[string]bool{}
		for _, d := range plan {
			inPlan[d] = true
		}
		var planned, rest []c08Block
		var metas []*BlockMeta
		for _, b := range blocks {
			if inPlan[fmt.Sprintf("b%d", b.id)] {
				planned = append(planned, b)
				metas = append(metas, b.meta())
			} else {
				rest = append(rest, b)
			}
		}
		merged := CompactBlockMetas(c08ULID(nextID), metas...)
		if sig, msg := c08CheckMerged(planned, merged); sig != "" {
			fail(sig, msg, step)
			return tb.String(), firstShape
		}
		nb := c08Block{id: nextID, span: c08Span{merged.MinTime, merged.MaxTime}, class: planned[0].class, merged: true}
		nb.ooo = merged.Compaction.FromOutOfOrder()
		var live uint64
		for _, b := range planned {
			nb.series += b.series
			if b.tombs < b.series {
				live += b.series - b.tombs
			}
		}
		nextID++
		blocks = rest
		if live > 0 { // a compaction that leaves no samples produces no block
			blocks = append(blocks, nb)
		}
	}
}

// ---------------------------------------------------------------------------------------------
// enumeration
// ---------------------------------------------------------------------------------------------

// per subset of spans: classes^n x (1 + 3n) extras x 3 ooo modes x 2 overlap settings
func c08CasesPerSubset(n, oooModes int) int64 {
	if n == 0 {
		return 2
	}
	c := int64(1)
	for i := 0; i < n; i++ {
		c *= 3
	}
	return c * int64(1+3*n) * int64(oooModes) * 2
}

// oooModes == 1: only the alternating pattern.
func c08CaseAt(spans []int, i int64, oooModes int) c08Case {
	n := len(spans)
	cs := c08Case{Spans: append([]int{}, spans...), Classes: make([]int, n), ExtraAt: -1}
	cs.Overlaps = i%2 == 0
	i /= 2
	if n == 0 {
		return cs
	}
	cs.OOOMode = 2
	if oooModes == 3 {
		cs.OOOMode = int(i % 3)
		i /= 3
	}
	e := int(i % int64(1+3*n))
	i /= int64(1 + 3*n)
	if e > 0 {
		cs.ExtraAt = (e - 1) / 3
		cs.Extra = 1 + (e-1)%3
	}
	for k := 0; k < n; k++ {
		cs.Classes[k] = int(i % 3)
		i /= 3
	}
	return cs
}

func c08NewCompactor(overlaps bool) *LeveledCompactor {
	c, err := NewLeveledCompactorWithOptions(context.Background(), nil, nil, c08Ranges, nil, LeveledCompactorOptions{EnableOverlappingCompaction: overlaps})
	if err != nil {
		panic(err)
	}
	return c
}

func c08HintSweep(r *vx.Run) int {
	// CompactBlockMetas on every tuple of 1..3 same-class inputs with every out-of-order pattern.
	n := 0
	for class := 0; class < 3; class++ {
		for k := 1; k <= 3; k++ {
			for mask := 0; mask < 1<<k; mask++ {
				var p []c08Block
				var metas []*BlockMeta
				for i := 0; i < k; i++ {
					b := c08Block{id: i, span: c08Spans[i], class: class, ooo: mask&(1<<i) != 0, series: 1}
					p = append(p, b)
					metas = append(metas, b.meta())
				}
				m := CompactBlockMetas(c08ULID(9), metas...)
				if sig, msg := c08CheckMerged(p, m); sig != "" {
					r.Violation(sig, msg+" [direct CompactBlockMetas sweep]", map[string]any{"kind": "hints", "class": class, "k": k, "mask": mask})
				}
				n++
			}
		}
	}
	return n
}

func TestVerifC08(t *testing.T) {
	r := vx.Start(t, "C08", "exploration")
	defer r.Finish()
	comp := [2]*LeveledCompactor{c08NewCompactor(false), c08NewCompactor(true)}
	pick := func(cs c08Case) *LeveledCompactor {
		if cs.Overlaps {
			return comp[1]
		}
		return comp[0]
	}
	if r.Replay != "" {
		var raw map[string]any
		r.LoadReplay(&raw)
		if raw["kind"] == "hints" {
			c08HintSweep(r)
			return
		}
		var cs c08Case
		r.LoadReplay(&cs)
		c08Run(r, pick(cs), cs)
		return
	}

	// self-test of the oracle
	{
		bl := c08Case{Spans: []int{0, 1, 2, 3}, Classes: []int{0, 1, 0, 0}, ExtraAt: -1}.blocks()
		if _, sig, _ := c08CheckPlan(true, bl, []string{"b0", "b1"}); sig != "plan-mixes-block-classes" {
			t.Fatalf("self-test: class mixing not detected (%q)", sig)
		}
		if _, sig, _ := c08CheckPlan(true, bl, []string{"b2", "b3"}); sig != "plan-includes-newest-block" {
			t.Fatalf("self-test: newest block not detected (%q)", sig)
		}
		if _, sig, _ := c08CheckPlan(true, bl, []string{"b0", "b2"}); sig != "" {
			t.Fatalf("self-test: a valid plan was rejected (%q)", sig)
		}
		if _, sig, _ := c08CheckPlan(true, bl, []string{"b0"}); sig != "plan-single-block-without-tombstone-reason" {
			t.Fatalf("self-test: unjustified single block not detected (%q)", sig)
		}
		neg := c08Case{Spans: []int{6, 0, 1, 3}, Classes: []int{0, 0, 0, 0}, ExtraAt: -1}.blocks() // [-10,0) [0,10) [10,20) [30,40)
		if _, sig, _ := c08CheckPlan(true, neg, []string{"b0", "b1"}); sig != "plan-spans-more-than-one-range" {
			t.Fatalf("self-test: plan across the zero boundary not detected (%q)", sig)
		}
	}

	r.Count("hint_sweep_cases", c08HintSweep(r))

	maxN := vx.Pick(r, 4, 5)
	var subsets [][]int
	vx.Subsets(len(c08Spans), maxN, func(idx []int) bool {
		subsets = append(subsets, append([]int{}, idx...))
		return true
	})
	// all three out-of-order patterns below the maximal size, the alternating one at the maximal size
	modes := func(n int) int {
		if n == maxN {
			return 1
		}
		return 3
	}
	// flat index space: prefix sums
	offs := make([]int64, len(subsets)+1)
	for i, s := range subsets {
		offs[i+1] = offs[i] + c08CasesPerSubset(len(s), modes(len(s)))
	}
	total := offs[len(subsets)]
	var n, steps atomic.Int64
	var shapes [4]atomic.Int64
	rule := fmt.Sprintf("every subset of <=%d of %d block time ranges x class per block (3^n) x at most one block failed / 6%% tombstones / fully deleted (1+3n) x out-of-order hint pattern (none/all/alternating; only alternating at the maximal size) x overlapping compaction on/off, ranges %v; each case is iterated plan -> CompactBlockMetas -> replace until the plan is empty, the oracle is applied to every plan and every merged meta on the way. distinct_nontrivial = distinct cases whose first plan is non-empty; distinct_outcomes = distinct trajectories of plan shapes.", maxN, len(c08Spans), c08Ranges)
	caseOf := func(i int64) c08Case {
		si := sort.Search(len(subsets), func(k int) bool { return offs[k+1] > i })
		return c08CaseAt(subsets[si], i-offs[si], modes(len(subsets[si])))
	}
	// Hang detector: plan() works on a handful of metas and returns within microseconds. A case
	// that has not returned after 60 s means plan() does not terminate (which no recover() can
	// catch): report it, write the evidence and leave the process.
	var running sync.Map // case index -> start time
	stop := make(chan struct{})
	defer close(stop)
	go func() {
		for {
			select {
			case <-stop:
				return
			case <-time.After(2 * time.Second):
			}
			running.Range(func(k, v any) bool {
				if time.Since(v.(time.Time)) < 60*time.Second {
					return true
				}
				cs := caseOf(k.(int64))
				r.Violation("plan-does-not-terminate", fmt.Sprintf("plan/compact iteration has not returned for 60 s  [initial blocks %v; overlapping compaction %v; ranges %v]", cs.blocks(), cs.Overlaps, c08Ranges), cs)
				r.NotExhaustive("aborted: plan() did not return")
				r.Count("evaluations", int(n.Load()))
				r.Set("rule", rule)
				r.Finish()
				os.Exit(0)
				return false
			})
		}
	}()
	r.ParallelN(total, func(i int64) {
		cs := caseOf(i)
		running.Store(i, time.Now())
		traj, first := c08Run(r, pick(cs), cs)
		running.Delete(i)
		k := n.Add(1)
		steps.Add(int64(strings.Count(traj, " ")))
		switch strings.TrimSuffix(first, "(overlapping)") {
		case "overlap":
			shapes[0].Add(1)
		case "range":
			shapes[1].Add(1)
		case "tombstones":
			shapes[2].Add(1)
		default:
			shapes[3].Add(1)
		}
		if first != "empty" && first != "" {
			r.Distinct("distinct_nontrivial", fmt.Sprintf("%d", i))
		}
		r.Distinct("distinct_outcomes", traj)
		r.SampleAt(k, func() any {
			return map[string]any{"blocks": fmt.Sprint(cs.blocks()), "overlapping_compaction": cs.Overlaps, "plan_shapes_until_empty": traj}
		})
	})
	r.Count("evaluations", int(n.Load()))
	r.Count("plan_calls", int(steps.Load()))
	r.Set("first_plan_shapes", map[string]int64{"overlap_group": shapes[0].Load(), "range_group": shapes[1].Load(), "tombstone_rewrite": shapes[2].Load(), "empty": shapes[3].Load()})
	r.Set("max_blocks", maxN)
	r.Set("time_ranges", len(c08Spans))
	r.Set("rule", rule)
	r.Assume("metadata-level compaction model: planned blocks are replaced by one block with CompactBlockMetas' time range and hints, no tombstones; a compaction of only fully deleted blocks yields no block")
	r.Assume("'newest block' is read per class (the planner treats each class as its own sequence); 'mutually overlapping' is read as one overlap group (every block starts before the end of an earlier one)")
	for i, name := range []string{"overlap", "range", "tombstones", "empty"} {
		if shapes[i].Load() == 0 && r.Violations() == 0 {
			t.Fatalf("vacuous: no case whose first plan has shape %q", name)
		}
	}
}
