package tsdb

// C53: a read-only open returns what a read-write open would, and changes nothing — explicit
// state BFS over dbx histories; in EVERY reached state the live data directory is copied twice
// (= the directory an admin tool would find, incl. unclean-shutdown states); copy A is opened with
// OpenDBReadOnly (sandbox inside and outside the directory), copy B with Open; their query results
// must be equal, FlushWAL's block plus the existing blocks must hold exactly the same data, and
// the read-only copy's file tree must be byte-identical before opening and after closing.

import (
	"fmt"
	"math"
	"os"
	"path/filepath"
	"sort"
	"strings"
	"testing"

	"github.com/prometheus/prometheus/internal/verif/vx"
	"github.com/prometheus/prometheus/storage"
	"github.com/prometheus/prometheus/tsdb/wlog"
)

func c53Tree(dir string) map[string]string {
	out := map[string]string{}
	filepath.Walk(dir, func(p string, info os.FileInfo, err error) error {
		if err != nil {
			return nil
		}
		rel, _ := filepath.Rel(dir, p)
		if info.IsDir() {
			out[rel+"/"] = "dir"
			return nil
		}
		b, _ := os.ReadFile(p)
		out[rel] = fmt.Sprintf("%d:%x", len(b), vxHash(b))
		return nil
	})
	return out
}

func vxHash(b []byte) uint64 {
	var h uint64 = 14695981039346656037
	for _, c := range b {
		h ^= uint64(c)
		h *= 1099511628211
	}
	return h
}

func c53Render(m map[string][]qSample) string {
	var ks []string
	for k, v := range m {
		if len(v) > 0 {
			ks = append(ks, k)
		}
	}
	sort.Strings(ks)
	var sb strings.Builder
	for _, k := range ks {
		fmt.Fprintf(&sb, "%s[", k)
		for _, s := range m[k] {
			fmt.Fprintf(&sb, "%d=%s ", s.t, s.val)
		}
		sb.WriteString("] ")
	}
	return sb.String()
}

func c53Times(s string) string { // compact rendering for messages
	return s
}

type c53Queryable struct {
	q func(mint, maxt int64) (storage.Querier, error)
	c func(mint, maxt int64) (storage.ChunkQuerier, error)
}

func (c c53Queryable) Querier(mint, maxt int64) (storage.Querier, error) { return c.q(mint, maxt) }
func (c c53Queryable) ChunkQuerier(mint, maxt int64) (storage.ChunkQuerier, error) {
	return c.c(mint, maxt)
}

func c53Check(x *dbx) *vx.Fail {
	if f := c53CheckDir(x, nil, ""); f != nil {
		return f
	}
	// variants: the newest k WAL segments never reached the disk, or were cut off by a WAL repair at
	// an earlier start (lost WAL tail), while the head-chunk files are there: data that exists only
	// in chunks_head must be served by both kinds of open
	first, last, err := wlog.Segments(filepath.Join(x.dir, "wal"))
	if err == nil {
		for k := 1; k <= last-first && k <= 3; k++ {
			k := k
			f := c53CheckDir(x, func(dir string) {
				for i := last; i > last-k; i-- {
					os.Remove(wlog.SegmentName(filepath.Join(dir, "wal"), i))
				}
			}, fmt.Sprintf("lost-wal-tail-%d/", k))
			if f != nil {
				return f
			}
		}
	}
	return nil
}

func c53CheckDir(x *dbx, mutate func(dir string), variant string) *vx.Fail {
	op := variant + strings.SplitN(x.lastOp, "/", 2)[0]
	a, _ := os.MkdirTemp("", "c53ro")
	b, _ := os.MkdirTemp("", "c53rw")
	out, _ := os.MkdirTemp("", "c53sandbox")
	defer os.RemoveAll(a)
	defer os.RemoveAll(b)
	defer os.RemoveAll(out)
	if err := dbxCopyDir(x.dir, a); err != nil {
		panic(err)
	}
	if err := dbxCopyDir(x.dir, b); err != nil {
		panic(err)
	}
	if mutate != nil {
		mutate(a)
		mutate(b)
	}
	// read-write reference
	rw, err := Open(b, nil, nil, x.cfg.options(), nil)
	if err != nil {
		return vx.Failf("rw-open-failed/"+op, "read-write open of the copy failed: %v", err)
	}
	rw.DisableCompactions()
	ranges := [][2]int64{{math.MinInt64, math.MaxInt64}}
	bnd := x.queryBounds()
	ranges = append(ranges, [2]int64{bnd[len(bnd)/2], math.MaxInt64})
	// a range ENDING exactly on the newest in-order block's MaxTime: the read-only open decides from the
	// end of the range whether the WAL is replayed at all, and that timestamp belongs to the head
	if mb, ok := rw.inOrderBlocksMaxTime(); ok {
		ranges = append(ranges, [2]int64{math.MinInt64, mb})
		// ... and a range ending BELOW it: out-of-order samples held in the WBL can be older than
		// the newest block, so the head is needed even though the blocks cover the range
		ranges = append(ranges, [2]int64{math.MinInt64, mb - 1})
	}
	want := map[string]string{}
	for _, rg := range ranges {
		for _, chunked := range []bool{false, true} {
			got, err := x.queryRange(rw, rw, rg[0], rg[1], chunked)
			if err != nil {
				rw.Close()
				return vx.Failf("rw-query-error/"+op, "%v", err)
			}
			if chunked {
				// chunk queriers may return whole chunks: restrict to the range for comparison
				for k, v := range got {
					var w []qSample
					for _, s := range v {
						if s.t >= rg[0] && s.t <= rg[1] {
							w = append(w, s)
						}
					}
					got[k] = w
				}
			}
			want[fmt.Sprintf("%d/%d/%v", rg[0], rg[1], chunked)] = c53Render(got)
		}
	}
	rw.Close()
	sandboxes := []string{"", out}
	if x.step%2 == 0 {
		sandboxes = []string{out, ""} // alternate which placement is exercised first; both always run
	}
	for _, sandbox := range sandboxes {
		before := c53Tree(a)
		// DBReadOnly documents that it supports a single querier per open: one open per query.
		for _, rg := range ranges {
			for _, chunked := range []bool{false, true} {
				ro, err := OpenDBReadOnly(a, sandbox, nil)
				if err != nil {
					return vx.Failf("ro-open-failed/"+op, "OpenDBReadOnly: %v", err)
				}
				q := c53Queryable{q: ro.Querier, c: ro.ChunkQuerier}
				got, err := x.queryRange(q, q, rg[0], rg[1], chunked)
				if err != nil {
					ro.Close()
					return vx.Failf("ro-query-error/"+op, "read-only querier [%d,%d]: %v", rg[0], rg[1], err)
				}
				if chunked {
					for k, v := range got {
						var w []qSample
						for _, s := range v {
							if s.t >= rg[0] && s.t <= rg[1] {
								w = append(w, s)
							}
						}
						got[k] = w
					}
				}
				if err := ro.Close(); err != nil {
					return vx.Failf("ro-close-error/"+op, "%v", err)
				}
				if g, w := c53Render(got), want[fmt.Sprintf("%d/%d/%v", rg[0], rg[1], chunked)]; g != w {
					kind := "ro-differs-from-rw"
					if len(g) < len(w) {
						kind = "ro-lacks-data-rw-has"
					}
					return vx.Failf(kind+"/"+op, "range [%d,%d] chunked=%v sandbox=%q after %v:\n read-only : %s\n read-write: %s", rg[0], rg[1], chunked, sandbox, x.hist, g, w)
				}
			}
		}
		after := c53Tree(a)
		for f, h := range before {
			if after[f] != h {
				return vx.Failf("ro-changed-existing-file/"+op, "querying through a read-only open (sandbox %q) changed %s", sandbox, f)
			}
		}
		for f := range after {
			if _, ok := before[f]; !ok {
				return vx.Failf("ro-left-new-file/"+op, "after closing the read-only open (sandbox %q) a new file remains: %s", sandbox, f)
			}
		}
		if sandbox != "" {
			if ents, _ := os.ReadDir(sandbox); len(ents) != 0 {
				return vx.Failf("ro-left-new-file/"+op, "after closing the read-only open its sandbox dir still holds %d entries", len(ents))
			}
		}
	}
	return nil
}

func c53New(r *vx.Run, c dbxCfg, name string) *dbx {
	x := dbxWithSoft(r, c, name)
	x.noQueryChk = true
	x.extraOps = func(x *dbx) []string { return []string{"rotate", "mmap"} }
	x.extraCheck = c53Check
	return x
}

func TestVerifC53(t *testing.T) {
	r := vx.Start(t, "C53", "model_checking")
	defer r.Finish()
	cfgs := dbxConfigs()
	if r.Replay != "" {
		var rp struct {
			Config string   `json:"config"`
			Ops    []string `json:"ops"`
		}
		r.LoadReplay(&rp)
		cfg, alpha, _ := strings.Cut(rp.Config, "@")
		c := cfgs[cfg]
		c.Alphabet = alpha
		if f := r.ReplayOps(func() vx.Sys { return c53New(r, c, rp.Config) }, rp.Ops); f != nil {
			r.Violation(f.Signature, f.Message, rp)
		}
		return
	}
	type plan struct {
		cfg, alpha string
		depth      int
	}
	plans := vx.Pick(r,
		[]plan{{"ooo", "small", 2}, {"ooo+overlap", "small", 2}},
		[]plan{{"ooo", "small", 4}, {"base", "small", 4}, {"ooo+overlap", "small", 4}, {"ooo", "medium", 3}, {"oooneg", "small", 4}})
	// FIRST (targeted, must not be cut off by the deadline): search from non-initial states
	for _, cn := range vx.Pick(r, []string{"ooo"}, []string{"ooo", "base", "ooo+overlap"}) {
		if r.Expired() {
			r.NotExhaustive("deadline before the non-initial-state search of " + cn)
			break
		}
		c := cfgs[cn]
		c.Alphabet = "small"
		name := cn + "@small+starts"
		res := r.BFSFrom(name, func() vx.Sys { return c53New(r, c, name) }, dbxStarts(c.W), vx.Pick(r, 0, 1))
		t.Logf("C53 %s: states=%d transitions=%d", name, res.States, res.Transitions)
	}
	for _, p := range plans {
		if r.Expired() {
			r.NotExhaustive("deadline before plan " + p.cfg)
			break
		}
		c := cfgs[p.cfg]
		c.Alphabet = p.alpha
		name := p.cfg + "@" + p.alpha
		res := r.BFS(name, func() vx.Sys { return c53New(r, c, name) }, p.depth)
		t.Logf("C53 %s depth %d: states=%d transitions=%d", name, p.depth, res.States, res.Transitions)
	}
}
