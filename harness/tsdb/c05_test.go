package tsdb

// C05: readers see whole transactions only — engine E2 (controlled scheduler, preemption-bounded
// DFS over all interleavings) on a real Head with isolation enabled.
//
// Scenario threads (all controlled; every lock / atomic operation inside Append, Commit, Rollback,
// Querier creation, series iteration and chunk m-mapping is a scheduling point):
//   A, B  appenders writing multi-series transactions (commit or rollback)
//   M     mmapHeadChunks
//   Q...  queriers: create, drain both series, close
// Oracle, per querier and per transaction: all-or-nothing visibility of the samples of the
// transaction that end up stored; a transaction whose Commit returned before the querier's
// creation started is fully visible; a transaction whose Commit had not returned when the
// querier's creation finished... may be either but never partial; a transaction whose Commit
// had not even been called when querier creation finished is invisible; rolled-back never visible.

import (
	"context"
	"encoding/json"
	"fmt"
	"math"
	"os"
	"sort"
	"strings"
	"sync"
	"testing"
	"time"

	"github.com/prometheus/prometheus/internal/verif/vsched"
	"github.com/prometheus/prometheus/internal/verif/vx"
	"github.com/prometheus/prometheus/model/histogram"
	"github.com/prometheus/prometheus/model/labels"
	"github.com/prometheus/prometheus/storage"
	"github.com/prometheus/prometheus/tsdb/chunkenc"
)

type c05Txn struct {
	Name     string
	Series   []string // series keys
	T        int64
	V        float64
	Rollback bool
}

// hist: transactions whose name starts with "h" append native histograms (Sum = V) instead of
// floats, so that the histogram append/commit path of the isolation bookkeeping is explored too.
func (tx c05Txn) hist() bool { return strings.HasPrefix(tx.Name, "h") }

func c05Hist(v float64) *histogram.Histogram {
	return &histogram.Histogram{Schema: 0, Count: 1, Sum: v, PositiveSpans: []histogram.Span{{Offset: 0, Length: 1}}, PositiveBuckets: []int64{1}}
}

type c05Scenario struct {
	Name     string
	Pre      []c05Txn // committed sequentially before the concurrent phase
	Txns     []c05Txn // one thread each
	Queriers int
	Mmap     bool
	// Staggered: spawn order txn0, q0, txn1, q1, txn2, ... instead of all transactions first
	Staggered    bool
	ThoroughOnly bool
	QuickBound   int // with ThoroughOnly: preemption bound used in the quick tier (0 = scenario skipped in quick)
}

var c05Series = map[string]labels.Labels{
	"s1": labels.FromStrings("__name__", "m", "a", "1"),
	"s2": labels.FromStrings("__name__", "m", "a", "2"),
	"s3": labels.FromStrings("__name__", "m", "a", "3"),
}

func c05Scenarios() []c05Scenario {
	pre3 := []c05Txn{{"p1", []string{"s1", "s2"}, 10, 1, false}, {"p2", []string{"s1", "s2"}, 11, 2, false}, {"p3", []string{"s1", "s2"}, 12, 3, false}}
	return []c05Scenario{
		{Name: "1txn-1q", Pre: pre3[:1], Txns: []c05Txn{{"A", []string{"s1", "s2"}, 20, 100, false}}, Queriers: 1},
		{Name: "2txn-disjoint-1q", Pre: pre3[:1], Txns: []c05Txn{{"A", []string{"s1", "s2"}, 20, 100, false}, {"B", []string{"s3"}, 20, 200, false}}, Queriers: 1},
		{Name: "2txn-shared-1q", Pre: pre3[:1], Txns: []c05Txn{{"A", []string{"s1", "s2"}, 20, 100, false}, {"B", []string{"s2", "s3"}, 21, 200, false}}, Queriers: 1},
		{Name: "rollback-1q", Pre: pre3[:1], Txns: []c05Txn{{"A", []string{"s1", "s2"}, 20, 100, false}, {"B", []string{"s1", "s2"}, 21, 200, true}}, Queriers: 1},
		{Name: "chunkcut-mmap-1q", Pre: pre3, Txns: []c05Txn{{"A", []string{"s1", "s2"}, 20, 100, false}}, Queriers: 1, Mmap: true},
		{Name: "1txn-2q", Pre: pre3[:1], Txns: []c05Txn{{"A", []string{"s1", "s2"}, 20, 100, false}}, Queriers: 2},
		{Name: "2txn-shared-mmap-1q", Pre: pre3, Txns: []c05Txn{{"A", []string{"s1", "s2"}, 20, 100, false}, {"B", []string{"s2", "s3"}, 21, 200, false}}, Queriers: 1, Mmap: true},
		// three appenders and two queriers, spawned in the order L, q0, A2, q1, X: with 2 preemptions an
		// OLD reader (created while L is still open) is still reading after a NEWER reader was opened
		// and a later appender X committed to a subset of L's series (exercises the isolation low
		// watermark with more than one open reader). Large space: preemption bound 1 in the quick tier.
		{Name: "3txn-2q-staggered", Pre: pre3[:1], Txns: []c05Txn{{"L", []string{"s1", "s2"}, 20, 100, false}, {"A2", []string{"s3"}, 21, 200, false}, {"X", []string{"s1"}, 22, 300, false}}, Queriers: 2, Staggered: true, ThoroughOnly: true, QuickBound: 1},
		// one native-histogram transaction over two float series (type change => new chunk per series)
		{Name: "1txn-hist-1q", Pre: pre3[:1], Txns: []c05Txn{{"hA", []string{"s1", "s2"}, 20, 100, false}}, Queriers: 1},
	}
}

type c05QObs struct {
	createStart, createEnd int
	seen                   map[string]map[int64]float64 // series -> t -> v
	err                    string
}

type c05Obs struct {
	commitCall, commitRet map[string]int // logical clock at Commit/Rollback call and return
	appendErr             map[string]string
	q                     []*c05QObs
	final                 map[string]map[int64]float64
	finalErr              string
	dir                   string
}

// c05Body builds the body of one execution; obs is filled in while it runs.
func c05Body(sc c05Scenario, obs *c05Obs) func() {
	// Set-up runs OUTSIDE the controlled execution (plain primitives): NewHead/Init start helper
	// goroutines that talk over real channels (MemPostings.EnsureOrder), which the scheduler does
	// not control. Nothing of the set-up is still running when the controlled part starts.
	var h *Head
	var runTxn func(tx c05Txn)
	// obsMu protects the harness' own observation state (needed only in the free-running race
	// pass; under the controlled scheduler it is never contended and never held at a scheduling point)
	var obsMu sync.Mutex
	clock := 0
	tick := func() int { obsMu.Lock(); defer obsMu.Unlock(); clock++; return clock }
	ctx := context.Background()
	{
		dir, err := os.MkdirTemp("", "c05")
		if err != nil {
			panic(err)
		}
		obs.dir = dir
		o := DefaultHeadOptions()
		o.ChunkRange = 1000
		o.ChunkDirRoot = dir
		o.StripeSize = 2
		o.SamplesPerChunk = 2 // tiny chunks: commits cut chunks, so there is something to m-map
		o.ChunkWriteQueueSize = 0
		o.ChunkWriteBufferSize = 64 * 1024
		o.IsolationDisabled = false
		h, err = NewHead(nil, nil, nil, nil, o, nil)
		if err != nil {
			panic(err)
		}
		if err := h.Init(math.MinInt64); err != nil {
			panic(err)
		}
		runTxn = func(tx c05Txn) {
			var err error
			app := h.Appender(ctx)
			for _, sk := range tx.Series {
				var err error
				if tx.hist() {
					_, err = app.AppendHistogram(0, c05Series[sk], tx.T, c05Hist(tx.V), nil)
				} else {
					_, err = app.Append(0, c05Series[sk], tx.T, tx.V)
				}
				if err != nil {
					obsMu.Lock()
					obs.appendErr[tx.Name+"/"+sk] = err.Error()
					obsMu.Unlock()
				}
			}
			tc := tick()
			obsMu.Lock()
			obs.commitCall[tx.Name] = tc
			obsMu.Unlock()
			if tx.Rollback {
				err = app.Rollback()
			} else {
				err = app.Commit()
			}
			tr := tick()
			obsMu.Lock()
			if err != nil {
				obs.appendErr[tx.Name+"/commit"] = err.Error()
			}
			obs.commitRet[tx.Name] = tr
			obsMu.Unlock()
		}
		for _, tx := range sc.Pre {
			runTxn(tx)
		}
	}
	return func() {
		query := func(qo *c05QObs) {
			qo.createStart = tick()
			q, err := NewBlockQuerier(NewRangeHead(h, math.MinInt64, math.MaxInt64), math.MinInt64, math.MaxInt64)
			qo.createEnd = tick()
			if err != nil {
				qo.err = err.Error()
				return
			}
			qo.seen = c05Drain(q, &qo.err)
			q.Close()
		}
		nq := 0
		spawnQ := func() {
			qo := &c05QObs{}
			obs.q = append(obs.q, qo)
			vsched.GoNamed(fmt.Sprintf("q%d", nq), func() { query(qo) })
			nq++
		}
		for _, tx := range sc.Txns {
			tx := tx
			vsched.GoNamed("txn-"+tx.Name, func() { runTxn(tx) })
			if sc.Staggered && nq < sc.Queriers {
				spawnQ()
			}
		}
		if sc.Mmap {
			vsched.GoNamed("mmap", func() { h.mmapHeadChunks() })
		}
		for nq < sc.Queriers {
			spawnQ()
		}
		vsched.Join()
		// final contents (everything finished)
		fq, err := NewBlockQuerier(NewRangeHead(h, math.MinInt64, math.MaxInt64), math.MinInt64, math.MaxInt64)
		if err != nil {
			obs.finalErr = err.Error()
		} else {
			obs.final = c05Drain(fq, &obs.finalErr)
			fq.Close()
		}
		_ = h.Close()
	}
}

func c05Drain(q storage.Querier, errOut *string) map[string]map[int64]float64 {
	out := map[string]map[int64]float64{}
	ss := q.Select(context.Background(), true, nil, labels.MustNewMatcher(labels.MatchEqual, "__name__", "m"))
	for ss.Next() {
		s := ss.At()
		k := "a" + s.Labels().Get("a")
		m := map[int64]float64{}
		it := s.Iterator(nil)
		last := int64(math.MinInt64)
		for vt := it.Next(); vt != chunkenc.ValNone; vt = it.Next() {
			var t int64
			var v float64
			switch vt {
			case chunkenc.ValFloat:
				t, v = it.At()
			case chunkenc.ValHistogram:
				var h *histogram.Histogram
				t, h = it.AtHistogram(nil)
				v = h.Sum
			default:
				*errOut = fmt.Sprintf("series %s: unexpected sample type %v", k, vt)
				continue
			}
			if t <= last {
				*errOut = fmt.Sprintf("series %s: timestamps not increasing (%d after %d)", k, t, last)
			}
			last = t
			m[t] = v
		}
		if it.Err() != nil {
			*errOut = it.Err().Error()
		}
		out["s"+s.Labels().Get("a")] = m
	}
	if ss.Err() != nil {
		*errOut = ss.Err().Error()
	}
	return out
}

// c05Check evaluates the oracle on one finished execution.
func c05Check(sc c05Scenario, obs *c05Obs) (sig, msg string) {
	if obs.finalErr != "" {
		return "final-query-error", obs.finalErr
	}
	all := append(append([]c05Txn{}, sc.Pre...), sc.Txns...)
	// which samples of each transaction are finally stored (with the transaction's value)
	stored := map[string][]string{}
	for _, tx := range all {
		for _, sk := range tx.Series {
			if v, ok := obs.final[sk][tx.T]; ok && v == tx.V {
				stored[tx.Name] = append(stored[tx.Name], sk)
			}
		}
		if tx.Rollback && len(stored[tx.Name]) > 0 {
			return "rolled-back-sample-stored", fmt.Sprintf("transaction %s was rolled back but %v@%d is stored", tx.Name, stored[tx.Name], tx.T)
		}
		overlaps := false
		for _, o := range all {
			if o.Name == tx.Name {
				continue
			}
			for _, a := range o.Series {
				for _, b := range tx.Series {
					if a == b && o.T >= tx.T {
						overlaps = true // a concurrent newer sample may legitimately make ours out-of-order at commit
					}
				}
			}
		}
		if !tx.Rollback && !overlaps && len(obs.appendErr) == 0 && len(stored[tx.Name]) != len(tx.Series) {
			// all appends were accepted and committed: in these scenarios timestamps never collide,
			// so every sample must be stored
			return "committed-sample-not-stored", fmt.Sprintf("transaction %s committed %v@%d but only %v stored", tx.Name, tx.Series, tx.T, stored[tx.Name])
		}
	}
	for qi, q := range obs.q {
		if q.err != "" {
			return "querier-error", q.err
		}
		for _, tx := range all {
			st := stored[tx.Name]
			if len(st) == 0 {
				// nothing of it stored: nothing may be visible
				for _, sk := range tx.Series {
					if v, ok := q.seen[sk][tx.T]; ok && v == tx.V {
						return "unstored-sample-visible", fmt.Sprintf("querier %d sees %s@%d of transaction %s which is not stored", qi, sk, tx.T, tx.Name)
					}
				}
				continue
			}
			vis := 0
			for _, sk := range st {
				if v, ok := q.seen[sk][tx.T]; ok && v == tx.V {
					vis++
				}
			}
			if vis != 0 && vis != len(st) {
				// Known-finding class: the hidden sample sits BEHIND a sample of another transaction in the
				// same series whose commit had not finished when the querier was created (isolation cuts a
				// series at the first invisible sample, so later, committed samples are hidden too).
				for _, sk := range st {
					if v, ok := q.seen[sk][tx.T]; ok && v == tx.V {
						continue
					}
					for _, o := range all {
						if o.Name == tx.Name || o.T >= tx.T || !(obs.commitRet[o.Name] > q.createStart) {
							continue
						}
						for _, osk := range o.Series {
							if osk == sk {
								if v, ok := obs.final[sk][o.T]; ok && v == o.V {
									if _, seen := q.seen[sk][o.T]; !seen {
										return "partial-visible-behind-uncommitted-sample-in-same-series", fmt.Sprintf("querier %d sees %d of the %d stored samples of committed transaction %s (t=%d): %s@%d is hidden because the series is cut at the earlier sample %s@%d of transaction %s, whose commit had not finished when the querier was created. seen=%v", qi, vis, len(st), tx.Name, tx.T, sk, tx.T, sk, o.T, o.Name, q.seen)
									}
								}
							}
						}
					}
				}
				return "partial-transaction-visible", fmt.Sprintf("querier %d sees %d of the %d stored samples of transaction %s (t=%d): seen=%v", qi, vis, len(st), tx.Name, tx.T, q.seen)
			}
			if obs.commitRet[tx.Name] != 0 && obs.commitRet[tx.Name] < q.createStart && vis == 0 {
				// Same known-finding class as above, seen from the other side: EVERY stored sample of the
				// committed transaction sits behind an earlier sample of the same series that belongs to a
				// transaction whose commit had not finished when the querier was created.
				behind := 0
				var blocker string
				for _, sk := range st {
				scan:
					for _, o := range all {
						if o.Name == tx.Name || o.T >= tx.T || (obs.commitRet[o.Name] != 0 && obs.commitRet[o.Name] <= q.createStart) {
							continue
						}
						for _, osk := range o.Series {
							if osk != sk {
								continue
							}
							if v, ok := obs.final[sk][o.T]; ok && v == o.V {
								if _, seen := q.seen[sk][o.T]; !seen {
									behind++
									blocker = fmt.Sprintf("%s@%d of transaction %s", sk, o.T, o.Name)
									break scan
								}
							}
						}
					}
				}
				if behind == len(st) {
					return "committed-hidden-behind-uncommitted-sample-in-same-series", fmt.Sprintf("transaction %s: Commit returned (clock %d) before querier %d was created (clock %d) but its samples are invisible: each sits behind an earlier sample of the same series (%s) whose commit had not finished when the querier was created, and the series is cut at the first invisible sample. seen=%v", tx.Name, obs.commitRet[tx.Name], qi, q.createStart, blocker, q.seen)
				}
				return "committed-before-querier-invisible", fmt.Sprintf("transaction %s: Commit returned (clock %d) before querier %d was created (clock %d) but its samples are invisible: seen=%v", tx.Name, obs.commitRet[tx.Name], qi, q.createStart, q.seen)
			}
			if obs.commitCall[tx.Name] > q.createEnd && vis != 0 {
				return "uncommitted-visible", fmt.Sprintf("transaction %s: Commit was called (clock %d) after querier %d had been created (clock %d) but its samples are visible", tx.Name, obs.commitCall[tx.Name], qi, q.createEnd)
			}
		}
	}
	return "", ""
}

type c05Replay struct {
	Scenario string `json:"scenario"`
	Choices  []int  `json:"choices"`
	Bound    int    `json:"bound"`
}

func TestVerifC05(t *testing.T) {
	r := vx.Start(t, "C05", "model_checking")
	defer r.Finish()
	scs := c05Scenarios()
	byName := map[string]c05Scenario{}
	for _, s := range scs {
		byName[s.Name] = s
	}
	runOne := func(sc c05Scenario, prefix []int) (vsched.Trace, *c05Obs) {
		obs := &c05Obs{commitCall: map[string]int{}, commitRet: map[string]int{}, appendErr: map[string]string{}}
		tr := vsched.Run(c05Body(sc, obs), prefix, nil, 50000)
		os.RemoveAll(obs.dir)
		return tr, obs
	}
	if r.Replay != "" {
		var rp c05Replay
		r.LoadReplay(&rp)
		sc := byName[rp.Scenario]
		var sigs []string
		for i := 0; i < 2; i++ {
			tr, obs := runOne(sc, rp.Choices)
			if i == 0 {
				// compressed schedule: runs of points per thread
				var sb strings.Builder
				lastT, n := -1, 0
				for _, p := range tr.Points {
					if p.Thread != lastT {
						if lastT >= 0 {
							fmt.Fprintf(&sb, "T%d x%d; ", lastT, n)
						}
						lastT, n = p.Thread, 0
					}
					n++
				}
				fmt.Fprintf(&sb, "T%d x%d", lastT, n)
				t.Logf("schedule: %s", sb.String())
				t.Logf("obs: commitCall=%v commitRet=%v appendErr=%v final=%v", obs.commitCall, obs.commitRet, obs.appendErr, obs.final)
				for qi, q := range obs.q {
					t.Logf("querier %d: create [%d,%d] seen=%v", qi, q.createStart, q.createEnd, q.seen)
				}
			}
			sig, msg := "", ""
			if tr.Fail != "" {
				sig, msg = "execution-failed", tr.Fail
			} else {
				sig, msg = c05Check(sc, obs)
			}
			sigs = append(sigs, sig)
			if i == 1 && sig != "" {
				r.Violation(sig, msg, rp)
			}
		}
		if sigs[0] != sigs[1] {
			t.Fatalf("nondeterministic replay: %v", sigs)
		}
		return
	}
	// self-test of the oracle: a fabricated partial view must be rejected
	{
		sc := scs[0]
		obs := &c05Obs{commitCall: map[string]int{"p1": 1, "A": 5}, commitRet: map[string]int{"p1": 2, "A": 9}, appendErr: map[string]string{},
			final: map[string]map[int64]float64{"s1": {10: 1, 20: 100}, "s2": {10: 1, 20: 100}},
			q:     []*c05QObs{{createStart: 6, createEnd: 7, seen: map[string]map[int64]float64{"s1": {10: 1, 20: 100}, "s2": {10: 1}}}}}
		if sig, _ := c05Check(sc, obs); sig != "partial-transaction-visible" {
			t.Fatalf("self-test: oracle did not flag a partial transaction (got %q)", sig)
		}
	}
	if os.Getenv("VERIF_RACE") == "1" {
		// Free-running pass under the race detector: the same bodies, real goroutines, plain
		// primitives (the cooperative scheduler's hand-offs would hide unsynchronised accesses).
		// This is SAMPLING of schedules, not model checking: it only contributes the absence of
		// reported data races (the runner turns a race report into a violation).
		iters := vx.Pick(r, 60, 400)
		n := 0
		for _, sc := range scs {
			for i := 0; i < iters && !r.Expired(); i++ {
				obs := &c05Obs{commitCall: map[string]int{}, commitRet: map[string]int{}, appendErr: map[string]string{}}
				c05Body(sc, obs)()
				os.RemoveAll(obs.dir)
				n++
				if sig, msg := c05Check(sc, obs); sig != "" && sig != "partial-visible-behind-uncommitted-sample-in-same-series" {
					r.Violation("free-running/"+sig, fmt.Sprintf("scenario %s (free-running): %s", sc.Name, msg), map[string]any{"scenario": sc.Name, "free_running": true})
				}
			}
		}
		r.Count("race_pass_iterations", n)
		r.Count("states", 1)
		r.Count("transitions", 1)
		r.Count("traces_validated_against_impl", 0)
		r.Sample(map[string]any{"race_pass": "free-running iterations of every scenario under -race", "iterations": n})
		return
	}
	bound := vx.Pick(r, 2, 3)
	type agg struct{ execs, points int64 }
	total := agg{}
	allComplete := true
	perScenario := map[string]any{}
	deadline := time.Now().Add(time.Duration(vx.Pick(r, 80, 1300)) * time.Second)
	for si, sc := range scs {
		if r.NShards > 1 && si%r.NShards != r.Shard {
			continue
		}
		if sc.ThoroughOnly && r.Quick() && sc.QuickBound == 0 {
			continue
		}
		scBound := bound
		if sc.ThoroughOnly && r.Quick() {
			scBound = sc.QuickBound
		}
		outcomes := map[string]int{}
		var last vsched.Result
		for b := 0; b <= scBound; b++ { // iterate the bound: 0, 1, 2, ...
			var cur *c05Obs
			body := func() func() {
				cur = &c05Obs{commitCall: map[string]int{}, commitRet: map[string]int{}, appendErr: map[string]string{}}
				return c05Body(sc, cur)
			}
			last = vsched.Explore(body, vsched.Opts{MaxPreemptions: b, Horizon: 50000, OnlyShared: true, Deadline: deadline}, func(tr vsched.Trace, choices []int) bool {
				obs := cur
				if obs != nil && obs.dir != "" {
					os.RemoveAll(obs.dir)
				}
				sig, msg := "", ""
				if tr.Fail != "" {
					sig, msg = "execution-failed", tr.Fail
					if tr.Deadlock {
						sig = "deadlock"
					} else if tr.Livelock {
						sig = "livelock"
					}
				} else {
					sig, msg = c05Check(sc, obs)
				}
				if sig != "" {
					// confirm by replaying the schedule 5 times
					same := 0
					for k := 0; k < 5; k++ {
						tr2, obs2 := runOne(sc, choices)
						s2 := ""
						if tr2.Fail != "" {
							s2 = "execution-failed"
							if tr2.Deadlock {
								s2 = "deadlock"
							} else if tr2.Livelock {
								s2 = "livelock"
							}
						} else {
							s2, _ = c05Check(sc, obs2)
						}
						if s2 == sig {
							same++
						}
					}
					if same != 5 {
						t.Fatalf("violation %q of scenario %s does not replay deterministically (%d/5)", sig, sc.Name, same)
					}
					r.Violation(sig, fmt.Sprintf("scenario %s, preemption bound %d: %s", sc.Name, b, msg), c05Replay{sc.Name, choices, b})
					outcomes["VIOLATION:"+sig]++
					return r.Violations() < 8
				}
				// outcome = what each querier saw
				var parts []string
				for _, q := range obs.q {
					var ks []string
					for sk, m := range q.seen {
						ts := make([]int64, 0)
						for tt := range m {
							ts = append(ts, tt)
						}
						sort.Slice(ts, func(i, j int) bool { return ts[i] < ts[j] })
						ks = append(ks, fmt.Sprintf("%s%v", sk, ts))
					}
					sort.Strings(ks)
					parts = append(parts, strings.Join(ks, ","))
				}
				outcomes[strings.Join(parts, " | ")]++
				return true
			})
			if len(last.ToolFailures) > 0 {
				t.Fatalf("scheduler tool failure in scenario %s: %v", sc.Name, last.ToolFailures)
			}
			total.execs += last.Executions
			total.points += last.Points
			if !last.Complete {
				allComplete = false
				break
			}
		}
		if len(outcomes) < 2 {
			t.Fatalf("scenario %s is vacuous: a single observed outcome %v", sc.Name, outcomes)
		}
		perScenario[sc.Name] = map[string]any{"preemption_bound": scBound, "bound_completed": last.Complete, "max_points": last.MaxPoints, "distinct_outcomes": len(outcomes)}
		for o := range outcomes {
			r.Distinct("distinct_outcomes", sc.Name+":"+o)
		}
		b, _ := json.Marshal(outcomes)
		r.Sample(map[string]any{"scenario": sc.Name, "outcomes(querier views -> #schedules)": string(b)})
	}
	if !allComplete {
		r.NotExhaustive("deadline reached before the preemption bound was completed for every scenario")
	}
	r.Count("schedules", int(total.execs))
	r.Count("states", int(total.points)) // every scheduling point is a visited state of the schedule tree
	r.Count("transitions", int(total.points))
	r.Count("traces_validated_against_impl", int(total.execs))
	r.Set("preemption_bound", bound)
	r.Set("scenarios", perScenario)
	r.Assume("sequential consistency at scheduling points (every lock, atomic, cond, waitgroup, once operation of tsdb, tsdb/chunks, tsdb/index, tsdb/tombstones); unsynchronised accesses are covered by the separate free-running -race pass")
	r.Assume("branching only at objects touched by >= 2 threads in the same execution")
}
