package tsdb

// C07: compaction preserves the de-duplicated union of its inputs within the output range minus
// tombstones; output chunks ordered and non-overlapping; BlockMeta.Stats match a recount.
// Engine E1 (bounded-exhaustive inputs).
//
//   part A  every multiset of 1..k input blocks (real on-disk blocks written by a harness-local
//           writer with explicit chunk lists, opened with OpenBlock) through
//           DefaultBlockPopulator.PopulateBlock into harness-local index/chunk writers, with the
//           compacting (vertical) merger and, when the inputs are time-disjoint, the concatenating one
//   part B  LeveledCompactor.Compact over copies of the block directories; the output block is
//           opened and queried (block querier + chunk querier), meta.json Stats recounted
//   part C  LeveledCompactor.Write of head ranges (plain Head, RangeHead, out-of-order compaction head)

import (
	"context"
	"fmt"
	"math"
	"os"
	"path/filepath"
	"sort"
	"strings"
	"sync"
	"sync/atomic"
	"testing"
	"time"

	"github.com/oklog/ulid/v2"
	"github.com/prometheus/common/promslog"

	"github.com/prometheus/prometheus/internal/verif/vx"
	"github.com/prometheus/prometheus/model/histogram"
	"github.com/prometheus/prometheus/model/labels"
	"github.com/prometheus/prometheus/storage"
	"github.com/prometheus/prometheus/tsdb/chunkenc"
	"github.com/prometheus/prometheus/tsdb/chunks"
	"github.com/prometheus/prometheus/tsdb/index"
	"github.com/prometheus/prometheus/tsdb/tombstones"
	"github.com/prometheus/prometheus/tsdb/tsdbutil"
)

// ---- input alphabet -----------------------------------------------------------------------------

type c07Chunk struct {
	Enc string // "f" XOR float, "x2" XOR2 float, "h" histogram, "fh" float histogram
	Ts  []int64
}

type c07Layout struct {
	Name   string
	Absent bool // series not in the block at all
	Chunks []c07Chunk
}

// The pool of per-series chunk layouts (times 1..4; every layout has its own value seed so that
// two blocks holding the same timestamp hold different values).
var c07Layouts = []c07Layout{
	{Name: "absent", Absent: true},
	{Name: "f[1,2]", Chunks: []c07Chunk{{"f", []int64{1, 2}}}},
	{Name: "f[2,3]", Chunks: []c07Chunk{{"f", []int64{2, 3}}}},
	{Name: "f[3,4]", Chunks: []c07Chunk{{"f", []int64{3, 4}}}},
	{Name: "f[1,2]f[3,4]", Chunks: []c07Chunk{{"f", []int64{1, 2}}, {"f", []int64{3, 4}}}},
	{Name: "h[2,3]", Chunks: []c07Chunk{{"h", []int64{2, 3}}}},
	{Name: "f[1,2]h[3,4]", Chunks: []c07Chunk{{"f", []int64{1, 2}}, {"h", []int64{3, 4}}}},
	{Name: "x2[2,3]", Chunks: []c07Chunk{{"x2", []int64{2, 3}}}},
	{Name: "fh[2,3]", Chunks: []c07Chunk{{"fh", []int64{2, 3}}}},
	{Name: "nochunks"},
	// native histograms whose bucket layout GROWS inside the series (c07GrowLevel: a bucket in a new
	// span at t=3, a bucket in front + the gap filled at t=4) without being a counter reset: a chunk
	// holding such samples is re-coded to the wider layout while it is being appended to.
	{Name: "hg[1,2]", Chunks: []c07Chunk{{"hg", []int64{1, 2}}}},
	{Name: "hg[2,3]", Chunks: []c07Chunk{{"hg", []int64{2, 3}}}},
	{Name: "hg[3,4]", Chunks: []c07Chunk{{"hg", []int64{3, 4}}}},
	{Name: "fhg[2,3]", Chunks: []c07Chunk{{"fhg", []int64{2, 3}}}},
	{Name: "fhg[1,2]fhg[3,4]", Chunks: []c07Chunk{{"fhg", []int64{1, 2}}, {"fhg", []int64{3, 4}}}},
}

// c07GrowLevel: the bucket layout of the growing histograms as a function of time (block times 1..4,
// head times 90..110). Levels are nested, so that a later sample only ever adds buckets.
func c07GrowLevel(t int64) int {
	switch {
	case t <= 2, t >= 90 && t <= 93:
		return 0
	case t == 3, t >= 94 && t <= 103:
		return 1
	}
	return 2
}

var c07GrowIdx = [][]int32{{0, 1}, {0, 1, 3}, {-1, 0, 1, 2, 3}}

// c07GrowHist: an integer histogram at time t whose populated bucket indexes are
// c07GrowIdx[c07GrowLevel(t)]; every count is non-decreasing in t (no counter reset between any two
// samples in time order, whatever block they come from); only Sum depends on the seed, so that two
// blocks holding the same timestamp hold different values.
func c07GrowHist(seed, t int64) *histogram.Histogram {
	idx := c07GrowIdx[c07GrowLevel(t)]
	h := &histogram.Histogram{Schema: 1, ZeroThreshold: 0.001, ZeroCount: uint64(t), Sum: float64(seed*1000 + t)}
	h.Count = h.ZeroCount
	prevIdx, prevCnt := int32(0), int64(0)
	for i, ix := range idx {
		cnt := 2*t + int64(ix) + 2
		if i == 0 || ix != prevIdx+1 {
			off := ix
			if i > 0 {
				off = ix - prevIdx - 1
			}
			h.PositiveSpans = append(h.PositiveSpans, histogram.Span{Offset: off, Length: 1})
		} else {
			h.PositiveSpans[len(h.PositiveSpans)-1].Length++
		}
		h.PositiveBuckets = append(h.PositiveBuckets, cnt-prevCnt)
		h.Count += uint64(cnt)
		prevIdx, prevCnt = ix, cnt
	}
	h.NegativeSpans = []histogram.Span{{Offset: 0, Length: 1}}
	h.NegativeBuckets = []int64{t}
	h.Count += uint64(t)
	return h
}

// c07GrowChunk encodes samples of growing histograms into ONE chunk (chunks.ChunkFromSamples refuses
// re-coding); a counter reset / cut here would be a harness error.
func c07GrowChunk(smp []chunks.Sample) chunks.Meta {
	var c chunkenc.Chunk = chunkenc.NewHistogramChunk()
	if smp[0].FH() != nil {
		c = chunkenc.NewFloatHistogramChunk()
	}
	app, err := c.Appender()
	if err != nil {
		panic(err)
	}
	for _, s := range smp {
		var nc chunkenc.Chunk
		var recoded bool
		if s.FH() != nil {
			nc, recoded, app, err = app.AppendFloatHistogram(nil, 0, s.T(), s.FH(), false)
		} else {
			nc, recoded, app, err = app.AppendHistogram(nil, 0, s.T(), s.H(), false)
		}
		if err != nil {
			panic(err)
		}
		if nc != nil {
			if !recoded {
				panic("c07: growing histograms were cut into two chunks (harness error: they must not be counter resets)")
			}
			c = nc
		}
	}
	return chunks.Meta{MinTime: smp[0].T(), MaxTime: smp[len(smp)-1].T(), Chunk: c}
}

type c07Tomb struct {
	Name string
	Ivs  tombstones.Intervals
}

var c07Tombs = []c07Tomb{
	{"none", nil},
	{"[2,2]", tombstones.Intervals{{Mint: 2, Maxt: 2}}},
	{"[2,3]", tombstones.Intervals{{Mint: 2, Maxt: 3}}}, // straddles the boundary of f[1,2]f[3,4]
	{"all", tombstones.Intervals{{Mint: math.MinInt64, Maxt: math.MaxInt64}}},
}

// second series: absent / one float chunk / one float chunk with a tombstone inside it
var c07S2 = []struct {
	Name   string
	Layout c07Layout
	Tomb   tombstones.Intervals
}{
	{"s2-absent", c07Layout{Absent: true}, nil},
	{"s2-f[1,3]", c07Layout{Chunks: []c07Chunk{{"f", []int64{1, 3}}}}, nil},
	{"s2-f[3,4]del3", c07Layout{Chunks: []c07Chunk{{"f", []int64{3, 4}}}}, tombstones.Intervals{{Mint: 3, Maxt: 3}}},
}

var (
	c07L1 = labels.FromStrings("__name__", "m", "s", "1")
	c07L2 = labels.FromStrings("__name__", "m", "s", "2", "z", "only2")
)

type c07Kind struct{ Layout, Tomb, S2 int }

func (k c07Kind) String() string {
	return c07Layouts[k.Layout].Name + "/del:" + c07Tombs[k.Tomb].Name + "/" + c07S2[k.S2].Name
}

func (k c07Kind) seed1() int64 { return int64(1 + k.Layout) }
func (k c07Kind) seed2() int64 { return int64(50 + k.S2) }

// c07Kinds lists the block kinds, simplest first. withS2Variants=false fixes s2 to "s2-f[1,3]".
func c07Kinds(withS2Variants bool) []c07Kind {
	var out []c07Kind
	s2s := []int{1}
	if withS2Variants {
		s2s = []int{0, 1, 2}
	}
	for _, s2 := range s2s {
		for l := range c07Layouts {
			for tb := range c07Tombs {
				if (c07Layouts[l].Absent || len(c07Layouts[l].Chunks) == 0) && tb != 0 {
					continue // tombstones need chunks to act on
				}
				if c07Layouts[l].Absent && c07S2[s2].Layout.Absent {
					continue // a block holds at least one series
				}
				if len(c07Layouts[l].Chunks) == 0 && !c07Layouts[l].Absent && c07S2[s2].Layout.Absent {
					continue // ... and at least one sample
				}
				out = append(out, c07Kind{l, tb, s2})
			}
		}
	}
	return out
}

// c07Sample is a model sample.
type c07Sample struct {
	T   int64
	Val string // canonical value (canonFloat / canonHist / canonFloatHist)
}

func c07Value(enc string, seed, t int64) (chunks.Sample, string) {
	n := seed*100 + t
	switch enc {
	case "f", "x2":
		return newSample(0, t, float64(n), nil, nil), canonFloat(float64(n))
	case "h":
		h := tsdbutil.GenerateTestHistogram(n)
		return newSample(0, t, 0, h, nil), canonHist(h)
	case "fh":
		fh := tsdbutil.GenerateTestFloatHistogram(n)
		return newSample(0, t, 0, nil, fh), canonFloatHist(fh)
	case "hg":
		h := c07GrowHist(seed, t)
		return newSample(0, t, 0, h, nil), canonHist(h)
	case "fhg":
		fh := c07GrowHist(seed, t).ToFloat(nil)
		return newSample(0, t, 0, nil, fh), canonFloatHist(fh)
	}
	panic("c07: encoding " + enc)
}

func c07MakeChunk(c c07Chunk, seed int64) (chunks.Meta, []c07Sample) {
	var model []c07Sample
	var smp []chunks.Sample
	for _, t := range c.Ts {
		s, v := c07Value(c.Enc, seed, t)
		smp = append(smp, s)
		model = append(model, c07Sample{t, v})
	}
	if c.Enc == "x2" {
		ch := chunkenc.NewXOR2Chunk()
		app, err := ch.Appender()
		if err != nil {
			panic(err)
		}
		for _, s := range smp {
			app.Append(0, s.T(), s.F())
		}
		return chunks.Meta{MinTime: c.Ts[0], MaxTime: c.Ts[len(c.Ts)-1], Chunk: ch}, model
	}
	var m chunks.Meta
	if c.Enc == "hg" || c.Enc == "fhg" {
		m = c07GrowChunk(smp)
	} else {
		var err error
		if m, err = chunks.ChunkFromSamples(smp); err != nil {
			panic(err)
		}
	}
	// the harness-local encoding is trusted; at least it must decode to the model
	got, err := drainSeries(m.Chunk.Iterator(nil))
	if err != nil || len(got) != len(model) {
		panic(fmt.Sprintf("c07: input chunk %v decodes to %v (%v)", c, got, err))
	}
	for i := range got {
		if got[i].t != model[i].T || got[i].val != model[i].Val {
			panic(fmt.Sprintf("c07: input chunk %v sample %d decodes to %v, want %v", c, i, got[i], model[i]))
		}
	}
	return m, model
}

// ---- harness-local block writer -----------------------------------------------------------------

// c07SegmentSize: chunk segment files are pre-allocated to their maximum size (512 MiB by default,
// which a tmpfs really allocates); the harness uses 64 KiB segments everywhere.
const c07SegmentSize = 64 << 10

func c07Compactor(rng int64) (*LeveledCompactor, error) {
	return NewLeveledCompactorWithOptions(context.Background(), nil, promslog.NewNopLogger(), []int64{rng}, nil, LeveledCompactorOptions{
		MaxBlockChunkSegmentSize:    c07SegmentSize,
		EnableOverlappingCompaction: true,
	})
}

type c07SeriesIn struct {
	Labels labels.Labels
	Chunks []chunks.Meta
	Tomb   tombstones.Intervals
	Model  []c07Sample // all samples of the chunks (before tombstones)
}

// c07WriteBlock writes a block directory with exactly the given chunk lists (index.Writer and
// chunks.Writer are used directly, not the compactor under test). series must be sorted by labels.
func c07WriteBlock(parent string, id ulid.ULID, series []c07SeriesIn, segmentSize int64) (string, *BlockMeta, error) {
	dir := filepath.Join(parent, id.String())
	if err := os.MkdirAll(chunkDir(dir), 0o777); err != nil {
		return "", nil, err
	}
	if segmentSize <= 0 {
		segmentSize = c07SegmentSize
	}
	cw, err := chunks.NewWriter(chunkDir(dir), chunks.WithSegmentSize(segmentSize))
	if err != nil {
		return "", nil, err
	}
	iw, err := index.NewWriter(context.Background(), filepath.Join(dir, indexFilename))
	if err != nil {
		return "", nil, err
	}
	symset := map[string]struct{}{}
	for _, s := range series {
		s.Labels.Range(func(l labels.Label) {
			symset[l.Name] = struct{}{}
			symset[l.Value] = struct{}{}
		})
	}
	syms := make([]string, 0, len(symset))
	for s := range symset {
		syms = append(syms, s)
	}
	sort.Strings(syms)
	for _, s := range syms {
		if err := iw.AddSymbol(s); err != nil {
			return "", nil, err
		}
	}
	meta := &BlockMeta{ULID: id, MinTime: math.MaxInt64, MaxTime: math.MinInt64}
	for i, s := range series {
		if len(s.Chunks) > 0 {
			if err := cw.WriteChunks(s.Chunks...); err != nil {
				return "", nil, err
			}
		}
		if err := iw.AddSeries(storage.SeriesRef(i), s.Labels, s.Chunks...); err != nil {
			return "", nil, err
		}
		meta.Stats.NumSeries++
		meta.Stats.NumChunks += uint64(len(s.Chunks))
		for _, c := range s.Chunks {
			n := uint64(c.Chunk.NumSamples())
			meta.Stats.NumSamples += n
			switch c.Chunk.Encoding() {
			case chunkenc.EncXOR, chunkenc.EncXOR2:
				meta.Stats.NumFloatSamples += n
			default:
				meta.Stats.NumHistogramSamples += n
			}
			meta.MinTime = min(meta.MinTime, c.MinTime)
			meta.MaxTime = max(meta.MaxTime, c.MaxTime+1)
		}
	}
	if err := iw.Close(); err != nil {
		return "", nil, err
	}
	if err := cw.Close(); err != nil {
		return "", nil, err
	}
	// tombstones are keyed by the series reference of the written index
	ir, err := index.NewFileReader(filepath.Join(dir, indexFilename), index.DecodePostingsRaw)
	if err != nil {
		return "", nil, err
	}
	mt := tombstones.NewMemTombstones()
	for _, s := range series {
		if len(s.Tomb) == 0 {
			continue
		}
		var refs []storage.SeriesRef
		lbl := s.Labels.Get("s")
		p, err := ir.Postings(context.Background(), "s", lbl)
		if err != nil {
			return "", nil, err
		}
		for p.Next() {
			refs = append(refs, p.At())
		}
		if len(refs) != 1 {
			return "", nil, fmt.Errorf("c07: %d postings for s=%s", len(refs), lbl)
		}
		mt.AddInterval(refs[0], s.Tomb...)
		meta.Stats.NumTombstones += uint64(len(s.Tomb))
	}
	if err := ir.Close(); err != nil {
		return "", nil, err
	}
	if _, err := tombstones.WriteFile(promslog.NewNopLogger(), dir, mt); err != nil {
		return "", nil, err
	}
	meta.Compaction.Level = 1
	meta.Compaction.Sources = []ulid.ULID{id}
	if _, err := writeMetaFile(promslog.NewNopLogger(), dir, meta); err != nil {
		return "", nil, err
	}
	return dir, meta, nil
}

func c07ULID(n uint64) ulid.ULID {
	var e [10]byte
	for i := 0; i < 8; i++ {
		e[9-i] = byte(n >> (8 * i))
	}
	var id ulid.ULID
	_ = id.SetTime(1_700_000_000_000 + n)
	_ = id.SetEntropy(e[:])
	return id
}

func c07SeriesOf(k c07Kind) []c07SeriesIn {
	var out []c07SeriesIn
	add := func(l labels.Labels, lay c07Layout, tb tombstones.Intervals, seed int64) {
		if lay.Absent {
			return
		}
		s := c07SeriesIn{Labels: l, Tomb: tb}
		for _, c := range lay.Chunks {
			m, model := c07MakeChunk(c, seed)
			s.Chunks = append(s.Chunks, m)
			s.Model = append(s.Model, model...)
		}
		out = append(out, s)
	}
	add(c07L1, c07Layouts[k.Layout], c07Tombs[k.Tomb].Ivs, k.seed1())
	add(c07L2, c07S2[k.S2].Layout, c07S2[k.S2].Tomb, k.seed2())
	return out
}

// c07Input is one cached, opened input block.
type c07Input struct {
	Kind   c07Kind
	Dir    string
	Meta   BlockMeta
	Block  *Block
	Series []c07SeriesIn
}

type c07Pool struct {
	dir    string
	inputs map[c07Kind]*c07Input
}

func c07BuildPool(kinds []c07Kind, workers int) (*c07Pool, error) {
	dir, err := os.MkdirTemp("", "c07pool")
	if err != nil {
		return nil, err
	}
	p := &c07Pool{dir: dir, inputs: map[c07Kind]*c07Input{}}
	ins := make([]*c07Input, len(kinds))
	errs := make([]error, len(kinds))
	var next atomic.Int64
	var wg sync.WaitGroup
	for w := 0; w < workers; w++ {
		wg.Add(1)
		go func() {
			defer wg.Done()
			for {
				i := int(next.Add(1) - 1)
				if i >= len(kinds) {
					return
				}
				k := kinds[i]
				series := c07SeriesOf(k)
				bdir, meta, err := c07WriteBlock(dir, c07ULID(uint64(i+1)), series, 0)
				if err != nil {
					errs[i] = fmt.Errorf("writing input block %s: %w", k, err)
					continue
				}
				b, err := OpenBlock(nil, bdir, nil, nil)
				if err != nil {
					errs[i] = fmt.Errorf("opening input block %s: %w", k, err)
					continue
				}
				ins[i] = &c07Input{Kind: k, Dir: bdir, Meta: *meta, Block: b, Series: series}
			}
		}()
	}
	wg.Wait()
	for i, in := range ins {
		if in != nil {
			p.inputs[kinds[i]] = in
		}
	}
	for _, e := range errs {
		if e != nil {
			p.Close()
			return nil, e
		}
	}
	return p, nil
}

func (p *c07Pool) Close() {
	for _, in := range p.inputs {
		_ = in.Block.Close()
	}
	os.RemoveAll(p.dir)
}

// ---- reference model ------------------------------------------------------------------------------

// c07Expect: per series (label string) timestamp -> set of acceptable values: the union over the
// inputs of the samples inside [mint, maxt) that are not covered by that input's tombstones.
type c07Expect map[string]map[int64]map[string]bool

func c07Deleted(ivs tombstones.Intervals, t int64) bool {
	for _, iv := range ivs {
		if t >= iv.Mint && t <= iv.Maxt {
			return true
		}
	}
	return false
}

func c07ExpectOf(inputs [][]c07SeriesIn, mint, maxt int64) c07Expect {
	e := c07Expect{}
	for _, in := range inputs {
		for _, s := range in {
			k := s.Labels.String()
			for _, sm := range s.Model {
				if sm.T < mint || sm.T >= maxt || c07Deleted(s.Tomb, sm.T) {
					continue
				}
				if e[k] == nil {
					e[k] = map[int64]map[string]bool{}
				}
				if e[k][sm.T] == nil {
					e[k][sm.T] = map[string]bool{}
				}
				e[k][sm.T][sm.Val] = true
			}
		}
	}
	return e
}

func (e c07Expect) total() int {
	n := 0
	for _, m := range e {
		n += len(m)
	}
	return n
}

// c07OutSeries is what an output (mock writers or an opened block) holds for one series.
type c07OutSeries struct {
	Labels labels.Labels
	Chunks []c07OutChunk
}

type c07OutChunk struct {
	Min, Max int64
	Enc      chunkenc.Encoding
	Samples  []qSample
	N        int // Chunk.NumSamples()
}

type c07Stats struct {
	Series, Chunks, Samples, Floats, Hists uint64
}

// c07CheckOutput compares an output with the expectation. Returns (signature, message) or "".
func c07CheckOutput(out []c07OutSeries, exp c07Expect, stats *BlockStats, ordered bool) (string, string) {
	var rc c07Stats
	seen := map[string]bool{}
	for i, s := range out {
		k := s.Labels.String()
		if seen[k] {
			return "output-series-duplicated", "series " + k + " written twice"
		}
		seen[k] = true
		if i > 0 && labels.Compare(out[i-1].Labels, s.Labels) >= 0 {
			return "output-series-not-sorted", fmt.Sprintf("series %s after %s", k, out[i-1].Labels.String())
		}
		rc.Series++
		want := exp[k]
		got := map[int64]bool{}
		lastMax, lastT := int64(math.MinInt64), int64(math.MinInt64)
		first := true
		for ci, c := range s.Chunks {
			rc.Chunks++
			rc.Samples += uint64(len(c.Samples))
			switch c.Enc {
			case chunkenc.EncXOR, chunkenc.EncXOR2:
				rc.Floats += uint64(len(c.Samples))
			default:
				rc.Hists += uint64(len(c.Samples))
			}
			if len(c.Samples) == 0 {
				return "output-empty-chunk", fmt.Sprintf("series %s chunk %d holds no samples", k, ci)
			}
			if c.N != len(c.Samples) {
				return "output-chunk-numsamples-mismatch", fmt.Sprintf("series %s chunk %d: NumSamples()=%d but %d samples decode", k, ci, c.N, len(c.Samples))
			}
			if c.Samples[0].t != c.Min || c.Samples[len(c.Samples)-1].t != c.Max {
				return "output-chunk-meta-mismatch", fmt.Sprintf("series %s chunk %d: meta [%d,%d] but samples span [%d,%d]", k, ci, c.Min, c.Max, c.Samples[0].t, c.Samples[len(c.Samples)-1].t)
			}
			if ordered && !first && c.Min <= lastMax {
				return "output-chunks-overlap-or-unordered", fmt.Sprintf("series %s chunk %d starts at %d, previous chunk ends at %d", k, ci, c.Min, lastMax)
			}
			first, lastMax = false, c.Max
			for _, sm := range c.Samples {
				if ordered && sm.t <= lastT {
					return "output-samples-not-increasing", fmt.Sprintf("series %s: t=%d after t=%d", k, sm.t, lastT)
				}
				lastT = sm.t
				if want[sm.t] == nil {
					return "output-extra-sample", fmt.Sprintf("series %s holds t=%d val=%s; no input holds an undeleted sample there (or it lies outside the output range)", k, sm.t, sm.val)
				}
				if !want[sm.t][sm.val] {
					return "output-wrong-value", fmt.Sprintf("series %s t=%d val=%s; inputs hold %v", k, sm.t, sm.val, want[sm.t])
				}
				if got[sm.t] {
					return "output-duplicate-sample", fmt.Sprintf("series %s holds t=%d twice", k, sm.t)
				}
				got[sm.t] = true
			}
		}
		for t := range want {
			if !got[t] {
				return "output-missing-sample", fmt.Sprintf("series %s lacks t=%d (inputs hold %v)", k, t, want[t])
			}
		}
	}
	for k, want := range exp {
		if !seen[k] && len(want) > 0 {
			return "output-missing-series", fmt.Sprintf("series %s (%d samples expected) is not in the output", k, len(want))
		}
	}
	if stats != nil {
		if stats.NumSeries != rc.Series || stats.NumChunks != rc.Chunks || stats.NumSamples != rc.Samples || stats.NumFloatSamples != rc.Floats || stats.NumHistogramSamples != rc.Hists {
			return "stats-mismatch", fmt.Sprintf("BlockMeta.Stats %+v, recount %+v", *stats, rc)
		}
	}
	return "", ""
}

// ---- harness-local writers (part A) ---------------------------------------------------------------

type c07MemChunkWriter struct {
	next chunks.ChunkRef
	data map[chunks.ChunkRef]c07MemChunk
}

type c07MemChunk struct {
	enc chunkenc.Encoding
	b   []byte
	n   int
}

func (w *c07MemChunkWriter) WriteChunks(chks ...chunks.Meta) error {
	for i := range chks {
		if chks[i].Chunk == nil {
			return fmt.Errorf("c07: WriteChunks with a nil chunk")
		}
		w.next++
		chks[i].Ref = w.next
		w.data[w.next] = c07MemChunk{chks[i].Chunk.Encoding(), append([]byte{}, chks[i].Chunk.Bytes()...), chks[i].Chunk.NumSamples()}
	}
	return nil
}
func (*c07MemChunkWriter) Close() error { return nil }

type c07MemSeries struct {
	l    labels.Labels
	chks []chunks.Meta
}

type c07MemIndexWriter struct {
	syms   []string
	series []c07MemSeries
}

func (w *c07MemIndexWriter) AddSymbol(s string) error {
	if n := len(w.syms); n > 0 && w.syms[n-1] >= s {
		return fmt.Errorf("c07: symbol %q after %q", s, w.syms[n-1])
	}
	w.syms = append(w.syms, s)
	return nil
}

func (w *c07MemIndexWriter) AddSeries(_ storage.SeriesRef, l labels.Labels, chks ...chunks.Meta) error {
	var bad error
	l.Range(func(lb labels.Label) {
		for _, s := range []string{lb.Name, lb.Value} {
			i := sort.SearchStrings(w.syms, s)
			if i >= len(w.syms) || w.syms[i] != s {
				bad = fmt.Errorf("c07: symbol %q of series %s was not registered", s, l.String())
			}
		}
	})
	if bad != nil {
		return bad
	}
	cp := make([]chunks.Meta, len(chks))
	for i, c := range chks {
		cp[i] = chunks.Meta{Ref: c.Ref, MinTime: c.MinTime, MaxTime: c.MaxTime}
	}
	w.series = append(w.series, c07MemSeries{l.Copy(), cp})
	return nil
}
func (*c07MemIndexWriter) Close() error { return nil }

func c07DecodeMem(iw *c07MemIndexWriter, cw *c07MemChunkWriter) ([]c07OutSeries, error) {
	var out []c07OutSeries
	for _, s := range iw.series {
		os := c07OutSeries{Labels: s.l}
		for _, m := range s.chks {
			d, ok := cw.data[m.Ref]
			if !ok {
				return nil, fmt.Errorf("series %s references chunk %d that was never written", s.l.String(), m.Ref)
			}
			c, err := chunkenc.FromData(d.enc, d.b)
			if err != nil {
				return nil, err
			}
			smp, err := drainSeries(c.Iterator(nil))
			if err != nil {
				return nil, err
			}
			os.Chunks = append(os.Chunks, c07OutChunk{Min: m.MinTime, Max: m.MaxTime, Enc: d.enc, Samples: smp, N: d.n})
		}
		out = append(out, os)
	}
	return out, nil
}

// ---- case execution ---------------------------------------------------------------------------------

type c07Case struct {
	Part   string    `json:"part"`
	Kinds  []c07Kind `json:"kinds"`
	Merger string    `json:"merger,omitempty"`
	Text   []string  `json:"text,omitempty"`
	Head   string    `json:"head,omitempty"`
	Mint   int64     `json:"mint,omitempty"`
	Maxt   int64     `json:"maxt,omitempty"`
}

type c07Run struct {
	r    *vx.Run
	pool *c07Pool
}

func (x *c07Run) viol(sig, msg string, c c07Case) {
	for _, k := range c.Kinds {
		c.Text = append(c.Text, k.String())
	}
	x.r.Violation(sig, fmt.Sprintf("%s [part %s merger=%s inputs=%v head=%s range=[%d,%d)]", msg, c.Part, c.Merger, c.Text, c.Head, c.Mint, c.Maxt), c)
}

// sortedInputs orders the chosen blocks by MinTime (stable), as the planner hands them to the compactor.
func (x *c07Run) sortedInputs(kinds []c07Kind) []*c07Input {
	ins := make([]*c07Input, len(kinds))
	for i, k := range kinds {
		ins[i] = x.pool.inputs[k]
		if ins[i] == nil {
			panic("c07: kind not in pool: " + k.String())
		}
	}
	sort.SliceStable(ins, func(i, j int) bool { return ins[i].Meta.MinTime < ins[j].Meta.MinTime })
	return ins
}

// disjoint: every series' chunks of different inputs are disjoint in time and the inputs are ordered.
func c07Disjoint(ins []*c07Input) bool {
	last := map[string]int64{}
	for _, in := range ins {
		cur := map[string]int64{}
		for _, s := range in.Series {
			k := s.Labels.String()
			for _, c := range s.Chunks {
				if lm, ok := last[k]; ok && c.MinTime <= lm {
					return false
				}
				cur[k] = max(cur[k], c.MaxTime)
			}
		}
		for k, v := range cur {
			last[k] = v
		}
	}
	return true
}

var c07Compacting = storage.NewCompactingChunkSeriesMerger(storage.ChainedSeriesMerge)
var c07Concatenating = storage.NewConcatenatingChunkSeriesMerger()

// partA runs PopulateBlock into the harness-local writers.
func (x *c07Run) partA(kinds []c07Kind, note func(outcome string)) {
	ins := x.sortedInputs(kinds)
	mergers := []string{"compacting"}
	if len(ins) > 1 && c07Disjoint(ins) {
		mergers = append(mergers, "concatenating")
	}
	metas := make([]*BlockMeta, len(ins))
	blocks := make([]BlockReader, len(ins))
	var series [][]c07SeriesIn
	for i, in := range ins {
		m := in.Meta
		metas[i] = &m
		blocks[i] = in.Block
		series = append(series, in.Series)
	}
	for _, mg := range mergers {
		cs := c07Case{Part: "A", Kinds: kinds, Merger: mg}
		meta := CompactBlockMetas(c07ULID(999999), metas...)
		exp := c07ExpectOf(series, meta.MinTime, meta.MaxTime)
		iw := &c07MemIndexWriter{}
		cw := &c07MemChunkWriter{data: map[chunks.ChunkRef]c07MemChunk{}}
		mf := c07Compacting
		if mg == "concatenating" {
			mf = c07Concatenating
		}
		var err error
		p, stack := vx.Guard(func() {
			err = DefaultBlockPopulator{}.PopulateBlock(context.Background(), c07Metrics, promslog.NewNopLogger(), chunkenc.NewPool(), mf, blocks, meta, iw, cw, AllSortedPostings)
		})
		x.r.Count("evaluations", 1)
		if p != nil {
			x.viol("populate-panic", fmt.Sprintf("PopulateBlock panicked: %v\n%s", p, stack), cs)
			continue
		}
		if err != nil {
			x.viol("populate-error", "PopulateBlock: "+err.Error(), cs)
			continue
		}
		out, err := c07DecodeMem(iw, cw)
		if err != nil {
			x.viol("output-undecodable", err.Error(), cs)
			continue
		}
		if sig, msg := c07CheckOutput(out, exp, &meta.Stats, true); sig != "" {
			x.viol(sig, msg, cs)
			continue
		}
		note(c07Outcome(out))
	}
}

var c07Metrics = NewCompactorMetrics(nil)

func c07Outcome(out []c07OutSeries) string {
	var sb strings.Builder
	for _, s := range out {
		sb.WriteString(s.Labels.String())
		for _, c := range s.Chunks {
			fmt.Fprintf(&sb, "|%d:", c.Enc)
			for _, sm := range c.Samples {
				fmt.Fprintf(&sb, "%d=%s,", sm.t, sm.val[:1])
			}
		}
		sb.WriteString(";")
	}
	return sb.String()
}

// c07ReadBlock reads a written block through the block queriers and its index.
//
// grid: for every a <= b of it the block is also queried over the sub-range [a,b] through both
// queriers (these depend on the chunk metas in the index, a full-range read does not); the first
// disagreement with the full-range read is returned in subSig/subMsg.
func c07ReadBlock(dir string, grid []int64) (out []c07OutSeries, viaQuerier map[string][]qSample, meta BlockMeta, subSig, subMsg string, err error) {
	out, viaQuerier, meta, b, err := c07ReadBlockFull(dir)
	if b != nil {
		defer b.Close()
	}
	if err != nil {
		return out, viaQuerier, meta, "", "", err
	}
	for i, lo := range grid {
		for _, hi := range grid[i:] {
			gotQ, gotCQ, err := c07QuerySub(b, lo, hi)
			if err != nil {
				return out, viaQuerier, meta, "", "", fmt.Errorf("sub-range [%d,%d]: %w", lo, hi, err)
			}
			if sig, msg := c07CheckSub(viaQuerier, lo, hi, gotQ, gotCQ); sig != "" {
				return out, viaQuerier, meta, sig, msg, nil
			}
		}
	}
	return out, viaQuerier, meta, "", "", nil
}

// c07QuerySub queries [lo,hi] through the sample querier and the chunk querier (all samples of the
// returned chunks, whole chunks may be returned).
func c07QuerySub(b *Block, lo, hi int64) (viaQ, viaCQ map[string][]qSample, err error) {
	ctx := context.Background()
	all := labels.MustNewMatcher(labels.MatchRegexp, "__name__", ".*")
	q, err := NewBlockQuerier(b, lo, hi)
	if err != nil {
		return nil, nil, err
	}
	viaQ = map[string][]qSample{}
	ss := q.Select(ctx, true, nil, all)
	for ss.Next() {
		smp, err := drainSeries(ss.At().Iterator(nil))
		if err != nil {
			q.Close()
			return nil, nil, err
		}
		viaQ[ss.At().Labels().String()] = smp
	}
	err = ss.Err()
	q.Close()
	if err != nil {
		return nil, nil, err
	}
	cq, err := NewBlockChunkQuerier(b, lo, hi)
	if err != nil {
		return nil, nil, err
	}
	defer cq.Close()
	viaCQ = map[string][]qSample{}
	css := cq.Select(ctx, true, nil, all)
	for css.Next() {
		k := css.At().Labels().String()
		it := css.At().Iterator(nil)
		for it.Next() {
			smp, err := drainSeries(it.At().Chunk.Iterator(nil))
			if err != nil {
				return nil, nil, err
			}
			viaCQ[k] = append(viaCQ[k], smp...)
		}
		if err := it.Err(); err != nil {
			return nil, nil, err
		}
	}
	return viaQ, viaCQ, css.Err()
}

func c07Restrict(smp []qSample, lo, hi int64) []qSample {
	var out []qSample
	for _, s := range smp {
		if s.t >= lo && s.t <= hi {
			out = append(out, s)
		}
	}
	return out
}

// c07CheckSub: a query over [lo,hi] must return exactly the full-range result restricted to [lo,hi]
// (sample querier), resp. chunks that hold exactly those samples inside [lo,hi] (chunk querier).
func c07CheckSub(full map[string][]qSample, lo, hi int64, gotQ, gotCQ map[string][]qSample) (string, string) {
	for _, g := range []struct {
		sig string
		got map[string][]qSample
	}{{"subrange-query-mismatch", gotQ}, {"subrange-chunk-query-mismatch", gotCQ}} {
		for k, smp := range full {
			want := c07Restrict(smp, lo, hi)
			got := c07Restrict(g.got[k], lo, hi)
			if g.sig == "subrange-query-mismatch" {
				got = g.got[k] // the sample querier must not return anything outside the range either
			}
			if fmt.Sprint(want) != fmt.Sprint(got) {
				return g.sig, fmt.Sprintf("series %s queried over [%d,%d]: got %v, the full-range read holds %v there", k, lo, hi, got, want)
			}
		}
		for k, smp := range g.got {
			if _, ok := full[k]; !ok && len(smp) > 0 {
				return g.sig, fmt.Sprintf("series %s queried over [%d,%d]: %v, but the full-range read does not return the series", k, lo, hi, smp)
			}
		}
	}
	return "", ""
}

func c07ReadBlockFull(dir string) (out []c07OutSeries, viaQuerier map[string][]qSample, meta BlockMeta, b *Block, err error) {
	b, err = OpenBlock(nil, dir, nil, nil)
	if err != nil {
		return nil, nil, BlockMeta{}, nil, err
	}
	meta = b.Meta()
	if tr, terr := b.Tombstones(); terr != nil {
		return nil, nil, meta, b, terr
	} else {
		n := tr.Total()
		tr.Close()
		if n != meta.Stats.NumTombstones {
			return nil, nil, meta, b, fmt.Errorf("meta.Stats.NumTombstones=%d but the tombstones file holds %d intervals", meta.Stats.NumTombstones, n)
		}
	}
	ctx := context.Background()
	all := labels.MustNewMatcher(labels.MatchRegexp, "__name__", ".*")
	cq, err := NewBlockChunkQuerier(b, math.MinInt64, math.MaxInt64)
	if err != nil {
		return nil, nil, meta, b, err
	}
	css := cq.Select(ctx, true, nil, all)
	for css.Next() {
		s := css.At()
		os := c07OutSeries{Labels: s.Labels().Copy()}
		it := s.Iterator(nil)
		for it.Next() {
			m := it.At()
			smp, err := drainSeries(m.Chunk.Iterator(nil))
			if err != nil {
				cq.Close()
				return nil, nil, meta, b, err
			}
			os.Chunks = append(os.Chunks, c07OutChunk{Min: m.MinTime, Max: m.MaxTime, Enc: m.Chunk.Encoding(), Samples: smp, N: m.Chunk.NumSamples()})
		}
		if err := it.Err(); err != nil {
			cq.Close()
			return nil, nil, meta, b, err
		}
		out = append(out, os)
	}
	if err := css.Err(); err != nil {
		cq.Close()
		return nil, nil, meta, b, err
	}
	cq.Close()
	q, err := NewBlockQuerier(b, math.MinInt64, math.MaxInt64)
	if err != nil {
		return nil, nil, meta, b, err
	}
	defer q.Close()
	viaQuerier = map[string][]qSample{}
	ss := q.Select(ctx, true, nil, all)
	for ss.Next() {
		s := ss.At()
		smp, err := drainSeries(s.Iterator(nil))
		if err != nil {
			return nil, nil, meta, b, err
		}
		viaQuerier[s.Labels().String()] = smp
	}
	return out, viaQuerier, meta, b, ss.Err()
}

// c07CheckBlock checks a written block directory against the expectation (both queriers, stats).
func (x *c07Run) c07CheckBlock(dir string, exp c07Expect, mint, maxt int64, grid []int64, cs c07Case) (string, bool) {
	out, viaQ, meta, subSig, subMsg, err := c07ReadBlock(dir, grid)
	if err != nil {
		x.viol("output-unreadable", "reading the output block: "+err.Error(), cs)
		return "", false
	}
	if meta.MinTime != mint || meta.MaxTime != maxt {
		x.viol("output-meta-range", fmt.Sprintf("output block range [%d,%d), want [%d,%d)", meta.MinTime, meta.MaxTime, mint, maxt), cs)
		return "", false
	}
	if subSig != "" {
		x.viol(subSig, subMsg, cs)
	}
	if sig, msg := c07CheckOutput(out, exp, &meta.Stats, true); sig != "" {
		x.viol(sig, msg, cs)
		return "", false
	}
	// the sample querier must agree with the chunk querier
	for _, s := range out {
		var flat []qSample
		for _, c := range s.Chunks {
			flat = append(flat, c.Samples...)
		}
		if fmt.Sprint(flat) != fmt.Sprint(viaQ[s.Labels.String()]) {
			x.viol("querier-disagrees-with-chunk-querier", fmt.Sprintf("series %s: block querier %v, chunk querier %v", s.Labels.String(), viaQ[s.Labels.String()], flat), cs)
			return "", false
		}
	}
	if len(viaQ) != len(out) {
		x.viol("querier-disagrees-with-chunk-querier", fmt.Sprintf("block querier returns %d series, chunk querier %d", len(viaQ), len(out)), cs)
		return "", false
	}
	if subSig != "" {
		return "", false
	}
	return c07Outcome(out), true
}

// c07BlockGrid: the sub-range query grid of the block parts (sample times 1..4 and one point outside
// on either side).
var c07BlockGrid = []int64{0, 1, 2, 3, 4, 5}

func c07CopyDir(src, dst string) error {
	return filepath.Walk(src, func(p string, info os.FileInfo, err error) error {
		if err != nil {
			return err
		}
		rel, _ := filepath.Rel(src, p)
		if info.IsDir() {
			return os.MkdirAll(filepath.Join(dst, rel), 0o777)
		}
		b, err := os.ReadFile(p)
		if err != nil {
			return err
		}
		return os.WriteFile(filepath.Join(dst, rel), b, 0o666)
	})
}

// partB runs LeveledCompactor.Compact on private copies of the input directories.
func (x *c07Run) partB(kinds []c07Kind, note func(outcome string)) {
	cs := c07Case{Part: "B", Kinds: kinds, Merger: "default"}
	ins := x.sortedInputs(kinds)
	tmp, err := os.MkdirTemp("", "c07b")
	if err != nil {
		x.r.T.Errorf("c07: %v", err)
		return
	}
	defer os.RemoveAll(tmp)
	var dirs []string
	var series [][]c07SeriesIn
	mint, maxt := int64(math.MaxInt64), int64(math.MinInt64)
	for i, in := range ins {
		id := c07ULID(uint64(5000 + i))
		d := filepath.Join(tmp, id.String())
		if err := c07CopyDir(in.Dir, d); err != nil {
			x.r.T.Errorf("c07: copy: %v", err)
			return
		}
		m := in.Meta
		m.ULID = id
		m.Compaction.Sources = []ulid.ULID{id}
		if _, err := writeMetaFile(promslog.NewNopLogger(), d, &m); err != nil {
			x.r.T.Errorf("c07: meta: %v", err)
			return
		}
		dirs = append(dirs, d)
		series = append(series, in.Series)
		mint, maxt = min(mint, m.MinTime), max(maxt, m.MaxTime)
	}
	exp := c07ExpectOf(series, mint, maxt)
	comp, err := c07Compactor(100)
	if err != nil {
		x.r.T.Errorf("c07: %v", err)
		return
	}
	var ids []ulid.ULID
	p, stack := vx.Guard(func() { ids, err = comp.Compact(tmp, dirs, nil) })
	x.r.Count("evaluations", 1)
	x.r.Count("compactions", 1)
	if p != nil {
		x.viol("compact-panic", fmt.Sprintf("Compact panicked: %v\n%s", p, stack), cs)
		return
	}
	if err != nil {
		x.viol("compact-error", "Compact: "+err.Error(), cs)
		return
	}
	if exp.total() == 0 {
		if len(ids) != 0 {
			x.viol("output-block-for-empty-result", fmt.Sprintf("every input sample is deleted, but Compact produced block(s) %v", ids), cs)
		} else {
			note("empty")
		}
		return
	}
	if len(ids) != 1 {
		x.viol("output-block-count", fmt.Sprintf("Compact returned %d blocks, want 1 (%d samples expected)", len(ids), exp.total()), cs)
		return
	}
	if oc, ok := x.c07CheckBlock(filepath.Join(tmp, ids[0].String()), exp, mint, maxt, c07BlockGrid, cs); ok {
		note(oc)
	}
}

// c07Stage copies the input block directories into tmp under fresh ULIDs (base+i).
func c07Stage(tmp string, ins []*c07Input, base uint64) (dirs []string, series [][]c07SeriesIn, mint, maxt int64, err error) {
	mint, maxt = int64(math.MaxInt64), int64(math.MinInt64)
	for i, in := range ins {
		id := c07ULID(base + uint64(i))
		d := filepath.Join(tmp, id.String())
		if err := c07CopyDir(in.Dir, d); err != nil {
			return nil, nil, 0, 0, err
		}
		m := in.Meta
		m.ULID = id
		m.Compaction.Sources = []ulid.ULID{id}
		if _, err := writeMetaFile(promslog.NewNopLogger(), d, &m); err != nil {
			return nil, nil, 0, 0, err
		}
		dirs = append(dirs, d)
		series = append(series, in.Series)
		mint, maxt = min(mint, m.MinTime), max(maxt, m.MaxTime)
	}
	return dirs, series, mint, maxt, nil
}

// partD: two-level compaction. The pair is compacted (as in part B; its output is checked there), then
// the OUTPUT block - written by the compactor, with the chunk metas the compactor computed - is
// compacted with every block of thirds. The result must be the union of all three inputs.
func (x *c07Run) partD(pair, thirds []c07Kind, note func(outcome string)) {
	ins := x.sortedInputs(pair)
	tmp, err := os.MkdirTemp("", "c07d")
	if err != nil {
		x.r.T.Errorf("c07: %v", err)
		return
	}
	defer os.RemoveAll(tmp)
	dirs, series, mint, maxt, err := c07Stage(tmp, ins, 5000)
	if err != nil {
		x.r.T.Errorf("c07: stage: %v", err)
		return
	}
	comp, err := c07Compactor(100)
	if err != nil {
		x.r.T.Errorf("c07: %v", err)
		return
	}
	var ids []ulid.ULID
	p, _ := vx.Guard(func() { ids, err = comp.Compact(tmp, dirs, nil) })
	x.r.Count("compactions", 1)
	if p != nil || err != nil || len(ids) != 1 {
		return // first level: part B's business (everything deleted: nothing to compact further)
	}
	first := filepath.Join(tmp, ids[0].String())
	for _, k3 := range thirds {
		cs := c07Case{Part: "D", Kinds: append(append([]c07Kind{}, pair...), k3), Merger: "default, two levels"}
		in3 := x.sortedInputs([]c07Kind{k3})
		tmp2, err := os.MkdirTemp("", "c07d2")
		if err != nil {
			x.r.T.Errorf("c07: %v", err)
			return
		}
		func() {
			defer os.RemoveAll(tmp2)
			dirs3, series3, mint3, maxt3, err := c07Stage(tmp2, in3, 7000)
			if err != nil {
				x.r.T.Errorf("c07: stage: %v", err)
				return
			}
			lo, hi := min(mint, mint3), max(maxt, maxt3)
			exp := c07ExpectOf(append(append([][]c07SeriesIn{}, series...), series3...), lo, hi)
			dirs2 := []string{first, dirs3[0]} // sorted by MinTime, as the planner hands them over
			if mint3 < mint {
				dirs2 = []string{dirs3[0], first}
			}
			var ids2 []ulid.ULID
			p, stack := vx.Guard(func() { ids2, err = comp.Compact(tmp2, dirs2, nil) })
			x.r.Count("evaluations", 1)
			x.r.Count("compactions", 1)
			x.r.Count("second_level_compactions", 1)
			switch {
			case p != nil:
				x.viol("compact-panic", fmt.Sprintf("second-level Compact panicked: %v\n%s", p, stack), cs)
			case err != nil:
				x.viol("compact-error", "second-level Compact: "+err.Error(), cs)
			case exp.total() == 0 && len(ids2) != 0:
				x.viol("output-block-for-empty-result", fmt.Sprintf("every input sample is deleted, but Compact produced block(s) %v", ids2), cs)
			case exp.total() == 0:
				note("empty")
			case len(ids2) != 1:
				x.viol("output-block-count", fmt.Sprintf("second-level Compact returned %d blocks, want 1 (%d samples expected)", len(ids2), exp.total()), cs)
			default:
				if oc, ok := x.c07CheckBlock(filepath.Join(tmp2, ids2[0].String()), exp, lo, hi, c07BlockGrid, cs); ok {
					note(oc)
				}
			}
		}()
	}
}

// ---- part C: head ranges ----------------------------------------------------------------------------

// c07Head is a real head (inside a DB) with a known content.
type c07HeadCfg struct {
	Name string
	OOO  bool
}

type c07HeadSys struct {
	cfg   c07HeadCfg
	dir   string
	db    *DB
	all   []c07SeriesIn // model: every committed sample per series, tombstones = head deletions
	ooo   []c07SeriesIn // model of the samples stored out-of-order only
	times []int64
}

func (h *c07HeadSys) Close() {
	if h.db != nil {
		_ = h.db.Close()
	}
	os.RemoveAll(h.dir)
}

func c07BuildHead(cfg c07HeadCfg, quick bool) (*c07HeadSys, error) {
	dir, err := os.MkdirTemp("", "c07h")
	if err != nil {
		return nil, err
	}
	o := DefaultOptions()
	o.MinBlockDuration = 1000
	o.MaxBlockDuration = 9000
	o.MaxBlockChunkSegmentSize = c07SegmentSize
	o.WALSegmentSize = 2 * 32 * 1024
	o.SamplesPerChunk = 4
	o.StripeSize = 8
	o.NoLockfile = true
	o.HeadChunksWriteQueueSize = 0
	o.WALReplayConcurrency = 1
	o.HeadChunksWriteBufferSize = 64 * 1024
	o.RetentionDuration = 0
	o.BlockReloadInterval = 1000 * time.Hour
	if cfg.OOO {
		o.OutOfOrderTimeWindow = 500
		o.OutOfOrderCapMax = 4
	}
	db, err := Open(dir, nil, nil, o, nil)
	if err != nil {
		os.RemoveAll(dir)
		return nil, err
	}
	db.DisableCompactions()
	h := &c07HeadSys{cfg: cfg, dir: dir, db: db}
	ctx := context.Background()
	lf := labels.FromStrings("__name__", "m", "s", "float")
	lh := labels.FromStrings("__name__", "m", "s", "hist")
	lm := labels.FromStrings("__name__", "m", "s", "mixed")
	lg := labels.FromStrings("__name__", "m", "s", "grow") // histograms whose bucket layout grows at t=104 (and 94, out of order)
	model := map[string]*c07SeriesIn{}
	oooModel := map[string]*c07SeriesIn{}
	put := func(m map[string]*c07SeriesIn, l labels.Labels, t int64, v string) {
		k := l.String()
		if m[k] == nil {
			m[k] = &c07SeriesIn{Labels: l}
		}
		m[k].Model = append(m[k].Model, c07Sample{t, v})
	}
	appendOne := func(l labels.Labels, enc string, t int64, ooo bool) error {
		app := db.Appender(ctx)
		s, v := c07Value(enc, 7, t)
		var err error
		if enc == "f" {
			_, err = app.Append(0, l, t, s.F())
		} else {
			_, err = app.AppendHistogram(0, l, t, s.H(), nil)
		}
		if err != nil {
			_ = app.Rollback()
			return fmt.Errorf("append %s t=%d: %w", l.String(), t, err)
		}
		if err := app.Commit(); err != nil {
			return err
		}
		put(model, l, t, v)
		if ooo {
			put(oooModel, l, t, v)
		}
		return nil
	}
	// in-order data 100..110: "float" 11 samples (chunks of 4 -> 3 chunks, two of them m-mapped),
	// "hist" 6 samples, "mixed" float,float,hist,hist,float,float
	for t := int64(100); t <= 110; t++ {
		if err := appendOne(lf, "f", t, false); err != nil {
			h.Close()
			return nil, err
		}
		if t%2 == 0 {
			if err := appendOne(lh, "h", t, false); err != nil {
				h.Close()
				return nil, err
			}
		}
		if t%2 == 1 {
			if err := appendOne(lg, "hg", t, false); err != nil {
				h.Close()
				return nil, err
			}
		}
		if t <= 105 {
			enc := "f"
			if t == 102 || t == 103 {
				enc = "h"
			}
			if err := appendOne(lm, enc, t, false); err != nil {
				h.Close()
				return nil, err
			}
		}
	}
	if cfg.OOO {
		// out-of-order samples below the in-order data, appended in a scrambled order, with a
		// timestamp also held in-order by nobody (90..97) and a type switch
		for _, t := range []int64{95, 91, 93, 97, 92, 96} {
			if err := appendOne(lf, "f", t, true); err != nil {
				h.Close()
				return nil, err
			}
		}
		for _, t := range []int64{94, 92} {
			if err := appendOne(lh, "h", t, true); err != nil {
				h.Close()
				return nil, err
			}
		}
		for _, t := range []int64{96, 91, 94, 93} {
			if err := appendOne(lg, "hg", t, true); err != nil {
				h.Close()
				return nil, err
			}
		}
	}
	// a deletion straddling the boundary between the first two chunks of "float" ([100..103][104..107])
	if err := db.Delete(ctx, 103, 104, labels.MustNewMatcher(labels.MatchEqual, "s", "float")); err != nil {
		h.Close()
		return nil, err
	}
	model[lf.String()].Tomb = tombstones.Intervals{{Mint: 103, Maxt: 104}}
	for _, m := range model {
		h.all = append(h.all, *m)
	}
	for _, m := range oooModel {
		h.ooo = append(h.ooo, *m)
	}
	h.times = []int64{90, 93, 94, 100, 101, 103, 104, 105, 107, 108, 110, 111, 120}
	if quick {
		h.times = []int64{90, 94, 100, 103, 104, 105, 108, 110, 111}
	}
	return h, nil
}

// partC writes the head range [mint,maxt) in the given mode and checks the block.
func (x *c07Run) partC(h *c07HeadSys, mode string, mint, maxt int64, note func(string)) {
	cs := c07Case{Part: "C", Head: h.cfg.Name + "/" + mode, Mint: mint, Maxt: maxt}
	tmp, err := os.MkdirTemp("", "c07c")
	if err != nil {
		x.r.T.Errorf("c07: %v", err)
		return
	}
	defer os.RemoveAll(tmp)
	comp, err := c07Compactor(1000)
	if err != nil {
		x.r.T.Errorf("c07: %v", err)
		return
	}
	var br BlockReader
	var base *BlockMeta
	var series []c07SeriesIn
	switch mode {
	case "head": // as DB.Snapshot does
		br = h.db.Head()
		series = c07WithoutOOO(h.all, h.ooo)
	case "rangehead": // as DB.compactHead does
		br = NewRangeHead(h.db.Head(), mint, maxt-1)
		series = c07WithoutOOO(h.all, h.ooo)
	case "ooo": // as DB.compactOOO does
		oh, err := NewOOOCompactionHead(context.Background(), h.db.Head())
		if err != nil {
			x.viol("ooo-compaction-head-error", err.Error(), cs)
			return
		}
		br = oh.CloneForTimeRange(mint, maxt-1)
		base = &BlockMeta{}
		base.Compaction.SetOutOfOrder()
		// Head deletions are not applied to out-of-order compaction (recorded known finding of C01/C20);
		// the out-of-order samples of this head are all outside the deleted interval.
		series = h.ooo
	}
	exp := c07ExpectOf([][]c07SeriesIn{series}, mint, maxt)
	var ids []ulid.ULID
	p, stack := vx.Guard(func() { ids, err = comp.Write(tmp, br, mint, maxt, base) })
	x.r.Count("evaluations", 1)
	x.r.Count("head_writes", 1)
	if p != nil {
		x.viol("write-panic", fmt.Sprintf("Write panicked: %v\n%s", p, stack), cs)
		return
	}
	if err != nil {
		x.viol("write-error", "Write: "+err.Error(), cs)
		return
	}
	if exp.total() == 0 {
		if len(ids) != 0 {
			x.viol("output-block-for-empty-result", fmt.Sprintf("no sample in range, but Write produced %v", ids), cs)
		} else {
			note("empty")
		}
		return
	}
	if len(ids) != 1 {
		x.viol("output-block-count", fmt.Sprintf("Write returned %d blocks, want 1 (%d samples expected)", len(ids), exp.total()), cs)
		return
	}
	if oc, ok := x.c07CheckBlock(filepath.Join(tmp, ids[0].String()), exp, mint, maxt, h.times, cs); ok {
		note(oc)
	}
}

// c07WithoutOOO removes the out-of-order stored samples from the model of all samples.
func c07WithoutOOO(all, ooo []c07SeriesIn) []c07SeriesIn {
	skip := map[string]map[int64]bool{}
	for _, s := range ooo {
		skip[s.Labels.String()] = map[int64]bool{}
		for _, sm := range s.Model {
			skip[s.Labels.String()][sm.T] = true
		}
	}
	var out []c07SeriesIn
	for _, s := range all {
		c := c07SeriesIn{Labels: s.Labels, Tomb: s.Tomb}
		for _, sm := range s.Model {
			if !skip[s.Labels.String()][sm.T] {
				c.Model = append(c.Model, sm)
			}
		}
		out = append(out, c)
	}
	return out
}

// ---- enumeration ------------------------------------------------------------------------------------

// c07Multisets enumerates the multisets of size n over a kinds (non-decreasing index tuples).
func c07MultisetCount(a, n int) int64 {
	c := int64(1)
	for i := 0; i < n; i++ {
		c = c * int64(a+i) / int64(i+1)
	}
	return c
}

func c07MultisetAt(a, n int, idx int64, out []int) []int {
	out = out[:0]
	lo := 0
	for pos := 0; pos < n; pos++ {
		for v := lo; v < a; v++ {
			// number of multisets of the remaining n-pos-1 slots over values >= v
			cnt := c07MultisetCount(a-v, n-pos-1)
			if idx < cnt {
				out = append(out, v)
				lo = v
				break
			}
			idx -= cnt
		}
	}
	return out
}

func c07SelfTest(t *testing.T) {
	l := c07L1
	exp := c07Expect{l.String(): {1: {"a": true}, 2: {"b": true, "c": true}}}
	mk := func(chs ...c07OutChunk) []c07OutSeries { return []c07OutSeries{{Labels: l, Chunks: chs}} }
	ch := func(enc chunkenc.Encoding, s ...qSample) c07OutChunk {
		return c07OutChunk{Min: s[0].t, Max: s[len(s)-1].t, Enc: enc, Samples: s, N: len(s)}
	}
	good := mk(ch(chunkenc.EncXOR, qSample{1, "a"}, qSample{2, "c"}))
	okStats := &BlockStats{NumSeries: 1, NumChunks: 1, NumSamples: 2, NumFloatSamples: 2}
	type tc struct {
		out   []c07OutSeries
		stats *BlockStats
		want  string
	}
	for i, c := range []tc{
		{good, okStats, ""},
		{mk(ch(chunkenc.EncXOR, qSample{1, "a"})), nil, "output-missing-sample"},
		{mk(ch(chunkenc.EncXOR, qSample{1, "a"}, qSample{2, "x"})), nil, "output-wrong-value"},
		{mk(ch(chunkenc.EncXOR, qSample{1, "a"}, qSample{2, "b"}, qSample{3, "b"})), nil, "output-extra-sample"},
		{mk(ch(chunkenc.EncXOR, qSample{1, "a"}, qSample{2, "b"}), ch(chunkenc.EncXOR, qSample{2, "c"})), nil, "output-chunks-overlap-or-unordered"},
		{nil, nil, "output-missing-series"},
		{good, &BlockStats{NumSeries: 1, NumChunks: 1, NumSamples: 2, NumHistogramSamples: 2}, "stats-mismatch"},
		{good, &BlockStats{NumSeries: 1, NumChunks: 2, NumSamples: 2, NumFloatSamples: 2}, "stats-mismatch"},
	} {
		if sig, _ := c07CheckOutput(c.out, exp, c.stats, true); sig != c.want {
			t.Fatalf("self-test %d: oracle says %q, want %q", i, sig, c.want)
		}
	}
	// sub-range oracle
	fullQ := map[string][]qSample{"s": {{1, "a"}, {2, "b"}, {3, "c"}}}
	for i, c := range []struct {
		q, cq []qSample
		want  string
	}{
		{[]qSample{{2, "b"}, {3, "c"}}, []qSample{{1, "a"}, {2, "b"}, {3, "c"}}, ""},
		{[]qSample{{3, "c"}}, []qSample{{1, "a"}, {2, "b"}, {3, "c"}}, "subrange-query-mismatch"},
		{[]qSample{{1, "a"}, {2, "b"}, {3, "c"}}, []qSample{{1, "a"}, {2, "b"}, {3, "c"}}, "subrange-query-mismatch"},
		{[]qSample{{2, "b"}, {3, "c"}}, nil, "subrange-chunk-query-mismatch"},
	} {
		if sig, _ := c07CheckSub(fullQ, 2, 3, map[string][]qSample{"s": c.q}, map[string][]qSample{"s": c.cq}); sig != c.want {
			t.Fatalf("self-test sub-range %d: oracle says %q, want %q", i, sig, c.want)
		}
	}
	// the growing histograms do grow: appending t=3 after t=2 and t=4 after t=3 re-codes the chunk, appending
	// t=2 after t=1 does not, and none of them is a counter reset
	for _, c := range []struct {
		a, b   int64
		recode bool
	}{{1, 2, false}, {2, 3, true}, {3, 4, true}, {1, 4, true}} {
		for _, float := range []bool{false, true} {
			var ch chunkenc.Chunk = chunkenc.NewHistogramChunk()
			if float {
				ch = chunkenc.NewFloatHistogramChunk()
			}
			app, _ := ch.Appender()
			var nc chunkenc.Chunk
			var rec bool
			var err error
			for _, tt := range []int64{c.a, c.b} {
				if float {
					nc, rec, app, err = app.AppendFloatHistogram(nil, 0, tt, c07GrowHist(3, tt).ToFloat(nil), false)
				} else {
					nc, rec, app, err = app.AppendHistogram(nil, 0, tt, c07GrowHist(3, tt), false)
				}
				if err != nil {
					t.Fatalf("self-test: %v", err)
				}
			}
			if (nc != nil) != c.recode || rec != c.recode {
				t.Fatalf("self-test: growing histogram t=%d after t=%d (float=%v): new chunk %v recoded %v, want recode=%v", c.b, c.a, float, nc != nil, rec, c.recode)
			}
		}
		if err := c07GrowHist(3, c.b).Validate(); err != nil {
			t.Fatalf("self-test: growing histogram t=%d invalid: %v", c.b, err)
		}
	}
	if got := c07MultisetCount(3, 2); got != 6 {
		t.Fatalf("self-test: multiset count %d", got)
	}
	seen := map[string]bool{}
	for i := int64(0); i < 6; i++ {
		seen[fmt.Sprint(c07MultisetAt(3, 2, i, nil))] = true
	}
	if len(seen) != 6 || !seen["[0 0]"] || !seen["[2 2]"] || !seen["[1 2]"] {
		t.Fatalf("self-test: multiset enumeration %v", seen)
	}
}

func TestVerifC07(t *testing.T) {
	r := vx.Start(t, "C07", "exploration")
	defer r.Finish()
	full := c07Kinds(true)
	small := c07Kinds(false)
	t0 := time.Now()
	pool, err := c07BuildPool(full, r.Workers())
	t.Logf("c07: pool of %d blocks built in %v", len(full), time.Since(t0))
	if err != nil {
		t.Fatalf("c07: %v", err)
	}
	defer pool.Close()
	x := &c07Run{r: r, pool: pool}
	var nOut atomic.Int64
	note := func(key string) func(string) {
		return func(oc string) {
			if r.Distinct("distinct_outcomes", oc) {
				nOut.Add(1)
			}
			if oc != "empty" {
				r.Distinct("distinct_nontrivial", key+oc)
			}
		}
	}
	heads := func() []*c07HeadSys {
		var hs []*c07HeadSys
		for _, cfg := range []c07HeadCfg{{"inorder", false}, {"ooo", true}} {
			h, err := c07BuildHead(cfg, r.Quick() && r.Replay == "")
			if err != nil {
				t.Fatalf("c07: building head %s: %v", cfg.Name, err)
			}
			hs = append(hs, h)
		}
		return hs
	}
	if r.Replay != "" {
		var rp c07Case
		r.LoadReplay(&rp)
		switch rp.Part {
		case "A":
			x.partA(rp.Kinds, note("A"))
		case "B":
			x.partB(rp.Kinds, note("B"))
		case "D":
			x.partD(rp.Kinds[:2], rp.Kinds[2:], note("D"))
		case "C":
			for _, h := range heads() {
				if name, mode, _ := strings.Cut(rp.Head, "/"); name == h.cfg.Name {
					x.partC(h, mode, rp.Mint, rp.Maxt, note("C"))
				}
				h.Close()
			}
		}
		return
	}
	c07SelfTest(t)

	// ---- part A
	type planA struct {
		kinds []c07Kind
		n     int
	}
	var plansA []planA
	if r.Quick() {
		var mid []c07Kind // s2 absent or plain (no s2 tombstone variant)
		for _, k := range full {
			if k.S2 != 2 {
				mid = append(mid, k)
			}
		}
		plansA = []planA{{full, 1}, {full, 2}, {mid, 3}}
	} else {
		plansA = []planA{{full, 1}, {full, 2}, {full, 3}, {small, 4}}
	}
	var doneA atomic.Int64
	for _, p := range plansA {
		total := c07MultisetCount(len(p.kinds), p.n)
		r.ParallelN(total, func(i int64) {
			idx := c07MultisetAt(len(p.kinds), p.n, i, nil)
			ks := make([]c07Kind, len(idx))
			for j, v := range idx {
				ks[j] = p.kinds[v]
			}
			x.partA(ks, note("A"))
			k := doneA.Add(1)
			r.SampleAt(k, func() any {
				var s []string
				for _, kk := range ks {
					s = append(s, kk.String())
				}
				return map[string]any{"part": "A PopulateBlock", "input_blocks": s}
			})
		})
	}
	r.Count("populate_cases", int(doneA.Load()))
	t.Logf("c07: part A done at %v", time.Since(t0))

	// ---- part B
	var plansB []planA
	if r.Quick() {
		plansB = []planA{{small, 1}, {small, 2}}
	} else {
		var tiny []c07Kind // fixed s2, tombstones none / straddling
		for _, k := range small {
			if k.Tomb == 0 || k.Tomb == 2 {
				tiny = append(tiny, k)
			}
		}
		plansB = []planA{{full, 1}, {full, 2}, {tiny, 3}}
	}
	if v := os.Getenv("VERIF_C07_SKIP_B"); v != "" {
		plansB = nil
	}
	for _, p := range plansB {
		total := c07MultisetCount(len(p.kinds), p.n)
		r.ParallelN(total, func(i int64) {
			idx := c07MultisetAt(len(p.kinds), p.n, i, nil)
			ks := make([]c07Kind, len(idx))
			for j, v := range idx {
				ks[j] = p.kinds[v]
			}
			x.partB(ks, note("B"))
		})
	}

	t.Logf("c07: part B done at %v", time.Since(t0))
	// ---- part D: every pair multiset x every third block, over the kinds with fixed s2 and no
	// tombstone (thorough: also the tombstone straddling a chunk boundary)
	var kindsD []c07Kind
	for _, k := range small {
		if k.Tomb == 0 || (r.Thorough() && k.Tomb == 2) {
			kindsD = append(kindsD, k)
		}
	}
	if v := os.Getenv("VERIF_C07_SKIP_B"); v != "" {
		kindsD = nil
	}
	r.ParallelN(c07MultisetCount(len(kindsD), 2), func(i int64) {
		idx := c07MultisetAt(len(kindsD), 2, i, nil)
		x.partD([]c07Kind{kindsD[idx[0]], kindsD[idx[1]]}, kindsD, note("D"))
	})
	r.Set("two_level_kinds", len(kindsD))
	t.Logf("c07: part D done at %v", time.Since(t0))
	// ---- part C
	hs := heads()
	type cc struct {
		h          *c07HeadSys
		mode       string
		mint, maxt int64
	}
	var cases []cc
	for _, h := range hs {
		modes := []string{"head", "rangehead"}
		if h.cfg.OOO {
			modes = append(modes, "ooo")
		}
		for _, m := range modes {
			for i, a := range h.times {
				for _, b := range h.times[i+1:] {
					cases = append(cases, cc{h, m, a, b})
				}
			}
		}
	}
	// The head writes share two heads (as queries and compactions do in a running server). The first
	// out-of-order compaction head m-maps the out-of-order head chunks: do that once up front so that
	// every case sees the same head.
	for _, h := range hs {
		if h.cfg.OOO {
			if _, err := NewOOOCompactionHead(context.Background(), h.db.Head()); err != nil {
				t.Fatalf("c07: NewOOOCompactionHead: %v", err)
			}
		}
	}
	r.ParallelN(int64(len(cases)), func(i int64) {
		c := cases[i]
		x.partC(c.h, c.mode, c.mint, c.maxt, note("C"))
	})
	for _, h := range hs {
		h.Close()
	}
	t.Logf("c07: part C done at %v", time.Since(t0))
	r.Set("block_kinds", len(full))
	r.Set("block_kinds_fixed_s2", len(small))
	r.Set("head_range_cases", len(cases))
	r.Set("rule", "part A: every multiset of n input blocks (kinds = s1 chunk layout x s1 tombstones x s2 variant; real block directories written by a harness-local writer) through PopulateBlock into harness-local writers with the compacting merger and, for time-disjoint inputs, the concatenating merger; part B: LeveledCompactor.Compact on directory copies, output opened and read through block querier + chunk querier + meta.json; part D: the output block of every pair compacted again with every third block (kinds with fixed s2); part C: LeveledCompactor.Write of every [mint,maxt) over a time grid for a plain Head, a RangeHead and an out-of-order compaction head. Every written block (B, C, D) is additionally queried over every sub-range of a time grid through both queriers and compared with its full-range read. evaluations = compactions/populations executed; distinct_nontrivial = distinct non-empty output layouts (series, chunk encodings, sample times and value types) per part; distinct_outcomes = the same including 'empty'")
	r.Assume("input blocks are built by a harness-local writer on index.Writer/chunks.Writer; block meta ranges are tight around the samples")
	r.Assume("de-duplication: when several inputs hold the same timestamp, any one of their undeleted values is accepted")
	r.Assume("out-of-order compaction head: head deletions are not expected to apply (known finding recorded under C01/C20); the part C out-of-order samples lie outside the deleted interval")
	if r.Get("evaluations") == 0 || nOut.Load() < 2 {
		t.Fatalf("c07: vacuous run: %d evaluations, %d distinct outcomes", r.Get("evaluations"), nOut.Load())
	}
}
