package tsdb

// C03: acknowledged writes survive a process crash at any point — engine E3 (crashfs).
//
// The stdlib `os` package is overlaid (crash flavour) so that every mutating file-system call
// reports to os.VerifHook before it happens. A history of dbx operations runs on a real tsdb.DB;
// at EVERY such call inside the data directory the harness copies the directory as it is at that
// instant (= what `kill -9` would leave: completed syscalls only, no user-space buffers), reopens
// the copy with the same options and checks the recovered contents against the reference model:
//   L = M(k-1) ∩ M(k)  must be present,  nothing outside  U = M(k-1) ∪ M(k)  may appear
// (k = operation in flight; between operations L = U = M(k)), values unaltered; then one more
// append+commit+reopen must stick. RemoveAll is expanded into every partial removal.

import (
	"context"
	"fmt"
	"io"
	"math"
	"os"
	"path/filepath"
	"sort"
	"strings"
	"sync"
	"sync/atomic"
	"testing"

	"github.com/prometheus/prometheus/internal/verif/vx"
	"github.com/prometheus/prometheus/model/labels"
)

// ---- model snapshots ---------------------------------------------------------------------

type c03State map[string]map[int64]map[string]bool // series -> t -> acceptable values

func c03Snap(m *dbModel) c03State {
	out := c03State{}
	for sk, s := range m.series {
		ms := map[int64]map[string]bool{}
		for t, vs := range s.samples {
			c := map[string]bool{}
			for v := range vs {
				c[v] = true
			}
			ms[t] = c
		}
		out[sk] = ms
	}
	return out
}

// ---- crash explorer ----------------------------------------------------------------------

type c03Explorer struct {
	root     string // data directory of the workload DB (with trailing separator)
	cfg      dbxCfg
	states   []c03State // M(0..n)
	hist     []string
	opIdx    atomic.Int64 // index of the operation in flight (1-based); 0 = before the first
	inOp     atomic.Bool
	mu       sync.Mutex
	busy     bool
	points   int
	torn     bool
	fails    []*vx.Fail
	failAt   []string
	seenSigs map[string]bool
	recov    int
	scratch  string
}

func (e *c03Explorer) hook(op, path string, phase, n int) {
	if !strings.HasPrefix(path, e.root) {
		return
	}
	if op == "open" && n&(os.O_CREATE|os.O_TRUNC|os.O_WRONLY|os.O_RDWR|os.O_APPEND) == 0 {
		return // read-only open: not a state change
	}
	if op == "close" || op == "sync" {
		// not a state change for process-crash semantics (data already in the page cache)
		return
	}
	if phase == 1 && !(e.torn && op == "write" && n > 1) {
		return
	}
	e.mu.Lock()
	defer e.mu.Unlock()
	if e.busy {
		return
	}
	e.busy = true
	defer func() { e.busy = false }()
	where := fmt.Sprintf("op#%d(%s) before %s %s", e.opIdx.Load(), e.curOp(), op, strings.TrimPrefix(strings.SplitN(path, "\x00", 2)[0], e.root))
	if phase == 0 {
		e.points++
		e.crashHere(where, nil)
		if op == "removeall" {
			// every partial removal of the tree
			rel := strings.TrimPrefix(path, e.root)
			var files []string
			filepath.Walk(path, func(p string, info os.FileInfo, err error) error {
				if err == nil && !info.IsDir() {
					files = append(files, strings.TrimPrefix(p, e.root))
				}
				return nil
			})
			sort.Strings(files)
			for k := 1; k <= len(files); k++ {
				del := files[:k]
				e.points++
				e.crashHere(fmt.Sprintf("%s (+%d/%d files of %s already removed)", where, k, len(files), rel), func(snap string) {
					for _, f := range del {
						os.Remove(filepath.Join(snap, f))
					}
				})
			}
		}
		return
	}
	// torn write: the write has completed; emulate a crash after only p of its n bytes reached the file
	rel := strings.TrimPrefix(path, e.root)
	for _, p := range []int{1, n / 2, n - 1} {
		if p <= 0 || p >= n {
			continue
		}
		cut := n - p
		e.points++
		e.crashHere(fmt.Sprintf("%s torn after %d of %d bytes", where, p, n), func(snap string) {
			f := filepath.Join(snap, rel)
			if st, err := os.Stat(f); err == nil && st.Size() >= int64(cut) {
				os.Truncate(f, st.Size()-int64(cut))
			}
		})
	}
}

func (e *c03Explorer) curOp() string {
	k := int(e.opIdx.Load())
	if k >= 1 && k <= len(e.hist) {
		return e.hist[k-1]
	}
	return "-"
}

func c03CopyDir(src, dst string) error {
	return filepath.Walk(src, func(p string, info os.FileInfo, err error) error {
		if err != nil {
			if os.IsNotExist(err) {
				return nil
			}
			return err
		}
		rel, _ := filepath.Rel(src, p)
		target := filepath.Join(dst, rel)
		if info.IsDir() {
			return os.MkdirAll(target, 0o777)
		}
		in, err := os.Open(p)
		if err != nil {
			if os.IsNotExist(err) {
				return nil
			}
			return err
		}
		defer in.Close()
		out, err := os.Create(target)
		if err != nil {
			return err
		}
		_, err = io.Copy(out, in)
		out.Close()
		return err
	})
}

// crashHere snapshots the data directory, optionally damages the copy, and runs the recovery oracle.
func (e *c03Explorer) crashHere(where string, mutate func(snap string)) {
	snap, err := os.MkdirTemp(e.scratch, "crash")
	if err != nil {
		panic(err)
	}
	defer os.RemoveAll(snap)
	if err := c03CopyDir(strings.TrimSuffix(e.root, "/"), snap); err != nil {
		panic(fmt.Sprintf("snapshot copy: %v", err))
	}
	if mutate != nil {
		mutate(snap)
	}
	k := int(e.opIdx.Load())
	var L, U []c03State
	if e.inOp.Load() && k >= 1 {
		L = []c03State{e.states[k-1], e.states[k]}
		U = L
	} else {
		L = []c03State{e.states[k]}
		U = L
	}
	e.recov++
	var f *vx.Fail
	if p, stack := vx.Guard(func() { f = c03Recover(e.cfg, snap, L, U) }); p != nil {
		f = vx.Failf("recovery-panic", "%v\n%s", p, stack)
	}
	if f != nil {
		if e.seenSigs == nil {
			e.seenSigs = map[string]bool{}
		}
		if !e.seenSigs[f.Signature] {
			e.seenSigs[f.Signature] = true
			f.Message = "crash at " + where + ": " + f.Message
			e.fails = append(e.fails, f)
			e.failAt = append(e.failAt, where)
		}
	}
}

// c03Recover reopens the crashed copy and checks it. L: every state whose samples must ALL be
// present if present in all of L (intersection); U: union of allowed samples.
func c03Recover(cfg dbxCfg, dir string, L, U []c03State) *vx.Fail {
	opts := cfg.options()
	db, err := Open(dir, nil, nil, opts, nil)
	if err != nil {
		return vx.Failf("reopen-failed", "Open after crash: %v", err)
	}
	db.DisableCompactions()
	x := &dbx{cfg: cfg, db: db, dir: dir, m: newDBModel(dbxR, cfg.W), lastOp: "crash"}
	got, err := x.queryRange(db, db, math.MinInt64, math.MaxInt64, false)
	if err != nil {
		db.Close()
		return vx.Failf("query-error-after-crash", "%v", err)
	}
	retentionCut := int64(math.MinInt64)
	if opts.RetentionDuration > 0 {
		maxB := int64(math.MinInt64)
		for _, b := range db.Blocks() {
			maxB = max(maxB, b.Meta().MaxTime)
		}
		if maxB != math.MinInt64 {
			retentionCut = maxB - opts.RetentionDuration
		}
	}
	// nothing outside U, values unaltered
	for sk, smp := range got {
		last := int64(math.MinInt64)
		for i, s := range smp {
			if i > 0 && s.t <= last {
				db.Close()
				return vx.Failf("not-increasing-after-crash", "series %s: %d after %d", sk, s.t, last)
			}
			last = s.t
			ok, known := false, false
			for _, u := range U {
				if vs := u[sk][s.t]; vs != nil {
					known = true
					if vs[s.val] {
						ok = true
					}
				}
			}
			if !known {
				db.Close()
				return vx.Failf("unwritten-sample-after-crash", "series %s returns t=%d val=%s that was never acknowledged nor in flight (or was deleted)", sk, s.t, s.val)
			}
			if !ok {
				db.Close()
				return vx.Failf("altered-value-after-crash", "series %s t=%d returns %s; written values differ", sk, s.t, s.val)
			}
		}
	}
	// everything in the intersection of L present
	for sk, ms := range L[0] {
		have := map[int64]bool{}
		for _, s := range got[sk] {
			have[s.t] = true
		}
		for t := range ms {
			inAll := true
			for _, l := range L[1:] {
				if l[sk][t] == nil {
					inAll = false
				}
			}
			if inAll && !have[t] && t >= retentionCut {
				db.Close()
				return vx.Failf("acknowledged-sample-lost", "series %s lacks acknowledged sample t=%d after the crash; recovered %v", sk, t, got[sk])
			}
		}
	}
	// the recovered database accepts and keeps a new write
	newT := int64(1 << 40)
	app := db.Appender(context.Background())
	if _, err := app.Append(0, dbxSeries["s1"], newT, 4242); err != nil {
		_ = app.Rollback()
		db.Close()
		return vx.Failf("append-after-recovery-failed", "%v", err)
	}
	if err := app.Commit(); err != nil {
		db.Close()
		return vx.Failf("commit-after-recovery-failed", "%v", err)
	}
	if err := db.Close(); err != nil {
		return vx.Failf("close-after-recovery-failed", "%v", err)
	}
	db2, err := Open(dir, nil, nil, opts, nil)
	if err != nil {
		return vx.Failf("second-reopen-failed", "%v", err)
	}
	defer db2.Close()
	q, err := db2.Querier(newT, newT)
	if err != nil {
		return vx.Failf("query-error-after-crash", "%v", err)
	}
	defer q.Close()
	ss := q.Select(context.Background(), false, nil, labels.MustNewMatcher(labels.MatchEqual, "a", "1"))
	found := false
	for ss.Next() {
		smp, _ := drainSeries(ss.At().Iterator(nil))
		for _, s := range smp {
			if s.t == newT && s.val == canonFloat(4242) {
				found = true
			}
		}
	}
	if !found {
		return vx.Failf("write-after-recovery-lost", "sample appended after recovery is missing after the next reopen")
	}
	return nil
}

// ---- histories ---------------------------------------------------------------------------

type c03History struct {
	Name string   `json:"name"`
	Cfg  string   `json:"cfg"`
	Ops  []string `json:"ops"`
}

func c03Extra(x *dbx) {
	x.extraApply = func(x *dbx, op string, check bool) (bool, *vx.Fail) {
		switch op {
		case "rotate":
			if _, err := x.db.Head().wal.NextSegment(); err != nil {
				return true, vx.Failf("op-error/rotate", "%v", err)
			}
			return true, nil
		}
		return false, nil
	}
}

func c03Scripted() []c03History {
	return []c03History{
		{"rotate-checkpoint", "ooo", []string{"app/s1/F+1/f", "app/s2/F+1/f", "rotate", "app/s1/F+1/f", "rotate", "app/s1/F+1/h", "rotate", "app/s1/F+160/f", "cmphead", "app/s1/F+1/f", "reopen", "app/s1/F+1/f"}},
		{"head+ooo-compaction", "ooo", []string{"app/s1/F+1/f", "app/s1/F-Wh/f", "app/s2/F+1/f", "app/s1/F+160/f", "app/s1/F-Wh/f", "compact", "app/s1/F+1/f", "reopen"}},
		{"block-compaction", "base", []string{"app/s1/F+1/f", "app/s1/F+160/f", "compact", "app/s1/F+160/f", "compact", "app/s1/F+160/f", "compact", "app/s1/F+160/f", "compact", "app/s1/F+160/f", "compact", "reopen"}},
		{"delete-head+blocks", "base", []string{"app/s1/F+1/f", "app/s2/F+1/f", "app/s1/F+160/f", "compact", "app/s1/F+1/f", "del/s1/min/max", "clean", "app/s2/F+1/f", "del/all/F-1/F+1", "reopen"}},
		{"time-retention", "ret", []string{"app/s1/F+1/f", "app/s1/F+160/f", "compact", "app/s1/F+160/f", "compact", "app/s1/F+160/f", "compact", "app/s1/F+160/f", "compact", "reopen"}},
		{"snapshot-shutdown", "ooo+snap", []string{"app/s1/F+1/f", "app/s1/F+1/h", "app/s1/F-Wh/f", "reopen", "app/s1/F+1/f", "reopen"}},
		{"ooo-compaction-neg", "oooneg", []string{"app/s1/F+1/f", "app/s1/F-Wh/f", "cmpooo", "app/s1/F+160/f", "app/s1/F-Wh/h", "compact", "reopen"}},
		{"histograms+rollback", "ooo", []string{"app/s1/F+1/h", "app/s1/F+1/fh", "rb/s1/F+1/f", "app/s1/F+1/f/s2/F+1/f", "app/s1/F+1/st", "rotate", "reopen"}},
		// a deletion straddling the head truncation time, then a WAL checkpoint (3 rotations + head
		// compaction): the checkpoint must carry the tombstone for the part of the range still in the head
		{"delete+checkpoint", "ooo", []string{"app/s1/F+1/f", "app/s2/F+1/f", "app/s1/F+160/f", "del/s1/F-170/F+0", "rotate", "rotate", "rotate", "cmphead", "app/s2/F+1/f", "reopen"}},
	}
}

func c03Configs() map[string]dbxCfg {
	c := dbxConfigs()
	r := c["base"]
	r.Name = "ret"
	c["ret"] = r
	return c
}

// c03RunHistory: pass 1 records the model states, pass 2 replays with the crash hooks on.
func c03RunHistory(h c03History, torn bool) (points, recoveries int, fails []*vx.Fail, opFail *vx.Fail) {
	cfgs := c03Configs()
	cfg := cfgs[h.Cfg]
	if h.Cfg == "ret" {
		cfg.Extra = []string{"ret"}
	}
	// pass 1
	x := newDBX(cfg)
	c03Extra(x)
	states := []c03State{c03Snap(x.m)}
	for _, op := range h.Ops {
		if f := x.Apply(op, false); f != nil {
			x.Close()
			return 0, 0, nil, f
		}
		states = append(states, c03Snap(x.m))
	}
	x.Close()
	// pass 2
	scratch, _ := os.MkdirTemp("", "c03scratch")
	defer os.RemoveAll(scratch)
	y := newDBX(cfg)
	c03Extra(y)
	e := &c03Explorer{root: y.dir + "/", cfg: cfg, states: states, hist: h.Ops, torn: torn, scratch: scratch}
	os.VerifHook = e.hook
	defer func() { os.VerifHook = nil }()
	for i, op := range h.Ops {
		e.opIdx.Store(int64(i + 1))
		e.inOp.Store(true)
		f := y.Apply(op, false)
		e.inOp.Store(false)
		if f != nil {
			os.VerifHook = nil
			y.Close()
			return e.points, e.recov, e.fails, f
		}
		// crash between operations: exactly M(k)
		e.mu.Lock()
		e.busy = true
		e.points++
		e.crashHere(fmt.Sprintf("after op#%d(%s) returned", i+1, op), nil)
		e.busy = false
		e.mu.Unlock()
	}
	os.VerifHook = nil
	y.Close()
	return e.points, e.recov, e.fails, nil
}

func TestVerifC03(t *testing.T) {
	r := vx.Start(t, "C03", "fault_enumeration")
	defer r.Finish()
	if r.Replay != "" {
		var rp struct {
			History c03History `json:"history"`
			Torn    bool       `json:"torn"`
		}
		r.LoadReplay(&rp)
		_, _, fails, opf := c03RunHistory(rp.History, rp.Torn)
		if opf != nil {
			r.Violation("history-op-failed/"+opf.Signature, opf.Message, rp)
		}
		for _, f := range fails {
			r.Violation(f.Signature, f.Message, rp)
		}
		return
	}
	// self-test: the recovery oracle must reject a recovered database that lacks an acknowledged sample
	{
		cfg := dbxConfigs()["base"]
		x := newDBX(cfg)
		x.Apply("app/s1/F+1/f", false)
		st := c03Snap(x.m)
		st["s1"][777] = map[string]bool{"f:0": true} // pretend another sample had been acknowledged
		dir := x.dir
		x.db.Close()
		x.db = nil
		f := c03Recover(cfg, dir, []c03State{st}, []c03State{st})
		os.RemoveAll(dir)
		if f == nil || f.Signature != "acknowledged-sample-lost" {
			t.Fatalf("self-test: oracle accepted a lossy recovery (%v)", f)
		}
	}
	torn := r.Thorough()
	hs := c03Scripted()
	// every dbx history of depth <= d over a small alphabet (no de-duplication: sequence mode)
	depth := vx.Pick(r, 2, 3)
	small := []string{"app/s1/F+1/f", "app/s1/F+0/f", "app/s1/F-Wh/f", "app/s1/F+160/f", "app/s2/F+1/h", "rb/s1/F+1/f", "del/s1/F-1/F+1", "cmphead", "cmpooo", "compact", "clean", "reopen", "rotate"}
	if r.Quick() {
		small = []string{"app/s1/F+1/f", "app/s1/F-Wh/f", "app/s1/F+160/f", "app/s2/F+1/h", "del/s1/F+0/F+1", "cmphead", "compact", "reopen", "rotate"}
	}
	n := vx.SeqCount(len(small), 1, depth)
	for i := int64(0); i < n; i++ {
		seq := vx.SeqAt(len(small), 1, depth, i, nil)
		var ops []string
		for _, s := range seq {
			ops = append(ops, small[s])
		}
		// deletes of out-of-order data are a known finding of C01/C20 (kept out of the crash histories)
		hs = append(hs, c03History{fmt.Sprintf("seq%d", i), "ooo", ops})
	}
	var points, recov int
	for i, h := range hs {
		if !r.Mine(int64(i)) {
			continue
		}
		if r.Expired() {
			break
		}
		p, rc, fails, opf := c03RunHistory(h, torn)
		points += p
		recov += rc
		r.Count("histories", 1)
		if opf != nil {
			// an operation of the history itself failed on the live database: not a crash property,
			// but nothing may fail on these histories
			r.Violation("history-op-failed/"+opf.Signature, fmt.Sprintf("history %s %v: %s", h.Name, h.Ops, opf.Message), map[string]any{"history": h, "torn": torn})
		}
		for _, f := range fails {
			r.Violation(f.Signature, fmt.Sprintf("history %s %v: %s", h.Name, h.Ops, f.Message), map[string]any{"history": h, "torn": torn})
		}
		if i < 9 || i%97 == 0 {
			r.Sample(map[string]any{"history": h, "crash_points": p})
		}
		r.Distinct("distinct_nontrivial", strings.Join(h.Ops, ";"))
	}
	r.Count("crash_points", points)
	r.Count("evaluations", recov)
	r.Set("rule", fmt.Sprintf("9 scripted histories (segment rotation+checkpoint, delete+checkpoint, head/OOO/block compaction, deletes+CleanTombstones, time retention, snapshot on shutdown, negative timestamps, histograms+rollback) plus every dbx operation sequence of length <=%d over a %d-operation alphabet; for each history EVERY mutating file-system call of package os inside the data directory (write, create/truncate-open, rename, remove, mkdir, link, truncate; RemoveAll expanded into every partial removal%s) and every operation boundary is a crash point: the directory is copied, reopened and compared with the model bounds, then a further append+commit+reopen must stick. evaluations = recoveries executed; distinct_nontrivial = distinct histories", depth, len(small), map[bool]string{true: "; torn writes at 1, n/2, n-1 bytes", false: ""}[torn]))
	r.Assume("process-crash semantics: completed system calls are durable in the page cache; fsync/close are not state changes; user-space buffers are lost")
	r.Assume("direct syscalls outside package os (fileutil.Preallocate/Fdatasync, mmap) are not crash points")
}
