package tsdb

// C06: queries racing with compaction see each sample exactly once — engine E2 (controlled
// scheduler, preemption-bounded DFS) on a real tsdb.DB.
//
// Set-up (plain mode, before the controlled part): a DB with block range 100 and OOO window 50
// holding in-order data over three block ranges plus out-of-order data; the background loop is
// quiescent (compactions disabled for it, reload interval 1000h).
// Controlled threads: C = one maintenance operation (head compaction + memory truncation, OOO
// compaction + WBL/OOO-chunk GC, full Compact cycle, block compaction + parent deletion) and
// 1-2 queriers (create, drain every series, close) over ranges that straddle the truncation time.
// Every lock / atomic of tsdb, tsdb/chunks, tsdb/index, tsdb/tombstones is a scheduling point; the
// 500ms polling sleeps of WaitForPendingReaders... are modelled as "not schedulable until another
// thread made a step".
// Oracle per execution: every querier returns exactly the committed samples of its range (each
// once, increasing); the maintenance operation returns nil and terminates (no deadlock/livelock).

import (
	"context"
	"encoding/json"
	"fmt"
	"math"
	"os"
	"sort"
	"strings"
	"testing"
	"time"

	"github.com/prometheus/prometheus/internal/verif/vsched"
	"github.com/prometheus/prometheus/internal/verif/vx"
	"github.com/prometheus/prometheus/model/labels"
	"github.com/prometheus/prometheus/tsdb/chunkenc"
)

type c06Scenario struct {
	Name     string
	Maint    string     // cmphead | cmpooo | compact | cmpblocks
	Ranges   [][2]int64 // one querier per range
	PreBlock int        // number of head compactions performed in set-up
	// Appender: an extra thread commits one out-of-order sample (s1@575) while the maintenance runs;
	// CrashCheck: afterwards the live directory is copied (= kill -9 image), reopened, and every
	// acknowledged sample must be there (C03 meets C06: a crash right after concurrent maintenance).
	Appender   bool
	CrashCheck bool
}

func c06Scenarios() []c06Scenario {
	full := [2]int64{math.MinInt64, math.MaxInt64}
	return []c06Scenario{
		// (cheap scenario first: it shares its shard with the last scenario of the list)
		{"cmpblocks/q-full", "cmpblocks", [][2]int64{full}, 4, false, false},
		{"cmphead/q-truncated-range", "cmphead", [][2]int64{{0, 99}}, 0, false, false},
		{"cmphead/q-straddling", "cmphead", [][2]int64{{50, 150}}, 0, false, false},
		{"cmpooo/q-full", "cmpooo", [][2]int64{full}, 0, false, false},
		{"compact/q-full", "compact", [][2]int64{full}, 0, false, false},
		{"cmphead/2q", "cmphead", [][2]int64{full, {0, 120}}, 0, false, false},
		{"cmphead/q-old-ooo", "cmphead", [][2]int64{{0, 425}}, 0, false, false},
		{"cmphead/q-full", "cmphead", [][2]int64{full}, 0, false, false},
		{"cmpooo+ooo-append/crash", "cmpooo", [][2]int64{full}, 0, true, true},
		{"compact+ooo-append/crash", "compact", nil, 0, true, true},
		// Only the memory-truncation protocol is controlled (block written and loaded in set-up, i.e. the
		// first two steps of compactHead), and the query is handed over between two threads: one creates
		// the querier and collects the first series' chunk metas, a second one drains. A blocked/finished
		// thread switches for free, so "querier opened after the pending-readers check, read after the
		// GC" needs ONE preemption instead of two, on a short trace.
		{"truncmem/q-split", "truncmem", [][2]int64{full}, 0, false, false},
	}
}

var c06Data = map[string][]int64{ // in-order timestamps per series; value = float64(t)
	"s1": {10, 60, 110, 160, 210, 260, 310, 360, 410, 460},
	"s2": {20, 120, 220, 320, 420},
}
var c06OOO = map[string][]int64{ // appended after the in-order data (window 50 below 460)
	// s1 (out-of-order chunk capacity 4): first chunk 440..443, second chunk holds OLDER data
	// 420..423, the newest out-of-order sample 455 stays in the in-memory chunk
	"s1": {440, 441, 442, 443, 420, 421, 422, 423, 455},
	"s2": {450},
}

// appended last: moves the head max time on, so that headMaxt - window no longer bounds the
// out-of-order data from below
var c06Late = map[string][]int64{"s1": {620}}

type c06Obs struct {
	appended bool // the concurrent appender's Commit returned nil
	appErr   string
	dir      string
	db       *DB
	maintErr string
	truncT   int64 // truncmem: truncation time of the block written in set-up
	results  []map[string][]int64
	qErr     []string
	expected map[string][]int64
}

func c06Setup(sc c06Scenario, obs *c06Obs) {
	dir, err := os.MkdirTemp("", "c06")
	if err != nil {
		panic(err)
	}
	obs.dir = dir
	cfg := dbxConfigs()["ooo"]
	db, err := Open(dir, nil, nil, cfg.options(), nil)
	if err != nil {
		panic(err)
	}
	db.DisableCompactions()
	obs.db = db
	ctx := context.Background()
	obs.expected = map[string][]int64{}
	app := func(sk string, t int64) {
		a := db.Appender(ctx)
		if _, err := a.Append(0, dbxSeries[sk], t, float64(t)); err != nil {
			panic(fmt.Sprintf("c06 setup append %s@%d: %v", sk, t, err))
		}
		if err := a.Commit(); err != nil {
			panic(err)
		}
		obs.expected[sk] = append(obs.expected[sk], t)
	}
	// interleave series so that the head max time grows steadily
	type st struct {
		sk string
		t  int64
	}
	var all []st
	for sk, ts := range c06Data {
		for _, t := range ts {
			all = append(all, st{sk, t})
		}
	}
	sort.Slice(all, func(i, j int) bool { return all[i].t < all[j].t })
	for _, x := range all {
		app(x.sk, x.t)
	}
	for sk, ts := range c06OOO {
		for _, t := range ts {
			app(sk, t)
		}
	}
	for sk, ts := range c06Late {
		for _, t := range ts {
			app(sk, t)
		}
	}
	for sk := range obs.expected {
		sort.Slice(obs.expected[sk], func(i, j int) bool { return obs.expected[sk][i] < obs.expected[sk][j] })
	}
	if sc.Maint == "truncmem" {
		h := db.Head()
		mint := h.MinTime()
		rh := NewRangeHead(h, mint, rangeForTimestamp(mint, dbxR)-1)
		db.cmtx.Lock()
		if _, err := db.compactor.Write(db.dir, rh, rh.MinTime(), rh.BlockMaxTime(), nil); err != nil {
			panic(err)
		}
		if err := db.reloadBlocks(); err != nil {
			panic(err)
		}
		db.cmtx.Unlock()
		obs.truncT = rh.BlockMaxTime()
	}
	for i := 0; i < sc.PreBlock; i++ {
		h := db.Head()
		mint := h.MinTime()
		maxt := rangeForTimestamp(mint, dbxR)
		if err := db.CompactHead(NewRangeHead(h, mint, maxt-1)); err != nil {
			panic(err)
		}
	}
}

func c06Body(sc c06Scenario, obs *c06Obs) func() {
	c06Setup(sc, obs)
	db := obs.db
	obs.results = make([]map[string][]int64, len(sc.Ranges))
	obs.qErr = make([]string, len(sc.Ranges))
	return func() {
		var ths []*vsched.Thread
		ths = append(ths, vsched.GoNamed("maint", func() {
			var err error
			switch sc.Maint {
			case "cmphead":
				h := db.Head()
				mint := h.MinTime()
				maxt := rangeForTimestamp(mint, dbxR)
				err = db.CompactHead(NewRangeHead(h, mint, maxt-1))
			case "cmpooo":
				err = db.CompactOOOHead(context.Background())
			case "compact":
				err = db.Compact(context.Background())
			case "cmpblocks":
				db.cmtx.Lock()
				err = db.compactBlocks()
				db.cmtx.Unlock()
			case "truncmem":
				db.cmtx.Lock()
				err = db.head.truncateMemory(obs.truncT)
				db.cmtx.Unlock()
			}
			if err != nil {
				obs.maintErr = err.Error()
			}
		}))
		if sc.Appender {
			ths = append(ths, vsched.GoNamed("app", func() {
				a := db.Appender(context.Background())
				if _, err := a.Append(0, dbxSeries["s1"], 575, 575); err != nil {
					obs.appErr = err.Error()
					_ = a.Rollback()
					return
				}
				if err := a.Commit(); err != nil {
					obs.appErr = err.Error()
					return
				}
				obs.appended = true
			}))
		}
		for qi, rg := range sc.Ranges {
			qi, rg := qi, rg
			ths = append(ths, vsched.GoNamed(fmt.Sprintf("q%d", qi), func() {
				q, err := db.Querier(rg[0], rg[1])
				if err != nil {
					obs.qErr[qi] = err.Error()
					return
				}
				res := map[string][]int64{}
				ss := q.Select(context.Background(), true, nil, labels.MustNewMatcher(labels.MatchEqual, "__name__", "m"))
				rest := func(have bool) {
					for have || ss.Next() {
						have = false
						s := ss.At()
						sk := seriesKeyOf(s.Labels())
						it := s.Iterator(nil)
						for it.Next() == chunkenc.ValFloat {
							t, v := it.At()
							if v != float64(t) {
								obs.qErr[qi] = fmt.Sprintf("series %s t=%d has value %v", sk, t, v)
							}
							res[sk] = append(res[sk], t)
						}
						if it.Err() != nil {
							obs.qErr[qi] = it.Err().Error()
						}
					}
					if ss.Err() != nil {
						obs.qErr[qi] = ss.Err().Error()
					}
					if err := q.Close(); err != nil {
						obs.qErr[qi] = err.Error()
					}
					obs.results[qi] = res
				}
				if strings.HasSuffix(sc.Name, "/q-split") && ss.Next() {
					// the first series' chunk metas are collected; another thread drains
					d := vsched.GoNamed(fmt.Sprintf("q%d-drain", qi), func() { rest(true) })
					vsched.WaitFor(d)
					return
				}
				rest(false)
			}))
		}
		vsched.WaitFor(ths...)
	}
}

func c06Eval(sc c06Scenario, tr vsched.Trace, obs *c06Obs) (string, string) {
	if tr.Fail != "" {
		switch {
		case tr.Deadlock:
			return "deadlock", tr.Fail
		case tr.Livelock:
			return "livelock", tr.Fail
		}
		return "execution-failed", tr.Fail
	}
	if obs.maintErr != "" {
		return "maintenance-error/" + sc.Maint, obs.maintErr
	}
	for qi, rg := range sc.Ranges {
		if obs.qErr[qi] != "" {
			return "querier-error", fmt.Sprintf("querier %d [%d,%d]: %s", qi, rg[0], rg[1], obs.qErr[qi])
		}
		got := obs.results[qi]
		for sk, exp := range obs.expected {
			var want []int64
			for _, t := range exp {
				if t >= rg[0] && t <= rg[1] {
					want = append(want, t)
				}
			}
			g := got[sk]
			if sc.Appender && sk == "s1" { // a sample committed concurrently may or may not be visible
				var g2 []int64
				for _, t := range g {
					if t != 575 {
						g2 = append(g2, t)
					}
				}
				g = g2
			}
			for i := 1; i < len(g); i++ {
				if g[i] == g[i-1] {
					return "sample-duplicated", fmt.Sprintf("querier %d [%d,%d] racing with %s: series %s returns t=%d twice: %v", qi, rg[0], rg[1], sc.Maint, sk, g[i], g)
				}
				if g[i] < g[i-1] {
					return "samples-not-increasing", fmt.Sprintf("querier %d: series %s: %v", qi, sk, g)
				}
			}
			if fmt.Sprint(g) != fmt.Sprint(want) {
				kind := "sample-missing"
				if len(g) > len(want) {
					kind = "sample-extra"
				}
				return kind, fmt.Sprintf("querier %d [%d,%d] racing with %s: series %s returns %v, committed before the query started: %v", qi, rg[0], rg[1], sc.Maint, sk, g, want)
			}
		}
	}
	if sc.Appender && obs.appErr != "" {
		return "concurrent-append-error", obs.appErr
	}
	if sc.CrashCheck {
		// kill -9 image of the directory as it is now; every acknowledged sample must survive
		img, _ := os.MkdirTemp("", "c06crash")
		defer os.RemoveAll(img)
		if err := dbxCopyDir(obs.dir, img); err != nil {
			panic(err)
		}
		db2, err := Open(img, nil, nil, dbxConfigs()["ooo"].options(), nil)
		if err != nil {
			return "reopen-after-crash-failed", err.Error()
		}
		x := &dbx{db: db2, m: newDBModel(dbxR, 50)}
		res, err := x.queryRange(db2, db2, math.MinInt64, math.MaxInt64, false)
		db2.Close()
		if err != nil {
			return "query-after-crash-failed", err.Error()
		}
		for sk, exp := range obs.expected {
			want := append([]int64{}, exp...)
			if sk == "s1" && obs.appended {
				want = append(want, 575)
				sort.Slice(want, func(i, j int) bool { return want[i] < want[j] })
			}
			have := map[int64]bool{}
			for _, smp := range res[sk] {
				have[smp.t] = true
			}
			for _, t := range want {
				if !have[t] {
					return "acknowledged-sample-lost-after-crash", fmt.Sprintf("after %s with a concurrent out-of-order append and a crash: series %s lacks acknowledged sample t=%d; recovered %v", sc.Maint, sk, t, res[sk])
				}
			}
		}
	}
	return "", ""
}

func c06Cleanup(obs *c06Obs) {
	if obs.db != nil {
		done := make(chan struct{})
		go func() { _ = obs.db.Close(); close(done) }()
		select {
		case <-done:
		case <-time.After(20 * time.Second): // a failed execution may have left locks held
		}
	}
	os.RemoveAll(obs.dir)
}

type c06Replay struct {
	Scenario string `json:"scenario"`
	Choices  []int  `json:"choices"`
}

func TestVerifC06(t *testing.T) {
	r := vx.Start(t, "C06", "model_checking")
	defer r.Finish()
	scs := c06Scenarios()
	byName := map[string]c06Scenario{}
	for _, s := range scs {
		byName[s.Name] = s
	}
	runOne := func(sc c06Scenario, prefix []int) (vsched.Trace, *c06Obs) {
		obs := &c06Obs{}
		body := c06Body(sc, obs)
		tr := vsched.Run(body, prefix, nil, 200000)
		return tr, obs
	}
	if r.Replay != "" {
		var rp c06Replay
		r.LoadReplay(&rp)
		sc := byName[rp.Scenario]
		var sigs []string
		for i := 0; i < 2; i++ {
			tr, obs := runOne(sc, rp.Choices)
			sig, msg := c06Eval(sc, tr, obs)
			if i == 0 {
				t.Logf("replay: points=%d fail=%q results=%v expected=%v minOOO=%d maxOOO=%d", len(tr.Points), tr.Fail, obs.results, obs.expected, obs.db.Head().MinOOOTime(), obs.db.Head().MaxOOOTime())
			}
			c06Cleanup(obs)
			sigs = append(sigs, sig)
			if i == 1 && sig != "" {
				r.Violation(sig, msg, rp)
			}
		}
		if sigs[0] != sigs[1] {
			t.Fatalf("nondeterministic replay %v", sigs)
		}
		return
	}
	// self-test of the oracle
	{
		sc := scs[0]
		obs := &c06Obs{expected: map[string][]int64{"s1": {10, 60}}, results: []map[string][]int64{{"s1": {10}}}, qErr: []string{""}}
		if sig, _ := c06Eval(sc, vsched.Trace{}, obs); sig != "sample-missing" {
			t.Fatalf("self-test: oracle did not flag a missing sample (%q)", sig)
		}
	}
	if os.Getenv("VERIF_RACE") == "1" {
		// Free-running pass under the race detector (sampling of schedules, not model checking): the
		// same bodies with real goroutines and plain primitives; the runner turns a race report into a
		// violation. The oracle is evaluated too.
		iters := vx.Pick(r, 6, 40)
		n := 0
		for _, sc := range scs {
			for i := 0; i < iters && !r.Expired(); i++ {
				obs := &c06Obs{}
				c06Body(sc, obs)()
				n++
				if sig, msg := c06Eval(sc, vsched.Trace{}, obs); sig != "" {
					r.Violation("free-running/"+sig, fmt.Sprintf("scenario %s (free-running): %s", sc.Name, msg), map[string]any{"scenario": sc.Name, "free_running": true})
				}
				c06Cleanup(obs)
			}
		}
		r.Count("race_pass_iterations", n)
		r.Count("states", 1)
		r.Count("transitions", 1)
		r.Count("traces_validated_against_impl", 0)
		r.Sample(map[string]any{"race_pass": "free-running iterations of every scenario under -race", "iterations": n})
		return
	}
	bound := vx.Pick(r, 1, 2)
	deadline := time.Now().Add(time.Duration(vx.Pick(r, 75, 1300)) * time.Second)
	var execs, points int64
	complete := true
	per := map[string]any{}
	for si, sc := range scs {
		if r.NShards > 1 && si%r.NShards != r.Shard {
			continue
		}
		outcomes := map[string]int{}
		var last vsched.Result
		completedBound := -1
		for b := 0; b <= bound; b++ {
			var cur *c06Obs
			mk := func() func() {
				cur = &c06Obs{}
				return c06Body(sc, cur)
			}
			last = vsched.Explore(mk, vsched.Opts{MaxPreemptions: b, Horizon: 200000, OnlyShared: true, Deadline: deadline}, func(tr vsched.Trace, choices []int) bool {
				obs := cur
				sig, msg := c06Eval(sc, tr, obs)
				c06Cleanup(obs)
				if sig != "" {
					same := 0
					for k := 0; k < 5; k++ {
						tr2, obs2 := runOne(sc, choices)
						s2, _ := c06Eval(sc, tr2, obs2)
						c06Cleanup(obs2)
						if s2 == sig {
							same++
						}
					}
					if same != 5 {
						t.Fatalf("violation %q of scenario %s does not replay deterministically (%d/5): %s", sig, sc.Name, same, msg)
					}
					r.Violation(sig, fmt.Sprintf("scenario %s, preemption bound %d: %s", sc.Name, b, msg), c06Replay{sc.Name, choices})
					outcomes["VIOLATION:"+sig]++
					return r.Violations() < 6
				}
				// outcome class: how far the maintenance got relative to the querier is visible in
				// where the querier's data came from; use the number of points as a coarse class
				outcomes[fmt.Sprintf("ok/points~%d", len(tr.Points)/50)]++
				return true
			})
			if len(last.ToolFailures) > 0 {
				t.Fatalf("scheduler tool failure in scenario %s: %v", sc.Name, last.ToolFailures)
			}
			execs += last.Executions
			points += last.Points
			if !last.Complete {
				complete = false
				break
			}
			completedBound = b
		}
		per[sc.Name] = map[string]any{"preemption_bound_completed": completedBound, "max_points": last.MaxPoints, "schedules_last_bound": last.Executions}
		b, _ := json.Marshal(outcomes)
		r.Sample(map[string]any{"scenario": sc.Name, "outcomes": string(b)})
	}
	if !complete {
		r.NotExhaustive("deadline reached before the preemption bound was completed for every scenario (see scenarios.preemption_bound_completed)")
	}
	r.Count("schedules", int(execs))
	r.Count("states", int(points))
	r.Count("transitions", int(points))
	r.Count("traces_validated_against_impl", int(execs))
	r.Set("preemption_bound", bound)
	r.Set("scenarios", per)
	r.Assume("sequential consistency at scheduling points (locks, atomics, wait groups, condition variables of tsdb, tsdb/chunks, tsdb/index, tsdb/tombstones); the WAL actor goroutine and the quiescent DB.run loop are not controlled")
	r.Assume("branching only at objects touched by >= 2 threads in the same execution; polling sleeps are modelled as blocking until another thread steps")
	_ = strings.Join
}
