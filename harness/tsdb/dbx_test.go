package tsdb

// dbx: the common TSDB history harness (DESIGN §6). A real tsdb.DB in /dev/shm with block
// range R=100, background activity disabled, operations applied synchronously, and the
// reference model of dbx_model_test.go kept in lock-step. Implements vx.Sys so histories can be
// explored by explicit-state BFS.

import (
	"context"
	"errors"
	"fmt"
	"math"
	"os"
	"path/filepath"
	"runtime/debug"
	"sort"
	"strconv"
	"strings"
	"time"

	"github.com/prometheus/prometheus/internal/verif/vx"
	"github.com/prometheus/prometheus/model/histogram"
	"github.com/prometheus/prometheus/model/labels"
	"github.com/prometheus/prometheus/model/value"
	"github.com/prometheus/prometheus/storage"
	"github.com/prometheus/prometheus/tsdb/chunkenc"
	"github.com/prometheus/prometheus/tsdb/chunks"
	"github.com/prometheus/prometheus/tsdb/tombstones"
	"github.com/prometheus/prometheus/tsdb/tsdbutil"
	"github.com/prometheus/prometheus/tsdb/wlog"
)

const dbxR = 100 // block range / head chunk range

type dbxCfg struct {
	Name        string
	W           int64 // out-of-order window
	T0          int64 // timestamp of the first sample of a history
	V2          bool  // use AppenderV2
	XOR2        bool
	ST          bool // start-timestamp storage (requires XOR2)
	NoIso       bool
	Overlap     bool // overlapping compaction
	Snapshot    bool // snapshot on shutdown
	FastStartup bool
	Alphabet    string // "small" | "medium" | "full"
	Extra       []string
}

func dbxConfigs() map[string]dbxCfg {
	l := []dbxCfg{
		{Name: "base", W: 0, T0: 50},
		{Name: "ooo", W: 50, T0: 130},
		{Name: "oooneg", W: 50, T0: -130},
		{Name: "ooo+xor2+st", W: 50, T0: 130, XOR2: true, ST: true, V2: true},
		{Name: "noiso", W: 0, T0: 50, NoIso: true},
		{Name: "ooo+overlap", W: 50, T0: 130, Overlap: true},
		{Name: "snap", W: 0, T0: 50, Snapshot: true},
		{Name: "ooo+snap", W: 50, T0: 130, Snapshot: true},
		{Name: "v2", W: 50, T0: 130, V2: true},
	}
	m := map[string]dbxCfg{}
	for _, c := range l {
		m[c.Name] = c
	}
	return m
}

func (c dbxCfg) options() *Options {
	o := DefaultOptions()
	o.MinBlockDuration = dbxR
	o.MaxBlockDuration = dbxR * 9
	o.WALSegmentSize = 2 * 32 * 1024
	o.SamplesPerChunk = 4
	o.StripeSize = 8
	o.NoLockfile = true
	o.HeadChunksWriteQueueSize = 0
	o.WALReplayConcurrency = 1
	o.HeadChunksWriteBufferSize = 64 * 1024
	o.RetentionDuration = 0
	o.OutOfOrderTimeWindow = c.W
	o.OutOfOrderCapMax = 4
	o.IsolationDisabled = c.NoIso
	o.EnableOverlappingCompaction = c.Overlap
	o.EnableMemorySnapshotOnShutdown = c.Snapshot
	o.EnableFastStartup = c.FastStartup
	o.BlockReloadInterval = 1000 * time.Hour
	o.EnableSTStorage = c.ST
	if c.XOR2 {
		o.FloatChunkEncoding = chunkenc.EncXOR2
	}
	for _, e := range c.Extra {
		if e == "ret" {
			o.RetentionDuration = 250
		}
	}
	return o
}

var dbxSeries = map[string]labels.Labels{
	"s1": labels.FromStrings("__name__", "m", "a", "1"),
	"s2": labels.FromStrings("__name__", "m", "a", "2"),
	"s3": labels.FromStrings("__name__", "m", "a", "3"),
}

type dbx struct {
	cfg    dbxCfg
	dir    string
	db     *DB
	m      *dbModel
	step   int
	lastOp string
	hist   []string
	// hooks for harnesses that extend dbx
	extraOps   func(x *dbx) []string
	extraApply func(x *dbx, op string, check bool) (handled bool, f *vx.Fail)
	extraCheck func(x *dbx) *vx.Fail
	extraKey   func(x *dbx) string
	noQueryChk bool
	// syncEvicted: harnesses whose alphabet evicts series from the head (stale-series /
	// selected-series compaction) re-base the model's "newest in-order sample" on the head: a
	// series that is no longer in the head has none.
	syncEvicted bool
	// ident: float values encode the series they were appended with (C22).
	ident bool
	// refs: last reference returned by an append for each series; useRef makes the next
	// transaction append through those (possibly outdated) references.
	refs   map[string]storage.SeriesRef
	useRef bool
	thorough bool
	light    bool
	// soft reports a violation without failing the transition (known-finding classes for which
	// the model is tolerant, so that exploration continues behind them).
	soft func(sig, msg string)
}

func newDBX(cfg dbxCfg) *dbx {
	dir, err := os.MkdirTemp("", "dbx")
	if err != nil {
		panic(err)
	}
	x := &dbx{cfg: cfg, dir: dir, m: newDBModel(dbxR, cfg.W)}
	if err := x.open(); err != nil {
		panic(fmt.Sprintf("dbx: initial open failed: %v", err))
	}
	return x
}

func (x *dbx) open() error {
	db, err := Open(x.dir, nil, nil, x.cfg.options(), nil)
	if err != nil {
		return err
	}
	db.DisableCompactions()
	x.db = db
	return nil
}

// dbxCopyDir copies a data directory as it is (used for unclean restarts).
func dbxCopyDir(src, dst string) error {
	return filepath.Walk(src, func(p string, info os.FileInfo, err error) error {
		if err != nil {
			return nil
		}
		rel, _ := filepath.Rel(src, p)
		target := filepath.Join(dst, rel)
		if info.IsDir() {
			return os.MkdirAll(target, 0o777)
		}
		b, err := os.ReadFile(p)
		if err != nil {
			return nil
		}
		return os.WriteFile(target, b, 0o666)
	})
}

func (x *dbx) Close() {
	if x.db != nil {
		_ = x.db.Close()
		x.db = nil
	}
	os.RemoveAll(x.dir)
}

// frontier F: newest committed in-order timestamp of the model (T0 before the first sample).
func (x *dbx) frontier() int64 {
	f, ok := int64(math.MinInt64), false
	for _, s := range x.m.series {
		if s.hasInOrder && (!ok || s.inOrderMax > f) {
			f, ok = s.inOrderMax, true
		}
	}
	if !ok {
		return x.cfg.T0 - 1
	}
	return f
}

func floorDiv(a, b int64) int64 {
	q := a / b
	if a%b != 0 && (a < 0) != (b < 0) {
		q--
	}
	return q
}

// resolveT turns a relative time spec into an absolute timestamp.
func (x *dbx) resolveT(spec string) int64 {
	F := x.frontier()
	B := (floorDiv(F, dbxR) + 1) * dbxR // next block boundary strictly above F
	W := x.cfg.W
	switch {
	case strings.HasPrefix(spec, "F"):
		rest := spec[1:]
		rest = strings.ReplaceAll(rest, "Wh", strconv.FormatInt(W/2, 10))
		rest = strings.ReplaceAll(rest, "W", strconv.FormatInt(W, 10))
		rest = strings.ReplaceAll(rest, "R", strconv.FormatInt(dbxR, 10))
		return F + evalSum(rest)
	case strings.HasPrefix(spec, "B"):
		return B + evalSum(strings.ReplaceAll(spec[1:], "R", strconv.FormatInt(dbxR, 10)))
	case spec == "min":
		return math.MinInt64
	case spec == "max":
		return math.MaxInt64
	}
	v, err := strconv.ParseInt(spec, 10, 64)
	if err != nil {
		panic("bad time spec " + spec)
	}
	return v
}

// evalSum evaluates strings like "+1", "-50-1", "" as a sum of signed integers.
func evalSum(s string) int64 {
	var total int64
	i := 0
	for i < len(s) {
		j := i + 1
		for j < len(s) && s[j] != '+' && s[j] != '-' {
			j++
		}
		v, err := strconv.ParseInt(s[i:j], 10, 64)
		if err != nil {
			panic("bad sum " + s)
		}
		total += v
		i = j
	}
	return total
}

// mkValue builds the concrete value for a value kind; returns canonical string too.
func (x *dbx) mkValue(sk, kind string) (f float64, h *histogram.Histogram, fh *histogram.FloatHistogram, canon string) {
	n := int64(x.step)
	switch kind {
	case "f":
		f = float64(1000 + n)
		if x.ident {
			f += 1e6 * float64(sk[1]-'0')
		}
		return f, nil, nil, canonFloat(f)
	case "g": // bit-identical to the series' newest in-order value when that is a float
		if s := x.m.series[sk]; s != nil && s.hasInOrder && strings.HasPrefix(s.lastVal, "f:") {
			bits, _ := strconv.ParseUint(s.lastVal[2:], 16, 64)
			f = math.Float64frombits(bits)
			return f, nil, nil, canonFloat(f)
		}
		f = float64(1000 + n)
		return f, nil, nil, canonFloat(f)
	case "st":
		f = math.Float64frombits(value.StaleNaN)
		return f, nil, nil, "stale"
	case "h":
		h = tsdbutil.GenerateTestHistogram(n)
		return 0, h, nil, canonHist(h)
	case "fh":
		fh = tsdbutil.GenerateTestFloatHistogram(n)
		return 0, nil, fh, canonFloatHist(fh)
	}
	panic("bad value kind " + kind)
}

func errClass(err error) string {
	switch {
	case err == nil:
		return "ok"
	case errors.Is(err, storage.ErrOutOfBounds):
		return mErrOOB
	case errors.Is(err, storage.ErrOutOfOrderSample):
		return mErrOOO
	case errors.Is(err, storage.ErrTooOldSample):
		return mErrOld
	case errors.Is(err, storage.ErrDuplicateSampleForTimestamp):
		return mErrDup
	}
	return "err-other:" + err.Error()
}

func modelErrClass(c string) string {
	switch c {
	case mInOrder, mNoop, mOOO:
		return "ok"
	}
	return c
}

type dbxApp struct {
	v1 storage.Appender
	v2 storage.AppenderV2
}

func (x *dbx) appender() dbxApp {
	if x.cfg.V2 {
		return dbxApp{v2: x.db.AppenderV2(context.Background())}
	}
	return dbxApp{v1: x.db.Appender(context.Background())}
}

func (a dbxApp) append(l labels.Labels, t int64, f float64, h *histogram.Histogram, fh *histogram.FloatHistogram) error {
	_, err := a.appendRef(0, l, t, f, h, fh)
	return err
}

func (a dbxApp) appendRef(ref storage.SeriesRef, l labels.Labels, t int64, f float64, h *histogram.Histogram, fh *histogram.FloatHistogram) (storage.SeriesRef, error) {
	if a.v2 != nil {
		return a.v2.Append(ref, l, 0, t, f, h, fh, storage.AOptions{})
	}
	if h != nil || fh != nil {
		return a.v1.AppendHistogram(ref, l, t, h, fh)
	}
	return a.v1.Append(ref, l, t, f)
}

func (a dbxApp) commit() error {
	if a.v2 != nil {
		return a.v2.Commit()
	}
	return a.v1.Commit()
}

func (a dbxApp) rollback() error {
	if a.v2 != nil {
		return a.v2.Rollback()
	}
	return a.v1.Rollback()
}

// txn runs one transaction of (series,timeSpec,valueKind) triples; commit or rollback.
func (x *dbx) txn(triples []string, rollback bool) *vx.Fail {
	h := x.db.Head()
	if x.syncEvicted {
		for sk, ms := range x.m.series {
			if h.series.getByHash(dbxSeries[sk].Hash(), dbxSeries[sk]) == nil {
				ms.hasInOrder = false
			}
		}
	}
	mtx := x.m.begin(h.initialized(), h.MaxTime(), h.minValidTime.Load())
	app := x.appender()
	for i := 0; i+3 <= len(triples); i += 3 {
		sk, tspec, kind := triples[i], triples[i+1], triples[i+2]
		t := x.resolveT(tspec)
		f, hh, fh, canon := x.mkValue(sk, kind)
		// the caller's histogram must stay semantically unchanged (checked below)
		var before string
		if hh != nil {
			before = canonHist(hh)
		} else if fh != nil {
			before = canonFloatHist(fh)
		}
		var ref storage.SeriesRef
		if x.useRef {
			ref = x.refs[sk]
		}
		newRef, err := app.appendRef(ref, dbxSeries[sk], t, f, hh, fh)
		if err == nil && x.refs != nil {
			x.refs[sk] = newRef
		}
		want := mtx.append(sk, t, canon)
		if got := errClass(err); got != modelErrClass(want) && !(want == mNoopOrDup && (got == "ok" || got == mErrDup)) {
			_ = app.rollback()
			return vx.Failf("admission-mismatch/"+modelErrClass(want)+"->"+strings.SplitN(got, ":", 2)[0],
				"append %s t=%d %s (spec %s): model says %s, implementation returned %v (windows at appender creation: headMaxt=%d minValid=%d W=%d)", sk, t, kind, tspec, want, err, mtx.headMaxt, mtx.minValid, x.cfg.W)
		}
		if hh != nil && canonHist(hh) != before || fh != nil && canonFloatHist(fh) != before {
			return vx.Failf("caller-histogram-mutated", "append %s t=%d %s changed the caller's histogram", sk, t, kind)
		}
	}
	if rollback {
		mtx.rollback()
		if err := app.rollback(); err != nil {
			return vx.Failf("rollback-error", "rollback: %v", err)
		}
		return nil
	}
	if err := app.commit(); err != nil {
		return vx.Failf("commit-error", "commit: %v", err)
	}
	mtx.commit()
	return nil
}

func (x *dbx) Apply(op string, check bool) (fail *vx.Fail) {
	x.step++
	x.lastOp = op
	x.hist = append(x.hist, op)
	defer func() {
		if p := recover(); p != nil {
			fail = vx.Failf("panic/"+strings.SplitN(op, "/", 2)[0], "op %s panicked: %v\n%s", op, p, debug.Stack())
		}
	}()
	if x.extraApply != nil {
		if handled, f := x.extraApply(x, op, check); handled {
			if f != nil {
				return f
			}
			return x.maybeCheck(check)
		}
	}
	p := strings.Split(op, "/")
	ctx := context.Background()
	switch p[0] {
	case "app":
		if f := x.txn(p[1:], false); f != nil {
			return f
		}
	case "rb":
		if f := x.txn(p[1:], true); f != nil {
			return f
		}
	case "del":
		sel := p[1]
		lo, hi := x.resolveT(p[2]), x.resolveT(p[3])
		var ms *labels.Matcher
		msk := ""
		if sel == "all" {
			ms = labels.MustNewMatcher(labels.MatchEqual, "__name__", "m")
		} else {
			ms = labels.MustNewMatcher(labels.MatchEqual, "a", dbxSeries[sel].Get("a"))
			msk = sel
		}
		if err := x.db.Delete(ctx, lo, hi, ms); err != nil {
			return vx.Failf("op-error/del", "Delete(%d,%d,%s): %v", lo, hi, sel, err)
		}
		x.m.delete(msk, lo, hi)
	case "cmphead":
		h := x.db.Head()
		if !h.initialized() {
			break
		}
		mint := h.MinTime()
		maxt := rangeForTimestamp(mint, dbxR)
		if err := x.db.CompactHead(NewRangeHead(h, mint, maxt-1)); err != nil {
			return vx.Failf("op-error/cmphead", "CompactHead[%d,%d]: %v", mint, maxt-1, err)
		}
	case "cmpooo":
		if err := x.db.CompactOOOHead(ctx); err != nil {
			return vx.Failf("op-error/cmpooo", "CompactOOOHead: %v", err)
		}
	case "compact":
		// DB.Compact is what the background loop runs; compactions were disabled for the loop only.
		if err := x.db.Compact(ctx); err != nil {
			return vx.Failf("op-error/compact", "Compact: %v", err)
		}
	case "clean":
		if err := x.db.CleanTombstones(); err != nil {
			return vx.Failf("op-error/clean", "CleanTombstones: %v", err)
		}
	case "mmap":
		x.db.ForceHeadMMap()
	case "rotate":
		if _, err := x.db.Head().wal.NextSegment(); err != nil {
			return vx.Failf("op-error/rotate", "%v", err)
		}
	case "reopen":
		if err := x.db.Close(); err != nil {
			x.db = nil
			return vx.Failf("op-error/close", "Close: %v", err)
		}
		x.db = nil
		if err := x.open(); err != nil {
			return vx.Failf("op-error/open", "reopen: %v", err)
		}
	default:
		panic("dbx: unknown op " + op)
	}
	return x.maybeCheck(check)
}

func (x *dbx) maybeCheck(check bool) *vx.Fail {
	if !check {
		return nil
	}
	if !x.noQueryChk {
		if f := x.checkQueries(); f != nil {
			return f
		}
	}
	if x.extraCheck != nil {
		return x.extraCheck(x)
	}
	return nil
}

// ---- oracle -------------------------------------------------------------------------------

type qSample struct {
	t   int64
	val string
}

func drainSeries(it chunkenc.Iterator) ([]qSample, error) {
	var out []qSample
	for vt := it.Next(); vt != chunkenc.ValNone; vt = it.Next() {
		switch vt {
		case chunkenc.ValFloat:
			t, v := it.At()
			out = append(out, qSample{t, canonFloat(v)})
		case chunkenc.ValHistogram:
			t, h := it.AtHistogram(nil)
			out = append(out, qSample{t, canonHist(h)})
		case chunkenc.ValFloatHistogram:
			t, fh := it.AtFloatHistogram(nil)
			out = append(out, qSample{t, canonFloatHist(fh)})
		}
	}
	return out, it.Err()
}

var dbxAllMatcher = labels.MustNewMatcher(labels.MatchEqual, "__name__", "m")

func seriesKeyOf(l labels.Labels) string {
	for k, v := range dbxSeries {
		if labels.Equal(l, v) {
			return k
		}
	}
	return "?" + l.String()
}

// queryRange returns series -> samples through the sample querier or the chunk querier.
func (x *dbx) queryRange(q storage.Queryable, cq storage.ChunkQueryable, mint, maxt int64, chunked bool) (map[string][]qSample, error) {
	out := map[string][]qSample{}
	ctx := context.Background()
	if !chunked {
		qr, err := q.Querier(mint, maxt)
		if err != nil {
			return nil, err
		}
		defer qr.Close()
		ss := qr.Select(ctx, true, nil, dbxAllMatcher)
		for ss.Next() {
			s := ss.At()
			smp, err := drainSeries(s.Iterator(nil))
			if err != nil {
				return nil, err
			}
			k := seriesKeyOf(s.Labels())
			if _, dup := out[k]; dup {
				return nil, fmt.Errorf("series %s returned twice", k)
			}
			out[k] = smp
		}
		return out, ss.Err()
	}
	qr, err := cq.ChunkQuerier(mint, maxt)
	if err != nil {
		return nil, err
	}
	defer qr.Close()
	ss := qr.Select(ctx, true, nil, dbxAllMatcher)
	for ss.Next() {
		s := ss.At()
		k := seriesKeyOf(s.Labels())
		if _, dup := out[k]; dup {
			return nil, fmt.Errorf("series %s returned twice", k)
		}
		var smp []qSample
		cit := s.Iterator(nil)
		var lastMax int64 = math.MinInt64
		first := true
		for cit.Next() {
			m := cit.At()
			if m.Chunk == nil {
				return nil, fmt.Errorf("series %s: nil chunk", k)
			}
			cs, err := drainSeries(m.Chunk.Iterator(nil))
			if err != nil {
				return nil, err
			}
			if len(cs) > 0 {
				if cs[0].t != m.MinTime || cs[len(cs)-1].t != m.MaxTime {
					return nil, fmt.Errorf("series %s: chunk meta [%d,%d] does not match its samples [%d,%d]", k, m.MinTime, m.MaxTime, cs[0].t, cs[len(cs)-1].t)
				}
				if !first && m.MinTime <= lastMax {
					return nil, fmt.Errorf("series %s: chunks overlap or are unordered (min %d after max %d)", k, m.MinTime, lastMax)
				}
				lastMax, first = m.MaxTime, false
			}
			smp = append(smp, cs...)
		}
		if err := cit.Err(); err != nil {
			return nil, err
		}
		out[k] = smp
	}
	return out, ss.Err()
}

// compareRange checks a query result against the model. Chunk queriers may return whole
// chunks that merely overlap [mint,maxt] (documented), so for them samples outside the range
// are tolerated but must still be model samples.
func (x *dbx) compareRange(got map[string][]qSample, mint, maxt int64, chunked bool, what string) *vx.Fail {
	qual := func(sk string, t int64) string {
		o := "inorder"
		if s := x.m.series[sk]; s != nil && s.ooo[t] {
			o = "ooo"
		}
		return strings.SplitN(x.lastOp, "/", 2)[0] + "/" + o
	}
	for sk, smp := range got {
		ms := x.m.series[sk]
		last := int64(math.MinInt64)
		for i, s := range smp {
			if i > 0 && s.t <= last {
				return vx.Failf("not-increasing/"+qual(sk, s.t), "%s [%d,%d]: series %s timestamps not strictly increasing: %d after %d", what, mint, maxt, sk, s.t, last)
			}
			last = s.t
			if !chunked && (s.t < mint || s.t > maxt) {
				return vx.Failf("outside-range/"+qual(sk, s.t), "%s [%d,%d]: series %s returned t=%d outside the range", what, mint, maxt, sk, s.t)
			}
			var set map[string]bool
			if ms != nil {
				set = ms.samples[s.t]
			}
			if ms != nil && !set[s.val] && ms.delOOO[s.t][s.val] {
				if x.soft != nil {
					x.soft("deleted-ooo-sample-returned", fmt.Sprintf("%s [%d,%d] after %s: series %s returns t=%d val=%s, an out-of-order-stored sample that was deleted by an earlier Delete", what, mint, maxt, x.lastOp, sk, s.t, s.val))
				}
				continue
			}
			if ms != nil && !set[s.val] && ms.opt[s.t][s.val] {
				continue
			}
			if set == nil {
				return vx.Failf("extra-sample/"+qual(sk, s.t), "%s [%d,%d]: series %s returned t=%d val=%s which the model does not hold (never committed, or deleted). model: %s", what, mint, maxt, sk, s.t, s.val, x.m.key())
			}
			if !set[s.val] {
				return vx.Failf("wrong-value/"+qual(sk, s.t), "%s [%d,%d]: series %s t=%d returned %s, stored values %v", what, mint, maxt, sk, s.t, s.val, set)
			}
		}
	}
	for sk, ms := range x.m.series {
		have := map[int64]bool{}
		for _, s := range got[sk] {
			have[s.t] = true
		}
		ts := make([]int64, 0, len(ms.samples))
		for t := range ms.samples {
			ts = append(ts, t)
		}
		sort.Slice(ts, func(i, j int) bool { return ts[i] < ts[j] })
		for _, t := range ts {
			if t >= mint && t <= maxt && !have[t] {
				if ms.ooo[t] && ms.inEarlierDelete(t) {
					if x.soft != nil {
						x.soft("ooo-sample-appended-after-delete-hidden", fmt.Sprintf("%s [%d,%d] after %s: series %s lacks out-of-order sample t=%d that was committed AFTER an earlier Delete covering t (the head tombstone of the old Delete hides it)", what, mint, maxt, x.lastOp, sk, t))
					}
					continue
				}
				return vx.Failf("missing-sample/"+qual(sk, t), "%s [%d,%d]: series %s lacks committed sample t=%d (%v). got %v; model: %s", what, mint, maxt, sk, t, ms.samples[t], got[sk], x.m.key())
			}
		}
	}
	return nil
}

// queryBounds: the interesting range end points for the current state.
func (x *dbx) queryBounds() []int64 {
	F := x.frontier()
	B := (floorDiv(F, dbxR) + 1) * dbxR
	set := map[int64]bool{math.MinInt64: true, math.MaxInt64: true, F: true, F + 1: true, F - 1: true, B - dbxR: true, B - dbxR - 1: true, B: true, B - 1: true}
	if x.cfg.W > 0 {
		set[F-x.cfg.W/2] = true
	}
	// data-driven end points: oldest sample, a sample in the middle (and the point just before
	// it), so that ranges ending inside old (e.g. out-of-order) data are queried too
	var all []int64
	for _, s := range x.m.series {
		for t := range s.samples {
			all = append(all, t)
		}
	}
	if len(all) > 0 {
		sort.Slice(all, func(i, j int) bool { return all[i] < all[j] })
		set[all[0]] = true
		mid := all[len(all)/2]
		set[mid] = true
		set[mid-1] = true
		if q := all[len(all)/4]; q != all[0] {
			set[q] = true
		}
	}
	out := make([]int64, 0, len(set))
	for v := range set {
		out = append(out, v)
	}
	sort.Slice(out, func(i, j int) bool { return out[i] < out[j] })
	return out
}

func (x *dbx) checkQueries() *vx.Fail {
	return x.checkQueryable(x.db, x.db, "db")
}

func (x *dbx) checkQueryable(q storage.Queryable, cq storage.ChunkQueryable, name string) *vx.Fail {
	b := x.queryBounds()
	for i := 0; i < len(b); i++ {
		for j := i; j < len(b); j++ {
			for _, chunked := range []bool{false, true} {
				if chunked && cq == nil {
					continue
				}
				what := name + ".Querier"
				if chunked {
					what = name + ".ChunkQuerier"
				}
				got, err := x.queryRange(q, cq, b[i], b[j], chunked)
				if err != nil {
					return vx.Failf("query-error/"+strings.SplitN(x.lastOp, "/", 2)[0], "%s [%d,%d]: %v", what, b[i], b[j], err)
				}
				if f := x.compareRange(got, b[i], b[j], chunked, what); f != nil {
					return f
				}
			}
		}
	}
	return nil
}

// ---- alphabet -----------------------------------------------------------------------------

func (x *dbx) Ops() []string {
	var ops []string
	W := x.cfg.W
	if x.cfg.Alphabet == "c22" {
		return x.extraOps(x)
	}
	if x.cfg.Alphabet == "del" {
		// deletion-centred alphabet (C20 b): few appends, every delete shape, all maintenance ops
		ops = []string{"app/s1/F+1/f", "app/s1/B+0/f", "app/s2/F+1/f", "app/s1/F+160/f", "app/s1/F+1/h"}
		if W > 0 {
			ops = append(ops, "app/s1/F-Wh/f", "app/s2/F-Wh/f")
		}
		for _, sel := range []string{"s1", "all"} {
			for _, d := range [][2]string{{"F-1", "F+1"}, {"min", "max"}, {"B-R", "B-1"}, {"B-R-1", "B-R"}, {"min", "F-1"}, {"F+0", "max"}, {"F-1", "F-1"}, {"F+0", "F+0"}, {"F-R", "F-2"}} {
				ops = append(ops, "del/"+sel+"/"+d[0]+"/"+d[1])
			}
		}
		ops = append(ops, "cmphead", "compact", "clean", "reopen")
		if W > 0 {
			ops = append(ops, "cmpooo")
		}
		return ops
	}
	times := []string{"F+1", "F+0", "F-1", "B-1", "B+0", "B+1", "F+160"}
	if W > 0 {
		times = append(times, "F-Wh", "F-W", "F-W-1", "F-R-1")
	} else {
		times = append(times, "F-60")
	}
	lvl := x.cfg.Alphabet
	if lvl == "" {
		lvl = "medium"
	}
	s1vals := []string{"f", "st", "h"}
	if lvl == "small" {
		s1vals = []string{"f"}
		times = []string{"F+1", "F+0", "B+0", "F+160"}
		if W > 0 {
			times = append(times, "F-Wh", "F-W-1")
		} else {
			times = append(times, "F-1")
		}
	}
	for _, t := range times {
		for _, v := range s1vals {
			ops = append(ops, "app/s1/"+t+"/"+v)
		}
	}
	ops = append(ops, "app/s1/F+0/g")
	if lvl != "small" {
		ops = append(ops, "app/s1/F+1/fh")
		if W > 0 {
			ops = append(ops, "app/s1/F-Wh/fh")
		}
	}
	s2times := []string{"F+1", "B+0"}
	if W > 0 {
		s2times = append(s2times, "F-Wh")
	}
	for _, t := range s2times {
		ops = append(ops, "app/s2/"+t+"/f")
		if lvl == "full" {
			ops = append(ops, "app/s2/"+t+"/h")
		}
	}
	// multi-sample transactions
	ops = append(ops,
		"app/s1/F+1/f/s2/F+1/f",
		"app/s1/F+1/f/s1/F+1/f", // same timestamp twice, different values
		"app/s1/F+2/f/s1/F+1/f", // decreasing inside one transaction
		"rb/s1/F+1/f",
	)
	if lvl != "small" {
		ops = append(ops, "app/s1/F+1/f/s1/F+2/h", "app/s1/F+1/h/s1/F+2/st",
			"app/s1/F+1/h/s1/F+1/f", // histogram and float at the SAME timestamp in one transaction
		)
	}
	dels := [][2]string{{"F-1", "F+1"}, {"min", "max"}, {"B-R", "B-1"}, {"B-R-1", "B-R"}}
	if lvl == "small" {
		dels = dels[:2]
	}
	for _, d := range dels {
		ops = append(ops, "del/s1/"+d[0]+"/"+d[1])
		if lvl != "small" {
			ops = append(ops, "del/all/"+d[0]+"/"+d[1])
		}
	}
	if W > 0 && lvl != "small" {
		ops = append(ops, "del/s1/F-W/F-1")
	}
	ops = append(ops, "cmphead", "compact", "clean", "reopen")
	if W > 0 {
		ops = append(ops, "cmpooo")
	}
	if lvl != "small" {
		ops = append(ops, "mmap")
	}
	if x.extraOps != nil {
		ops = append(ops, x.extraOps(x)...)
	}
	return ops
}

// dbxStarts: non-initial states from which BFS is (also) started — deeper histories that set up
// the structures single-digit-depth search from the empty database cannot reach: a completed chunk
// ending exactly on a block boundary followed by a type change, several m-mapped chunks, blocks of
// several levels, out-of-order chunks of different ages, tombstones in head and blocks.
func dbxStarts(w int64) [][]string {
	st := [][]string{
		{"app/s1/F+1/f", "app/s1/B+0/f", "app/s1/F+1/h", "mmap", "cmphead", "app/s1/F+1/f"},
		{"app/s1/F+1/f", "app/s1/F+1/f", "app/s1/F+1/f", "app/s1/F+1/f", "app/s1/F+1/f", "mmap", "app/s1/F+1/f", "app/s2/F+1/h"},
		{"app/s1/F+1/f", "app/s1/F+160/f", "compact", "app/s1/F+160/f", "compact", "app/s1/F+160/f", "compact", "app/s1/F+160/f", "compact"},
		{"app/s1/F+1/f", "app/s2/F+1/f", "app/s1/F+160/f", "compact", "del/all/F-1/F+1", "app/s1/F+1/f", "del/s1/B-R/B-1"},
		{"app/s1/F+1/h", "app/s1/F+1/h", "app/s1/F+1/fh", "app/s1/F+1/st", "app/s1/F+1/f", "mmap"},
		// a second WAL segment (a restart starts one) holding samples that are afterwards also m-mapped:
		// (the second restart flushes the chunk file): if that segment is lost or repaired away the
		// samples live in chunks_head only
		{"app/s1/F+1/f", "app/s2/F+1/f", "reopen", "app/s1/F+1/f", "app/s1/F+160/f", "mmap", "reopen"},
		// four head chunks of one series that were never m-mapped, the oldest cut off by a head compaction
		{"app/s1/F+1/f", "app/s1/F+160/f", "app/s1/F+160/h", "app/s1/F+160/f", "cmphead"},
		// a sample exactly on a block boundary, deleted by an interval ENDING on that boundary, and
		// enough later data that the next head compaction cuts the head exactly there
		{"app/s1/F+1/f", "app/s2/F+1/f", "app/s1/B+0/f", "del/s1/B-R-1/B-R", "app/s1/F+160/f", "cmphead"},
	}
	if w > 0 {
		st = append(st,
			[]string{"app/s1/F+1/f", "app/s1/F-Wh/f", "app/s1/F-Wh/f", "cmpooo", "app/s1/F-Wh/f", "app/s1/F+160/f", "app/s1/F-Wh/h"},
			// two m-mapped out-of-order chunks, the later one holding OLDER data, then the head max moves on
			// (out-of-order chunk capacity is 4: first chunk F-10..F-13, second chunk F-30..F-33, newest
			// sample F-2 stays in the in-memory out-of-order chunk)
			[]string{"app/s1/F+1/f", "app/s1/F-10/f", "app/s1/F-11/f", "app/s1/F-12/f", "app/s1/F-13/f", "app/s1/F-30/f", "app/s1/F-31/f", "app/s1/F-32/f", "app/s1/F-33/f", "app/s1/F-2/f", "app/s1/F+160/f"},
			[]string{"app/s1/F+1/f", "app/s2/F+1/f", "app/s1/F-10/f", "app/s2/F-20/h", "app/s1/F-11/f", "mmap", "app/s1/F+1/f", "app/s2/F-Wh/f"},
		)
	}
	return st
}

// ---- canonical state key ------------------------------------------------------------------

func (x *dbx) Key() string {
	var sb strings.Builder
	sb.WriteString(x.m.key())
	h := x.db.Head()
	fmt.Fprintf(&sb, "|head[%d,%d]mv%d ooo[%d,%d]", h.MinTime(), h.MaxTime(), h.minValidTime.Load(), h.MinOOOTime(), h.MaxOOOTime())
	for _, b := range x.db.Blocks() {
		m := b.Meta()
		fmt.Fprintf(&sb, "|blk[%d,%d)L%d n%d ts%d %v", m.MinTime, m.MaxTime, m.Compaction.Level, m.Stats.NumSamples, m.Stats.NumTombstones, m.Compaction.Hints)
	}
	for _, sk := range []string{"s1", "s2", "s3"} {
		s := h.series.getByHash(dbxSeries[sk].Hash(), dbxSeries[sk])
		if s == nil {
			continue
		}
		s.Lock()
		hc, hn := 0, 0
		for c := s.headChunks; c != nil; c = c.prev {
			hc++
			hn += c.chunk.NumSamples()
		}
		oc, on := 0, 0
		if s.ooo != nil {
			oc = len(s.ooo.oooMmappedChunks)
			if s.ooo.oooHeadChunk != nil {
				on = s.ooo.oooHeadChunk.chunk.NumSamples()
			}
		}
		fmt.Fprintf(&sb, "|%s mm%d hc%d/%d ooo%d/%d next%d", sk, len(s.mmappedChunks), hc, hn, oc, on, s.nextAt)
		s.Unlock()
	}
	nts := 0
	_ = h.tombstones.Iter(func(_ storage.SeriesRef, iv tombstones.Intervals) error { nts += len(iv); return nil })
	fmt.Fprintf(&sb, "|hts%d", nts)
	if first, last, err := wlog.Segments(h.wal.Dir()); err == nil {
		fmt.Fprintf(&sb, "|wal%d-%d", first, last)
	}
	// write position of the log and of the out-of-order log: two histories that leave the same data
	// in memory but different records in the log (a sample logged and then dropped at commit, a
	// series record of a rolled-back appender) have different futures — the next restart replays them
	if _, off, err := h.wal.LastSegmentAndOffset(); err == nil {
		fmt.Fprintf(&sb, "@%d", off)
	}
	if h.wbl != nil {
		if seg, off, err := h.wbl.LastSegmentAndOffset(); err == nil {
			fmt.Fprintf(&sb, "|wbl%d@%d", seg, off)
		}
	}
	if x.extraKey != nil {
		sb.WriteString(x.extraKey(x))
	}
	return sb.String()
}

func chunksHeadSeriesRef(r storage.SeriesRef) chunks.HeadSeriesRef { return chunks.HeadSeriesRef(r) }
