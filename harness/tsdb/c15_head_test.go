package tsdb

// C15 (server head part): WAL truncation keeps everything replay still needs.
//
// c15Sys is a real Head with a real WAL in /dev/shm, driven synchronously by operation histories
// (explicit-state BFS, vx.Sys). A shadow copy of every WAL segment is kept before anything is
// deleted, so that the untruncated log is always available. After every transition:
//   (1) a fresh Head replays a copy of the live log (newest checkpoint + later segments) and a
//       second fresh Head replays the shadow log (all segments ever written, no checkpoint), both
//       with minValidTime = the truncation time; samples (through a Querier), exemplars,
//       tombstones and latest metadata at or after the truncation time must be identical;
//   (2) the live log is decoded in replay order and every sample / histogram / exemplar /
//       tombstone / metadata record must refer to a series whose series record precedes it.
//
// Operations:
//   a/<s>/<time>[/x]  append+commit one float sample to s1|s2|new (new = fresh label set each time),
//                     /x adds an exemplar, /h appends a histogram instead
//   md/<s>            UpdateMetadata + commit (a different help text each time)
//   del/<s>/<lo>/<hi> Head.Delete (tombstone record)
//   ev/<s>            truncateSelectedSeries: evict the series as after a selected-series compaction
//   rot               wal.NextSegment
//   tr/<mint>         Head.Truncate(mint): GC, new segment, maybe checkpoint
//   TR/<mint>         roll segments until a checkpoint is due, then Head.Truncate(mint)
//   re                Head.Close + new WAL + NewHead + Init (replay)
// Times are relative to the frontier F = newest appended timestamp (10 before any).

import (
	"bytes"
	"context"
	"errors"
	"fmt"
	"io"
	"math"
	"os"
	"path/filepath"
	"sort"
	"strconv"
	"strings"

	"github.com/prometheus/common/promslog"

	"github.com/prometheus/prometheus/internal/verif/vx"
	"github.com/prometheus/prometheus/model/exemplar"
	"github.com/prometheus/prometheus/model/labels"
	"github.com/prometheus/prometheus/model/metadata"
	"github.com/prometheus/prometheus/storage"
	"github.com/prometheus/prometheus/tsdb/chunkenc"
	"github.com/prometheus/prometheus/tsdb/chunks"
	"github.com/prometheus/prometheus/tsdb/record"
	"github.com/prometheus/prometheus/tsdb/tombstones"
	"github.com/prometheus/prometheus/tsdb/tsdbutil"
	"github.com/prometheus/prometheus/tsdb/wlog"
	"github.com/prometheus/prometheus/util/compression"
)

type c15Cfg struct {
	Name     string
	Alphabet string
	Prefix   []string
}

func c15Prefixes() map[string][]string {
	return map[string][]string{
		"": nil,
		// a checkpoint holding live data and a collected series
		"cp": {"a/s1/F+1", "a/s2/F+1", "TR/F"},
		// s1 collected, re-created under a new ref, restart => duplicate series records
		"dup": {"a/s1/F+1", "a/s2/F+1", "tr/F", "a/s1/F+1", "re"},
		// a live series with two metadata versions and a tombstone that will straddle a truncation time
		"md": {"a/s2/F+1", "a/s1/F+1", "md/s1", "md/s1", "a/s1/F+1", "del/s1/F-1/F"},
	}
}

func c15Parse(name string) c15Cfg {
	alpha, prefix, _ := strings.Cut(name, "+")
	p, ok := c15Prefixes()[prefix]
	if !ok {
		panic("unknown c15 prefix " + prefix)
	}
	return c15Cfg{Name: name, Alphabet: alpha, Prefix: p}
}

type c15Sys struct {
	cfg     c15Cfg
	dir     string
	head    *Head
	maxMint int64 // truncation time: largest mint passed to Head.Truncate (MinInt64: none)
	front   int64 // newest appended timestamp
	hasData bool
	nfresh  int
	nmeta   int
	hist    []string
	lastOp  string
	outcome string
	soft    func(sig, msg string)
	obs     func(outcome string)
	cache   *c15Log
}

func c15HeadOptions(dir string) *HeadOptions {
	o := DefaultHeadOptions()
	o.ChunkRange = 1000
	o.ChunkDirRoot = dir
	o.StripeSize = 4
	o.ChunkWriteQueueSize = 0
	o.ChunkWriteBufferSize = 64 * 1024
	o.WALReplayConcurrency = 1
	o.EnableExemplarStorage = true
	o.MaxExemplars.Store(64)
	return o
}

func c15OpenHead(dir string, minValid int64) (*Head, error) {
	w, err := wlog.NewSize(promslog.NewNopLogger(), nil, filepath.Join(dir, "wal"), 2*32*1024, compression.None)
	if err != nil {
		return nil, err
	}
	h, err := NewHead(nil, promslog.NewNopLogger(), w, nil, c15HeadOptions(dir), nil)
	if err != nil {
		w.Close()
		return nil, err
	}
	if err := h.Init(minValid); err != nil {
		h.Close()
		return nil, err
	}
	return h, nil
}

func newC15(cfg c15Cfg) *c15Sys {
	dir, err := os.MkdirTemp("", "c15")
	if err != nil {
		panic(err)
	}
	x := &c15Sys{cfg: cfg, dir: dir, maxMint: math.MinInt64, front: 10}
	for _, d := range []string{"live", "shadow/wal"} {
		if err := os.MkdirAll(filepath.Join(dir, d), 0o777); err != nil {
			panic(err)
		}
	}
	h, err := c15OpenHead(filepath.Join(dir, "live"), math.MinInt64)
	if err != nil {
		panic(fmt.Sprintf("c15: initial open failed: %v", err))
	}
	x.head = h
	for _, op := range cfg.Prefix {
		if f := x.Apply(op, false); f != nil {
			panic(fmt.Sprintf("c15: prefix op %s failed: %s", op, f.Message))
		}
	}
	x.hist = nil
	return x
}

func (x *c15Sys) Close() {
	if x.head != nil {
		_ = x.head.Close()
		x.head = nil
	}
	os.RemoveAll(x.dir)
}

func (x *c15Sys) walDir() string    { return filepath.Join(x.dir, "live", "wal") }
func (x *c15Sys) shadowDir() string { return filepath.Join(x.dir, "shadow", "wal") }

func (x *c15Sys) resolveT(spec string) int64 {
	switch spec {
	case "min":
		return math.MinInt64
	case "max":
		return math.MaxInt64
	}
	if strings.HasPrefix(spec, "F") {
		var total int64
		rest := spec[1:]
		for i := 0; i < len(rest); {
			j := i + 1
			for j < len(rest) && rest[j] != '+' && rest[j] != '-' {
				j++
			}
			v, err := strconv.ParseInt(rest[i:j], 10, 64)
			if err != nil {
				panic("bad time spec " + spec)
			}
			total += v
			i = j
		}
		return x.front + total
	}
	v, err := strconv.ParseInt(spec, 10, 64)
	if err != nil {
		panic("bad time spec " + spec)
	}
	return v
}

func c15Labels(s string) labels.Labels { return labels.FromStrings("__name__", "m", "a", s) }

func (x *c15Sys) seriesName(s string) string {
	if s == "new" {
		x.nfresh++
		return fmt.Sprintf("n%d", x.nfresh)
	}
	return s
}

func (x *c15Sys) syncShadow() {
	first, last, err := wlog.Segments(x.walDir())
	if err != nil {
		panic(err)
	}
	for i := first; i <= last && i >= 0; i++ {
		b, err := os.ReadFile(wlog.SegmentName(x.walDir(), i))
		if err != nil {
			panic(err)
		}
		if err := os.WriteFile(wlog.SegmentName(x.shadowDir(), i), b, 0o666); err != nil {
			panic(err)
		}
	}
}

func (x *c15Sys) Apply(op string, check bool) (fail *vx.Fail) {
	x.lastOp = op
	x.cache = nil
	x.hist = append(x.hist, op)
	x.outcome = ""
	defer func() {
		if p := recover(); p != nil {
			fail = vx.Failf("panic/"+strings.SplitN(op, "/", 2)[0], "op %s panicked: %v", op, p)
		}
	}()
	ctx := context.Background()
	p := strings.Split(op, "/")
	switch p[0] {
	case "a":
		name := x.seriesName(p[1])
		t := x.resolveT(p[2])
		kind := ""
		if len(p) > 3 {
			kind = p[3]
		}
		idx := int64(len(name))*7 + int64(name[len(name)-1]-'0')
		app := x.head.Appender(ctx)
		var (
			ref storage.SeriesRef
			err error
		)
		if kind == "h" {
			ref, err = app.AppendHistogram(0, c15Labels(name), t, tsdbutil.GenerateTestHistogram(t*10+idx), nil)
		} else {
			ref, err = app.Append(0, c15Labels(name), t, float64(t*100+idx))
		}
		if err == nil && kind == "x" {
			_, err = app.AppendExemplar(ref, c15Labels(name), exemplar.Exemplar{Labels: labels.FromStrings("trace", fmt.Sprintf("%s-%d", name, t)), Value: float64(t) + 0.5, Ts: t, HasTs: true})
		}
		if err != nil {
			_ = app.Rollback()
			x.outcome = "append-rejected"
			break
		}
		if err := app.Commit(); err != nil {
			return vx.Failf("commit-error", "commit: %v", err)
		}
		if t > x.front || !x.hasData {
			x.front = t
		}
		x.hasData = true
		x.outcome = "appended/" + kind
	case "md":
		x.nmeta++
		app := x.head.Appender(ctx)
		_, err := app.UpdateMetadata(0, c15Labels(p[1]), metadata.Metadata{Type: "gauge", Unit: "u", Help: fmt.Sprintf("help %d", x.nmeta)})
		if err != nil {
			_ = app.Rollback()
			x.outcome = "metadata-rejected"
			break
		}
		if err := app.Commit(); err != nil {
			return vx.Failf("commit-error", "commit: %v", err)
		}
		x.outcome = "metadata"
	case "del":
		lo, hi := x.resolveT(p[2]), x.resolveT(p[3])
		m := labels.MustNewMatcher(labels.MatchEqual, "__name__", "m")
		if p[1] != "all" {
			m = labels.MustNewMatcher(labels.MatchEqual, "a", p[1])
		}
		before := x.head.tombstones.Total()
		if err := x.head.Delete(ctx, lo, hi, m); err != nil {
			return vx.Failf("op-error/del", "Delete: %v", err)
		}
		x.outcome = fmt.Sprintf("delete/%v", x.head.tombstones.Total() != before)
	case "ev":
		s := x.head.series.getByHash(c15Labels(p[1]).Hash(), c15Labels(p[1]))
		if s == nil {
			x.outcome = "evict/absent"
			break
		}
		if err := x.head.truncateSelectedSeries([]storage.SeriesRef{storage.SeriesRef(s.ref)}, x.front, math.MaxUint64); err != nil {
			return vx.Failf("op-error/ev", "truncateSelectedSeries: %v", err)
		}
		x.outcome = fmt.Sprintf("evict/%v", x.head.series.getByID(s.ref) == nil)
	case "rot":
		if _, err := x.head.wal.NextSegment(); err != nil {
			return vx.Failf("op-error/rot", "NextSegment: %v", err)
		}
		x.outcome = "rot"
	case "tr", "TR":
		mint := x.resolveT(p[1])
		if p[0] == "TR" {
			for {
				first, last, err := wlog.Segments(x.walDir())
				if err != nil {
					panic(err)
				}
				if last >= first+3 {
					break
				}
				if _, err := x.head.wal.NextSegment(); err != nil {
					return vx.Failf("op-error/rot", "NextSegment: %v", err)
				}
			}
		}
		x.syncShadow()
		_, cpBefore, _ := wlog.LastCheckpoint(x.walDir())
		nBefore := x.head.NumSeries()
		if err := x.head.Truncate(mint); err != nil {
			return vx.Failf("op-error/truncate", "Truncate(%d): %v", mint, err)
		}
		if mint > x.maxMint {
			x.maxMint = mint
		}
		_, cpAfter, err := wlog.LastCheckpoint(x.walDir())
		x.outcome = fmt.Sprintf("truncate/cp=%v/gc=%v", err == nil && cpAfter != cpBefore, x.head.NumSeries() != nBefore)
	case "re":
		x.syncShadow()
		err := x.head.Close()
		x.head = nil
		if err != nil {
			return vx.Failf("op-error/close", "Close: %v", err)
		}
		h, err := c15OpenHead(filepath.Join(x.dir, "live"), x.maxMint)
		if err != nil {
			return vx.Failf("op-error/open", "reopen: %v", err)
		}
		x.head = h
		x.outcome = fmt.Sprintf("restart/expiries=%v", len(h.walExpiries) > 0)
	default:
		panic("c15: unknown op " + op)
	}
	if !check {
		return nil
	}
	if x.obs != nil {
		x.obs(p[0] + ":" + x.outcome)
	}
	return x.check()
}

// ---- log decoding ---------------------------------------------------------------------------

type c15Rec struct {
	Seg    int // -1: checkpoint
	Kind   string
	Ref    chunks.HeadSeriesRef
	T      int64  // sample/exemplar time, tombstone maxt
	Series string // label value "a" of the series the ref stands for; "" = no preceding series record
	Inc    int    // incarnation: index of the latest preceding series record for Ref in this log (-1: none)
	Help   string // metadata records
	Ivs    tombstones.Intervals
	Full   bool   // tombstone over [MinInt64,MaxInt64]: replay drops the series at this point
	Val    string // exemplars: value
}

type c15Log struct {
	CP          int
	First, Last int
	Recs        []c15Rec
	SeriesRecs  []string
	RefNames    map[chunks.HeadSeriesRef]map[string]bool // every series a ref ever stood for
	IncName     []string                                 // series name per incarnation (= per series record)
	incOf       map[chunks.HeadSeriesRef]int
	Digest      string
}

func c15ReadRecords(rd io.Reader, seg int, refs map[chunks.HeadSeriesRef]string, w *c15Log, strict bool) *vx.Fail {
	r := wlog.NewReader(rd)
	dec := record.NewDecoder(labels.NewSymbolTable(), promslog.NewNopLogger())
	add := func(kind string, ref chunks.HeadSeriesRef, t int64) *c15Rec {
		inc, ok := w.incOf[ref]
		if !ok {
			inc = -1
		}
		w.Recs = append(w.Recs, c15Rec{Seg: seg, Kind: kind, Ref: ref, T: t, Series: refs[ref], Inc: inc})
		return &w.Recs[len(w.Recs)-1]
	}
	for r.Next() {
		rec := r.Record()
		switch typ := dec.Type(rec); typ {
		case record.Series:
			ss, err := dec.Series(rec, nil)
			if err != nil {
				return vx.Failf("wal-undecodable", "series record in %d: %v", seg, err)
			}
			for _, s := range ss {
				k := s.Labels.Get("a")
				if prev, ok := refs[s.Ref]; ok && prev != k && strict {
					return vx.Failf("wal-ref-reused-for-other-series", "series ref %d stands for %s and later for %s", s.Ref, prev, k)
				}
				refs[s.Ref] = k
				if w.RefNames[s.Ref] == nil {
					w.RefNames[s.Ref] = map[string]bool{}
				}
				w.RefNames[s.Ref][k] = true
				w.incOf[s.Ref] = len(w.SeriesRecs)
				w.IncName = append(w.IncName, k)
				w.SeriesRecs = append(w.SeriesRecs, fmt.Sprintf("%d:%d=%s", seg, s.Ref, k))
			}
		case record.Samples, record.SamplesV2:
			ss, err := dec.Samples(rec, nil)
			if err != nil {
				return vx.Failf("wal-undecodable", "samples record in %d: %v", seg, err)
			}
			for _, s := range ss {
				add("sample", s.Ref, s.T)
			}
		case record.HistogramSamples, record.HistogramSamplesV2, record.CustomBucketsHistogramSamples:
			hs, err := dec.HistogramSamples(rec, nil)
			if err != nil {
				return vx.Failf("wal-undecodable", "histogram record in %d: %v", seg, err)
			}
			for _, s := range hs {
				add("histogram", s.Ref, s.T)
			}
		case record.FloatHistogramSamples, record.FloatHistogramSamplesV2, record.CustomBucketsFloatHistogramSamples:
			hs, err := dec.FloatHistogramSamples(rec, nil)
			if err != nil {
				return vx.Failf("wal-undecodable", "float histogram record in %d: %v", seg, err)
			}
			for _, s := range hs {
				add("histogram", s.Ref, s.T)
			}
		case record.Exemplars:
			es, err := dec.Exemplars(rec, nil)
			if err != nil {
				return vx.Failf("wal-undecodable", "exemplar record in %d: %v", seg, err)
			}
			for _, e := range es {
				add("exemplar", e.Ref, e.T).Val = fmt.Sprintf("%d=%g%s", e.T, e.V, e.Labels.String())
			}
		case record.Tombstones:
			ts, err := dec.Tombstones(rec, nil)
			if err != nil {
				return vx.Failf("wal-undecodable", "tombstone record in %d: %v", seg, err)
			}
			for _, s := range ts {
				mx := int64(math.MinInt64)
				for _, iv := range s.Intervals {
					if iv.Maxt > mx {
						mx = iv.Maxt
					}
				}
				r := add("tombstone", chunks.HeadSeriesRef(s.Ref), mx)
				r.Ivs = append(tombstones.Intervals{}, s.Intervals...)
				r.Full = len(s.Intervals) == 1 && s.Intervals[0].Mint == math.MinInt64 && s.Intervals[0].Maxt == math.MaxInt64
			}
		case record.Metadata:
			ms, err := dec.Metadata(rec, nil)
			if err != nil {
				return vx.Failf("wal-undecodable", "metadata record in %d: %v", seg, err)
			}
			for _, m := range ms {
				add("metadata", m.Ref, math.MaxInt64).Help = fmt.Sprintf("%d|%s|%s", m.Type, m.Unit, m.Help)
			}
		default:
			return vx.Failf("wal-unexpected-record-type", "record type %v in %d", typ, seg)
		}
	}
	if err := r.Err(); err != nil {
		return vx.Failf("wal-unreadable", "reading %d: %v", seg, err)
	}
	return nil
}

func c15Decode(dir string, strict bool) (*c15Log, *vx.Fail) {
	w := &c15Log{CP: -1, RefNames: map[chunks.HeadSeriesRef]map[string]bool{}, incOf: map[chunks.HeadSeriesRef]int{}}
	refs := map[chunks.HeadSeriesRef]string{}
	start := -1
	cpDir, idx, err := wlog.LastCheckpoint(dir)
	if err == nil {
		rc, err := wlog.NewSegmentsReader(cpDir)
		if err != nil {
			return nil, vx.Failf("wal-unreadable", "checkpoint %s: %v", cpDir, err)
		}
		f := c15ReadRecords(rc, -1, refs, w, strict)
		rc.Close()
		if f != nil {
			return nil, f
		}
		w.CP, start = idx, idx+1
	} else if !errors.Is(err, record.ErrNotFound) {
		return nil, vx.Failf("wal-unreadable", "LastCheckpoint: %v", err)
	}
	first, last, err := wlog.Segments(dir)
	if err != nil {
		return nil, vx.Failf("wal-unreadable", "Segments: %v", err)
	}
	w.First, w.Last = first, last
	if start < first {
		start = first
	}
	for i := start; i <= last && i >= 0; i++ {
		b, err := os.ReadFile(wlog.SegmentName(dir, i))
		if err != nil {
			return nil, vx.Failf("wal-segment-gap", "segment %d of [%d,%d] (checkpoint %d): %v", i, first, last, w.CP, err)
		}
		if f := c15ReadRecords(bytes.NewReader(b), i, refs, w, strict); f != nil {
			return nil, f
		}
	}
	var sb strings.Builder
	// segment numbers relative to the first one: only relative positions matter to checkpointing
	fmt.Fprintf(&sb, "cp%v seg+%d S[", w.CP >= 0, w.Last-w.First)
	for _, s := range w.SeriesRecs {
		sb.WriteString(c15RelSeg(s, w.First) + " ")
	}
	sb.WriteString("] R[")
	for _, r := range w.Recs {
		seg := r.Seg
		if seg >= 0 {
			seg -= w.First
		}
		fmt.Fprintf(&sb, "%d:%s%d@%d ", seg, r.Kind[:1], r.Ref, r.T)
	}
	sb.WriteString("]")
	w.Digest = sb.String()
	return w, nil
}

func c15RelSeg(s string, first int) string {
	a, b, _ := strings.Cut(s, ":")
	n, _ := strconv.Atoi(a)
	if n >= 0 {
		n -= first
	}
	return fmt.Sprintf("%d:%s", n, b)
}

// ---- replay views ---------------------------------------------------------------------------

type c15View struct {
	Samples   map[string][]string
	Exemplars map[string][]string
	Tombs     map[string]tombstones.Intervals
	Meta      map[string]string
}

func c15CopyFile(src, dst string) {
	b, err := os.ReadFile(src)
	if err != nil {
		panic(err)
	}
	if err := os.WriteFile(dst, b, 0o666); err != nil {
		panic(err)
	}
}

// c15CopyLog copies the newest checkpoint (if wanted) and all segment files of src into dst.
func c15CopyLog(src, dst string, withCheckpoint bool) {
	if err := os.MkdirAll(dst, 0o777); err != nil {
		panic(err)
	}
	ents, err := os.ReadDir(src)
	if err != nil {
		panic(err)
	}
	for _, e := range ents {
		if e.IsDir() {
			if !withCheckpoint || !strings.HasPrefix(e.Name(), "checkpoint.") || strings.HasSuffix(e.Name(), ".tmp") {
				continue
			}
			sub, err := os.ReadDir(filepath.Join(src, e.Name()))
			if err != nil {
				panic(err)
			}
			if err := os.MkdirAll(filepath.Join(dst, e.Name()), 0o777); err != nil {
				panic(err)
			}
			for _, f := range sub {
				c15CopyFile(filepath.Join(src, e.Name(), f.Name()), filepath.Join(dst, e.Name(), f.Name()))
			}
			continue
		}
		if _, err := strconv.Atoi(e.Name()); err == nil {
			c15CopyFile(filepath.Join(src, e.Name()), filepath.Join(dst, e.Name()))
		}
	}
}

// c15RenumberLog rewrites the untruncated shadow log src as ONE segment in dst in which every
// incarnation of a series ref is unique. After a checkpoint dropped every record of a ref and a
// restart, the head may hand the same ref to a different series; the real log never holds both
// incarnations, but the retained shadow copy does, and the replay code (rightly) cannot tell them
// apart. A later series record for an already used ref with DIFFERENT labels starts a new
// incarnation: it and all following records for that ref get a fresh ref.
func c15RenumberLog(src, dst string) {
	first, last, err := wlog.Segments(src)
	if err != nil {
		panic(err)
	}
	w, err := wlog.NewSize(promslog.NewNopLogger(), nil, dst, 64*32*1024, compression.None)
	if err != nil {
		panic(err)
	}
	defer w.Close()
	type inc struct {
		name string
		ref  chunks.HeadSeriesRef
	}
	cur := map[chunks.HeadSeriesRef]inc{}
	next := chunks.HeadSeriesRef(1 << 20)
	m := func(r chunks.HeadSeriesRef) chunks.HeadSeriesRef {
		if c, ok := cur[r]; ok {
			return c.ref
		}
		return r
	}
	dec := record.NewDecoder(labels.NewSymbolTable(), promslog.NewNopLogger())
	var enc record.Encoder
	log := func(b []byte) {
		if len(b) == 0 {
			return
		}
		if err := w.Log(b); err != nil {
			panic(err)
		}
	}
	for i := first; i <= last && i >= 0; i++ {
		b, err := os.ReadFile(wlog.SegmentName(src, i))
		if err != nil {
			panic(err)
		}
		r := wlog.NewReader(bytes.NewReader(b))
		for r.Next() {
			rec := r.Record()
			switch dec.Type(rec) {
			case record.Series:
				ss, err := dec.Series(rec, nil)
				if err != nil {
					panic(err)
				}
				for k := range ss {
					name := ss[k].Labels.Get("a")
					c, ok := cur[ss[k].Ref]
					switch {
					case !ok:
						cur[ss[k].Ref] = inc{name, ss[k].Ref}
					case c.name != name:
						next++
						cur[ss[k].Ref] = inc{name, next}
					}
					ss[k].Ref = m(ss[k].Ref)
				}
				log(enc.Series(ss, nil))
			case record.Samples, record.SamplesV2:
				ss, err := dec.Samples(rec, nil)
				if err != nil {
					panic(err)
				}
				for k := range ss {
					ss[k].Ref = m(ss[k].Ref)
				}
				log(enc.Samples(ss, nil))
			case record.HistogramSamples, record.HistogramSamplesV2, record.CustomBucketsHistogramSamples:
				hs, err := dec.HistogramSamples(rec, nil)
				if err != nil {
					panic(err)
				}
				for k := range hs {
					hs[k].Ref = m(hs[k].Ref)
				}
				b, left := enc.HistogramSamples(hs, nil)
				log(b)
				if len(left) > 0 {
					log(enc.CustomBucketsHistogramSamples(left, nil))
				}
			case record.FloatHistogramSamples, record.FloatHistogramSamplesV2, record.CustomBucketsFloatHistogramSamples:
				hs, err := dec.FloatHistogramSamples(rec, nil)
				if err != nil {
					panic(err)
				}
				for k := range hs {
					hs[k].Ref = m(hs[k].Ref)
				}
				b, left := enc.FloatHistogramSamples(hs, nil)
				log(b)
				if len(left) > 0 {
					log(enc.CustomBucketsFloatHistogramSamples(left, nil))
				}
			case record.Exemplars:
				es, err := dec.Exemplars(rec, nil)
				if err != nil {
					panic(err)
				}
				for k := range es {
					es[k].Ref = m(es[k].Ref)
				}
				log(enc.Exemplars(es, nil))
			case record.Tombstones:
				ts, err := dec.Tombstones(rec, nil)
				if err != nil {
					panic(err)
				}
				for k := range ts {
					ts[k].Ref = storage.SeriesRef(m(chunks.HeadSeriesRef(ts[k].Ref)))
				}
				log(enc.Tombstones(ts, nil))
			case record.Metadata:
				ms, err := dec.Metadata(rec, nil)
				if err != nil {
					panic(err)
				}
				for k := range ms {
					ms[k].Ref = m(ms[k].Ref)
				}
				log(enc.Metadata(ms, nil))
			default:
				panic(fmt.Sprintf("shadow log: unexpected record type %v", dec.Type(rec)))
			}
		}
		if err := r.Err(); err != nil {
			panic(fmt.Sprintf("shadow log segment %d: %v", i, err))
		}
	}
}

// c15Replay replays a copy of the log in logDir with a fresh Head and extracts what the
// property talks about, restricted to times >= from.
func c15Replay(logDir string, withCheckpoint bool, from int64) (v *c15View, err error) {
	tmp, err := os.MkdirTemp("", "c15r")
	if err != nil {
		panic(err)
	}
	defer os.RemoveAll(tmp)
	if withCheckpoint {
		c15CopyLog(logDir, filepath.Join(tmp, "wal"), true)
	} else {
		c15RenumberLog(logDir, filepath.Join(tmp, "wal"))
	}
	h, err := c15OpenHead(tmp, from)
	if err != nil {
		return nil, err
	}
	defer h.Close()
	v = &c15View{Samples: map[string][]string{}, Exemplars: map[string][]string{}, Tombs: map[string]tombstones.Intervals{}, Meta: map[string]string{}}
	q, err := NewBlockQuerier(NewRangeHead(h, math.MinInt64, math.MaxInt64), math.MinInt64, math.MaxInt64)
	if err != nil {
		return nil, err
	}
	defer q.Close()
	all := labels.MustNewMatcher(labels.MatchEqual, "__name__", "m")
	ss := q.Select(context.Background(), true, nil, all)
	for ss.Next() {
		s := ss.At()
		name := s.Labels().Get("a")
		it := s.Iterator(nil)
		for vt := it.Next(); vt != chunkenc.ValNone; vt = it.Next() {
			switch vt {
			case chunkenc.ValFloat:
				t, f := it.At()
				if t >= from {
					v.Samples[name] = append(v.Samples[name], fmt.Sprintf("%d=%g", t, f))
				}
			case chunkenc.ValHistogram:
				t, hh := it.AtHistogram(nil)
				if t >= from {
					v.Samples[name] = append(v.Samples[name], fmt.Sprintf("%d=%s", t, hh.String()))
				}
			case chunkenc.ValFloatHistogram:
				t, hh := it.AtFloatHistogram(nil)
				if t >= from {
					v.Samples[name] = append(v.Samples[name], fmt.Sprintf("%d=%s", t, hh.String()))
				}
			}
		}
		if err := it.Err(); err != nil {
			return nil, err
		}
	}
	if err := ss.Err(); err != nil {
		return nil, err
	}
	eq, err := h.ExemplarQuerier(context.Background())
	if err != nil {
		return nil, err
	}
	res, err := eq.Select(math.MinInt64, math.MaxInt64, []*labels.Matcher{all})
	if err != nil {
		return nil, err
	}
	for _, r := range res {
		name := r.SeriesLabels.Get("a")
		for _, e := range r.Exemplars {
			if e.Ts >= from {
				v.Exemplars[name] = append(v.Exemplars[name], fmt.Sprintf("%d=%g%s", e.Ts, e.Value, e.Labels.String()))
			}
		}
	}
	// tombstones and metadata of the series that still have data at or after `from`
	for name := range v.Samples {
		s := h.series.getByHash(c15Labels(name).Hash(), c15Labels(name))
		if s == nil {
			continue
		}
		ivs, _ := h.tombstones.Get(storage.SeriesRef(s.ref))
		var clipped tombstones.Intervals
		for _, iv := range ivs {
			if iv.Maxt < from {
				continue
			}
			if iv.Mint < from {
				iv.Mint = from
			}
			clipped = clipped.Add(iv)
		}
		if len(clipped) > 0 {
			v.Tombs[name] = clipped
		}
		s.Lock()
		if s.meta != nil {
			v.Meta[name] = s.meta.Help
		}
		s.Unlock()
	}
	return v, nil
}

func c15DiffMaps[V any](a, b map[string]V) (string, string, string) {
	keys := map[string]bool{}
	for k := range a {
		keys[k] = true
	}
	for k := range b {
		keys[k] = true
	}
	ks := make([]string, 0, len(keys))
	for k := range keys {
		ks = append(ks, k)
	}
	sort.Strings(ks)
	for _, k := range ks {
		av, bv := fmt.Sprint(a[k]), fmt.Sprint(b[k])
		if _, ok := a[k]; !ok {
			av = "<none>"
		}
		if _, ok := b[k]; !ok {
			bv = "<none>"
		}
		if av != bv {
			return k, av, bv
		}
	}
	return "", "", ""
}

// ---- oracle ---------------------------------------------------------------------------------

func (x *c15Sys) check() *vx.Fail {
	op := strings.SplitN(x.lastOp, "/", 2)[0]
	x.syncShadow()
	w, f := c15Decode(x.walDir(), true)
	if f != nil {
		return f
	}
	x.cache = w
	// (2) series record precedes every record that refers to it
	for _, r := range w.Recs {
		if r.Series != "" {
			continue
		}
		// Does replay from the truncation time on need the record? Samples, histograms and
		// exemplars: by their own timestamp. Tombstones (reaching the truncation time) and
		// metadata: when the live log still holds data at or after the truncation time for the
		// same ref (a series record may only be dropped with all that belongs to it).
		needed := r.T >= x.maxMint
		if r.Kind == "tombstone" || r.Kind == "metadata" {
			needed = false
			for _, lr := range w.Recs {
				if lr.Ref == r.Ref && lr.T >= x.maxMint && r.T >= x.maxMint && lr.Kind != "tombstone" && lr.Kind != "metadata" {
					needed = true
				}
			}
		}
		sig := "record-without-preceding-series-record/not-needed-by-replay"
		if needed {
			sig = "record-without-preceding-series-record/needed-by-replay/" + r.Kind
		}
		msg := fmt.Sprintf("after %s: the log (seg %d, -1=checkpoint) holds a %s record (t=%d) for ref %d but no series record for that ref precedes it in replay order (truncation time %d). history %v; log: %s", x.lastOp, r.Seg, r.Kind, r.T, r.Ref, x.maxMint, x.hist, w.Digest)
		if x.soft != nil {
			x.soft(sig, msg)
			continue
		}
		return vx.Failf(sig, "%s", msg)
	}
	// (1) replay(checkpoint + segments) == replay(untruncated shadow log) from the truncation time on.
	// While nothing has been checkpointed or deleted the two logs are the same files: nothing to compare.
	if w.CP < 0 && w.First <= 0 {
		if x.obs != nil {
			x.obs("view:untruncated")
		}
		return nil
	}
	a, err := c15Replay(x.walDir(), true, x.maxMint)
	if err != nil {
		return vx.Failf("replay-of-truncated-log-fails/"+op, "after %s: %v. history %v", x.lastOp, err, x.hist)
	}
	b, err := c15Replay(x.shadowDir(), false, x.maxMint)
	if err != nil {
		return vx.Failf("replay-of-shadow-log-fails/"+op, "after %s: %v. history %v", x.lastOp, err, x.hist)
	}
	sh, f := c15Decode(x.shadowDir(), false)
	if f != nil {
		return vx.Failf("shadow-"+f.Signature, "shadow log: %s", f.Message)
	}
	if f := c15Compare(a, b, c15Requirements(sh, x.maxMint), op, fmt.Sprintf("after %s (truncation time %d, history %v; log: %s)", x.lastOp, x.maxMint, x.hist, w.Digest)); f != nil {
		return f
	}
	if x.obs != nil {
		n := 0
		for _, s := range a.Samples {
			n += len(s)
		}
		x.obs(fmt.Sprintf("view:s%d/e%d/t%d/m%d", min(n, 3), min(len(a.Exemplars), 2), min(len(a.Tombs), 2), min(len(a.Meta), 2)))
	}
	return nil
}

// c15Req is what the untruncated log says replay from the truncation time on must keep. The
// replay code merges series records with equal labels, so tombstones and metadata recorded for
// an earlier incarnation of a label set (a ref whose series was collected or evicted since) are
// inherited by a later one only as long as the old records are still in the log; they belong to
// data before the truncation time and a checkpoint may drop them. Binding are the records of
// incarnations that still have samples/exemplars at or after the truncation time.
type c15Req struct {
	Meta         map[string]string               // series -> latest metadata among incarnations with data (absent: none binding)
	MetaOptional map[string]bool                 // the latest metadata overall belongs to an incarnation without data
	Tombs        map[string]tombstones.Intervals // series -> binding tombstone intervals, clipped
	RacyEx       map[string]map[string]bool      // series -> exemplars followed by a full-range tombstone of the same series
}

func c15Requirements(sh *c15Log, from int64) *c15Req {
	q := &c15Req{Meta: map[string]string{}, MetaOptional: map[string]bool{}, Tombs: map[string]tombstones.Intervals{}, RacyEx: map[string]map[string]bool{}}
	hasData := map[int]bool{}
	for _, r := range sh.Recs {
		if r.Inc >= 0 && r.T >= from && (r.Kind == "sample" || r.Kind == "histogram" || r.Kind == "exemplar") {
			hasData[r.Inc] = true
		}
	}
	for i, r := range sh.Recs {
		if r.Inc < 0 {
			continue
		}
		name := sh.IncName[r.Inc]
		switch r.Kind {
		case "metadata":
			if hasData[r.Inc] {
				q.Meta[name] = r.Help[strings.LastIndex(r.Help, "|")+1:]
				q.MetaOptional[name] = false
			} else {
				q.MetaOptional[name] = true
			}
		case "tombstone":
			if r.Full {
				// replay forgets the series here, together with every earlier tombstone
				delete(q.Tombs, name)
				for _, e := range sh.Recs[:i] {
					if e.Kind == "exemplar" && e.Inc >= 0 && sh.IncName[e.Inc] == name {
						if q.RacyEx[name] == nil {
							q.RacyEx[name] = map[string]bool{}
						}
						q.RacyEx[name][e.Val] = true
					}
				}
				continue
			}
			if !hasData[r.Inc] {
				continue
			}
			for _, iv := range r.Ivs {
				if iv.Maxt < from {
					continue
				}
				if iv.Mint < from {
					iv.Mint = from
				}
				q.Tombs[name] = q.Tombs[name].Add(iv)
			}
		}
	}
	return q
}

func c15Covers(outer tombstones.Intervals, inner tombstones.Intervals) bool {
	for _, iv := range inner {
		ok := false
		for _, o := range outer {
			if o.Mint <= iv.Mint && iv.Maxt <= o.Maxt {
				ok = true
			}
		}
		if !ok {
			return false
		}
	}
	return true
}

func c15Compare(a, b *c15View, q *c15Req, op, ctx string) *vx.Fail {
	if k, av, bv := c15DiffMaps(a.Samples, b.Samples); k != "" {
		return vx.Failf("replay-samples-differ/"+op, "%s: series %s: checkpoint+segments replay samples %s, untruncated log replays %s", ctx, k, av, bv)
	}
	// Exemplars of a series that is later dropped by a full-range tombstone are added by a
	// separate replay goroutine that looks the series up when it gets to them: whether they survive
	// depends on goroutine timing. They are left out of the comparison.
	strip := func(m map[string][]string) map[string][]string {
		out := map[string][]string{}
		for k, es := range m {
			for _, e := range es {
				if !q.RacyEx[k][e] {
					out[k] = append(out[k], e)
				}
			}
		}
		return out
	}
	if k, av, bv := c15DiffMaps(strip(a.Exemplars), strip(b.Exemplars)); k != "" {
		return vx.Failf("replay-exemplars-differ/"+op, "%s: series %s: checkpoint+segments replay exemplars %s, untruncated log replays %s", ctx, k, av, bv)
	}
	for _, name := range vx.SortedKeys(a.Samples) {
		// tombstones: everything binding must be there, nothing the untruncated log does not have
		if !c15Covers(a.Tombs[name], q.Tombs[name]) {
			return vx.Failf("replay-tombstones-differ/"+op, "%s: series %s: checkpoint+segments replay tombstones %v, but the untruncated log holds %v for incarnations that still have data", ctx, name, a.Tombs[name], q.Tombs[name])
		}
		if !c15Covers(b.Tombs[name], a.Tombs[name]) {
			return vx.Failf("replay-tombstones-differ/"+op, "%s: series %s: checkpoint+segments replay tombstones %v, untruncated log replays only %v", ctx, name, a.Tombs[name], b.Tombs[name])
		}
		// latest metadata
		am, aok := a.Meta[name]
		bm, bok := b.Meta[name]
		if am == bm && aok == bok {
			continue
		}
		rm, rok := q.Meta[name]
		if q.MetaOptional[name] && am == rm && aok == rok {
			continue
		}
		return vx.Failf("replay-metadata-differs/"+op, "%s: series %s: checkpoint+segments replay metadata %q (present %v), untruncated log replays %q (present %v); binding (recorded for an incarnation that still has data): %q (present %v)", ctx, name, am, aok, bm, bok, rm, rok)
	}
	return nil
}

// ---- alphabet and key -------------------------------------------------------------------------

func (x *c15Sys) Ops() []string {
	ops := []string{"a/s1/F+1", "a/s2/F+1", "a/new/F+1"}
	if x.cfg.Alphabet != "small" {
		ops = append(ops, "a/s2/F", "a/s1/F+1/x", "a/s1/F+1/h", "md/s1", "del/s1/F/F", "del/s1/F-1/F", "del/all/min/max", "ev/s1", "rot")
	}
	ops = append(ops, "tr/F+1", "tr/F", "TR/F+1", "TR/F", "re")
	if x.cfg.Alphabet == "small" {
		ops = append(ops, "md/s1", "del/s1/F-1/F")
	}
	return ops
}

func (x *c15Sys) Key() string {
	var sb strings.Builder
	h := x.head
	fmt.Fprintf(&sb, "F%d T%d fresh%d meta%d|head[%d,%d]mv%d wt%d last%d|", x.front, x.maxMint, x.nfresh, x.nmeta, h.MinTime(), h.MaxTime(), h.minValidTime.Load(), h.lastWALTruncationTime.Load(), h.lastSeriesID.Load())
	var live []string
	for i := 0; i < h.series.size; i++ {
		h.series.locks[i].RLock()
		for _, s := range h.series.series[i] {
			s.Lock()
			m := ""
			if s.meta != nil {
				m = s.meta.Help
			}
			live = append(live, fmt.Sprintf("%s=%d[%d,%d]%s", s.lset.Get("a"), s.ref, s.minTime(), s.maxTime(), m))
			s.Unlock()
		}
		h.series.locks[i].RUnlock()
	}
	sort.Strings(live)
	sb.WriteString(strings.Join(live, " "))
	h.walExpiriesMtx.Lock()
	var exp []string
	for ref, t := range h.walExpiries {
		exp = append(exp, fmt.Sprintf("%d>%d", ref, t))
	}
	h.walExpiriesMtx.Unlock()
	sort.Strings(exp)
	fmt.Fprintf(&sb, "|exp %v|ts%d", exp, h.tombstones.Total())
	w, f := x.cache, (*vx.Fail)(nil)
	if w == nil {
		w, f = c15Decode(x.walDir(), true)
	}
	if f != nil {
		sb.WriteString("|wal-error " + f.Signature)
	} else {
		sb.WriteString("|" + w.Digest)
	}
	return sb.String()
}
