package tsdb

// C22: samples are never attributed to the wrong series — explicit-state BFS over dbx histories
// in which every float value encodes the series it was appended with, appends go through cached
// (possibly outdated) series references, and series are garbage-collected, evicted, checkpointed
// and the database restarted cleanly and uncleanly (fast startup on/off). Oracle: the dbx model
// comparison (a sample returned under labels L must be one appended with L) plus: a reference
// returned for one label set is never handed out for another while the head still runs.

import (
	"fmt"
	"os"
	"path/filepath"
	"strings"
	"testing"

	"github.com/prometheus/prometheus/internal/verif/vx"
	"github.com/prometheus/prometheus/model/labels"
	"github.com/prometheus/prometheus/storage"
	"github.com/prometheus/prometheus/tsdb/record"
	"github.com/prometheus/prometheus/tsdb/wlog"
)

type c22State struct {
	everRef map[storage.SeriesRef]string // ref -> series it was first returned for (since last restart)
	// series whose cached reference was no longer in the head (evicted / garbage-collected) when a
	// clean restart took a memory snapshot without the fast-startup state file
	goneAtSnapRestart map[string]bool
	// staleRef: series whose cached reference was obtained before the last restart. A real process
	// loses its cached references when it restarts, so such a reference only matters through what
	// is still ON DISK for it (see c22WALNamesOther).
	staleRef map[string]storage.SeriesRef
}

// c22WALNamesOther: does the WAL (newest checkpoint + segments) still hold a series record that gives
// reference ref to a label set other than cur? Then a later replay would attribute that reference's
// records to the wrong series.
func c22WALNamesOther(dir string, ref storage.SeriesRef, cur string) bool {
	dec := record.NewDecoder(labels.NewSymbolTable(), nil)
	found := false
	scan := func(d string) {
		f, l, err := wlog.Segments(d)
		if err != nil {
			return
		}
		sr, err := wlog.NewSegmentsRangeReader(wlog.SegmentRange{Dir: d, First: f, Last: l})
		if err != nil {
			return
		}
		defer sr.Close()
		rd := wlog.NewReader(sr)
		for rd.Next() {
			if dec.Type(rd.Record()) != record.Series {
				continue
			}
			ss, err := dec.Series(rd.Record(), nil)
			if err != nil {
				return
			}
			for _, s := range ss {
				if storage.SeriesRef(s.Ref) == ref && seriesKeyOf(s.Labels) != cur {
					found = true
				}
			}
		}
	}
	wal := filepath.Join(dir, "wal")
	if cp, _, err := wlog.LastCheckpoint(wal); err == nil {
		scan(cp)
	}
	scan(wal)
	return found
}

func c22New(r *vx.Run, c dbxCfg, name string) *dbx {
	c.Alphabet = "c22"
	x := dbxWithSoft(r, c, name)
	x.ident = true
	x.syncEvicted = true
	x.refs = map[string]storage.SeriesRef{}
	st := &c22State{everRef: map[storage.SeriesRef]string{}, goneAtSnapRestart: map[string]bool{}, staleRef: map[string]storage.SeriesRef{}}
	x.extraOps = func(x *dbx) []string {
		ops := []string{
			"app/s1/F+1/f", "app/s2/F+1/f", "app/s3/F+1/f",
			"ref/s1/F+1/f", "ref/s2/F+1/f", "ref/s1/F+1/f/s3/F+1/f",
			"app/s2/F+160/f", "app/s1/F+1/st",
			"cmphead", "compact", "staleevict", "rotate", "reopen", "unclean", "tick",
		}
		return ops
	}
	x.extraApply = func(x *dbx, op string, check bool) (bool, *vx.Fail) {
		p := strings.Split(op, "/")
		switch p[0] {
		case "ref":
			x.useRef = true
			f := x.txn(p[1:], false)
			x.useRef = false
			if f != nil {
				return true, f
			}
			return true, c22CheckRefs(x, st)
		case "app":
			if f := x.txn(p[1:], false); f != nil {
				return true, f
			}
			return true, c22CheckRefs(x, st)
		case "staleevict":
			if err := x.db.CompactStaleHead(); err != nil {
				return true, vx.Failf("op-error/staleevict", "CompactStaleHead: %v", err)
			}
			return true, nil
		case "rotate":
			if _, err := x.db.Head().wal.NextSegment(); err != nil {
				return true, vx.Failf("op-error/rotate", "%v", err)
			}
			return true, nil
		case "tick":
			x.db.Head().writeSeriesState(false)
			return true, nil
		case "reopen":
			st.everRef = map[storage.SeriesRef]string{}
			for sk, ref := range x.refs {
				st.staleRef[sk] = ref
				delete(x.refs, sk) // a restarted process holds no cached reference
			}
			if x.cfg.Snapshot && !x.cfg.FastStartup {
				for sk, ref := range st.staleRef {
					if ref != 0 && x.db.Head().series.getByID(chunksHeadSeriesRef(ref)) == nil {
						st.goneAtSnapRestart[sk] = true
					}
				}
			}
			return false, nil
		case "unclean":
			// process killed: the directory as it is now is what the next start sees
			dst, err := os.MkdirTemp("", "dbxu")
			if err != nil {
				panic(err)
			}
			if err := dbxCopyDir(x.dir, dst); err != nil {
				panic(err)
			}
			_ = x.db.Close()
			os.RemoveAll(x.dir)
			x.dir = dst
			st.everRef = map[storage.SeriesRef]string{}
			for sk, ref := range x.refs {
				st.staleRef[sk] = ref
				delete(x.refs, sk) // a restarted process holds no cached reference
			}
			if err := x.open(); err != nil {
				return true, vx.Failf("op-error/open-after-kill", "open after unclean shutdown: %v", err)
			}
			return true, nil
		}
		return false, nil
	}
	return x
}

// c22CheckRefs: a reference is never handed out for two different label sets (per head lifetime).
func c22CheckRefs(x *dbx, st *c22State) *vx.Fail {
	// references cached before the last restart
	for sk, ref := range st.staleRef {
		if ref == 0 || x.refs[sk] == ref {
			continue
		}
		{
			// cached before the last restart: it only matters through what is still on disk for it
			if s := x.db.Head().series.getByID(chunksHeadSeriesRef(ref)); s != nil && seriesKeyOf(s.labels()) != sk && c22WALNamesOther(x.dir, ref, seriesKeyOf(s.labels())) {
				if st.goneAtSnapRestart[sk] {
					return vx.Failf("evicted-series-ref-reissued-after-snapshot-restart", "reference %d returned for %s (evicted before a restart from a memory snapshot) now resolves to %s: an append with the outdated reference goes to the other series", ref, sk, s.labels())
				}
				return vx.Failf("series-ref-resolves-to-other-labels", "reference %d returned for %s before the last restart now resolves to %s while the WAL still holds a series record giving it to another label set", ref, sk, s.labels())
			}
		}
	}
	for sk, ref := range x.refs {
		if ref == 0 {
			continue
		}
		if prev, ok := st.everRef[ref]; ok && prev != sk {
			if st.goneAtSnapRestart[sk] || st.goneAtSnapRestart[prev] {
				return vx.Failf("evicted-series-ref-reissued-after-snapshot-restart", "reference %d was returned for %s and now for %s (one of them evicted before a restart from a memory snapshot)", ref, prev, sk)
			}
			return vx.Failf("series-ref-reused-for-other-labels", "reference %d was returned for %s and now for %s", ref, prev, sk)
		}
		st.everRef[ref] = sk
		// the reference resolves to the right labels in the head
		if s := x.db.Head().series.getByID(chunksHeadSeriesRef(ref)); s != nil && seriesKeyOf(s.labels()) != sk {
			if st.goneAtSnapRestart[sk] {
				// Known-finding class: the series was evicted before a restart from a memory snapshot;
				// the snapshot holds no trace of it and the WAL before the snapshot is not read, so the
				// last series id restarts below its reference while its WAL records still exist.
				return vx.Failf("evicted-series-ref-reissued-after-snapshot-restart", "reference %d returned for %s (evicted before a restart from a memory snapshot) now resolves to %s: an append with the outdated reference goes to the other series", ref, sk, s.labels())
			}
			return vx.Failf("series-ref-resolves-to-other-labels", "reference %d returned for %s resolves to %s", ref, sk, s.labels())
		}
	}
	return nil
}

func TestVerifC22(t *testing.T) {
	r := vx.Start(t, "C22", "model_checking")
	defer r.Finish()
	cfgs := dbxConfigs()
	fs := cfgs["base"]
	fs.Name, fs.FastStartup = "faststart", true
	cfgs["faststart"] = fs
	fo := cfgs["ooo"]
	fo.Name, fo.FastStartup = "ooo+faststart", true
	cfgs["ooo+faststart"] = fo
	fsn := cfgs["snap"]
	fsn.Name, fsn.FastStartup = "faststart+snap", true
	cfgs["faststart+snap"] = fsn
	if r.Replay != "" {
		var rp struct {
			Config string   `json:"config"`
			Ops    []string `json:"ops"`
		}
		r.LoadReplay(&rp)
		cfg, _, _ := strings.Cut(rp.Config, "@")
		if f := r.ReplayOps(func() vx.Sys { return c22New(r, cfgs[cfg], rp.Config) }, rp.Ops); f != nil {
			r.Violation(f.Signature, f.Message, rp)
		}
		return
	}
	// self-test: a sample stored under the wrong labels must be reported by the model comparison
	{
		x := c22New(r, cfgs["base"], "selftest")
		x.Apply("app/s1/F+1/f", true)
		x.m.series["s2"], x.m.series["s1"] = x.m.series["s1"], nil
		delete(x.m.series, "s1")
		if f := x.checkQueries(); f == nil {
			t.Fatal("self-test: misattributed sample not detected")
		}
		x.Close()
	}
	type plan struct {
		cfg   string
		depth int
	}
	// FIRST (cheap and targeted; the deadline must not cut it off): search from non-initial states: the highest reference belongs to a series that has an m-mapped
	// chunk and was evicted / garbage-collected before a restart
	starts := [][]string{
		{"app/s1/F+1/f", "app/s2/F+1/f", "app/s2/F+160/f", "mmap", "app/s2/F+1/st", "staleevict", "reopen"},
		{"app/s1/F+1/f", "app/s2/F+1/f", "app/s2/F+160/f", "mmap", "app/s2/F+1/st", "staleevict", "unclean"},
		{"app/s1/F+1/f", "app/s2/F+1/f", "rotate", "rotate", "rotate", "app/s1/F+160/f", "cmphead", "reopen"},
		{"app/s1/F+1/f", "app/s2/F+1/f", "tick", "app/s3/F+1/f", "app/s1/F+160/f", "cmphead", "unclean"},
		// the highest reference belongs to an evicted series whose series record sits in the WAL
		// segments that the checkpoint of the head compaction rewrites (and drops), while its full-range
		// tombstone sits in a later segment: after the restart only that tombstone still mentions the reference
		{"app/s2/F+1/f", "app/s1/F+1/f", "app/s1/F+1/st", "rotate", "rotate", "rotate", "staleevict", "app/s2/F+160/f", "cmphead", "reopen"},
	}
	// the checkpoint/tombstone start (last one) also WITHOUT fast startup: with it the state file written
	// by the clean shutdown restores the last reference and hides what the WAL replay derives
	if r.Quick() && !r.Expired() {
		name := "base@c22+tombstone-start"
		res := r.BFSFrom(name, func() vx.Sys { return c22New(r, cfgs["base"], name) }, starts[len(starts)-1:], 1)
		t.Logf("C22 %s: states=%d transitions=%d", name, res.States, res.Transitions)
	}
	for _, cn := range vx.Pick(r, []string{"faststart+snap", "faststart", "snap"}, []string{"faststart+snap", "faststart", "snap", "base", "ooo+faststart"}) {
		if r.Expired() {
			r.NotExhaustive("deadline before the non-initial-state search of " + cn)
			break
		}
		name := cn + "@c22+starts"
		res := r.BFSFrom(name, func() vx.Sys { return c22New(r, cfgs[cn], name) }, starts, vx.Pick(r, 2, 3))
		t.Logf("C22 %s: states=%d transitions=%d", name, res.States, res.Transitions)
	}
	plans := vx.Pick(r, []plan{{"base", 3}, {"faststart", 3}}, []plan{{"base", 4}, {"faststart", 4}, {"snap", 4}, {"ooo+faststart", 4}, {"faststart", 5}, {"base", 5}})
	for _, p := range plans {
		if r.Expired() {
			r.NotExhaustive("deadline before plan " + p.cfg)
			break
		}
		name := p.cfg + "@c22"
		res := r.BFS(name, func() vx.Sys { return c22New(r, cfgs[p.cfg], name) }, p.depth)
		t.Logf("C22 %s depth %d: states=%d transitions=%d", name, p.depth, res.States, res.Transitions)
	}
	_ = fmt.Sprint
}
