package chunks

// C25: head chunks on disk are readable at once and after restart.
// Part 1 — engine E2 (controlled scheduler, preemption-bounded DFS): a real ChunkDiskMapper with
// an asynchronous write queue (size 1 or 2); threads W (WriteChunk x2, CutNewFile, WriteChunk),
// R (reads every ref already returned, twice), T (Truncate) and the queue worker (spawned by the
// mapper through WaitGroup.Go, hence controlled). Oracle: Chunk(ref) returns the written bytes at
// every moment after WriteChunk returned (unless its file was truncated away on request).
// Part 2 — restart + E4: after every explored execution the directory is reopened and
// IterateAllChunks must yield the completed chunks of the retained files in write order with the
// right meta; and for a written directory the newest file is truncated at EVERY offset: the torn
// tail is dropped (or reported as corruption), never returned as a chunk.

import (
	"bytes"
	"encoding/json"
	"errors"
	"fmt"
	"os"
	"path/filepath"
	"sort"
	"strings"
	"sync"
	"testing"
	"time"

	"github.com/prometheus/prometheus/internal/verif/vsched"
	"github.com/prometheus/prometheus/internal/verif/vx"
	"github.com/prometheus/prometheus/tsdb/chunkenc"
)

type c25Written struct {
	ref    ChunkDiskMapperRef
	series HeadSeriesRef
	mint   int64
	maxt   int64
	data   []byte
	n      int
}

func c25Chunk(seed int) (chunkenc.Chunk, int) {
	c := chunkenc.NewXORChunk()
	app, _ := c.Appender()
	n := 2 + seed%3
	for i := 0; i < n; i++ {
		app.Append(0, int64(seed*100+i), float64(seed)+float64(i)/8)
	}
	return c, n
}

type c25Scenario struct {
	Name      string
	QueueSize int
	Truncate  bool
	Readers   int
}

type c25Obs struct {
	mu       sync.Mutex // protects the harness' own observations (contended only in the race pass)
	dir      string
	written  []c25Written // appended by W after each WriteChunk returned
	readErrs []string
	cbErrs   []string
	truncAt  int // len(written) when Truncate started (-1: not started)
	truncSeq int
	closed   bool
}

func c25Body(sc c25Scenario, obs *c25Obs) func() {
	dir, err := os.MkdirTemp("", "c25")
	if err != nil {
		panic(err)
	}
	obs.dir = dir
	obs.truncAt = -1
	return func() {
		cdm, err := NewChunkDiskMapper(nil, dir, chunkenc.NewPool(), DefaultWriteBufferSize, sc.QueueSize)
		if err != nil {
			panic(err)
		}
		write := func(seed int) {
			chk, n := c25Chunk(seed)
			data := append([]byte{}, chk.Bytes()...)
			ref := cdm.WriteChunk(HeadSeriesRef(seed), int64(seed*100), int64(seed*100+n-1), chk, false, func(err error) {
				if err != nil {
					obs.mu.Lock()
					obs.cbErrs = append(obs.cbErrs, err.Error())
					obs.mu.Unlock()
				}
			})
			obs.mu.Lock()
			obs.written = append(obs.written, c25Written{ref, HeadSeriesRef(seed), int64(seed * 100), int64(seed*100 + n - 1), data, n})
			obs.mu.Unlock()
		}
		read := func() {
			for pass := 0; pass < 2; pass++ {
				obs.mu.Lock()
				snapshot := append([]c25Written{}, obs.written...)
				obs.mu.Unlock()
				for _, w := range snapshot {
					c, err := cdm.Chunk(w.ref)
					seq, _ := w.ref.Unpack()
					// evaluated AFTER the read returned: a truncation that started while the read was
					// in progress may legitimately have removed the file
					obs.mu.Lock()
					truncStarted, truncSeq := obs.truncAt >= 0, obs.truncSeq
					obs.mu.Unlock()
					if err != nil {
						if truncStarted && seq < truncSeq {
							continue // its file may legitimately be gone
						}
						obs.mu.Lock()
						obs.readErrs = append(obs.readErrs, fmt.Sprintf("read-error: Chunk(%d:%d) after WriteChunk returned: %v", seq, w.ref, err))
						obs.mu.Unlock()
						continue
					}
					if !bytes.Equal(c.Bytes(), w.data) {
						obs.mu.Lock()
						obs.readErrs = append(obs.readErrs, fmt.Sprintf("read-wrong-bytes: Chunk(seq %d) returned %x, written %x", seq, c.Bytes(), w.data))
						obs.mu.Unlock()
					}
				}
				vsched.Yield()
			}
		}
		var ths []*vsched.Thread
		ths = append(ths, vsched.GoNamed("W", func() {
			write(1)
			write(2)
			cdm.CutNewFile()
			write(3)
		}))
		for i := 0; i < sc.Readers; i++ {
			ths = append(ths, vsched.GoNamed("R", read))
		}
		if sc.Truncate {
			ths = append(ths, vsched.GoNamed("T", func() {
				// truncate everything below the file of the newest chunk written so far
				seq := 0
				obs.mu.Lock()
				if n := len(obs.written); n > 0 {
					seq, _ = obs.written[n-1].ref.Unpack()
				}
				obs.truncSeq = seq
				obs.truncAt = len(obs.written)
				obs.mu.Unlock()
				if err := cdm.Truncate(uint32(seq)); err != nil {
					obs.mu.Lock()
					obs.readErrs = append(obs.readErrs, "truncate-error: "+err.Error())
					obs.mu.Unlock()
				}
			}))
		}
		vsched.WaitFor(ths...) // the queue worker keeps running until Close
		if sc.Truncate {
			// one more cut + write after writer, readers and truncation have all finished: the mapper's
			// idea of the next file must still agree with the files on disk
			cdm.CutNewFile()
			write(4)
		}
		// everything is written now: all non-truncated refs must be readable
		for _, w := range obs.written {
			seq, _ := w.ref.Unpack()
			c, err := cdm.Chunk(w.ref)
			if err != nil {
				if obs.truncAt >= 0 && seq < obs.truncSeq {
					continue
				}
				obs.readErrs = append(obs.readErrs, fmt.Sprintf("read-error-at-end: Chunk(seq %d): %v", seq, err))
			} else if !bytes.Equal(c.Bytes(), w.data) {
				obs.readErrs = append(obs.readErrs, fmt.Sprintf("read-wrong-bytes-at-end: seq %d", seq))
			}
		}
		if err := cdm.Close(); err != nil {
			obs.readErrs = append(obs.readErrs, "close-error: "+err.Error())
		}
		obs.closed = true
	}
}

type c25Iter struct {
	series HeadSeriesRef
	ref    ChunkDiskMapperRef
	mint   int64
	maxt   int64
	n      uint16
	enc    chunkenc.Encoding
}

func c25Iterate(dir string) ([]c25Iter, error) {
	cdm, err := NewChunkDiskMapper(nil, dir, chunkenc.NewPool(), DefaultWriteBufferSize, 0)
	if err != nil {
		return nil, err
	}
	defer cdm.Close()
	var out []c25Iter
	err = cdm.IterateAllChunks(func(s HeadSeriesRef, ref ChunkDiskMapperRef, mint, maxt int64, n uint16, enc chunkenc.Encoding, isOOO bool) error {
		out = append(out, c25Iter{s, ref, mint, maxt, n, enc})
		return nil
	})
	return out, err
}

// c25CheckRestart: after a clean Close every written chunk of a retained file is iterated in write order.
func c25CheckRestart(obs *c25Obs) (sig, msg string) {
	var its []c25Iter
	var err error
	if p, stack := vx.Guard(func() { its, err = c25Iterate(obs.dir) }); p != nil {
		return "restart-iterate-panic", fmt.Sprintf("%v\n%s", p, stack)
	}
	if err != nil {
		return "restart-iterate-error", err.Error()
	}
	var want []c25Written
	for _, w := range obs.written {
		seq, _ := w.ref.Unpack()
		if obs.truncAt >= 0 && seq < obs.truncSeq {
			continue
		}
		want = append(want, w)
	}
	// iteration may still contain chunks of files that Truncate was allowed to remove but did not
	var got []c25Iter
	for _, it := range its {
		seq, _ := it.ref.Unpack()
		if obs.truncAt >= 0 && seq < obs.truncSeq {
			continue
		}
		got = append(got, it)
	}
	if len(got) != len(want) {
		return "restart-chunk-count", fmt.Sprintf("iteration after restart yields %d chunks of retained files, %d were written: got %+v", len(got), len(want), got)
	}
	for i := range want {
		w, g := want[i], got[i]
		if g.series != w.series || g.ref != w.ref || g.mint != w.mint || g.maxt != w.maxt || int(g.n) != w.n || g.enc != chunkenc.EncXOR {
			return "restart-chunk-meta", fmt.Sprintf("chunk %d after restart: got %+v, written series=%d ref=%d [%d,%d] n=%d", i, g, w.series, w.ref, w.mint, w.maxt, w.n)
		}
	}
	return "", ""
}

type c25Replay struct {
	Scenario string `json:"scenario"`
	Choices  []int  `json:"choices"`
}

func c25Eval(sc c25Scenario, tr vsched.Trace, obs *c25Obs) (string, string) {
	if tr.Fail != "" {
		switch {
		case tr.Deadlock:
			return "deadlock", tr.Fail
		case tr.Livelock:
			return "livelock", tr.Fail
		}
		return "execution-failed", tr.Fail
	}
	if len(obs.cbErrs) > 0 {
		return "write-callback-error", strings.Join(obs.cbErrs, "; ")
	}
	if len(obs.readErrs) > 0 {
		return strings.SplitN(obs.readErrs[0], ":", 2)[0], strings.Join(obs.readErrs, "; ")
	}
	return c25CheckRestart(obs)
}

func TestVerifC25(t *testing.T) {
	r := vx.Start(t, "C25", "model_checking")
	defer r.Finish()
	scs := []c25Scenario{
		{"q1-1reader", 1, false, 1},
		{"q2-1reader", 2, false, 1},
		{"q1-truncate-1reader", 1, true, 1},
		{"q2-truncate-1reader", 2, true, 1},
		{"q1-2readers", 1, false, 2},
	}
	byName := map[string]c25Scenario{}
	for _, s := range scs {
		byName[s.Name] = s
	}
	runOne := func(sc c25Scenario, prefix []int) (vsched.Trace, *c25Obs) {
		obs := &c25Obs{}
		body := c25Body(sc, obs)
		tr := vsched.Run(body, prefix, nil, 50000)
		return tr, obs
	}
	if r.Replay != "" {
		var rp c25Replay
		r.LoadReplay(&rp)
		sc := byName[rp.Scenario]
		var sigs []string
		for i := 0; i < 2; i++ {
			tr, obs := runOne(sc, rp.Choices)
			sig, msg := c25Eval(sc, tr, obs)
			if i == 0 {
				var sb strings.Builder
				lastT, n := -1, 0
				var kinds []string
				for _, p := range tr.Points {
					if p.Thread != lastT {
						if lastT >= 0 {
							fmt.Fprintf(&sb, "T%d x%d %v; ", lastT, n, kinds)
						}
						lastT, n, kinds = p.Thread, 0, nil
					}
					n++
					if len(kinds) < 40 {
						kinds = append(kinds, fmt.Sprintf("%s%d", p.Kind, p.Obj))
					}
				}
				fmt.Fprintf(&sb, "T%d x%d %v", lastT, n, kinds)
				t.Logf("schedule: %s", sb.String())
				t.Logf("written=%d truncAt=%d truncSeq=%d readErrs=%v", len(obs.written), obs.truncAt, obs.truncSeq, obs.readErrs)
				ents, _ := os.ReadDir(obs.dir)
				for _, e := range ents {
					t.Logf("file %s", e.Name())
				}
			}
			os.RemoveAll(obs.dir)
			sigs = append(sigs, sig)
			if i == 1 && sig != "" {
				r.Violation(sig, msg, rp)
			}
		}
		if sigs[0] != sigs[1] {
			t.Fatalf("nondeterministic replay %v", sigs)
		}
		return
	}
	if os.Getenv("VERIF_RACE") == "1" {
		// Free-running pass under the race detector (sampling, not model checking).
		iters := vx.Pick(r, 40, 300)
		n := 0
		for _, sc := range scs {
			for i := 0; i < iters && !r.Expired(); i++ {
				obs := &c25Obs{}
				c25Body(sc, obs)()
				n++
				if sig, msg := c25Eval(sc, vsched.Trace{}, obs); sig != "" {
					r.Violation("free-running/"+sig, fmt.Sprintf("scenario %s (free-running): %s", sc.Name, msg), map[string]any{"scenario": sc.Name, "free_running": true})
				}
				os.RemoveAll(obs.dir)
			}
		}
		r.Count("race_pass_iterations", n)
		r.Count("states", 1)
		r.Count("transitions", 1)
		r.Count("traces_validated_against_impl", 0)
		r.Sample(map[string]any{"race_pass": "free-running iterations of every scenario under -race", "iterations": n})
		return
	}
	bound := vx.Pick(r, 2, 3)
	deadline := time.Now().Add(time.Duration(vx.Pick(r, 70, 1200)) * time.Second)
	var execs, points int64
	complete := true
	per := map[string]any{}
	for si, sc := range scs {
		if r.NShards > 1 && si%r.NShards != r.Shard {
			continue
		}
		outcomes := map[string]int{}
		var last vsched.Result
		for b := 0; b <= bound; b++ {
			var cur *c25Obs
			mk := func() func() {
				cur = &c25Obs{}
				return c25Body(sc, cur)
			}
			last = vsched.Explore(mk, vsched.Opts{MaxPreemptions: b, Horizon: 50000, OnlyShared: true, Deadline: deadline}, func(tr vsched.Trace, choices []int) bool {
				obs := cur
				sig, msg := c25Eval(sc, tr, obs)
				os.RemoveAll(obs.dir)
				if sig != "" {
					same := 0
					for k := 0; k < 5; k++ {
						tr2, obs2 := runOne(sc, choices)
						s2, _ := c25Eval(sc, tr2, obs2)
						os.RemoveAll(obs2.dir)
						if s2 == sig {
							same++
						}
					}
					if same != 5 {
						t.Fatalf("violation %q of scenario %s does not replay deterministically (%d/5): %s", sig, sc.Name, same, msg)
					}
					r.Violation(sig, fmt.Sprintf("scenario %s, preemption bound %d: %s", sc.Name, b, msg), c25Replay{sc.Name, choices})
					outcomes["VIOLATION:"+sig]++
					return r.Violations() < 6
				}
				// outcome: how many reads were served before the queue had drained is not observable
				// from outside; use the point count class as a proxy for distinct behaviours
				outcomes[fmt.Sprintf("ok/threads=%d/written=%d", tr.Threads, len(obs.written))]++
				return true
			})
			if len(last.ToolFailures) > 0 {
				t.Fatalf("scheduler tool failure in scenario %s: %v", sc.Name, last.ToolFailures)
			}
			execs += last.Executions
			points += last.Points
			if !last.Complete {
				complete = false
				break
			}
		}
		per[sc.Name] = map[string]any{"bound_completed": last.Complete, "max_points": last.MaxPoints}
		b, _ := json.Marshal(outcomes)
		r.Sample(map[string]any{"scenario": sc.Name, "outcomes": string(b)})
	}
	// Part 2 (E4): newest file truncated at every offset
	if r.Shard == 0 {
		c25TornTail(t, r)
	}
	if !complete {
		r.NotExhaustive("deadline reached before the preemption bound was completed for every scenario")
	}
	r.Count("schedules", int(execs))
	r.Count("states", int(points))
	r.Count("transitions", int(points))
	r.Count("traces_validated_against_impl", int(execs))
	r.Set("preemption_bound", bound)
	r.Set("scenarios", per)
	r.Assume("sequential consistency at scheduling points of tsdb/chunks (locks, atomics, condition variables, wait groups)")
}

// c25TornTail: write a directory synchronously, then truncate the newest file at every offset.
func c25TornTail(t *testing.T, r *vx.Run) {
	dir, _ := os.MkdirTemp("", "c25t")
	defer os.RemoveAll(dir)
	cdm, err := NewChunkDiskMapper(nil, dir, chunkenc.NewPool(), DefaultWriteBufferSize, 0)
	if err != nil {
		t.Fatal(err)
	}
	var written []c25Written
	for seed := 1; seed <= 5; seed++ {
		if seed == 3 {
			cdm.CutNewFile()
		}
		chk, n := c25Chunk(seed)
		data := append([]byte{}, chk.Bytes()...)
		ref := cdm.WriteChunk(HeadSeriesRef(seed), int64(seed*100), int64(seed*100+n-1), chk, false, func(err error) {
			if err != nil {
				t.Fatal(err)
			}
		})
		written = append(written, c25Written{ref, HeadSeriesRef(seed), int64(seed * 100), int64(seed*100 + n - 1), data, n})
	}
	if err := cdm.Close(); err != nil {
		t.Fatal(err)
	}
	files, _ := filepath.Glob(filepath.Join(dir, "0*"))
	sort.Strings(files)
	newest := files[len(files)-1]
	orig, _ := os.ReadFile(newest)
	last := len(orig)
	for last > 0 && orig[last-1] == 0 {
		last--
	}
	cases := 0
	for off := 0; off <= last+1 && off <= len(orig); off++ {
		d2, _ := os.MkdirTemp("", "c25tt")
		for _, f := range files {
			b, _ := os.ReadFile(f)
			if f == newest {
				b = b[:off]
			}
			os.WriteFile(filepath.Join(d2, filepath.Base(f)), b, 0o666)
		}
		var its []c25Iter
		var err error
		p, stack := vx.Guard(func() { its, err = c25Iterate(d2) })
		os.RemoveAll(d2)
		cases++
		if p != nil {
			r.Violation("torn-tail-panic", fmt.Sprintf("newest file truncated at %d: iteration after restart panicked: %v\n%s", off, p, stack), map[string]any{"kind": "torn", "offset": off})
			continue
		}
		var cerr *CorruptionErr
		if err != nil && !errors.As(err, &cerr) {
			// opening may also fail for a header-less file: acceptable as "detected"
			continue
		}
		// every yielded chunk must be one that was written, in order, with right meta
		for i, it := range its {
			if i >= len(written) {
				r.Violation("torn-tail-extra-chunk", fmt.Sprintf("newest file truncated at %d: iteration yields %d chunks, only %d written", off, len(its), len(written)), map[string]any{"kind": "torn", "offset": off})
				break
			}
			w := written[i]
			if it.series != w.series || it.ref != w.ref || it.mint != w.mint || it.maxt != w.maxt || int(it.n) != w.n {
				r.Violation("torn-tail-wrong-chunk", fmt.Sprintf("newest file truncated at %d: chunk %d is %+v, written series=%d ref=%d [%d,%d] n=%d", off, i, it, w.series, w.ref, w.mint, w.maxt, w.n), map[string]any{"kind": "torn", "offset": off})
				break
			}
		}
		// chunks of the older file must all be there
		if len(its) < 2 && err == nil {
			r.Violation("torn-tail-lost-older-file", fmt.Sprintf("newest file truncated at %d: only %d chunks iterated, the older file holds 2", off, len(its)), map[string]any{"kind": "torn", "offset": off})
		}
	}
	r.Count("torn_tail_offsets", cases)
}
