package agent

// agx: history harness for the agent-mode WAL-only storage (used by C48 and by the agent part of
// C15). A real agent.DB in /dev/shm, background truncation loop never firing, operations applied
// synchronously, a boring reference model kept in lock-step, and an oracle that DECODES the WAL
// directory (last checkpoint + following segments, in replay order) with tsdb/wlog readers and
// tsdb/record.Decoder. Implements vx.Sys so histories can be explored by explicit-state BFS.
//
// Operations (strings):
//   a/<series>/<time>/<kind>   append one sample to the open appender (opened on demand);
//                              kind f|h|fh|hc|fhc (float, int/float histogram, custom-bucket ones)
//   ax/<series>/<time>         append a float sample followed by an exemplar for the returned ref
//   c | r                      commit / rollback the open appender
//   t/<mint>                   db.truncate(mint): series GC, new segment, maybe checkpoint
//   T/<mint>                   first roll the WAL (NextSegment) until a checkpoint is due, then truncate
//   rot                        wal.NextSegment (a full segment)
//   re                         Close + Open (an open appender is abandoned, like a process exit)
// Times are relative to the frontier F = newest committed sample timestamp (10 before any).

import (
	"bytes"
	"context"
	"errors"
	"fmt"
	"io"
	"math"
	"os"
	"path/filepath"
	"sort"
	"strconv"
	"strings"

	"github.com/prometheus/common/promslog"

	"github.com/prometheus/prometheus/internal/verif/vx"
	"github.com/prometheus/prometheus/model/exemplar"
	"github.com/prometheus/prometheus/model/histogram"
	"github.com/prometheus/prometheus/model/labels"
	"github.com/prometheus/prometheus/storage"
	"github.com/prometheus/prometheus/tsdb/chunks"
	"github.com/prometheus/prometheus/tsdb/record"
	"github.com/prometheus/prometheus/tsdb/tsdbutil"
	"github.com/prometheus/prometheus/tsdb/wlog"
)

type agxCfg struct {
	Name     string
	W        int64 // out-of-order window
	V2       bool  // AppenderV2
	ST       bool  // EnableSTStorage, samples carry a start timestamp (V2 only)
	InMem    bool  // CheckpointFromInMemorySeries
	Alphabet string
	Prefix   []string // history applied (unchecked) before exploration starts
	Shadow   bool     // keep a shadow copy of every segment (C15)
}

func agxConfigs() map[string]agxCfg {
	l := []agxCfg{
		{Name: "base", W: 0},
		{Name: "ooo", W: 2},
		{Name: "v2", W: 2, V2: true},
		{Name: "st", W: 0, V2: true, ST: true},
		{Name: "inmem", W: 0, InMem: true},
	}
	m := map[string]agxCfg{}
	for _, c := range l {
		m[c.Name] = c
	}
	return m
}

// agxPrefixes are fixed histories used to start the search from deep states.
func agxPrefixes() map[string][]string {
	return map[string][]string{
		"": nil,
		// one checkpoint holding live data of two series
		"cp": {"a/s1/F+1/f", "a/s2/F+1/f", "c", "T/F"},
		// s1 collected, re-created under a new ref, restart => duplicate series records
		"dup": {"a/s1/F+1/f", "c", "T/F+1", "a/s1/F+1/f", "c", "re"},
		// as dup, but the re-created series' samples go on in a LATER segment than its series record
		// (float / int histogram / float histogram record types have separate replay branches)
		"dupspan":   {"a/s1/F+1/f", "c", "T/F+1", "a/s1/F+1/f", "c", "rot", "a/s1/F+1/f", "c", "re"},
		"dupspanh":  {"a/s1/F+1/f", "c", "T/F+1", "a/s1/F+1/h", "c", "rot", "a/s1/F+1/h", "c", "re"},
		"dupspanfh": {"a/s1/F+1/f", "c", "T/F+1", "a/s1/F+1/fh", "c", "rot", "a/s1/F+1/fh", "c", "re"},
	}
}

var agxSeries = map[string]labels.Labels{
	"s1": labels.FromStrings("__name__", "m", "a", "1"),
	"s2": labels.FromStrings("__name__", "m", "a", "2"),
}

func agxSeriesKey(l labels.Labels) string {
	for _, k := range []string{"s1", "s2"} {
		if labels.Equal(l, agxSeries[k]) {
			return k
		}
	}
	return "?" + l.String()
}

// ---- reference model ----------------------------------------------------------------------

// agxItem is one accepted sample / histogram / exemplar.
type agxItem struct {
	S    string // series key
	Kind string // f h fh hc fhc ex
	T    int64
	Val  string // canonical value (unique per attempt)
	// Released: a truncation with mint > T happened after the item was committed, so the WAL is
	// no longer obliged to hold it.
	Released bool
}

func (i agxItem) id() string { return fmt.Sprintf("%s/%s@%d=%s", i.S, i.Kind, i.T, i.Val) }

type agxModel struct {
	w         int64
	committed []agxItem
	pending   []agxItem
	open      bool
	last      map[string]int64 // newest committed sample timestamp per series ("last written sample")
	lastRel   map[string]bool  // that newest sample has been released by a truncation
	attempts  map[string]int
	truncs    int
	// gcRace[s]: a truncation collected the in-memory series s (observed on the implementation)
	// while the open appender held accepted-but-uncommitted samples for it. The code
	// documents this as a known limitation (db.go getOrCreate); violations that need this
	// precondition get their own signature suffix.
	gcRace map[string]bool
	// dupRestart[s]: a restart replayed a WAL that held series records with two different refs
	// for series s (the series had been collected and re-created before the restart).
	dupRestart map[string]bool
}

// known returns the signature suffix naming the known-limitation precondition that holds for s.
func (m *agxModel) known(s string) string {
	switch {
	case m.gcRace[s]:
		return "/gc-while-pending"
	case m.dupRestart[s]:
		return "/duplicate-series-records-at-restart"
	}
	return ""
}

func newAgxModel(w int64) *agxModel {
	return &agxModel{w: w, last: map[string]int64{}, lastRel: map[string]bool{}, attempts: map[string]int{}, gcRace: map[string]bool{}, dupRestart: map[string]bool{}}
}

func (m *agxModel) frontier() int64 {
	f, ok := int64(0), false
	for _, v := range m.last {
		if !ok || v > f {
			f, ok = v, true
		}
	}
	if !ok {
		return 10
	}
	return f
}

// mustReject: the statement's rejection rule. Only binding while the series' last written sample
// is still owed by the WAL (otherwise the series may legitimately have been forgotten).
func (m *agxModel) mustReject(s string, t int64) bool {
	l, ok := m.last[s]
	return ok && !m.lastRel[s] && t <= l-m.w
}

// mustAccept: Options.OutOfOrderTimeWindow "specifies how much out of order is allowed".
func (m *agxModel) mustAccept(s string, t int64) bool {
	l, ok := m.last[s]
	return !ok || t > l-m.w
}

func (m *agxModel) commit() {
	for _, it := range m.pending {
		m.committed = append(m.committed, it)
		if it.Kind != "ex" {
			if l, ok := m.last[it.S]; !ok || it.T > l {
				m.last[it.S] = it.T
				m.lastRel[it.S] = false
			} else if it.T == l {
				m.lastRel[it.S] = false
			}
		}
	}
	m.pending, m.open = nil, false
}

func (m *agxModel) rollback() { m.pending, m.open = nil, false }

func (m *agxModel) truncate(mint int64) {
	m.truncs++
	for i := range m.committed {
		if m.committed[i].T < mint {
			m.committed[i].Released = true
		}
	}
	for s, l := range m.last {
		if l < mint {
			m.lastRel[s] = true
		}
	}
}

func (m *agxModel) key() string {
	var sb strings.Builder
	ids := make([]string, 0, len(m.committed))
	for _, it := range m.committed {
		r := ""
		if it.Released {
			r = "~"
		}
		ids = append(ids, it.id()+r)
	}
	sort.Strings(ids)
	sb.WriteString(strings.Join(ids, ","))
	sb.WriteString("|P")
	for _, it := range m.pending {
		sb.WriteString(it.id() + ",")
	}
	fmt.Fprintf(&sb, "|open=%v|tr=%v", m.open, m.truncs > 0)
	for _, s := range []string{"s1", "s2"} {
		l, ok := m.last[s]
		fmt.Fprintf(&sb, "|%s:%v/%d/%v/%v/%v", s, ok, l, m.lastRel[s], m.gcRace[s], m.dupRestart[s])
	}
	at := make([]string, 0, len(m.attempts))
	for k, v := range m.attempts {
		at = append(at, fmt.Sprintf("%s#%d", k, v))
	}
	sort.Strings(at)
	sb.WriteString("|" + strings.Join(at, ","))
	return sb.String()
}

// ---- the system -----------------------------------------------------------------------------

type agx struct {
	cfg    agxCfg
	dir    string
	shadow string
	db     *DB
	m      *agxModel
	app    storage.Appender
	app2   storage.AppenderV2
	refs   map[string]storage.SeriesRef
	hist   []string
	lastOp string
	// soft reports a known-finding class violation without failing the transition.
	soft func(sig, msg string)
	// outcome of the last operation (for vacuity accounting)
	outcome string
	// c15: run the shadow-log comparison and the orphan-record rule instead of the model comparison.
	c15          bool
	maxMint      int64 // largest truncation time so far
	mintWentBack bool  // some truncation used a smaller time than an earlier one
	obs          func(outcome string)
	walCache     *agxWal
}

func (c agxCfg) options() *Options {
	o := DefaultOptions()
	o.WALSegmentSize = 2 * 32 * 1024
	o.StripeSize = 2
	o.TruncateFrequency = 1000 * 3600 * 1e9 // never fires
	o.NoLockfile = true
	o.OutOfOrderTimeWindow = c.W
	o.EnableSTStorage = c.ST
	o.CheckpointFromInMemorySeries = c.InMem
	o.CheckpointBatchSize = 1
	return o
}

func newAgx(cfg agxCfg) *agx {
	dir, err := os.MkdirTemp("", "agx")
	if err != nil {
		panic(err)
	}
	x := &agx{cfg: cfg, dir: dir, m: newAgxModel(cfg.W), refs: map[string]storage.SeriesRef{}, maxMint: math.MinInt64}
	if cfg.Shadow {
		x.shadow = filepath.Join(dir, "shadow")
		if err := os.MkdirAll(x.shadow, 0o777); err != nil {
			panic(err)
		}
	}
	if err := x.open(); err != nil {
		panic(fmt.Sprintf("agx: initial open failed: %v", err))
	}
	for _, op := range cfg.Prefix {
		if f := x.Apply(op, false); f != nil {
			panic(fmt.Sprintf("agx: prefix op %s failed: %s", op, f.Message))
		}
	}
	x.hist = nil
	return x
}

func (x *agx) walDir() string { return filepath.Join(x.dir, "db", "wal") }

func (x *agx) open() error {
	db, err := Open(promslog.NewNopLogger(), nil, nil, filepath.Join(x.dir, "db"), x.cfg.options())
	if err != nil {
		return err
	}
	x.db = db
	return nil
}

func (x *agx) Close() {
	if x.db != nil {
		_ = x.db.Close()
		x.db = nil
	}
	os.RemoveAll(x.dir)
}

func (x *agx) resolveT(spec string) int64 {
	if strings.HasPrefix(spec, "F") {
		rest := strings.ReplaceAll(spec[1:], "W", strconv.FormatInt(x.cfg.W, 10))
		var total int64
		for i := 0; i < len(rest); {
			j := i + 1
			for j < len(rest) && rest[j] != '+' && rest[j] != '-' {
				j++
			}
			v, err := strconv.ParseInt(rest[i:j], 10, 64)
			if err != nil {
				panic("bad time spec " + spec)
			}
			total += v
			i = j
		}
		return x.m.frontier() + total
	}
	v, err := strconv.ParseInt(spec, 10, 64)
	if err != nil {
		panic("bad time spec " + spec)
	}
	return v
}

func agxCanonFloat(v float64, st int64, withST bool) string {
	if withST {
		return fmt.Sprintf("f:%g/st%d", v, st)
	}
	return fmt.Sprintf("f:%g", v)
}

func agxCanonH(h *histogram.Histogram, st int64, withST bool) string {
	s := fmt.Sprintf("h:%d|%s|%v", h.CounterResetHint, h.String(), h.CustomValues)
	if withST {
		s += fmt.Sprintf("/st%d", st)
	}
	return s
}

func agxCanonFH(h *histogram.FloatHistogram, st int64, withST bool) string {
	s := fmt.Sprintf("fh:%d|%s|%v", h.CounterResetHint, h.String(), h.CustomValues)
	if withST {
		s += fmt.Sprintf("/st%d", st)
	}
	return s
}

func agxCanonEx(v float64, l labels.Labels) string { return fmt.Sprintf("ex:%g:%s", v, l.String()) }

func (x *agx) ensureAppender() {
	if x.m.open {
		return
	}
	if x.cfg.V2 {
		x.app2 = x.db.AppenderV2(context.Background())
	} else {
		x.app = x.db.Appender(context.Background())
	}
	x.m.open = true
}

// appendOne appends one sample (and optionally an exemplar) and judges the verdict.
func (x *agx) appendOne(s, tspec, kind string, withEx bool) *vx.Fail {
	x.ensureAppender()
	t := x.resolveT(tspec)
	ak := fmt.Sprintf("%s@%d", s, t)
	n := x.m.attempts[ak]
	x.m.attempts[ak] = n + 1
	sidx := int64(1)
	if s == "s2" {
		sidx = 2
	}
	seed := t*100 + sidx*10 + int64(n)
	var (
		f     float64
		h     *histogram.Histogram
		fh    *histogram.FloatHistogram
		canon string
		st    int64
	)
	if x.cfg.ST {
		st = t - 1
	}
	switch kind {
	case "f":
		f = float64(seed)
		canon = agxCanonFloat(f, st, x.cfg.ST)
	case "h":
		h = tsdbutil.GenerateTestHistogram(seed)
		canon = agxCanonH(h, st, x.cfg.ST)
	case "hc":
		h = tsdbutil.GenerateTestCustomBucketsHistogram(seed)
		canon = agxCanonH(h, st, x.cfg.ST)
	case "fh":
		fh = tsdbutil.GenerateTestFloatHistogram(seed)
		canon = agxCanonFH(fh, st, x.cfg.ST)
	case "fhc":
		fh = tsdbutil.GenerateTestCustomBucketsFloatHistogram(seed)
		canon = agxCanonFH(fh, st, x.cfg.ST)
	default:
		panic("bad kind " + kind)
	}
	ex := exemplar.Exemplar{Labels: labels.FromStrings("trace", strconv.FormatInt(seed, 10)), Value: float64(seed) + 0.5, Ts: t, HasTs: true}
	var (
		ref   storage.SeriesRef
		err   error
		exOK  bool
		exErr error
	)
	lbls := agxSeries[s]
	if x.cfg.V2 {
		opts := storage.AOptions{}
		if withEx {
			opts.Exemplars = []exemplar.Exemplar{ex}
		}
		ref, err = x.app2.Append(x.refs[s], lbls, st, t, f, h, fh, opts)
		var pe *storage.AppendPartialError
		if errors.As(err, &pe) {
			exErr, err = err, nil
		} else if err == nil && withEx {
			exOK = true
		}
	} else {
		if h != nil || fh != nil {
			ref, err = x.app.AppendHistogram(x.refs[s], lbls, t, h, fh)
		} else {
			ref, err = x.app.Append(x.refs[s], lbls, t, f)
		}
		if err == nil && withEx {
			var r2 storage.SeriesRef
			r2, exErr = x.app.AppendExemplar(ref, lbls, ex)
			exOK = exErr == nil && r2 != 0
		}
	}
	accepted := err == nil
	if err != nil && !errors.Is(err, storage.ErrOutOfOrderSample) {
		return vx.Failf("append-unexpected-error", "append %s t=%d %s: %v", s, t, kind, err)
	}
	if exErr != nil {
		return vx.Failf("exemplar-unexpected-error", "exemplar for %s t=%d: %v", s, t, exErr)
	}
	race := x.m.known(s)
	if accepted && x.m.mustReject(s, t) && !x.c15 {
		msg := fmt.Sprintf("append %s t=%d (%s) was ACCEPTED although the series' last written sample is at %d and the out-of-order window is %d (history %v)", s, t, kind, x.m.last[s], x.cfg.W, x.hist)
		if race != "" && x.soft != nil {
			x.soft("stale-sample-accepted"+race, msg)
		} else {
			return vx.Failf("stale-sample-accepted"+race, "%s", msg)
		}
	}
	if !accepted && x.m.mustAccept(s, t) && !x.c15 {
		return vx.Failf("in-window-sample-rejected"+race, "append %s t=%d (%s) was rejected (%v) although the series' last written sample is %v and the window is %d", s, t, kind, err, x.m.last[s], x.cfg.W)
	}
	if accepted {
		if ref == 0 {
			return vx.Failf("append-returned-zero-ref", "append %s t=%d accepted with ref 0", s, t)
		}
		x.refs[s] = ref
		x.m.pending = append(x.m.pending, agxItem{S: s, Kind: kind, T: t, Val: canon})
		if exOK {
			x.m.pending = append(x.m.pending, agxItem{S: s, Kind: "ex", T: ex.Ts, Val: agxCanonEx(ex.Value, ex.Labels)})
		}
		x.outcome = "accepted/" + kind
		if withEx {
			x.outcome += fmt.Sprintf("/ex=%v", exOK)
		}
	} else {
		x.outcome = "rejected/" + kind
	}
	return nil
}

func (x *agx) segs() (first, last int) {
	first, last, err := wlog.Segments(x.walDir())
	if err != nil {
		panic(err)
	}
	return first, last
}

func (x *agx) liveSeries() string {
	var sb strings.Builder
	for _, s := range []string{"s1", "s2"} {
		l := agxSeries[s]
		if ms := x.db.series.GetByHash(l.Hash(), l); ms != nil {
			ms.Lock()
			fmt.Fprintf(&sb, "%s=%d@%d ", s, ms.ref, ms.lastTs)
			ms.Unlock()
		}
	}
	return sb.String()
}

func (x *agx) isLive(s, live string) bool { return strings.Contains(live, s+"=") }

func (x *agx) Apply(op string, check bool) (fail *vx.Fail) {
	x.lastOp = op
	x.walCache = nil
	x.hist = append(x.hist, op)
	x.outcome = ""
	defer func() {
		if p := recover(); p != nil {
			fail = vx.Failf("panic/"+strings.SplitN(op, "/", 2)[0], "op %s panicked: %v", op, p)
		}
	}()
	p := strings.Split(op, "/")
	switch p[0] {
	case "a":
		if f := x.appendOne(p[1], p[2], p[3], false); f != nil {
			return f
		}
	case "ax":
		if f := x.appendOne(p[1], p[2], "f", true); f != nil {
			return f
		}
	case "c":
		var err error
		if x.cfg.V2 {
			err = x.app2.Commit()
		} else {
			err = x.app.Commit()
		}
		x.app, x.app2 = nil, nil
		if err != nil {
			return vx.Failf("commit-error", "commit: %v", err)
		}
		x.outcome = fmt.Sprintf("commit/%d", len(x.m.pending))
		x.m.commit()
	case "r":
		var err error
		if x.cfg.V2 {
			err = x.app2.Rollback()
		} else {
			err = x.app.Rollback()
		}
		x.app, x.app2 = nil, nil
		if err != nil {
			return vx.Failf("rollback-error", "rollback: %v", err)
		}
		x.outcome = fmt.Sprintf("rollback/%d", len(x.m.pending))
		x.m.rollback()
	case "rot":
		if _, err := x.db.wal.NextSegment(); err != nil {
			return vx.Failf("op-error/rot", "NextSegment: %v", err)
		}
		x.outcome = "rot"
	case "t", "T":
		mint := x.resolveT(p[1])
		if p[0] == "T" {
			for {
				first, last := x.segs()
				if last >= first+3 {
					break
				}
				if _, err := x.db.wal.NextSegment(); err != nil {
					return vx.Failf("op-error/rot", "NextSegment: %v", err)
				}
			}
		}
		x.syncShadow()
		_, cpBefore, _ := wlog.LastCheckpoint(x.walDir())
		liveBefore := x.liveSeries()
		if err := x.db.truncate(mint); err != nil {
			return vx.Failf("op-error/truncate", "truncate(%d): %v", mint, err)
		}
		x.m.truncate(mint)
		for _, it := range x.m.pending {
			// observed precondition of the documented limitation: the in-memory series was
			// collected by this truncation while the appender holds uncommitted samples for it
			if lb, la := x.isLive(it.S, liveBefore), x.isLive(it.S, x.liveSeries()); lb && !la {
				x.m.gcRace[it.S] = true
			}
		}
		if mint > x.maxMint {
			x.maxMint = mint
		} else if mint < x.maxMint {
			x.mintWentBack = true
		}
		_, cpAfter, err := wlog.LastCheckpoint(x.walDir())
		x.outcome = fmt.Sprintf("truncate/cp=%v/gc=%v/pending=%v", err == nil && cpAfter != cpBefore, liveBefore != x.liveSeries(), len(x.m.pending) > 0)
	case "re":
		// an open appender is abandoned: nothing of it may reach the WAL
		x.app, x.app2 = nil, nil
		x.m.rollback()
		err := x.db.Close()
		x.db = nil
		if err != nil {
			return vx.Failf("op-error/close", "Close: %v", err)
		}
		if err := x.open(); err != nil {
			return vx.Failf("op-error/open", "Open: %v", err)
		}
		x.refs = map[string]storage.SeriesRef{} // series refs do not survive a restart
		if w, f := agxDecode(x.walDir(), x.cfg.ST, true); f == nil {
			seen := map[string]string{}
			for _, sr := range w.SeriesRecs { // "seg:ref=series"
				_, rs, _ := strings.Cut(sr, ":")
				ref, sk, _ := strings.Cut(rs, "=")
				if prev, ok := seen[sk]; ok && prev != ref {
					x.m.dupRestart[sk] = true
				}
				seen[sk] = ref
			}
		}
		x.outcome = "restart/" + fmt.Sprint(len(x.db.deleted) > 0)
	default:
		panic("agx: unknown op " + op)
	}
	if !check {
		return nil
	}
	if x.obs != nil {
		x.obs(p[0] + ":" + x.outcome)
	}
	return x.check()
}

// ---- WAL decoding (the observation) ---------------------------------------------------------

type agxWalItem struct {
	Ref    chunks.HeadSeriesRef
	Kind   string
	T      int64
	Val    string
	Seg    int    // -1: checkpoint
	Series string // resolved series key; "" when no series record for Ref precedes the record
}

type agxWal struct {
	CP          int // index of the checkpoint read, -1 if none
	First, Last int
	Items       []agxWalItem
	SeriesRecs  []string                                 // "seg:ref=series" in order
	RefNames    map[chunks.HeadSeriesRef]map[string]bool // every series a ref stood for in this log
	strict      bool                                     // a ref standing for two series is an error
	Digest      string
}

func agxReadRecords(rc io.ReadCloser, seg int, withST bool, refs map[chunks.HeadSeriesRef]string, w *agxWal) *vx.Fail {
	defer rc.Close()
	r := wlog.NewReader(rc)
	dec := record.NewDecoder(labels.NewSymbolTable(), promslog.NewNopLogger())
	resolve := func(ref chunks.HeadSeriesRef) string { return refs[ref] }
	for r.Next() {
		rec := r.Record()
		switch typ := dec.Type(rec); typ {
		case record.Series:
			ss, err := dec.Series(rec, nil)
			if err != nil {
				return vx.Failf("wal-undecodable", "series record in %d: %v", seg, err)
			}
			for _, s := range ss {
				k := agxSeriesKey(s.Labels)
				if w.RefNames[s.Ref] == nil {
					w.RefNames[s.Ref] = map[string]bool{}
				}
				w.RefNames[s.Ref][k] = true
				// (the retained untruncated copy may legitimately hold two incarnations of a ref: after a
				// checkpoint dropped every record of a ref, a restart can hand the number out again)
				if prev, ok := refs[s.Ref]; ok && prev != k && w.strict {
					return vx.Failf("wal-ref-reused-for-other-series", "series ref %d stands for %s and later for %s", s.Ref, prev, k)
				}
				refs[s.Ref] = k
				w.SeriesRecs = append(w.SeriesRecs, fmt.Sprintf("%d:%d=%s", seg, s.Ref, k))
			}
		case record.Samples, record.SamplesV2:
			ss, err := dec.Samples(rec, nil)
			if err != nil {
				return vx.Failf("wal-undecodable", "samples record in %d: %v", seg, err)
			}
			for _, s := range ss {
				w.Items = append(w.Items, agxWalItem{Ref: s.Ref, Kind: "f", T: s.T, Val: agxCanonFloat(s.V, s.ST, withST), Seg: seg, Series: resolve(s.Ref)})
			}
		case record.HistogramSamples, record.HistogramSamplesV2, record.CustomBucketsHistogramSamples:
			hs, err := dec.HistogramSamples(rec, nil)
			if err != nil {
				return vx.Failf("wal-undecodable", "histogram record in %d: %v", seg, err)
			}
			for _, s := range hs {
				k := "h"
				if s.H.UsesCustomBuckets() {
					k = "hc"
				}
				w.Items = append(w.Items, agxWalItem{Ref: s.Ref, Kind: k, T: s.T, Val: agxCanonH(s.H, s.ST, withST), Seg: seg, Series: resolve(s.Ref)})
			}
		case record.FloatHistogramSamples, record.FloatHistogramSamplesV2, record.CustomBucketsFloatHistogramSamples:
			hs, err := dec.FloatHistogramSamples(rec, nil)
			if err != nil {
				return vx.Failf("wal-undecodable", "float histogram record in %d: %v", seg, err)
			}
			for _, s := range hs {
				k := "fh"
				if s.FH.UsesCustomBuckets() {
					k = "fhc"
				}
				w.Items = append(w.Items, agxWalItem{Ref: s.Ref, Kind: k, T: s.T, Val: agxCanonFH(s.FH, s.ST, withST), Seg: seg, Series: resolve(s.Ref)})
			}
		case record.Exemplars:
			es, err := dec.Exemplars(rec, nil)
			if err != nil {
				return vx.Failf("wal-undecodable", "exemplar record in %d: %v", seg, err)
			}
			for _, e := range es {
				w.Items = append(w.Items, agxWalItem{Ref: e.Ref, Kind: "ex", T: e.T, Val: agxCanonEx(e.V, e.Labels), Seg: seg, Series: resolve(e.Ref)})
			}
		default:
			return vx.Failf("wal-unexpected-record-type", "record type %v in %d", typ, seg)
		}
	}
	if err := r.Err(); err != nil {
		return vx.Failf("wal-unreadable", "reading %d: %v", seg, err)
	}
	return nil
}

// agxDecode reads dir the way replay does: newest checkpoint, then every segment after it.
// useCheckpoint=false reads all segments only (shadow log).
func agxDecode(dir string, withST, useCheckpoint bool) (*agxWal, *vx.Fail) {
	w := &agxWal{CP: -1, RefNames: map[chunks.HeadSeriesRef]map[string]bool{}, strict: useCheckpoint}
	refs := map[chunks.HeadSeriesRef]string{}
	start := -1
	if useCheckpoint {
		cpDir, idx, err := wlog.LastCheckpoint(dir)
		if err == nil {
			rc, err := wlog.NewSegmentsReader(cpDir)
			if err != nil {
				return nil, vx.Failf("wal-unreadable", "checkpoint %s: %v", cpDir, err)
			}
			if f := agxReadRecords(rc, -1, withST, refs, w); f != nil {
				return nil, f
			}
			w.CP = idx
			start = idx + 1
		} else if !errors.Is(err, record.ErrNotFound) {
			return nil, vx.Failf("wal-unreadable", "LastCheckpoint: %v", err)
		}
	}
	first, last, err := wlog.Segments(dir)
	if err != nil {
		return nil, vx.Failf("wal-unreadable", "Segments: %v", err)
	}
	w.First, w.Last = first, last
	if start < first {
		start = first
	}
	for i := start; i <= last && i >= 0; i++ {
		// (wlog.NewSegmentBufReader allocates 512 KiB per segment; a segment's bytes through
		// wlog.NewReader decode identically — records never span segments.)
		b, err := os.ReadFile(wlog.SegmentName(dir, i))
		if err != nil {
			return nil, vx.Failf("wal-segment-gap", "segment %d of [%d,%d] (checkpoint %d): %v", i, first, last, w.CP, err)
		}
		if f := agxReadRecords(io.NopCloser(bytes.NewReader(b)), i, withST, refs, w); f != nil {
			return nil, f
		}
	}
	var sb strings.Builder
	fmt.Fprintf(&sb, "cp%d seg%d-%d S[%s] I[", w.CP, w.First, w.Last, strings.Join(w.SeriesRecs, " "))
	for _, it := range w.Items {
		fmt.Fprintf(&sb, "%d:%d/%s@%d ", it.Seg, it.Ref, it.Kind, it.T)
	}
	sb.WriteString("]")
	w.Digest = sb.String()
	return w, nil
}

func (x *agx) syncShadow() {
	if x.shadow == "" {
		return
	}
	first, last := x.segs()
	for i := first; i <= last && i >= 0; i++ {
		b, err := os.ReadFile(wlog.SegmentName(x.walDir(), i))
		if err != nil {
			panic(err)
		}
		if err := os.WriteFile(wlog.SegmentName(x.shadow, i), b, 0o666); err != nil {
			panic(err)
		}
	}
}

// ---- oracle ---------------------------------------------------------------------------------

func (x *agx) check() *vx.Fail {
	// The agent never serves queries.
	if q, err := x.db.Querier(0, 100); q != nil || !errors.Is(err, ErrUnsupported) {
		return vx.Failf("agent-serves-queries", "Querier returned (%v,%v)", q, err)
	}
	if q, err := x.db.ChunkQuerier(0, 100); q != nil || !errors.Is(err, ErrUnsupported) {
		return vx.Failf("agent-serves-queries", "ChunkQuerier returned (%v,%v)", q, err)
	}
	if q, err := x.db.ExemplarQuerier(context.Background()); q != nil || !errors.Is(err, ErrUnsupported) {
		return vx.Failf("agent-serves-queries", "ExemplarQuerier returned (%v,%v)", q, err)
	}
	w, f := agxDecode(x.walDir(), x.cfg.ST, true)
	if f != nil {
		return f
	}
	x.walCache = w
	if x.c15 {
		return x.checkC15(w)
	}
	return x.checkC48(w)
}

// checkC48 compares the decoded WAL with the accepted-and-committed items of the model.
func (x *agx) checkC48(w *agxWal) *vx.Fail {
	op := strings.SplitN(x.lastOp, "/", 2)[0]
	inmem := ""
	if x.cfg.InMem {
		inmem = "/inmem-checkpoint"
	}
	resolved := map[string]int{}    // item id -> count (with a preceding series record)
	orphan := map[string]int{}      // kind@t=val -> count (no preceding series record)
	orphanInSeg := map[string]int{} // ... of those, outside the checkpoint (in a live segment)
	for _, it := range w.Items {
		if it.Series == "" {
			orphan[fmt.Sprintf("%s@%d=%s", it.Kind, it.T, it.Val)]++
			if it.Seg >= 0 {
				orphanInSeg[fmt.Sprintf("%s@%d=%s", it.Kind, it.T, it.Val)]++
			}
		} else {
			resolved[agxItem{S: it.Series, Kind: it.Kind, T: it.T, Val: it.Val}.id()]++
		}
	}
	want := map[string]int{}
	owed := map[string]int{}
	anyVal := map[string]int{}
	for _, it := range x.m.committed {
		want[it.id()]++
		anyVal[fmt.Sprintf("%s@%d=%s", it.Kind, it.T, it.Val)]++
		if !it.Released {
			owed[it.id()]++
		}
	}
	// (1) nothing but accepted, committed data
	for _, it := range w.Items {
		if it.Series == "" {
			if anyVal[fmt.Sprintf("%s@%d=%s", it.Kind, it.T, it.Val)] == 0 {
				return vx.Failf("wal-holds-unaccepted-sample"+inmem, "after %s: WAL (seg %d) holds %s t=%d %s for ref %d (no series record) which no committed appender accepted", x.lastOp, it.Seg, it.Kind, it.T, it.Val, it.Ref)
			}
			continue
		}
		id := agxItem{S: it.Series, Kind: it.Kind, T: it.T, Val: it.Val}.id()
		if resolved[id] > want[id] {
			if x.cfg.InMem && it.Seg == -1 && it.Kind == "f" {
				if x.soft != nil {
					x.soft("wal-holds-unaccepted-sample"+inmem, fmt.Sprintf("after %s: the in-memory checkpoint holds a synthetic sample %s (value 0 at the series' last timestamp) which no appender accepted", x.lastOp, id))
				}
				continue
			}
			return vx.Failf("wal-holds-unaccepted-sample"+inmem, "after %s: WAL (seg %d) holds %s x%d, accepted+committed x%d (rolled back, rejected, abandoned or duplicated data reached the WAL). wal: %s", x.lastOp, it.Seg, id, resolved[id], want[id], w.Digest)
		}
	}
	// (2) every owed item is there, after a series record for its ref
	for _, it := range x.m.committed {
		if it.Released {
			continue
		}
		id := it.id()
		if resolved[id] >= owed[id] {
			continue
		}
		race := x.m.known(it.S)
		k := fmt.Sprintf("%s@%d=%s", it.Kind, it.T, it.Val)
		sig := "accepted-sample-missing-from-wal/" + op
		msg := fmt.Sprintf("after %s: committed %s (at or after every truncation time since its commit) is not in the WAL. history %v; wal: %s", x.lastOp, id, x.hist, w.Digest)
		if orphan[k] > 0 {
			sig = "accepted-sample-without-series-record/" + op
			msg = fmt.Sprintf("after %s: committed %s is in the WAL but no series record for its ref precedes it in replay order. history %v; wal: %s", x.lastOp, id, x.hist, w.Digest)
		}
		if orphanInSeg[k] > 0 && race != "/gc-while-pending" {
			// The duplicate-ref limitation concerns samples that a CHECKPOINT kept by time while it
			// dropped their series record by segment. A sample still sitting in a live segment whose
			// series record is gone is a different failure and is not filed under that precondition.
			// (A series collected while an appender held samples for it is different: its late commit
			// writes samples of a ref nobody tracks any more, wherever they land.)
			sig = "accepted-sample-without-series-record/in-live-segment/" + op
			race = ""
		}
		if inmem != "" {
			race = ""
		}
		if race != "" || inmem != "" {
			sig = strings.TrimSuffix(sig, "/"+op) // the condition persists over later operations
		}
		sig += race + inmem
		if (race != "" || inmem != "") && x.soft != nil {
			x.soft(sig, msg)
			continue
		}
		return vx.Failf(sig, "%s", msg)
	}
	return nil
}

// checkC15 compares the log left after truncation with the retained copy of the untruncated log.
func (x *agx) checkC15(w *agxWal) *vx.Fail {
	x.syncShadow()
	op := strings.SplitN(x.lastOp, "/", 2)[0]
	owedFrom := x.maxMint
	sh, f := agxDecode(x.shadow, x.cfg.ST, false)
	if f != nil {
		return vx.Failf("shadow-"+f.Signature, "shadow log: %s", f.Message)
	}
	// (2) every non-series record refers to a series whose record precedes it
	orphan := map[string]int{}
	for _, it := range w.Items {
		if it.Series != "" {
			continue
		}
		orphan[fmt.Sprintf("%s@%d=%s", it.Kind, it.T, it.Val)]++
		// The agent tracks collected series (db.deleted) precisely so that no sample is left
		// without its series record, old or not. The duplicate-ref and backwards-time limitations
		// concern samples that a CHECKPOINT kept by time while it dropped their series record by
		// segment: only an orphan inside the checkpoint, of a series for which the precondition was
		// observed (the series is identified through the untruncated log), gets those signatures;
		// in a live segment it is a plain violation.
		known := ""
		for _, name := range vx.SortedKeys(sh.RefNames[it.Ref]) {
			if known == "" {
				known = x.m.known(name)
			}
		}
		if known == "" && x.mintWentBack {
			known = "/truncation-time-went-backwards"
		}
		sig := "agent-record-without-preceding-series-record" + known
		if it.Seg >= 0 && known != "/gc-while-pending" {
			// (a series collected while an appender held samples for it: the late commit writes
			// samples of a ref nobody tracks any more, wherever they land)
			sig = "agent-record-without-preceding-series-record/in-live-segment"
		}
		msg := fmt.Sprintf("after %s: WAL (seg %d, -1=checkpoint) holds a %s record t=%d for ref %d, but no series record for that ref precedes it in replay order (truncation time %d). history %v; wal: %s", x.lastOp, it.Seg, it.Kind, it.T, it.Ref, owedFrom, x.hist, w.Digest)
		if x.soft != nil {
			x.soft(sig, msg)
			continue
		}
		return vx.Failf(sig, "%s", msg)
	}
	count := func(w *agxWal) map[string]int {
		res := map[string]int{}
		for _, it := range w.Items {
			if it.T < owedFrom || it.Series == "" {
				continue
			}
			res[agxItem{S: it.Series, Kind: it.Kind, T: it.T, Val: it.Val}.id()]++
		}
		return res
	}
	a, b := count(sh), count(w)
	for _, it := range sh.Items {
		if it.T < owedFrom || it.Series == "" {
			continue
		}
		id := agxItem{S: it.Series, Kind: it.Kind, T: it.T, Val: it.Val}.id()
		if b[id] >= a[id] {
			continue
		}
		if orphan[fmt.Sprintf("%s@%d=%s", it.Kind, it.T, it.Val)] > 0 {
			continue // present but unusable: already reported by the orphan rule above
		}
		return vx.Failf("agent-replay-lacks-data-of-untruncated-log/"+op, "after %s: untruncated log replays %s x%d (>= truncation time %d), checkpoint+segments x%d. history %v; wal: %s", x.lastOp, id, a[id], owedFrom, b[id], x.hist, w.Digest)
	}
	for _, id := range vx.SortedKeys(b) {
		if b[id] > a[id] {
			return vx.Failf("agent-replay-has-data-not-in-untruncated-log/"+op, "after %s: checkpoint+segments replay %s x%d, untruncated log x%d. wal: %s", x.lastOp, id, b[id], a[id], w.Digest)
		}
	}
	return nil
}

// ---- alphabet and key -------------------------------------------------------------------------

func (x *agx) Ops() []string {
	var ops []string
	W := x.cfg.W
	lvl := x.cfg.Alphabet
	if lvl == "" {
		lvl = "small"
	}
	ops = append(ops, "a/s1/F+1/f", "a/s1/F/f", "a/s2/F+1/f")
	if W > 0 {
		ops = append(ops, "a/s1/F-W/f", "a/s1/F-W+1/f")
	}
	if lvl != "small" {
		ops = append(ops, "a/s1/F-1/f", "a/s2/F/f", "a/s1/F+2/f", "ax/s1/F+1", "a/s1/F+1/h", "a/s1/F+1/fh", "a/s1/F+1/hc", "a/s1/F+1/fhc")
		if W > 0 {
			ops = append(ops, "ax/s1/F-W+1", "a/s1/F-W/h")
		}
	}
	if x.m.open {
		ops = append(ops, "c", "r")
	}
	ops = append(ops, "t/F+1", "T/F+1", "T/F")
	if lvl != "small" {
		ops = append(ops, "t/F", "T/0", "rot")
	}
	ops = append(ops, "re")
	return ops
}

func (x *agx) Key() string {
	var sb strings.Builder
	sb.WriteString(x.m.key())
	sb.WriteString("|live " + x.liveSeries())
	del := make([]string, 0, len(x.db.deleted))
	for ref, meta := range x.db.deleted {
		del = append(del, fmt.Sprintf("%d>%d", ref, meta.lastSegment))
	}
	sort.Strings(del)
	fmt.Fprintf(&sb, "|del %v|next %d", del, x.db.nextRef.Load())
	rf := make([]string, 0, 2)
	for _, s := range []string{"s1", "s2"} {
		rf = append(rf, fmt.Sprint(x.refs[s]))
	}
	fmt.Fprintf(&sb, "|refs %v|max %d/%v", rf, x.maxMint, x.mintWentBack)
	w, f := x.walCache, (*vx.Fail)(nil)
	if w == nil {
		w, f = agxDecode(x.walDir(), x.cfg.ST, true)
	}
	if f != nil {
		sb.WriteString("|wal-error " + f.Signature)
	} else {
		sb.WriteString("|" + w.Digest)
	}
	return sb.String()
}
