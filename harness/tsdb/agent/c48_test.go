package agent

// C48: agent-mode storage logs every accepted sample — explicit-state BFS over agx histories.

import (
	"fmt"
	"os"
	"strings"
	"testing"
	"time"

	"github.com/prometheus/prometheus/internal/verif/vx"
)

func agxWith(r *vx.Run, c agxCfg, name string, c15 bool) *agx {
	c.Shadow = c15
	x := newAgx(c)
	x.c15 = c15
	x.soft = func(sig, msg string) {
		r.Violation(sig, msg, map[string]any{"config": name, "ops": append([]string{}, x.hist...)})
	}
	x.obs = func(o string) { r.Distinct("distinct_outcomes", o) }
	return x
}

// agxParse turns "cfg@alphabet+prefix" into a configuration.
func agxParse(name string) agxCfg {
	base, prefix, _ := strings.Cut(name, "+")
	cfg, alpha, _ := strings.Cut(base, "@")
	c, ok := agxConfigs()[cfg]
	if !ok {
		panic("unknown agx config " + cfg)
	}
	c.Alphabet = alpha
	p, ok := agxPrefixes()[prefix]
	if !ok {
		panic("unknown agx prefix " + prefix)
	}
	c.Prefix = p
	return c
}

func c48SelfTest(t *testing.T, r *vx.Run) {
	x := newAgx(agxParse("base@medium"))
	defer x.Close()
	for _, op := range []string{"a/s1/F+1/f", "ax/s2/F+1", "c", "a/s1/F+1/h", "r", "T/F", "re"} {
		if f := x.Apply(op, true); f != nil {
			// the real code misbehaves on the self-test history: that is a verdict, not a tool failure
			r.Violation(f.Signature, "self-test history: "+f.Message, map[string]any{"config": "base@medium", "ops": append([]string{}, x.hist...)})
			return
		}
	}
	if len(x.m.committed) != 3 {
		t.Fatalf("self-test: model holds %d items, want 3 (2 samples + 1 exemplar)", len(x.m.committed))
	}
	// a committed sample the WAL does not hold must be reported as missing
	x.m.committed = append(x.m.committed, agxItem{S: "s1", Kind: "f", T: 11, Val: "f:4711"})
	if f := x.check(); f == nil || !strings.HasPrefix(f.Signature, "accepted-sample-missing-from-wal") {
		t.Fatalf("self-test: oracle did not report the missing sample (%v)", f)
	}
	x.m.committed = x.m.committed[:3]
	// a WAL sample the model did not accept must be reported
	saved := x.m.committed[0]
	x.m.committed = x.m.committed[1:]
	if f := x.check(); f == nil || !strings.HasPrefix(f.Signature, "wal-holds-unaccepted-sample") {
		t.Fatalf("self-test: oracle did not report the unaccepted sample (%v)", f)
	}
	x.m.committed = append([]agxItem{saved}, x.m.committed...)
	if f := x.check(); f != nil {
		t.Fatalf("self-test: restored model still fails: %s", f.Message)
	}
	// rejection rule
	if !x.m.mustReject("s1", 11) || x.m.mustReject("s1", 12) || !x.m.mustAccept("s1", 12) {
		t.Fatal("self-test: admission reference is wrong")
	}
}

func TestVerifC48(t *testing.T) {
	r := vx.Start(t, "C48", "model_checking")
	defer r.Finish()
	if r.Replay != "" {
		var rp struct {
			Config string   `json:"config"`
			Ops    []string `json:"ops"`
		}
		r.LoadReplay(&rp)
		c := agxParse(rp.Config)
		if f := r.ReplayOps(func() vx.Sys { return agxWith(r, c, rp.Config, false) }, rp.Ops); f != nil {
			r.Violation(f.Signature, f.Message, rp)
		}
		return
	}
	c48SelfTest(t, r)
	type plan struct {
		name  string
		depth int
	}
	var plans []plan
	if r.Quick() {
		plans = []plan{{"base@small", 4}, {"ooo@small", 4}, {"base@medium", 3}, {"v2@medium", 2}, {"st@medium", 2}, {"base@small+dup", 4}, {"base@small+cp", 3}, {"base@small+dupspan", 2}, {"base@small+dupspanh", 2}, {"base@small+dupspanfh", 2}}
	} else {
		plans = []plan{
			{"base@small", 6}, {"ooo@small", 5}, {"v2@small", 4}, {"st@small", 4},
			{"base@medium", 3}, {"ooo@medium", 3}, {"v2@medium", 3}, {"st@medium", 3},
			{"base@small+dup", 5}, {"base@small+cp", 5}, {"ooo@small+dup", 4}, {"v2@medium+cp", 3}, {"base@medium+dup", 3},
			{"base@small+dupspan", 4}, {"base@small+dupspanh", 3}, {"base@small+dupspanfh", 3}, {"v2@small+dupspan", 3}, {"base@medium+dupspan", 2},
			{"inmem@small", 4},
		}
	}
	if v := os.Getenv("VERIF_C48_PLAN"); v != "" { // e.g. "base@small:5,ooo@small+dup:3"
		plans = nil
		for _, p := range strings.Split(v, ",") {
			var pl plan
			q := strings.Split(p, ":")
			pl.name = q[0]
			fmt.Sscan(q[1], &pl.depth)
			plans = append(plans, pl)
		}
	}
	for _, p := range plans {
		if r.Expired() {
			r.NotExhaustive("deadline before plan " + p.name)
			break
		}
		c := agxParse(p.name)
		t0 := time.Now()
		res := r.BFS(p.name, func() vx.Sys { return agxWith(r, c, p.name, false) }, p.depth)
		t.Logf("C48 %s depth %d: states=%d transitions=%d depthCompleted=%d %.0fs", p.name, p.depth, res.States, res.Transitions, res.DepthCompleted, time.Since(t0).Seconds())
	}
	r.Set("rule", "explicit-state BFS over agent-DB operation histories (append float/histogram/custom-bucket histogram/exemplar in and out of order, commit, rollback, truncate with and without a due checkpoint, segment roll, restart) with canonical-state de-duplication; after every transition the WAL directory (last checkpoint + later segments, replay order) is decoded and compared with the accepted+committed items of the reference model, admission verdicts are compared with the out-of-order rule, and the three querier constructors must return ErrUnsupported. Plan names are config@alphabet[+prefix history].")
	r.Assume("sample timestamps are positive; one appender open at a time; truncation may run while the appender holds uncommitted samples (as the background truncation loop can)")
	r.Assume("the obligation to reject an old sample is only checked while the series' last written sample is at or after every truncation time since its commit (otherwise the series may have been forgotten)")
	if n := r.Get("states"); n < 50 {
		t.Fatalf("vacuous run: only %d states", n)
	}
}
