package agent

// C15 (agent part): WAL truncation of the agent DB keeps everything replay still needs. Same
// agx history harness as C48, with the shadow-log oracle: a copy of every segment is retained
// before truncation deletes it; after every transition the records decoded from checkpoint +
// remaining segments must equal, for everything at or after the truncation time, the records
// decoded from the untruncated shadow log, and every sample/histogram/exemplar record in the
// live log must follow a series record for its ref.

import (
	"fmt"
	"os"
	"strings"
	"testing"
	"time"

	"github.com/prometheus/prometheus/internal/verif/vx"
)

func c15AgentSelfTest(t *testing.T, r *vx.Run) {
	c := agxParse("base@medium")
	c.Shadow = true
	x := newAgx(c)
	x.c15 = true
	defer x.Close()
	for _, op := range []string{"a/s1/F+1/f", "ax/s2/F+1", "c", "T/F", "a/s1/F+1/h", "c", "re"} {
		if f := x.Apply(op, true); f != nil {
			r.Violation(f.Signature, "self-test history: "+f.Message, map[string]any{"config": "agent:base@medium", "ops": append([]string{}, x.hist...)})
			return
		}
	}
	// removing the checkpoint from the live log must be noticed (data of the untruncated log lost)
	w, f := agxDecode(x.walDir(), false, true)
	if f != nil || w.CP < 0 {
		t.Fatalf("self-test: expected a checkpoint (%v)", f)
	}
	if err := os.RemoveAll(fmt.Sprintf("%s/checkpoint.%08d", x.walDir(), w.CP)); err != nil {
		t.Fatal(err)
	}
	if f := x.check(); f == nil || !strings.HasPrefix(f.Signature, "agent-record-without-preceding-series-record") {
		t.Fatalf("self-test: oracle did not report the record whose series record was lost (%v)", f)
	}
	x.soft = func(string, string) {} // tolerate the orphan, the data comparison must complain next
	if f := x.check(); f == nil || !strings.HasPrefix(f.Signature, "agent-replay-lacks-data-of-untruncated-log") {
		t.Fatalf("self-test: oracle did not report the lost checkpoint data (%v)", f)
	}
}

func TestVerifC15Agent(t *testing.T) {
	r := vx.Start(t, "C15", "model_checking")
	defer r.Finish()
	if r.Replay != "" {
		var rp struct {
			Config string   `json:"config"`
			Ops    []string `json:"ops"`
		}
		r.LoadReplay(&rp)
		name, ok := strings.CutPrefix(rp.Config, "agent:")
		if !ok {
			return // belongs to the head part
		}
		c := agxParse(name)
		if f := r.ReplayOps(func() vx.Sys { return agxWith(r, c, rp.Config, true) }, rp.Ops); f != nil {
			r.Violation(f.Signature, f.Message, rp)
		}
		return
	}
	c15AgentSelfTest(t, r)
	type plan struct {
		name  string
		depth int
	}
	var plans []plan
	if r.Quick() {
		plans = []plan{{"base@small", 3}, {"base@medium", 2}, {"base@small+dup", 3}, {"base@small+cp", 3}}
	} else {
		plans = []plan{{"base@small", 5}, {"ooo@small", 4}, {"base@medium", 3}, {"v2@medium", 3}, {"base@small+dup", 4}, {"base@small+cp", 4}, {"base@medium+dup", 3}}
	}
	if v := os.Getenv("VERIF_C15A_PLAN"); v != "" {
		plans = nil
		for _, p := range strings.Split(v, ",") {
			var pl plan
			q := strings.Split(p, ":")
			pl.name = q[0]
			fmt.Sscan(q[1], &pl.depth)
			plans = append(plans, pl)
		}
	}
	for _, p := range plans {
		if r.Expired() {
			r.NotExhaustive("deadline before plan " + p.name)
			break
		}
		c := agxParse(p.name)
		t0 := time.Now()
		res := r.BFS("agent:"+p.name, func() vx.Sys { return agxWith(r, c, "agent:"+p.name, true) }, p.depth)
		t.Logf("C15 agent %s depth %d: states=%d transitions=%d depthCompleted=%d %.0fs", p.name, p.depth, res.States, res.Transitions, res.DepthCompleted, time.Since(t0).Seconds())
	}
	r.Set("rule_agent", "agent part: explicit-state BFS over agent-DB histories (see C48) with a retained shadow copy of every WAL segment; after every transition decode(checkpoint+segments) must equal decode(untruncated shadow log) for all samples/histograms/exemplars at or after the largest truncation time, and every such record in the live log must follow a series record for its ref")
	if n := r.Get("states"); n < 50 {
		t.Fatalf("vacuous run: only %d states", n)
	}
}
