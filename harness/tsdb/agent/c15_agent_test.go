package agent

// C15 (agent part): WAL truncation of the agent DB keeps everything replay still needs. Same
// agx history harness as C48, with the shadow-log oracle: a copy of every segment is retained
// before truncation deletes it; after every transition the records decoded from checkpoint +
// remaining segments must equal, for everything at or after the truncation time, the records
// decoded from the untruncated shadow log, and every sample/histogram/exemplar record in the
// live log must follow a series record for its ref.

import (
	"fmt"
	"math"
	"os"
	"path/filepath"
	"strings"
	"testing"
	"time"

	"github.com/prometheus/common/promslog"

	"github.com/prometheus/prometheus/internal/verif/vx"
	"github.com/prometheus/prometheus/tsdb/record"
	"github.com/prometheus/prometheus/tsdb/wlog"
	"github.com/prometheus/prometheus/util/compression"
)

// c15AgentSelfTest feeds the oracle SYNTHETIC logs, written with wlog and record.Encoder only
// (no agent code runs), so that its outcome cannot depend on the code under test.
func c15AgentSelfTest(t *testing.T) {
	dir, err := os.MkdirTemp("", "c15self")
	if err != nil {
		t.Fatal(err)
	}
	defer os.RemoveAll(dir)
	x := &agx{cfg: agxParse("base@small"), dir: dir, shadow: filepath.Join(dir, "shadow"), m: newAgxModel(0), maxMint: math.MinInt64, c15: true}
	if err := os.MkdirAll(x.shadow, 0o777); err != nil {
		t.Fatal(err)
	}
	w, err := wlog.NewSize(promslog.NewNopLogger(), nil, x.walDir(), 2*32*1024, compression.None)
	if err != nil {
		t.Fatal(err)
	}
	var enc record.Encoder
	must := func(err error) {
		if err != nil {
			t.Fatal(err)
		}
	}
	// segment 0: series record ref1 = s1 and a sample; segment 1: another sample of ref1
	must(w.Log(enc.Series([]record.RefSeries{{Ref: 1, Labels: agxSeries["s1"]}}, nil)))
	must(w.Log(enc.Samples([]record.RefSample{{Ref: 1, T: 11, V: 1}}, nil)))
	_, err = w.NextSegment()
	must(err)
	must(w.Log(enc.Samples([]record.RefSample{{Ref: 1, T: 12, V: 2}}, nil)))
	must(w.Close())
	decode := func() *agxWal {
		l, f := agxDecode(x.walDir(), false, true)
		if f != nil {
			t.Fatalf("self-test: %s", f.Message)
		}
		return l
	}
	if f := x.checkC15(decode()); f != nil {
		t.Fatalf("self-test: intact synthetic log is judged wrong: %s: %s", f.Signature, f.Message)
	}
	// "truncate" segment 0 without writing a checkpoint: the sample in segment 1 loses its series
	// record and the sample t=11 is gone, while the shadow copy still has everything.
	must(os.Remove(wlog.SegmentName(x.walDir(), 0)))
	if f := x.checkC15(decode()); f == nil || f.Signature != "agent-record-without-preceding-series-record/in-live-segment" {
		t.Fatalf("self-test: oracle did not report the record whose series record was lost (%v)", f)
	}
	var soft []string
	x.soft = func(sig, _ string) { soft = append(soft, sig) } // tolerate the orphan: the data comparison must complain next
	if f := x.checkC15(decode()); f == nil || !strings.HasPrefix(f.Signature, "agent-replay-lacks-data-of-untruncated-log") || len(soft) != 1 {
		t.Fatalf("self-test: oracle did not report the lost data (%v, soft %v)", f, soft)
	}
	// an orphan inside a checkpoint without any observed precondition is a plain violation too,
	// with a precondition observed for ITS series it is filed under that precondition only
	cp, err := wlog.NewSize(promslog.NewNopLogger(), nil, wlog.CheckpointDir(x.walDir(), 0), 2*32*1024, compression.None)
	must(err)
	must(cp.Log(enc.Samples([]record.RefSample{{Ref: 1, T: 11, V: 1}}, nil)))
	must(cp.Close())
	soft = nil
	x.checkC15(decode())
	if len(soft) != 2 || soft[0] != "agent-record-without-preceding-series-record" {
		t.Fatalf("self-test: orphan in the checkpoint reported as %v", soft)
	}
	x.m.dupRestart["s2"] = true // another series: must not excuse s1
	soft = nil
	x.checkC15(decode())
	if len(soft) != 2 || soft[0] != "agent-record-without-preceding-series-record" {
		t.Fatalf("self-test: a precondition observed for s2 excused an orphan of s1: %v", soft)
	}
	x.m.dupRestart["s1"] = true
	soft = nil
	x.checkC15(decode())
	if len(soft) != 2 || soft[0] != "agent-record-without-preceding-series-record/duplicate-series-records-at-restart" || soft[1] != "agent-record-without-preceding-series-record/in-live-segment" {
		t.Fatalf("self-test: known precondition not applied narrowly: %v", soft)
	}
}

func TestVerifC15Agent(t *testing.T) {
	r := vx.Start(t, "C15", "model_checking")
	defer r.Finish()
	if r.Replay != "" {
		var rp struct {
			Config string   `json:"config"`
			Ops    []string `json:"ops"`
		}
		r.LoadReplay(&rp)
		name, ok := strings.CutPrefix(rp.Config, "agent:")
		if !ok {
			return // belongs to the head part
		}
		c := agxParse(name)
		if f := r.ReplayOps(func() vx.Sys { return agxWith(r, c, rp.Config, true) }, rp.Ops); f != nil {
			r.Violation(f.Signature, f.Message, rp)
		}
		return
	}
	c15AgentSelfTest(t)
	type plan struct {
		name  string
		depth int
	}
	var plans []plan
	if r.Quick() {
		plans = []plan{{"base@small", 3}, {"base@medium", 2}, {"base@small+dup", 3}, {"base@small+cp", 3}, {"base@small+dupspan", 2}, {"base@small+dupspanh", 2}, {"base@small+dupspanfh", 2}}
	} else {
		plans = []plan{{"base@small", 5}, {"ooo@small", 4}, {"base@medium", 3}, {"v2@medium", 3}, {"base@small+dup", 4}, {"base@small+cp", 4}, {"base@medium+dup", 3}, {"base@small+dupspan", 4}, {"base@small+dupspanh", 3}, {"base@small+dupspanfh", 3}, {"v2@small+dupspan", 3}, {"base@medium+dupspan", 2}}
	}
	if v := os.Getenv("VERIF_C15A_PLAN"); v != "" {
		plans = nil
		for _, p := range strings.Split(v, ",") {
			var pl plan
			q := strings.Split(p, ":")
			pl.name = q[0]
			fmt.Sscan(q[1], &pl.depth)
			plans = append(plans, pl)
		}
	}
	for _, p := range plans {
		if r.Expired() {
			r.NotExhaustive("deadline before plan " + p.name)
			break
		}
		c := agxParse(p.name)
		t0 := time.Now()
		res := r.BFS("agent:"+p.name, func() vx.Sys { return agxWith(r, c, "agent:"+p.name, true) }, p.depth)
		t.Logf("C15 agent %s depth %d: states=%d transitions=%d depthCompleted=%d %.0fs", p.name, p.depth, res.States, res.Transitions, res.DepthCompleted, time.Since(t0).Seconds())
	}
	r.Set("rule_agent", "agent part: explicit-state BFS over agent-DB histories (see C48) with a retained shadow copy of every WAL segment; after every transition decode(checkpoint+segments) must equal decode(untruncated shadow log) for all samples/histograms/exemplars at or after the largest truncation time, and every such record in the live log must follow a series record for its ref")
	if n := r.Get("states"); n < 50 {
		t.Fatalf("vacuous run: only %d states", n)
	}
}
