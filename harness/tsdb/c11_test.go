package tsdb

// C11 (b)-(d): native histograms appended through a real Head are read back faithfully from the
// head, after m-mapping of the head chunks and from the block the head is compacted into; the
// caller's histograms stay semantically unchanged.
//
// Engine E1 (sequence mode). Every enumerated sequence of atoms (histmodel shape x int|float)
// becomes ONE SERIES; many sequences share one Head (batch) so that a Head, its m-mapping and its
// compaction are paid once per batch. All series of a batch have the same length and the same
// chunk-cut mask: sample i is placed in chunk range number popcount(mask & (2^i - 1)), i.e. the
// head cuts a new chunk by time before exactly the masked samples (in addition to the cuts it
// makes for encoding changes and the cuts/recodings the chunk appenders decide). The oracle is
// histalpha.Compare (histmodel equality at every timestamp).

import (
	"context"
	"fmt"
	"math"
	"math/bits"
	"os"
	"path/filepath"
	"strings"
	"sync"
	"sync/atomic"
	"testing"

	"github.com/prometheus/prometheus/internal/verif/histalpha"
	"github.com/prometheus/prometheus/internal/verif/histmodel"
	"github.com/prometheus/prometheus/internal/verif/vx"
	"github.com/prometheus/prometheus/model/histogram"
	"github.com/prometheus/prometheus/model/labels"
	"github.com/prometheus/prometheus/storage"
	"github.com/prometheus/prometheus/tsdb/chunkenc"
	"github.com/prometheus/prometheus/tsdb/chunks"
)

const c11R = 1000 // head chunk range

type c11Cfg struct {
	API    int  `json:"api"`     // 0: Appender + plain chunk encodings; 1: AppenderV2 with start timestamps + ST-capable encodings
	Mask   int  `json:"mask"`    // bit i-1: sample i starts a new chunk range
	OneTxn bool `json:"one_txn"` // all samples of all series in a single transaction (else one commit per position)
}

var c11Off = []int64{0, 15, 100, 101}

func c11T(mask, i int) int64 {
	return c11R*int64(1+bits.OnesCount(uint(mask&(1<<i-1)))) + c11Off[i]
}

func c11ST(i int, t int64) int64 {
	switch i {
	case 0:
		return 0
	case 1, 2:
		return c11R + 5 // known from the second sample on, unchanged for the third
	}
	return t - 1
}

type c11Case struct {
	Part  string   `json:"part"` // "b"
	Alpha string   `json:"alpha"`
	Seq   []string `json:"seq"`
	Cfg   c11Cfg   `json:"cfg"`
}

type c11Obj struct {
	a  int
	h  *histogram.Histogram
	fh *histogram.FloatHistogram
}

type c11Batch struct {
	r     *vx.Run
	alpha string
	atoms []histalpha.Atom
	seqs  [][]int
	cfg   c11Cfg
	n     int

	exp  [][]histalpha.Exp
	objs [][]c11Obj
	// observations
	chunkShape []string // per series: chunk structure seen at the head stage
	failed     []bool
	// poisoned: the code under test panicked (recovered by vx.Guard and reported). A series or
	// stripe lock may still be held, so the batch stops there and the Head is abandoned, not closed.
	poisoned bool
}

func (b *c11Batch) replay(k int) any {
	return c11Case{Part: "b", Alpha: b.alpha, Seq: histalpha.Names(b.atoms, b.seqs[k]), Cfg: b.cfg}
}

func (b *c11Batch) viol(k int, sig, msg string) {
	b.failed[k] = true
	b.r.Violation(sig, fmt.Sprintf("series %v (cfg %+v): %s", histalpha.Names(b.atoms, b.seqs[k]), b.cfg, msg), b.replay(k))
}

func c11Labels(k int) labels.Labels {
	return labels.FromStrings("__name__", "c11", "c", fmt.Sprintf("%06d", k))
}

func c11Key(l labels.Labels) int {
	var k int
	fmt.Sscanf(l.Get("c"), "%d", &k)
	return k
}

var c11Matcher = labels.MustNewMatcher(labels.MatchEqual, "__name__", "c11")

// c11ReadSamples reads every series through the sample querier: one recycled series iterator, fresh
// histogram objects, integer samples as integers; the objects of a series are decoded only after
// the series has been iterated to the end.
func c11ReadSamples(q storage.Querier, nser int) ([][]histalpha.Got, error) {
	out := make([][]histalpha.Got, nser)
	ss := q.Select(context.Background(), true, nil, c11Matcher)
	var it chunkenc.Iterator
	for ss.Next() {
		s := ss.At()
		k := c11Key(s.Labels())
		if k < 0 || k >= nser {
			return nil, fmt.Errorf("unexpected series %s", s.Labels())
		}
		it = s.Iterator(it)
		type raw struct {
			t  int64
			h  *histogram.Histogram
			fh *histogram.FloatHistogram
		}
		var raws []raw
		for vt := it.Next(); vt != chunkenc.ValNone; vt = it.Next() {
			switch vt {
			case chunkenc.ValHistogram:
				t, h := it.AtHistogram(nil)
				raws = append(raws, raw{t: t, h: h})
			case chunkenc.ValFloatHistogram:
				t, fh := it.AtFloatHistogram(nil)
				raws = append(raws, raw{t: t, fh: fh})
			default:
				return nil, fmt.Errorf("series %s: float sample at %d", s.Labels(), it.AtT())
			}
		}
		if err := it.Err(); err != nil {
			return nil, fmt.Errorf("series %s: %w", s.Labels(), err)
		}
		g := make([]histalpha.Got, 0, len(raws))
		for _, x := range raws {
			if x.h != nil {
				g = append(g, histalpha.Got{T: x.t, M: histmodel.FromInt(x.h)})
			} else {
				g = append(g, histalpha.Got{T: x.t, M: histmodel.FromFloat(x.fh)})
			}
		}
		out[k] = g
	}
	if err := ss.Err(); err != nil {
		return nil, err
	}
	return out, nil
}

// c11ReadChunks reads every series through the chunk querier: the chunks in the order returned,
// one recycled chunk iterator and one recycled FloatHistogram object, every sample (integer ones
// too) read through AtFloatHistogram and decoded at once. Also returns the chunk structure.
func c11ReadChunks(q storage.ChunkQuerier, nser int) ([][]histalpha.Got, []string, error) {
	out := make([][]histalpha.Got, nser)
	shape := make([]string, nser)
	ss := q.Select(context.Background(), true, nil, c11Matcher)
	var cit chunks.Iterator
	var it chunkenc.Iterator
	fb := &histogram.FloatHistogram{}
	for ss.Next() {
		s := ss.At()
		k := c11Key(s.Labels())
		if k < 0 || k >= nser {
			return nil, nil, fmt.Errorf("unexpected series %s", s.Labels())
		}
		cit = s.Iterator(cit)
		var g []histalpha.Got
		var sb strings.Builder
		for cit.Next() {
			m := cit.At()
			if m.Chunk == nil {
				return nil, nil, fmt.Errorf("series %s: chunk meta without chunk", s.Labels())
			}
			fmt.Fprintf(&sb, "%s:%d ", m.Chunk.Encoding(), m.Chunk.NumSamples())
			it = m.Chunk.Iterator(it)
			for vt := it.Next(); vt != chunkenc.ValNone; vt = it.Next() {
				if vt != chunkenc.ValHistogram && vt != chunkenc.ValFloatHistogram {
					return nil, nil, fmt.Errorf("series %s: float sample at %d", s.Labels(), it.AtT())
				}
				var t int64
				t, fb = it.AtFloatHistogram(fb)
				g = append(g, histalpha.Got{T: t, M: histmodel.FromFloat(fb)})
			}
			if err := it.Err(); err != nil {
				return nil, nil, fmt.Errorf("series %s: %w", s.Labels(), err)
			}
		}
		if err := cit.Err(); err != nil {
			return nil, nil, fmt.Errorf("series %s: %w", s.Labels(), err)
		}
		out[k], shape[k] = g, sb.String()
	}
	if err := ss.Err(); err != nil {
		return nil, nil, err
	}
	return out, shape, nil
}

// check reads the BlockReader both ways and compares every series.
func (b *c11Batch) check(stage string, br BlockReader) {
	q, err := NewBlockQuerier(br, math.MinInt64, math.MaxInt64)
	if err != nil {
		b.viol(0, "tsdb-"+stage+"-querier-error", err.Error())
		return
	}
	var got [][]histalpha.Got
	p, stack := vx.Guard(func() { got, err = c11ReadSamples(q, len(b.seqs)) })
	q.Close()
	switch {
	case p != nil:
		b.poisoned = true
		b.viol(0, "tsdb-"+stage+"-samples-panic", fmt.Sprintf("(some series of the batch) %v\n%s", p, c11Trim(stack)))
	case err != nil:
		b.viol(0, "tsdb-"+stage+"-samples-error", "(some series of the batch) "+err.Error())
	default:
		for k := range b.seqs {
			if what, msg := histalpha.Compare(b.exp[k], got[k]); what != "" {
				b.viol(k, "tsdb-"+stage+"-samples-"+what, msg)
			}
		}
	}
	cq, err := NewBlockChunkQuerier(br, math.MinInt64, math.MaxInt64)
	if err != nil {
		b.viol(0, "tsdb-"+stage+"-chunk-querier-error", err.Error())
		return
	}
	var shape []string
	p, stack = vx.Guard(func() { got, shape, err = c11ReadChunks(cq, len(b.seqs)) })
	cq.Close()
	switch {
	case p != nil:
		b.poisoned = true
		b.viol(0, "tsdb-"+stage+"-chunks-panic", fmt.Sprintf("(some series of the batch) %v\n%s", p, c11Trim(stack)))
	case err != nil:
		b.viol(0, "tsdb-"+stage+"-chunks-error", "(some series of the batch) "+err.Error())
	default:
		for k := range b.seqs {
			if what, msg := histalpha.Compare(b.exp[k], got[k]); what != "" {
				b.viol(k, "tsdb-"+stage+"-chunks-"+what, msg+" [chunks: "+shape[k]+"]")
			}
		}
		if stage == "head" {
			b.chunkShape = shape
		}
	}
}

func (b *c11Batch) checkCallers(stage string) (relaid int) {
	for k := range b.seqs {
		changed := false
		for j, o := range b.objs[k] {
			at := b.atoms[o.a]
			var now *histmodel.H
			var slots int
			if o.fh != nil {
				now, slots = histmodel.FromFloat(o.fh), len(o.fh.PositiveBuckets)+len(o.fh.NegativeBuckets)
			} else {
				now, slots = histmodel.FromInt(o.h), len(o.h.PositiveBuckets)+len(o.h.NegativeBuckets)
			}
			if slots != at.Buckets() {
				changed = true
			}
			d := ""
			if !histalpha.Same(at.M, now) {
				d = histmodel.Diff(at.M, now, 0)
			}
			if d == "" && at.M.Gauge != now.Gauge {
				d = fmt.Sprintf("gauge %v vs %v", at.M.Gauge, now.Gauge)
			}
			if d != "" {
				b.viol(k, "tsdb-caller-histogram-changed", fmt.Sprintf("after stage %s the caller's histogram passed as sample %d differs: %s; before %s after %s", stage, j, d, at.M, now))
			}
		}
		if changed {
			relaid++
		}
	}
	return relaid
}

// c11HasSharedChunk reports whether some chunk of the structure string holds >= 2 samples.
func c11HasSharedChunk(shape string) bool {
	for _, f := range strings.Fields(shape) {
		if i := strings.LastIndexByte(f, ':'); i >= 0 && f[i+1:] != "1" && f[i+1:] != "0" {
			return true
		}
	}
	return false
}

// markerJoined reports whether, at the head stage, some staleness marker of series k was stored in
// the same chunk as the sample before it (and whether a gauge-hinted marker was).
func (b *c11Batch) markerJoined(k int) (any, gauge bool) {
	pos := 0
	for _, f := range strings.Fields(b.chunkShape[k]) {
		n := 0
		fmt.Sscanf(f[strings.LastIndexByte(f, ':')+1:], "%d", &n)
		for j := pos + 1; j < pos+n && j < len(b.seqs[k]); j++ {
			if m := b.atoms[b.seqs[k][j]].M; m.Stale {
				any = true
				gauge = gauge || m.Gauge
			}
		}
		pos += n
	}
	return any, gauge
}

func c11Trim(stack string) string {
	if len(stack) > 1500 {
		return stack[:1500]
	}
	return stack
}

type c11Stats struct {
	cases, multiChunk, shared, relaid, mmapped atomic.Int64
	markerJoined, gaugeMarkerJoined            atomic.Int64
}

// run executes the batch: append, read from the head, m-map, read, compact into a block, read.
func (b *c11Batch) run(st *c11Stats, shapes func(string)) {
	dir, err := os.MkdirTemp("", "c11")
	if err != nil {
		panic(err)
	}
	defer os.RemoveAll(dir)
	o := DefaultHeadOptions()
	o.ChunkRange = c11R
	o.ChunkDirRoot = dir
	o.StripeSize = 64
	o.ChunkWriteQueueSize = 0
	o.ChunkWriteBufferSize = 64 * 1024
	if b.cfg.API == 1 {
		o.EnableSTStorage.Store(true)
		o.EnableHistogramSTEncoding.Store(true)
	}
	h, err := NewHead(nil, nil, nil, nil, o, nil)
	if err != nil {
		panic(err)
	}
	defer func() {
		if !b.poisoned {
			h.Close()
		}
	}()
	if err := h.Init(math.MinInt64); err != nil {
		panic(err)
	}
	ns := len(b.seqs)
	b.exp = make([][]histalpha.Exp, ns)
	b.objs = make([][]c11Obj, ns)
	b.failed = make([]bool, ns)
	refs := make([]storage.SeriesRef, ns)
	lsets := make([]labels.Labels, ns)
	for k := range lsets {
		lsets[k] = c11Labels(k)
	}
	ctx := context.Background()
	var app1 storage.Appender
	var app2 storage.AppenderV2
	begin := func() {
		if b.cfg.API == 1 {
			app2 = h.AppenderV2(ctx)
		} else {
			app1 = h.Appender(ctx)
		}
	}
	commit := func() error {
		if b.cfg.API == 1 {
			return app2.Commit()
		}
		return app1.Commit()
	}
	begin()
	for i := 0; i < b.n; i++ {
		t := c11T(b.cfg.Mask, i)
		for k, seq := range b.seqs {
			at := b.atoms[seq[i]]
			ih, fh := at.Fresh()
			b.objs[k] = append(b.objs[k], c11Obj{seq[i], ih, fh})
			var err error
			p, stack := vx.Guard(func() {
				if b.cfg.API == 1 {
					refs[k], err = app2.Append(refs[k], lsets[k], c11ST(i, t), t, 0, ih, fh, storage.AOptions{})
				} else {
					refs[k], err = app1.AppendHistogram(refs[k], lsets[k], t, ih, fh)
				}
			})
			if p != nil {
				b.poisoned = true
				b.viol(k, "tsdb-append-panic", fmt.Sprintf("appending sample %d panicked: %v\n%s", i, p, c11Trim(stack)))
				return
			}
			if err != nil {
				b.viol(k, "tsdb-append-error", fmt.Sprintf("appending sample %d (t=%d): %v", i, t, err))
				refs[k] = 0
				continue
			}
			b.exp[k] = append(b.exp[k], histalpha.Exp{T: t, M: at.M})
		}
		if !b.cfg.OneTxn || i == b.n-1 {
			var err error
			p, stack := vx.Guard(func() { err = commit() })
			if p != nil {
				b.poisoned = true
				b.viol(0, "tsdb-commit-panic", fmt.Sprintf("(some series of the batch) commit at position %d panicked: %v\n%s", i, p, c11Trim(stack)))
				return
			}
			if err != nil {
				b.viol(0, "tsdb-commit-error", fmt.Sprintf("(some series of the batch) commit at position %d: %v", i, err))
				return
			}
			if i < b.n-1 {
				begin()
			}
		}
	}
	all := NewRangeHead(h, math.MinInt64, math.MaxInt64)
	// (b) head
	b.check("head", all)
	if b.poisoned {
		return
	}
	// (c) after m-mapping
	var nm int
	if p, stack := vx.Guard(func() {
		h.mmapHeadChunks()
		for k := range refs {
			if s := h.series.getByID(chunks.HeadSeriesRef(refs[k])); s != nil {
				s.Lock()
				if len(s.mmappedChunks) > 0 {
					nm++
				}
				s.Unlock()
			}
		}
	}); p != nil {
		b.poisoned = true
		b.viol(0, "tsdb-mmap-panic", fmt.Sprintf("(some series of the batch) %v\n%s", p, c11Trim(stack)))
		return
	}
	b.check("mmap", all)
	if b.poisoned {
		return
	}
	// (d) compaction of the head into a block
	bdir := filepath.Join(dir, "blocks")
	if err := os.MkdirAll(bdir, 0o777); err != nil {
		panic(err)
	}
	var blk *Block
	p, stack := vx.Guard(func() {
		c, err := NewLeveledCompactor(ctx, nil, nil, []int64{1000000}, chunkenc.NewPool(), nil)
		if err != nil {
			panic(err)
		}
		mint, maxt := h.MinTime(), h.MaxTime()
		ids, err := c.Write(bdir, NewRangeHead(h, mint, maxt), mint, maxt+1, nil)
		if err != nil {
			b.viol(0, "tsdb-compact-error", "(some series of the batch) "+err.Error())
			return
		}
		if len(ids) != 1 {
			b.viol(0, "tsdb-compact-no-block", fmt.Sprintf("(some series of the batch) compaction wrote %d blocks", len(ids)))
			return
		}
		blk, err = OpenBlock(nil, filepath.Join(bdir, ids[0].String()), nil, nil)
		if err != nil {
			b.viol(0, "tsdb-open-block-error", "(some series of the batch) "+err.Error())
		}
	})
	if p != nil {
		b.poisoned = true
		b.viol(0, "tsdb-compact-panic", fmt.Sprintf("(some series of the batch) %v\n%s", p, c11Trim(stack)))
		return
	}
	if blk != nil {
		b.check("block", blk)
		blk.Close()
	}
	relaid := b.checkCallers("block")
	st.cases.Add(int64(ns))
	st.relaid.Add(int64(relaid))
	st.mmapped.Add(int64(nm))
	for k := range b.seqs {
		if k < len(b.chunkShape) {
			if strings.Count(b.chunkShape[k], ":") > 1 {
				st.multiChunk.Add(1)
			}
			if c11HasSharedChunk(b.chunkShape[k]) {
				st.shared.Add(1)
				if any, gauge := b.markerJoined(k); any {
					st.markerJoined.Add(1)
					if gauge {
						st.gaugeMarkerJoined.Add(1)
					}
				}
			}
			shapes(b.chunkShape[k])
		}
	}
}

// ---------------------------------------------------------------------------
// staleness-marker variants and the staleness-interplay alphabet
// ---------------------------------------------------------------------------

// c11Marker is a staleness marker (Sum = StaleNaN bit pattern) that is not the bare
// &Histogram{Sum: StaleNaN} of the core set: it carries the given counter-reset hint (a sender that
// stamps the hint of its series on every sample, markers included) and - when from != "" - the
// schema, zero bucket, buckets and count of the specification from (a sender that marks staleness
// by overwriting Sum only). The statement quantifies over staleness markers, not over bare ones.
func c11Marker(shapes []histmodel.Shape, name, from string, layout int, hint histogram.CounterResetHint) histmodel.Shape {
	m := histalpha.Derive(shapes, "e29-stale", 0, false).Model.Copy()
	if from != "" {
		m = histalpha.Derive(shapes, from, 0, false).Model.Copy()
	}
	m.Sum, m.Stale = math.Float64frombits(0x7ff0000000000002), true
	m.Hint, m.Gauge = hint, hint == histogram.GaugeType
	return histmodel.Shape{Name: fmt.Sprintf("%s/L%d", name, layout), Layout: layout, Exact: true, Model: m, Float: m.ToFloat(layout), Int: m.ToInt(layout)}
}

// c11FullShapes is histalpha.FullShapes plus the gauge-hinted bare staleness marker (the marker of
// a gauge series: it is the only kind of marker the gauge paths of the appenders accept into a
// non-empty chunk).
func c11FullShapes() []histmodel.Shape {
	full := histalpha.FullShapes()
	return append(full, c11Marker(full, "g-e29-stale", "", 0, histogram.GaugeType))
}

// c11StaleShapes is the staleness-interplay alphabet: for each kind of series (counter, gauge,
// custom-bucket gauge) two shapes that share a chunk when appended one after the other, and every
// kind of staleness marker that can come between them (bare with each of the four hints; with
// buckets left in place, unknown and gauge hint). Simplest first.
func c11StaleShapes() []histmodel.Shape {
	s := histmodel.Shapes()
	return []histmodel.Shape{
		histalpha.Derive(s, "e02-s0-two", 1, false),
		histalpha.Derive(s, "e03-s0-grown", 0, false),
		histalpha.Derive(s, "e29-stale", 0, false),
		histalpha.Derive(s, "e04-s0-grown-front", 0, true),
		histalpha.Derive(s, "e05-s0-gap", 1, true),
		c11Marker(s, "g-e29-stale", "", 0, histogram.GaugeType),
		histalpha.Derive(s, "c08-gauge", 0, false),
		c11Marker(s, "e29r-stale-hint-reset", "", 0, histogram.CounterReset),
		c11Marker(s, "e29n-stale-hint-noreset", "", 0, histogram.NotCounterReset),
		c11Marker(s, "e29b-stale-with-buckets", "e03-s0-grown", 0, histogram.UnknownCounterReset),
		c11Marker(s, "g-e29b-stale-with-buckets", "e05-s0-gap", 1, histogram.GaugeType),
	}
}

type c11Phase struct {
	alpha string
	n     int
	cfgs  []c11Cfg
}

func c11Cfgs(n int, apis []int, masks []int, txn []bool) []c11Cfg {
	if masks == nil {
		for m := 0; m < 1<<(n-1); m++ {
			masks = append(masks, m)
		}
	}
	var out []c11Cfg
	for _, a := range apis {
		for _, m := range masks {
			for _, t := range txn {
				out = append(out, c11Cfg{API: a, Mask: m, OneTxn: t})
			}
		}
	}
	return out
}

func c11SelfTest(t *testing.T, full []histalpha.Atom) {
	gi, si := -1, -1
	for i, a := range full {
		if strings.HasPrefix(a.Name, "e03-s0-grown/") && !a.Float {
			gi = i
		}
		if strings.HasPrefix(a.Name, "e29-stale/") && !a.Float {
			si = i
		}
	}
	if gi < 0 || si < 0 {
		t.Fatal("self-test: shapes missing")
	}
	grown, stale := full[gi], full[si]
	exp := []histalpha.Exp{{T: 1000, M: grown.M}, {T: 1015, M: stale.M}}
	staleGot := histmodel.FromInt(&histogram.Histogram{Sum: math.Float64frombits(0x7ff0000000000002)})
	ok := []histalpha.Got{{T: 1000, M: histmodel.FromInt(grown.I)}, {T: 1015, M: staleGot}}
	if what, _ := histalpha.Compare(exp, ok); what != "" {
		t.Fatalf("self-test: oracle rejects a faithful read-back: %s", what)
	}
	bad := histalpha.CopyInt(grown.I)
	bad.PositiveBuckets[len(bad.PositiveBuckets)-1]--
	for name, g := range map[string][]histalpha.Got{
		"lost-bucket":    {{T: 1000, M: histmodel.FromInt(bad)}, ok[1]},
		"lost-stale":     {ok[0], {T: 1015, M: histmodel.FromInt(&histogram.Histogram{Sum: math.NaN()})}},
		"lost-sample":    {ok[0]},
		"shifted-time":   {ok[0], {T: 1016, M: staleGot}},
		"spurious-stale": {{T: 1000, M: staleGot}, ok[1]},
	} {
		if what, _ := histalpha.Compare(exp, g); what == "" {
			t.Fatalf("self-test: oracle accepts the wrong answer %q", name)
		}
	}
	// the time layout cuts exactly where the mask says
	for mask := 0; mask < 8; mask++ {
		for i := 1; i < 4; i++ {
			cut := c11T(mask, i)/c11R != c11T(mask, i-1)/c11R
			if cut != (mask&(1<<(i-1)) != 0) || c11T(mask, i) <= c11T(mask, i-1) {
				t.Fatalf("self-test: time layout wrong for mask %d position %d", mask, i)
			}
		}
	}
}

func TestVerifC11b(t *testing.T) {
	r := vx.Start(t, "C11", "exploration")
	defer r.Finish()
	fullShapes, smallShapes := c11FullShapes(), histalpha.SmallShapes()
	alphas := map[string][]histalpha.Atom{
		"full":  histalpha.Atoms(fullShapes),
		"small": histalpha.Atoms(smallShapes),
		"stale": histalpha.Atoms(c11StaleShapes()),
		"one":   histalpha.OnePerShape(fullShapes),
	}
	st := &c11Stats{}
	if r.Replay != "" {
		var c c11Case
		r.LoadReplay(&c)
		atoms, ok := alphas[c.Alpha]
		if !ok || c.Part != "b" {
			fmt.Println("replay is not for parts (b)-(d)")
			return
		}
		var seq []int
		for _, n := range c.Seq {
			if i := histalpha.Index(atoms, n); i >= 0 {
				seq = append(seq, i)
			}
		}
		if len(seq) != len(c.Seq) {
			t.Fatalf("replay: unknown atom in %v", c.Seq)
		}
		b := &c11Batch{r: r, alpha: c.Alpha, atoms: atoms, seqs: [][]int{seq}, cfg: c.Cfg, n: len(seq)}
		b.run(st, func(s string) { fmt.Println("chunks at head stage:", s) })
		return
	}
	c11SelfTest(t, alphas["full"])
	for _, a := range alphas["stale"] {
		var m *histmodel.H
		if ih, fh := a.Fresh(); ih != nil {
			m = histmodel.FromInt(ih)
		} else {
			m = histmodel.FromFloat(fh)
		}
		if d := histmodel.Diff(a.M, m, 0); d != "" || m.Hint != a.M.Hint {
			t.Fatalf("self-test: atom %s does not decode to its model: %s", a.Name, d)
		}
	}

	apis, both := []int{0, 1}, []bool{false, true}
	var phases []c11Phase
	if r.Quick() {
		phases = []c11Phase{
			{"full", 1, c11Cfgs(1, apis, nil, both)},
			{"full", 2, c11Cfgs(2, apis, nil, []bool{false})},
			// what may share a chunk with a staleness marker (see c11StaleShapes)
			{"stale", 3, append(c11Cfgs(3, []int{0}, nil, []bool{false}), c11Cfgs(3, []int{1}, nil, []bool{true})...)},
			{"small", 3, append(c11Cfgs(3, []int{0}, nil, []bool{false}), c11Cfgs(3, []int{1}, nil, []bool{true})...)},
			{"one", 3, []c11Cfg{{API: 0, Mask: 0}, {API: 1, Mask: 2, OneTxn: true}}},
		}
	} else {
		phases = []c11Phase{
			{"full", 1, c11Cfgs(1, apis, nil, both)},
			{"full", 2, c11Cfgs(2, apis, nil, both)},
			{"stale", 3, c11Cfgs(3, apis, nil, both)},
			{"small", 3, c11Cfgs(3, apis, nil, both)},
			{"stale", 4, []c11Cfg{{API: 0, Mask: 0}, {API: 0, Mask: 2}, {API: 0, Mask: 5}, {API: 1, Mask: 0, OneTxn: true}}},
			{"full", 3, []c11Cfg{{API: 0, Mask: 0}, {API: 1, Mask: 2, OneTxn: true}}},
			{"one", 3, []c11Cfg{{API: 0, Mask: 1}, {API: 0, Mask: 2}, {API: 0, Mask: 3}, {API: 1, Mask: 0}}},
			{"small", 4, []c11Cfg{{API: 0, Mask: 0}, {API: 0, Mask: 2}, {API: 0, Mask: 5}, {API: 1, Mask: 7, OneTxn: true}}},
		}
	}
	const batchSize = 4096
	type job struct {
		ph       int
		from, to int64
		cfg      c11Cfg
	}
	var jobs []job
	for pi, ph := range phases {
		total := vx.SeqCount(len(alphas[ph.alpha]), ph.n, ph.n)
		for from := int64(0); from < total; from += batchSize {
			to := min(from+batchSize, total)
			for _, cfg := range ph.cfgs {
				jobs = append(jobs, job{pi, from, to, cfg})
			}
		}
	}
	var shapeSeen c11StringSet
	var done atomic.Int64
	phaseDone := make([]atomic.Int64, len(phases))
	r.ParallelN(int64(len(jobs)), func(i int64) {
		if r.Expired() { // ParallelN consults the deadline only every 64 items; batches are big
			return
		}
		j := jobs[i]
		ph := phases[j.ph]
		atoms := alphas[ph.alpha]
		b := &c11Batch{r: r, alpha: ph.alpha, atoms: atoms, cfg: j.cfg, n: ph.n}
		for s := j.from; s < j.to; s++ {
			b.seqs = append(b.seqs, vx.SeqAt(len(atoms), ph.n, ph.n, s, nil))
		}
		b.run(st, func(s string) {
			if shapeSeen.add(s) {
				r.Distinct("distinct_outcomes", s)
			}
		})
		phaseDone[j.ph].Add(1)
		k := done.Add(1)
		r.SampleAt(k*7, func() any {
			return map[string]any{"part": "b-d", "case": b.replay(len(b.seqs) / 2), "chunks_at_head_stage": b.chunkShape[len(b.seqs)/2], "series_in_batch": len(b.seqs)}
		})
	})
	var desc []string
	jobsPer := make([]int64, len(phases))
	for _, j := range jobs {
		jobsPer[j.ph]++
	}
	completed := map[string]int{}
	for pi, ph := range phases {
		state := "complete"
		if phaseDone[pi].Load() != jobsPer[pi] {
			state = fmt.Sprintf("%d of %d batches", phaseDone[pi].Load(), jobsPer[pi])
		} else if ph.n > completed[ph.alpha] {
			completed[ph.alpha] = ph.n
		}
		desc = append(desc, fmt.Sprintf("%s alphabet (%d atoms) length %d x %d configurations: %s", ph.alpha, len(alphas[ph.alpha]), ph.n, len(ph.cfgs), state))
	}
	r.Count("evaluations", int(st.cases.Load()))
	r.Count("distinct_nontrivial", int(st.shared.Load()))
	r.Count("head_cases_with_a_chunk_of_several_samples", int(st.shared.Load()))
	r.Count("head_cases", int(st.cases.Load()))
	r.Count("head_cases_stored_in_several_chunks", int(st.multiChunk.Load()))
	r.Count("head_cases_with_mmapped_chunks", int(st.mmapped.Load()))
	r.Count("head_cases_with_backward_insert_into_caller_histogram", int(st.relaid.Load()))
	r.Count("head_cases_with_marker_joining_a_chunk", int(st.markerJoined.Load()))
	r.Count("head_cases_with_gauge_marker_joining_a_chunk", int(st.gaugeMarkerJoined.Load()))
	r.Set("phases_head", desc)
	r.Set("depth_completed_head", completed)
	r.Set("rule_head", "parts (b)-(d): every sequence of atoms of the stated alphabets and lengths is one series of a real Head (chunk range 1000, up to 4096 series per Head), under every listed configuration (Appender + plain encodings or AppenderV2 with start timestamps + ST-capable encodings; a chunk-range boundary before any subset of the samples; one commit per position or a single transaction). Each series is read through the sample querier (fresh objects, kept until the series is exhausted) and the chunk querier (recycled iterator and object, all samples as float histograms) from the head, again after Head.mmapHeadChunks, and from the block written by LeveledCompactor.Write of the head and re-opened from disk; compared with histmodel at every timestamp; the caller's objects are re-decoded at the end. distinct_nontrivial counts the enumerated (sequence, configuration) cases (distinct by construction) in which the head kept at least two samples in one chunk, i.e. an appendable/recode decision came out as same-chunk; cases stored in several chunks, with m-mapped chunks, with empty buckets inserted into the caller's object and with a staleness marker (a gauge-hinted one) stored in the chunk of its predecessor are counted separately. Alphabets as in part (a), including the staleness-interplay alphabet 'stale'.")
	r.Set("rule", "parts (b)-(d): see rule_head")
	if !r.TooManyViolations() && (st.markerJoined.Load() == 0 || st.gaugeMarkerJoined.Load() == 0) {
		// the full alphabet at length 2 (always completed) already contains these cases
		t.Fatalf("vacuous: staleness marker stored in the chunk of its predecessor in %d cases, a gauge-hinted one in %d", st.markerJoined.Load(), st.gaugeMarkerJoined.Load())
	}
	if !r.Expired() && (st.shared.Load() == 0 || st.multiChunk.Load() == 0 || st.mmapped.Load() == 0 || st.relaid.Load() == 0) {
		t.Fatalf("vacuous: multi-chunk=%d mmapped=%d caller re-laid out=%d", st.multiChunk.Load(), st.mmapped.Load(), st.relaid.Load())
	}
}

// c11StringSet is a tiny concurrent set (first-seen test).
type c11StringSet struct {
	mu sync.Mutex
	m  map[string]struct{}
}

func (s *c11StringSet) add(x string) bool {
	s.mu.Lock()
	defer s.mu.Unlock()
	if s.m == nil {
		s.m = map[string]struct{}{}
	}
	if _, ok := s.m[x]; ok {
		return false
	}
	s.m[x] = struct{}{}
	return true
}
