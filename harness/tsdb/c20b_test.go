package tsdb

// C20 (b): deletion removes exactly the requested data — explicit-state BFS over dbx histories
// with a deletion-centred alphabet (every delete shape incl. int64 extremes, adjacent and nested
// ranges, ranges spanning head and blocks) interleaved with appends, head/OOO/block compaction,
// CleanTombstones and reopen. Oracle: the dbx reference model (queries after every transition).

import (
	"fmt"
	"strings"
	"testing"

	"github.com/prometheus/prometheus/internal/verif/vx"
)

func TestVerifC20b(t *testing.T) {
	r := vx.Start(t, "C20", "model_checking")
	defer r.Finish()
	cfgs := dbxConfigs()
	if r.Replay != "" {
		var rp struct {
			Config string   `json:"config"`
			Ops    []string `json:"ops"`
			Kind   string   `json:"kind"`
		}
		r.LoadReplay(&rp)
		if rp.Kind == "intervals" || rp.Config == "" {
			return // a part-(a) replay; not ours
		}
		cfg, alpha, _ := strings.Cut(rp.Config, "@")
		c := cfgs[cfg]
		c.Alphabet = alpha
		if f := r.ReplayOps(func() vx.Sys { return dbxWithSoft(r, c, rp.Config) }, rp.Ops); f != nil {
			r.Violation(f.Signature, f.Message, rp)
		}
		return
	}
	dbxSelfTest(t)
	type plan struct {
		cfg   string
		depth int
	}
	plans := vx.Pick(r, []plan{{"base", 3}, {"ooo", 3}}, []plan{{"base", 4}, {"ooo", 4}, {"oooneg", 4}, {"ooo+overlap", 4}, {"snap", 4}, {"base", 5}, {"ooo", 5}})
	// FIRST (targeted, must not be cut off by the deadline): search from non-initial states (deep scripted pre-states with deletes on block boundaries)
	for _, cn := range vx.Pick(r, []string{"base"}, []string{"base", "ooo", "oooneg", "snap"}) {
		if r.Expired() {
			r.NotExhaustive("deadline before the non-initial-state search of " + cn)
			break
		}
		c := cfgs[cn]
		c.Alphabet = "del"
		name := cn + "@del+starts"
		res := r.BFSFrom(name, func() vx.Sys { return dbxWithSoft(r, c, name) }, dbxStarts(c.W), vx.Pick(r, 1, 2))
		t.Logf("C20b %s: states=%d transitions=%d", name, res.States, res.Transitions)
	}
	for _, p := range plans {
		if r.Expired() {
			r.NotExhaustive("deadline before plan " + p.cfg)
			break
		}
		c := cfgs[p.cfg]
		c.Alphabet = "del"
		name := fmt.Sprintf("%s@del", p.cfg)
		res := r.BFS(name, func() vx.Sys { return dbxWithSoft(r, c, name) }, p.depth)
		t.Logf("C20b %s depth %d: states=%d transitions=%d depthCompleted=%d", name, p.depth, res.States, res.Transitions, res.DepthCompleted)
	}
}
