package tsdb

// C52: the head's reported counters match its contents — explicit-state BFS over dbx histories
// (alphabet of C01 extended with stale-series and selected-series eviction); after EVERY
// transition the exported gauges are compared with a recount obtained by walking head.series.

import (
	"fmt"
	"strings"
	"testing"

	prom_testutil "github.com/prometheus/client_golang/prometheus/testutil"

	"github.com/prometheus/prometheus/internal/verif/vx"
	"github.com/prometheus/prometheus/storage"
)

type c52Counts struct {
	series, stale, histSeries, buckets, chunks int
}

func c52Recount(h *Head) c52Counts {
	var c c52Counts
	for i := 0; i < h.series.size; i++ {
		h.series.locks[i].RLock()
		for _, s := range h.series.series[i] {
			s.Lock()
			c.series++
			isStale, isHist, buckets := s.sampleState()
			// sampleState reads the series' remembered newest in-order sample. That sample still
			// defines the series' class when its chunk has been compacted away and the series stays in
			// the head only for its out-of-order chunks (an earlier version of this recount treated a
			// series without in-order chunks as "neither": a false alarm, see DESIGN 12.3b).
			if isStale {
				c.stale++
			}
			if isHist {
				c.histSeries++
				c.buckets += buckets
			}
			c.chunks += len(s.mmappedChunks)
			for hc := s.headChunks; hc != nil; hc = hc.prev {
				c.chunks++
			}
			if s.ooo != nil {
				c.chunks += len(s.ooo.oooMmappedChunks)
				if s.ooo.oooHeadChunk != nil {
					c.chunks++
				}
			}
			s.Unlock()
		}
		h.series.locks[i].RUnlock()
	}
	return c
}

func c52Check(x *dbx) *vx.Fail {
	h := x.db.Head()
	want := c52Recount(h)
	op := strings.SplitN(x.lastOp, "/", 2)[0]
	if got := int(h.NumSeries()); got != want.series {
		return vx.Failf("series-gauge-mismatch/"+op, "after %s: NumSeries=%d, head holds %d series", x.lastOp, got, want.series)
	}
	if got := int(prom_testutil.ToFloat64(h.metrics.activeAppenders)); got != 0 {
		return vx.Failf("active-appenders-not-zero/"+op, "after %s: active appenders gauge = %d with every appender committed or rolled back", x.lastOp, got)
	}
	if got := int(h.NumStaleSeries()); got != want.stale {
		return vx.Failf("stale-series-gauge-mismatch/"+op, "after %s: NumStaleSeries=%d, recount %d", x.lastOp, got, want.stale)
	}
	if got := int(h.numNativeHistogramSeries.Load()); got != want.histSeries {
		return vx.Failf("histogram-series-gauge-mismatch/"+op, "after %s: native histogram series=%d, recount %d", x.lastOp, got, want.histSeries)
	}
	if got := int(h.numNativeHistogramBuckets.Load()); got != want.buckets {
		return vx.Failf("histogram-buckets-gauge-mismatch/"+op, "after %s: native histogram buckets=%d, recount %d", x.lastOp, got, want.buckets)
	}
	if got := int(prom_testutil.ToFloat64(h.metrics.chunks)); got != want.chunks {
		if got < want.chunks && c52MixedOOO(x) {
			// Known-finding class: an out-of-order head chunk that holds float AND histogram samples is
			// written as several m-mapped chunks (one per encoding) but was counted as one; removing
			// them later subtracts more than was added.
			return vx.Failf("chunks-gauge-undercount-after-mixed-ooo-chunk-mmapped", "after %s: head chunks gauge=%d, recount %d; a series holds (or held) out-of-order samples of both float and histogram type, whose one out-of-order head chunk is m-mapped as several chunks", x.lastOp, got, want.chunks)
		}
		return vx.Failf("chunks-gauge-mismatch/"+op, "after %s: head chunks gauge=%d, recount %d (m-mapped + head + out-of-order)", x.lastOp, got, want.chunks)
	}
	return nil
}

// c52MixedOOO: does any series of the model hold out-of-order-stored samples of both float and
// histogram type?
func c52MixedOOO(x *dbx) bool {
	// by history: the model forgets deleted samples, the gauge does not recover
	kinds := map[string]map[bool]bool{}
	for _, op := range x.hist {
		p := strings.Split(op, "/")
		if p[0] != "app" {
			continue
		}
		for i := 1; i+2 < len(p); i += 3 {
			if strings.HasPrefix(p[i+1], "F-") {
				if kinds[p[i]] == nil {
					kinds[p[i]] = map[bool]bool{}
				}
				kinds[p[i]][p[i+2] == "f" || p[i+2] == "st"] = true
			}
		}
	}
	for _, k := range kinds {
		if k[true] && k[false] {
			return true
		}
	}
	for _, ms := range x.m.series {
		if ms == nil {
			continue
		}
		f, h := false, false
		for t := range ms.ooo {
			for v := range ms.samples[t] {
				if strings.HasPrefix(v, "f:") {
					f = true
				} else {
					h = true
				}
			}
		}
		if f && h {
			return true
		}
	}
	return false
}

func c52New(r *vx.Run, c dbxCfg, name string) *dbx {
	x := dbxWithSoft(r, c, name)
	x.syncEvicted = true
	x.noQueryChk = true // contents are C01's business; keeps this check fast
	x.extraOps = func(x *dbx) []string { return []string{"staleevict", "selevict", "mmap"} }
	x.extraApply = func(x *dbx, op string, check bool) (bool, *vx.Fail) {
		switch op {
		case "staleevict":
			if err := x.db.CompactStaleHead(); err != nil {
				return true, vx.Failf("op-error/staleevict", "CompactStaleHead: %v", err)
			}
			return true, nil
		case "selevict":
			s := x.db.Head().series.getByHash(dbxSeries["s1"].Hash(), dbxSeries["s1"])
			if s == nil {
				return true, nil
			}
			if err := x.db.CompactSelectedSeries([]storage.SeriesRef{storage.SeriesRef(s.ref)}); err != nil {
				return true, vx.Failf("op-error/selevict", "CompactSelectedSeries: %v", err)
			}
			return true, nil
		case "mmap":
			x.db.ForceHeadMMap()
			return true, nil
		}
		return false, nil
	}
	x.extraCheck = c52Check
	x.extraKey = func(x *dbx) string {
		h := x.db.Head()
		return fmt.Sprintf("|cnt%d/%d/%d/%d", h.NumSeries(), h.NumStaleSeries(), h.numNativeHistogramSeries.Load(), h.numNativeHistogramBuckets.Load())
	}
	return x
}

func TestVerifC52(t *testing.T) {
	r := vx.Start(t, "C52", "model_checking")
	defer r.Finish()
	cfgs := dbxConfigs()
	if r.Replay != "" {
		var rp struct {
			Config string   `json:"config"`
			Ops    []string `json:"ops"`
		}
		r.LoadReplay(&rp)
		cfg, alpha, _ := strings.Cut(rp.Config, "@")
		c := cfgs[cfg]
		c.Alphabet = alpha
		if f := r.ReplayOps(func() vx.Sys { return c52New(r, c, rp.Config) }, rp.Ops); f != nil {
			r.Violation(f.Signature, f.Message, rp)
		}
		return
	}
	// self-test: the recount must differ from a deliberately wrong gauge
	{
		x := c52New(r, cfgs["base"], "selftest")
		x.Apply("app/s1/F+1/h", true)
		x.db.Head().numNativeHistogramBuckets.Add(1)
		if f := c52Check(x); f == nil {
			t.Fatal("self-test: recount did not notice a wrong bucket gauge")
		}
		x.Close()
	}
	type plan struct {
		cfg, alpha string
		depth      int
	}
	plans := vx.Pick(r,
		[]plan{{"base", "medium", 2}, {"ooo", "medium", 2}, {"snap", "small", 2}, {"ooo", "small", 3}},
		[]plan{{"ooo", "medium", 3}, {"base", "medium", 3}, {"ooo+snap", "medium", 3}, {"snap", "small", 4}, {"ooo", "small", 4}, {"oooneg", "small", 4}, {"ooo", "small", 5}})
	// FIRST: search from non-initial states (m-mapped out-of-order chunks, pending head chunks, blocks,
	// tombstones ... — structures the counters have to survive a restart with)
	for _, cn := range vx.Pick(r, []string{"ooo"}, []string{"ooo", "base", "ooo+snap"}) {
		if r.Expired() {
			r.NotExhaustive("deadline before the non-initial-state search of " + cn)
			break
		}
		c := cfgs[cn]
		c.Alphabet = "small"
		name := cn + "@small+starts"
		res := r.BFSFrom(name, func() vx.Sys { return c52New(r, c, name) }, dbxStarts(c.W), vx.Pick(r, 1, 2))
		t.Logf("C52 %s: states=%d transitions=%d", name, res.States, res.Transitions)
	}
	for _, p := range plans {
		if r.Expired() {
			r.NotExhaustive("deadline before plan " + p.cfg + "@" + p.alpha)
			break
		}
		c := cfgs[p.cfg]
		c.Alphabet = p.alpha
		name := fmt.Sprintf("%s@%s", p.cfg, p.alpha)
		res := r.BFS(name, func() vx.Sys { return c52New(r, c, name) }, p.depth)
		t.Logf("C52 %s depth %d: states=%d transitions=%d", name, p.depth, res.States, res.Transitions)
	}
}
