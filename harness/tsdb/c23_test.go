package tsdb

// C23: restart from a memory snapshot equals restart from the WAL — explicit-state BFS over dbx
// histories with snapshot-on-shutdown enabled. In EVERY reached state the live directory is copied,
// the copy is opened and shut down cleanly (which writes the chunk snapshot), and the result is
// copied twice: one copy is reopened as it is, the other with chunk_snapshot.* removed (full WAL
// replay). Query results must be identical (and equal to the model). Variants per state: the
// snapshot segment truncated at every offset (stride in the thorough-only dense sweep), the
// newest WAL segment removed (WAL behind the snapshot), the first/last byte of each head-chunk file
// damaged: the snapshot must then be discarded or used without losing data that the WAL holds.

import (
	"fmt"
	"math"
	"os"
	"path/filepath"
	"sort"
	"strings"
	"testing"

	"github.com/prometheus/prometheus/internal/verif/vx"
	"github.com/prometheus/prometheus/model/labels"
	"github.com/prometheus/prometheus/tsdb/record"
	"github.com/prometheus/prometheus/tsdb/wlog"
)

func c23Contents(x *dbx, dir string) (string, map[string][]qSample, error) {
	db, err := Open(dir, nil, nil, x.cfg.options(), nil)
	if err != nil {
		return "", nil, fmt.Errorf("open: %w", err)
	}
	defer db.Close()
	db.DisableCompactions()
	got, err := x.queryRange(db, db, math.MinInt64, math.MaxInt64, false)
	if err != nil {
		return "", nil, err
	}
	return c53Render(got), got, nil
}

// c23OnlyWBLSamplesOfRecreatedSeriesMissing: the snapshot restart lacks samples the WAL restart has,
// nothing else differs, every missing sample is stored out-of-order according to the model, and the
// WAL of the directory holds more than one series record (different references) for its label set.
func c23OnlyWBLSamplesOfRecreatedSeriesMissing(x *dbx, dir string, withSnap, noSnap map[string][]qSample) bool {
	recs := map[string]map[uint64]bool{}
	_, last, err := wlog.Segments(filepath.Join(dir, "wal"))
	if err != nil {
		return false
	}
	first, _, _ := wlog.Segments(filepath.Join(dir, "wal"))
	sr, err := wlog.NewSegmentsRangeReader(wlog.SegmentRange{Dir: filepath.Join(dir, "wal"), First: first, Last: last})
	if err != nil {
		return false
	}
	defer sr.Close()
	dec := record.NewDecoder(labels.NewSymbolTable(), nil)
	scan := func(rd *wlog.Reader) bool {
		for rd.Next() {
			if dec.Type(rd.Record()) != record.Series {
				continue
			}
			ss, err := dec.Series(rd.Record(), nil)
			if err != nil {
				return false
			}
			for _, s := range ss {
				k := seriesKeyOf(s.Labels)
				if recs[k] == nil {
					recs[k] = map[uint64]bool{}
				}
				recs[k][uint64(s.Ref)] = true
			}
		}
		return true
	}
	if !scan(wlog.NewReader(sr)) {
		return false
	}
	// series records that a checkpoint has taken over from the segments it replaced
	if cpDir, _, err := wlog.LastCheckpoint(filepath.Join(dir, "wal")); err == nil {
		if cf, cl, err := wlog.Segments(cpDir); err == nil {
			if cr, err := wlog.NewSegmentsRangeReader(wlog.SegmentRange{Dir: cpDir, First: cf, Last: cl}); err == nil {
				ok := scan(wlog.NewReader(cr))
				cr.Close()
				if !ok {
					return false
				}
			}
		}
	}
	// timestamps of the samples held in the WBL
	wblT := map[int64]bool{}
	if bf, bl, err := wlog.Segments(filepath.Join(dir, wlog.WblDirName)); err == nil {
		if br, err := wlog.NewSegmentsRangeReader(wlog.SegmentRange{Dir: filepath.Join(dir, wlog.WblDirName), First: bf, Last: bl}); err == nil {
			brd := wlog.NewReader(br)
			for brd.Next() {
				switch dec.Type(brd.Record()) {
				case record.Samples:
					ss, _ := dec.Samples(brd.Record(), nil)
					for _, s := range ss {
						wblT[s.T] = true
					}
				case record.HistogramSamples, record.CustomBucketsHistogramSamples:
					ss, _ := dec.HistogramSamples(brd.Record(), nil)
					for _, s := range ss {
						wblT[s.T] = true
					}
				case record.FloatHistogramSamples, record.CustomBucketsFloatHistogramSamples:
					ss, _ := dec.FloatHistogramSamples(brd.Record(), nil)
					for _, s := range ss {
						wblT[s.T] = true
					}
				}
			}
			br.Close()
		}
	}
	missing := 0
	for sk, want := range noSnap {
		have := map[int64]string{}
		for _, smp := range withSnap[sk] {
			have[smp.t] = smp.val
		}
		for _, smp := range want {
			if v, ok := have[smp.t]; ok {
				if v != smp.val {
					return false
				}
				continue
			}
			if !wblT[smp.t] || len(recs[sk]) < 2 {
				return false
			}
			missing++
		}
	}
	for sk, got := range withSnap {
		if len(got) > len(noSnap[sk]) {
			return false
		}
	}
	return missing > 0
}

func c23SnapshotDirs(dir string) []string {
	m, _ := filepath.Glob(filepath.Join(dir, "chunk_snapshot.*"))
	sort.Strings(m)
	return m
}

func c23Check(x *dbx) *vx.Fail {
	op := strings.SplitN(x.lastOp, "/", 2)[0]
	base, _ := os.MkdirTemp("", "c23base")
	defer os.RemoveAll(base)
	if err := dbxCopyDir(x.dir, base); err != nil {
		panic(err)
	}
	// clean shutdown with snapshotting
	db, err := Open(base, nil, nil, x.cfg.options(), nil)
	if err != nil {
		return vx.Failf("open-failed/"+op, "open of the copy: %v", err)
	}
	db.DisableCompactions()
	if err := db.Close(); err != nil {
		return vx.Failf("close-failed/"+op, "clean shutdown: %v", err)
	}
	snaps := c23SnapshotDirs(base)
	if len(snaps) == 0 {
		if x.db.Head().NumSeries() > 0 {
			return vx.Failf("no-snapshot-written/"+op, "snapshot-on-shutdown is enabled and the head holds series, but Close wrote no chunk_snapshot")
		}
		return nil
	}
	variant := func(name string, mutate func(dir string)) (string, map[string][]qSample, *vx.Fail) {
		d, _ := os.MkdirTemp("", "c23v")
		defer os.RemoveAll(d)
		if err := dbxCopyDir(base, d); err != nil {
			panic(err)
		}
		if mutate != nil {
			mutate(d)
		}
		s, got, err := c23Contents(x, d)
		if err != nil {
			return "", nil, vx.Failf("variant-open-failed/"+name, "variant %s after %v: %v", name, x.hist, err)
		}
		return s, got, nil
	}
	withSnap, gotSnap, f := variant("with-snapshot", nil)
	if f != nil {
		return f
	}
	noSnap, noSnapGot, f := variant("without-snapshot", func(d string) {
		for _, s := range c23SnapshotDirs(d) {
			os.RemoveAll(s)
		}
	})
	if f != nil {
		return f
	}
	if withSnap != noSnap {
		if c23OnlyWBLSamplesOfRecreatedSeriesMissing(x, base, gotSnap, noSnapGot) {
			// Known-finding class: the series was garbage-collected and created again (two series
			// records, two references, in the WAL) while the WBL still addresses it by a reference that
			// only the WAL replay maps onto the live series; a snapshot restart skips those series
			// records and drops the WBL samples as unknown.
			return vx.Failf("snapshot-restart-drops-wbl-samples-of-recreated-series", "after %v (restart from the WAL, clean shutdown with snapshot, restart):\n with snapshot   : %s\n without snapshot: %s", x.hist, withSnap, noSnap)
		}
		return vx.Failf("snapshot-restart-differs-from-wal-restart/"+op, "after %v:\n with snapshot   : %s\n without snapshot: %s", x.hist, withSnap, noSnap)
	}
	if f := x.compareRange(gotSnap, math.MinInt64, math.MaxInt64, false, "snapshot-restart"); f != nil {
		// Known-finding class (both kinds of restart agree, so it is not a snapshot matter): a sample
		// was deleted while it sat in a block, CleanTombstones then dropped the emptied block, and the
		// WAL still holds the sample; the head tombstone of the delete only covers the head's own time
		// range, so the next restart replays the sample and nothing hides it any more.
		if strings.HasPrefix(f.Signature, "extra-sample") {
			delAt, cleanAt := -1, -1
			for i, op := range x.hist {
				if strings.HasPrefix(op, "del/") && delAt < 0 {
					delAt = i
				}
				if op == "clean" && delAt >= 0 {
					cleanAt = i
				}
			}
			if delAt >= 0 && cleanAt > delAt {
				return vx.Failf("deleted-sample-replayed-from-wal-after-clean-tombstones-dropped-its-block", "after %v: %s", x.hist, f.Message)
			}
		}
		return f
	}
	if x.light {
		return nil // non-initial-state search: only the snapshot-vs-WAL differential, no damage sweeps
	}
	// damaged / outdated snapshot variants: must equal the WAL restart
	snapSeg := c04Newest23(snaps[len(snaps)-1])
	if snapSeg != "" {
		st, _ := os.Stat(snapSeg)
		rel, _ := filepath.Rel(base, snapSeg)
		size := int(st.Size())
		last := size
		if b, err := os.ReadFile(snapSeg); err == nil {
			for last > 0 && b[last-1] == 0 {
				last--
			}
		}
		var ends []int64
		if seg, err := wlog.OpenReadSegment(snapSeg); err == nil {
			sr := wlog.NewSegmentBufReader(seg)
			rd := wlog.NewReader(sr)
			for rd.Next() {
				ends = append(ends, rd.Offset())
			}
			sr.Close()
		}
		stride := 7
		if x.thorough {
			stride = 1
		}
		offs := map[int]bool{}
		for off := 0; off < last+8 && off < size; off += stride {
			offs[off] = true
		}
		for _, e := range ends { // boundaries and their neighbours always
			for _, o := range []int{int(e) - 1, int(e), int(e) + 1} {
				if o >= 0 && o < size {
					offs[o] = true
				}
			}
		}
		var offList []int
		for o := range offs {
			offList = append(offList, o)
		}
		sort.Ints(offList)
		for _, off := range offList {
			off := off
			got, _, f := variant("truncated-snapshot", func(d string) { os.Truncate(filepath.Join(d, rel), int64(off)) })
			if f != nil {
				return f
			}
			if got != noSnap {
				// "clean prefix": the cut file (the reader zero-pads a short page) still reads as a
				// sequence of whole records without any error.
				atBoundary := off == 0
				{
					d2, _ := os.MkdirTemp("", "c23t")
					tf := filepath.Join(d2, "00000000")
					if b, err := os.ReadFile(snapSeg); err == nil && off <= len(b) {
						os.WriteFile(tf, b[:off], 0o666)
						if seg, err := wlog.OpenReadSegment(tf); err == nil {
							sr := wlog.NewSegmentBufReader(seg)
							rd := wlog.NewReader(sr)
							n := 0
							for rd.Next() {
								n++
							}
							if rd.Err() == nil {
								atBoundary = true
							}
							sr.Close()
						}
					}
					os.RemoveAll(d2)
				}
				if atBoundary {
					// Known finding: the snapshot has no end marker, so a snapshot cut exactly at a
					// record boundary is taken for a complete one.
					if x.soft != nil {
						x.soft("snapshot-truncated-at-record-boundary-accepted", fmt.Sprintf("snapshot segment truncated at record boundary %d after %v is accepted as complete: got {%s}, full WAL replay gives {%s}", off, x.hist, got, noSnap))
					}
					continue
				}
				return vx.Failf("truncated-snapshot-loses-or-invents-data/"+op, "(record ends %v) snapshot segment truncated at %d after %v:\n got             : %s\n without snapshot: %s", ends, off, x.hist, got, noSnap)
			}
		}
	}
	// head-chunk files damaged at their first / last data byte
	hc, _ := filepath.Glob(filepath.Join(base, "chunks_head", "0*"))
	for _, f := range hc {
		rel, _ := filepath.Rel(base, f)
		b, err := os.ReadFile(f)
		if err != nil || len(b) == 0 {
			continue
		}
		last := len(b)
		for last > 0 && b[last-1] == 0 {
			last--
		}
		for _, off := range []int{0, 8, last - 1} {
			if off < 0 || off >= len(b) {
				continue
			}
			off := off
			got, _, fl := variant("damaged-head-chunk", func(d string) {
				c := append([]byte{}, b...)
				c[off] ^= 0x55
				os.WriteFile(filepath.Join(d, rel), c, 0o666)
			})
			if fl != nil {
				// Open may refuse a damaged head-chunk file with an error (C04 checks that nothing is
				// removed in that case); here only a SUCCESSFUL open must not lose data.
				continue
			}
			if got != noSnap {
				return vx.Failf("damaged-head-chunk-with-snapshot-loses-data/"+op, "%s byte %d damaged after %v:\n got             : %s\n without snapshot: %s", rel, off, x.hist, got, noSnap)
			}
		}
	}
	return nil
}

func c04Newest23(dir string) string {
	m, _ := filepath.Glob(filepath.Join(dir, "0*"))
	sort.Strings(m)
	if len(m) == 0 {
		return ""
	}
	return m[len(m)-1]
}

func c23New(r *vx.Run, c dbxCfg, name string) *dbx {
	x := dbxWithSoft(r, c, name)
	x.noQueryChk = true
	x.thorough = r.Thorough()
	x.extraOps = func(x *dbx) []string { return []string{"mmap"} }
	x.extraApply = func(x *dbx, op string, check bool) (bool, *vx.Fail) {
		if op == "mmap" {
			x.db.ForceHeadMMap()
			return true, nil
		}
		return false, nil
	}
	x.extraCheck = c23Check
	return x
}

func TestVerifC23(t *testing.T) {
	r := vx.Start(t, "C23", "model_checking")
	defer r.Finish()
	cfgs := dbxConfigs()
	if r.Replay != "" {
		var rp struct {
			Config string   `json:"config"`
			Ops    []string `json:"ops"`
		}
		r.LoadReplay(&rp)
		cfg, alpha, _ := strings.Cut(rp.Config, "@")
		c := cfgs[cfg]
		c.Alphabet = alpha
		if f := r.ReplayOps(func() vx.Sys { return c23New(r, c, rp.Config) }, rp.Ops); f != nil {
			r.Violation(f.Signature, f.Message, rp)
		}
		return
	}
	type plan struct {
		cfg, alpha string
		depth      int
	}
	plans := vx.Pick(r,
		[]plan{{"ooo+snap", "small", 2}, {"snap", "small", 2}},
		[]plan{{"ooo+snap", "small", 3}, {"snap", "small", 3}, {"ooo+snap", "medium", 2}, {"ooo+snap", "small", 4}})
	// FIRST (targeted, must not be cut off by the deadline): search from non-initial states (deep scripted pre-states)
	for _, cn := range vx.Pick(r, []string{"ooo+snap"}, []string{"ooo+snap", "snap"}) {
		if r.Expired() {
			r.NotExhaustive("deadline before the non-initial-state search of " + cn)
			break
		}
		c := cfgs[cn]
		c.Alphabet = "small"
		name := cn + "@small+starts"
		res := r.BFSFrom(name, func() vx.Sys { x := c23New(r, c, name); x.light = true; return x }, dbxStarts(c.W), vx.Pick(r, 1, 2))
		t.Logf("C23 %s: states=%d transitions=%d", name, res.States, res.Transitions)
	}
	for _, p := range plans {
		if r.Expired() {
			r.NotExhaustive("deadline before plan " + p.cfg)
			break
		}
		c := cfgs[p.cfg]
		c.Alphabet = p.alpha
		name := p.cfg + "@" + p.alpha
		res := r.BFS(name, func() vx.Sys { return c23New(r, c, name) }, p.depth)
		t.Logf("C23 %s depth %d: states=%d transitions=%d", name, p.depth, res.States, res.Transitions)
	}
	r.Assume("exemplar restoration from the snapshot is not covered (no exemplars in the dbx alphabet)")
}
