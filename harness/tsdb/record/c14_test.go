package record

// C14: WAL record encoding round-trips.
//
// For every record type, decode(encode(x)) == x (floats bitwise, labels and spans exactly), and a
// batch of histograms is split between the exponential and the custom-bucket record types without
// losing or duplicating a sample.
//
// Engine E1 (sequence mode): for each record kind ALL sequences of 0..2 entries over a "full" atom
// product (refs x times x start-times x values/labels/shapes), all sequences of 3 entries over a
// reduced product (thorough: 3 over a middle product, 4 over the reduced one). Atoms sit on the
// encoder's boundaries: ref deltas 0/+-1/+-2^32/wrap-around, times 0/+-1/int64 extremes, start
// times that produce every noST/sameST/explicitST marker pattern relative to both the first and
// the previous entry, NaN payloads / -0 / Inf, empty / long / 40-label sets, histograms with
// extreme counts, span offsets, multi-byte lengths, exponential and custom buckets mixed.
//
// The oracle is identity on the input (written here as field-by-field bitwise comparison), it
// never looks at the encoded bytes except for the record type byte.

import (
	"fmt"
	"hash/fnv"
	"math"
	"strings"
	"sync"
	"sync/atomic"
	"testing"

	"github.com/prometheus/common/promslog"

	"github.com/prometheus/prometheus/internal/verif/vx"
	"github.com/prometheus/prometheus/model/histogram"
	"github.com/prometheus/prometheus/model/labels"
	"github.com/prometheus/prometheus/storage"
	"github.com/prometheus/prometheus/tsdb/chunks"
	"github.com/prometheus/prometheus/tsdb/tombstones"
)

// ---------------------------------------------------------------------------
// atoms
// ---------------------------------------------------------------------------

const (
	c14Full = 0
	c14Mid  = 1
	c14Red  = 2
)

var c14SetNames = []string{"full", "mid", "red"}

var (
	// ref deltas between neighbours: 0, +-1, +-2^32, wrap-around through the int64 sign bit.
	c14Refs    = []uint64{1, 2, 0, 1<<32 + 1, 1 << 63, math.MaxUint64}
	c14RefsRed = []uint64{1, 2, 1<<32 + 1, math.MaxUint64}
	c14RefsTwo = []uint64{2, 1<<32 + 1}

	c14Times    = []int64{0, 1, -1, math.MinInt64, math.MaxInt64, 1 << 31}
	c14TimesRed = []int64{0, -1, math.MinInt64, math.MaxInt64}
	c14TimesTwo = []int64{-1, math.MaxInt64}

	// 0 = "no start time"; two distinct non-zero values make same/explicit patterns against
	// first and previous; extremes make the explicit delta wrap.
	c14STs    = []int64{0, 7, -1, 8, math.MinInt64, math.MaxInt64}
	c14STsRed = []int64{0, 7, -1}

	c14ValBits = []uint64{
		0,                  // 0
		1 << 63,            // -0
		0x3ff0000000000000, // 1
		0x7ff8000000000001, // normal NaN
		0x7ff0000000000002, // stale NaN
		0x7ff0000000000000, // +Inf
		0xfff8000000000abc, // negative NaN with payload
	}
)

func c14V(i int) float64 { return math.Float64frombits(c14ValBits[((i%len(c14ValBits))+len(c14ValBits))%len(c14ValBits)]) }

func c14LabelSets() []labels.Labels {
	long := strings.Repeat("v", 300) // 2-byte uvarint length
	var many []string
	for i := 0; i < 40; i++ {
		many = append(many, fmt.Sprintf("l%02d", i), fmt.Sprintf("value-%d", i))
	}
	return []labels.Labels{
		labels.EmptyLabels(),
		labels.FromStrings("a", "b"),
		labels.FromStrings("__name__", "m", "job", "j"),
		labels.FromStrings("__name__", "m", "job", "k"),
		labels.FromStrings("a", ""),
		labels.FromStrings("é☺", "\xff\x00\n"),
		labels.FromStrings("long", long),
		labels.FromStrings(many...),
	}
}

var c14Labels = c14LabelSets()

// int histogram shapes; the last c14NCustomTail of each reduced list are custom-bucket ones.
func c14Hists() []*histogram.Histogram {
	nan := math.Float64frombits(0x7ff8000000000777)
	stale := math.Float64frombits(0x7ff0000000000002)
	negz := math.Float64frombits(1 << 63)
	var bigSpans []histogram.Span
	var bigBuckets []int64
	var bigCustom []float64
	for i := 0; i < 130; i++ { // > 127: 2-byte uvarint lengths
		bigSpans = append(bigSpans, histogram.Span{Offset: int32(i%3 + 1), Length: 1})
		bigBuckets = append(bigBuckets, int64(i)-60)
		bigCustom = append(bigCustom, float64(i)*0.5)
	}
	return []*histogram.Histogram{
		0: {}, // all zero, schema 0
		1: {
			CounterResetHint: histogram.CounterReset, Schema: 0, ZeroThreshold: 0.001, ZeroCount: 3, Count: 10, Sum: 1.5,
			PositiveSpans: []histogram.Span{{Offset: 0, Length: 2}, {Offset: 3, Length: 1}}, PositiveBuckets: []int64{1, -1, 5},
			NegativeSpans: []histogram.Span{{Offset: -2, Length: 1}}, NegativeBuckets: []int64{2},
		},
		2: { // custom buckets, typical
			Schema: histogram.CustomBucketsSchema, Count: 5, Sum: 9,
			PositiveSpans: []histogram.Span{{Offset: 0, Length: 3}}, PositiveBuckets: []int64{1, 2, -1},
			CustomValues: []float64{1, 2.5, math.Inf(1)},
		},
		3: { // extremes
			CounterResetHint: histogram.GaugeType, Schema: 8, ZeroThreshold: negz, ZeroCount: math.MaxUint64, Count: math.MaxUint64, Sum: nan,
			PositiveSpans: []histogram.Span{{Offset: math.MinInt32, Length: math.MaxUint32}, {Offset: math.MaxInt32, Length: 0}}, PositiveBuckets: []int64{math.MinInt64, math.MaxInt64},
			NegativeSpans: []histogram.Span{{Offset: -1, Length: 1 << 31}}, NegativeBuckets: []int64{-1, 0, 1 << 62},
		},
		4: { // custom buckets, odd: no values, hint set
			CounterResetHint: histogram.CounterReset, Schema: histogram.CustomBucketsSchema, Count: 1, Sum: stale,
		},
		5: {
			CounterResetHint: histogram.NotCounterReset, Schema: -4, Sum: math.Inf(-1), Count: 1 << 40,
			NegativeSpans: []histogram.Span{{Offset: 5, Length: 2}}, NegativeBuckets: []int64{7, -7},
		},
		6: { // custom buckets with NaN payload / -0 bounds and fields a valid one would leave empty
			CounterResetHint: histogram.GaugeType, Schema: histogram.CustomBucketsSchema, ZeroThreshold: 0.5, ZeroCount: 2, Count: 4, Sum: negz,
			PositiveSpans: []histogram.Span{{Offset: 1, Length: 1}}, PositiveBuckets: []int64{3},
			NegativeSpans: []histogram.Span{{Offset: 2, Length: 1}}, NegativeBuckets: []int64{-3},
			CustomValues: []float64{negz, nan, math.Inf(-1)},
		},
		7: {Schema: 3, Sum: stale, PositiveSpans: []histogram.Span{{Offset: -7, Length: 1}}, PositiveBuckets: []int64{1}},
		8: {Schema: 1, Count: 130, Sum: 1e300, PositiveSpans: bigSpans, PositiveBuckets: bigBuckets, NegativeSpans: bigSpans[:2], NegativeBuckets: bigBuckets[:2]},
		9: {Schema: histogram.CustomBucketsSchema, Count: 130, PositiveSpans: bigSpans, PositiveBuckets: bigBuckets, CustomValues: bigCustom},
	}
}

func c14FHists() []*histogram.FloatHistogram {
	nan := math.Float64frombits(0x7ff8000000000777)
	nan2 := math.Float64frombits(0xfff8000000000001)
	stale := math.Float64frombits(0x7ff0000000000002)
	negz := math.Float64frombits(1 << 63)
	var bigSpans []histogram.Span
	var bigBuckets []float64
	for i := 0; i < 130; i++ {
		bigSpans = append(bigSpans, histogram.Span{Offset: int32(i%3 + 1), Length: 1})
		bigBuckets = append(bigBuckets, float64(i)-60.5)
	}
	return []*histogram.FloatHistogram{
		0: {},
		1: {
			CounterResetHint: histogram.CounterReset, Schema: 0, ZeroThreshold: 0.001, ZeroCount: 3.5, Count: 10.25, Sum: 1.5,
			PositiveSpans: []histogram.Span{{Offset: 0, Length: 2}, {Offset: 3, Length: 1}}, PositiveBuckets: []float64{1, 0.5, 5},
			NegativeSpans: []histogram.Span{{Offset: -2, Length: 1}}, NegativeBuckets: []float64{2},
		},
		2: {
			Schema: histogram.CustomBucketsSchema, Count: 5, Sum: 9,
			PositiveSpans: []histogram.Span{{Offset: 0, Length: 3}}, PositiveBuckets: []float64{1, 2, 2},
			CustomValues: []float64{1, 2.5, math.Inf(1)},
		},
		3: {
			CounterResetHint: histogram.GaugeType, Schema: 8, ZeroThreshold: negz, ZeroCount: nan, Count: math.Inf(1), Sum: nan2,
			PositiveSpans: []histogram.Span{{Offset: math.MinInt32, Length: math.MaxUint32}, {Offset: math.MaxInt32, Length: 0}}, PositiveBuckets: []float64{negz, stale, math.MaxFloat64},
			NegativeSpans: []histogram.Span{{Offset: -1, Length: 1 << 31}}, NegativeBuckets: []float64{math.SmallestNonzeroFloat64, -1},
		},
		4: {CounterResetHint: histogram.CounterReset, Schema: histogram.CustomBucketsSchema, Count: 1, Sum: stale},
		5: {
			CounterResetHint: histogram.NotCounterReset, Schema: -4, Sum: math.Inf(-1), Count: 1 << 40,
			NegativeSpans: []histogram.Span{{Offset: 5, Length: 2}}, NegativeBuckets: []float64{7, 7},
		},
		6: {
			CounterResetHint: histogram.GaugeType, Schema: histogram.CustomBucketsSchema, ZeroThreshold: 0.5, ZeroCount: 2, Count: 4, Sum: negz,
			PositiveSpans: []histogram.Span{{Offset: 1, Length: 1}}, PositiveBuckets: []float64{nan},
			NegativeSpans: []histogram.Span{{Offset: 2, Length: 1}}, NegativeBuckets: []float64{negz},
			CustomValues: []float64{negz, nan, math.Inf(-1)},
		},
		7: {Schema: 3, Sum: stale, PositiveSpans: []histogram.Span{{Offset: -7, Length: 1}}, PositiveBuckets: []float64{1}},
		8: {Schema: 1, Count: 130, Sum: 1e300, PositiveSpans: bigSpans, PositiveBuckets: bigBuckets, NegativeSpans: bigSpans[:2], NegativeBuckets: bigBuckets[:2]},
		9: {Schema: histogram.CustomBucketsSchema, Count: 130, PositiveSpans: bigSpans, PositiveBuckets: bigBuckets, CustomValues: bigBuckets},
	}
}

var (
	c14H  = c14Hists()
	c14FH = c14FHists()
	// shape index lists per set; mid/red keep exponential and custom ones mixed.
	c14ShapesMid = []int{0, 1, 2, 3, 4, 6}
	c14ShapesRed = []int{1, 2, 3, 6}
)

// ---------------------------------------------------------------------------
// oracle: bitwise / exact equality
// ---------------------------------------------------------------------------

func c14F(a, b float64) bool { return math.Float64bits(a) == math.Float64bits(b) }

func c14Fs(a, b []float64) bool {
	if len(a) != len(b) {
		return false
	}
	for i := range a {
		if !c14F(a[i], b[i]) {
			return false
		}
	}
	return true
}

func c14Spans(a, b []histogram.Span) bool {
	if len(a) != len(b) {
		return false
	}
	for i := range a {
		if a[i] != b[i] {
			return false
		}
	}
	return true
}

func c14Ints(a, b []int64) bool {
	if len(a) != len(b) {
		return false
	}
	for i := range a {
		if a[i] != b[i] {
			return false
		}
	}
	return true
}

func c14LabelsEq(a, b labels.Labels) bool {
	var x, y []labels.Label
	a.Range(func(l labels.Label) { x = append(x, labels.Label{Name: strings.Clone(l.Name), Value: strings.Clone(l.Value)}) })
	b.Range(func(l labels.Label) { y = append(y, labels.Label{Name: strings.Clone(l.Name), Value: strings.Clone(l.Value)}) })
	if len(x) != len(y) || a.Len() != b.Len() {
		return false
	}
	for i := range x {
		if x[i] != y[i] {
			return false
		}
	}
	return true
}

func c14HistEq(a, b *histogram.Histogram) bool {
	if a == nil || b == nil {
		return a == b
	}
	return a.CounterResetHint == b.CounterResetHint && a.Schema == b.Schema && c14F(a.ZeroThreshold, b.ZeroThreshold) &&
		a.ZeroCount == b.ZeroCount && a.Count == b.Count && c14F(a.Sum, b.Sum) &&
		c14Spans(a.PositiveSpans, b.PositiveSpans) && c14Spans(a.NegativeSpans, b.NegativeSpans) &&
		c14Ints(a.PositiveBuckets, b.PositiveBuckets) && c14Ints(a.NegativeBuckets, b.NegativeBuckets) &&
		c14Fs(a.CustomValues, b.CustomValues)
}

func c14FHistEq(a, b *histogram.FloatHistogram) bool {
	if a == nil || b == nil {
		return a == b
	}
	return a.CounterResetHint == b.CounterResetHint && a.Schema == b.Schema && c14F(a.ZeroThreshold, b.ZeroThreshold) &&
		c14F(a.ZeroCount, b.ZeroCount) && c14F(a.Count, b.Count) && c14F(a.Sum, b.Sum) &&
		c14Spans(a.PositiveSpans, b.PositiveSpans) && c14Spans(a.NegativeSpans, b.NegativeSpans) &&
		c14Fs(a.PositiveBuckets, b.PositiveBuckets) && c14Fs(a.NegativeBuckets, b.NegativeBuckets) &&
		c14Fs(a.CustomValues, b.CustomValues)
}

func c14SampleEq(a, b RefSample) bool {
	return a.Ref == b.Ref && a.ST == b.ST && a.T == b.T && c14F(a.V, b.V)
}

func c14RHEq(a, b RefHistogramSample) bool {
	return a.Ref == b.Ref && a.ST == b.ST && a.T == b.T && c14HistEq(a.H, b.H)
}

func c14RFHEq(a, b RefFloatHistogramSample) bool {
	return a.Ref == b.Ref && a.ST == b.ST && a.T == b.T && c14FHistEq(a.FH, b.FH)
}

// c14Interleave reports whether `in` is an order-preserving interleaving of d1 and d2 (every input
// element lands in exactly one of them, nothing else is in them).
func c14Interleave[T any](in, d1, d2 []T, eq func(a, b T) bool) bool {
	if len(in) != len(d1)+len(d2) {
		return false
	}
	var rec func(i, p1, p2 int) bool
	rec = func(i, p1, p2 int) bool {
		if i == len(in) {
			return true
		}
		if p1 < len(d1) && eq(in[i], d1[p1]) && rec(i+1, p1+1, p2) {
			return true
		}
		return p2 < len(d2) && eq(in[i], d2[p2]) && rec(i+1, p1, p2+1)
	}
	return rec(0, 0, 0)
}

// ---------------------------------------------------------------------------
// per-worker scratch state, reused across cases like the real callers reuse pools
// ---------------------------------------------------------------------------

type c14W struct {
	dec        Decoder
	buf, buf2  []byte
	series     []RefSeries
	samples    []RefSample
	stones     []tombstones.Stone
	exemplars  []RefExemplar
	metadata   []RefMetadata
	markers    []RefMmapMarker
	hs, hs2    []RefHistogramSample
	fhs, fhs2  []RefFloatHistogramSample
	fields     []int
	inSamples  []RefSample
	inHS       []RefHistogramSample
	inFHS      []RefFloatHistogramSample
	inSeries   []RefSeries
	inEx       []RefExemplar
	inMeta     []RefMetadata
	inMarkers  []RefMmapMarker
	inStones   []tombstones.Stone
	flatStones []tombstones.Stone
}

var c14Pool = sync.Pool{New: func() any {
	return &c14W{dec: NewDecoder(labels.NewSymbolTable(), promslog.NewNopLogger())}
}}

type c14Res struct {
	sig, msg string
	rec      []byte // encoded record(s), for distinct accounting only; aliases worker scratch
	recHash  uint64 // filled by c14RunCase before the scratch state is released
	recLen   int
	outcome  string
}

func c14Fail(sig, format string, a ...any) c14Res {
	return c14Res{sig: sig, msg: fmt.Sprintf(format, a...)}
}

type c14Kind struct {
	name string
	dims [3][]int
	run  func(w *c14W, set int, seq []int) c14Res
}

func c14Pick[T any](set int, full, mid, red []T) []T {
	switch set {
	case c14Full:
		return full
	case c14Mid:
		return mid
	}
	return red
}

// ---------------------------------------------------------------------------
// kinds
// ---------------------------------------------------------------------------

func c14Kinds() []c14Kind {
	var ks []c14Kind

	// ---- series ------------------------------------------------------------
	ks = append(ks, c14Kind{
		name: "series",
		dims: [3][]int{{len(c14Refs), len(c14Labels)}, {len(c14Refs), len(c14Labels)}, {len(c14RefsRed), len(c14Labels)}},
		run: func(w *c14W, set int, seq []int) c14Res {
			refs := c14Pick(set, c14Refs, c14Refs, c14RefsRed)
			in := w.inSeries[:0]
			for _, a := range seq {
				f := vx.ProductAt([]int{len(refs), len(c14Labels)}, int64(a), w.fields)
				in = append(in, RefSeries{Ref: chunks.HeadSeriesRef(refs[f[0]]), Labels: c14Labels[f[1]]})
			}
			w.inSeries = in
			var enc Encoder
			w.buf = enc.Series(in, w.buf[:0])
			got, err := w.dec.Series(w.buf, w.series[:0])
			if err != nil {
				return c14Fail("series-decode-error", "decode of encoded %d series failed: %v", len(in), err)
			}
			w.series = got
			if len(got) != len(in) {
				return c14Fail("series-count-mismatch", "encoded %d series, decoded %d", len(in), len(got))
			}
			for i := range in {
				if got[i].Ref != in[i].Ref || !c14LabelsEq(got[i].Labels, in[i].Labels) {
					return c14Fail("series-roundtrip-mismatch", "entry %d: wrote ref=%d %s read ref=%d %s", i, in[i].Ref, in[i].Labels, got[i].Ref, got[i].Labels)
				}
			}
			return c14Res{rec: w.buf, outcome: fmt.Sprintf("series t=%d n=%d", w.dec.Type(w.buf), len(got))}
		},
	})

	// ---- float samples, V1 (no start timestamps) and V2 ----------------------
	sampleKind := func(name string, st bool) c14Kind {
		dimsOf := func(set int) []int {
			refs := c14Pick(set, c14Refs, c14Refs, c14RefsRed)
			ts := c14Pick(set, c14Times, c14Times, c14TimesRed)
			sts := []int64{0}
			if st {
				sts = c14Pick(set, c14STs, c14STs, c14STsRed)
			}
			nv := 1
			if set == c14Full {
				nv = len(c14ValBits)
			}
			return []int{len(refs), len(ts), len(sts), nv}
		}
		return c14Kind{
			name: name,
			dims: [3][]int{dimsOf(0), dimsOf(1), dimsOf(2)},
			run: func(w *c14W, set int, seq []int) c14Res {
				refs := c14Pick(set, c14Refs, c14Refs, c14RefsRed)
				ts := c14Pick(set, c14Times, c14Times, c14TimesRed)
				sts := []int64{0}
				if st {
					sts = c14Pick(set, c14STs, c14STs, c14STsRed)
				}
				dims := dimsOf(set)
				in := w.inSamples[:0]
				for pos, a := range seq {
					f := vx.ProductAt(dims, int64(a), w.fields)
					v := c14V(f[3])
					if set != c14Full {
						v = c14V(a + 3*pos + 1)
					}
					in = append(in, RefSample{Ref: chunks.HeadSeriesRef(refs[f[0]]), T: ts[f[1]], ST: sts[f[2]], V: v})
				}
				w.inSamples = in
				enc := Encoder{EnableSTStorage: st}
				w.buf = enc.Samples(in, w.buf[:0])
				got, err := w.dec.Samples(w.buf, w.samples[:0])
				if err != nil {
					return c14Fail(name+"-decode-error", "decode of %d encoded samples %+v failed: %v", len(in), in, err)
				}
				w.samples = got
				if len(got) != len(in) {
					return c14Fail(name+"-count-mismatch", "encoded %d samples %+v, decoded %d", len(in), in, len(got))
				}
				for i := range in {
					if !c14SampleEq(got[i], in[i]) {
						return c14Fail(name+"-roundtrip-mismatch", "entry %d of %+v: wrote %+v (v bits %x) read %+v (v bits %x)", i, in, in[i], math.Float64bits(in[i].V), got[i], math.Float64bits(got[i].V))
					}
				}
				return c14Res{rec: w.buf, outcome: fmt.Sprintf("%s t=%d n=%d len=%d", name, w.dec.Type(w.buf), len(got), len(w.buf))}
			},
		}
	}
	ks = append(ks, sampleKind("samples", false), sampleKind("samplesv2", true))

	// ---- tombstones ----------------------------------------------------------
	// a stone = ref x interval set; interval sets: none, every single (mint,maxt) over 5x5 times, 6 doubles.
	tsT := c14Times[:5]
	var ivsets []tombstones.Intervals
	ivsets = append(ivsets, nil)
	for _, a := range tsT {
		for _, b := range tsT {
			ivsets = append(ivsets, tombstones.Intervals{{Mint: a, Maxt: b}})
		}
	}
	ivsets = append(ivsets,
		tombstones.Intervals{{Mint: 0, Maxt: 1}, {Mint: 3, Maxt: 4}},
		tombstones.Intervals{{Mint: math.MinInt64, Maxt: -1}, {Mint: 1, Maxt: math.MaxInt64}},
		tombstones.Intervals{{Mint: -1, Maxt: -1}, {Mint: 1, Maxt: 1}},
		tombstones.Intervals{{Mint: 0, Maxt: 0}, {Mint: 0, Maxt: 0}},
		tombstones.Intervals{{Mint: math.MaxInt64, Maxt: math.MaxInt64}, {Mint: math.MinInt64, Maxt: math.MinInt64}},
		tombstones.Intervals{{Mint: 1, Maxt: 2}, {Mint: 4, Maxt: 5}, {Mint: 7, Maxt: 8}},
	)
	ivRed := []int{0, 2, 20, 26, 27, 31}
	ks = append(ks, c14Kind{
		name: "tombstones",
		dims: [3][]int{{len(c14RefsRed), len(ivsets)}, {len(c14RefsRed), len(ivsets)}, {len(c14RefsTwo), len(ivRed)}},
		run: func(w *c14W, set int, seq []int) c14Res {
			refs := c14Pick(set, c14RefsRed, c14RefsRed, c14RefsTwo)
			in := w.inStones[:0]
			flat := w.flatStones[:0]
			for _, a := range seq {
				var s tombstones.Stone
				if set == c14Red {
					f := vx.ProductAt([]int{len(refs), len(ivRed)}, int64(a), w.fields)
					s = tombstones.Stone{Ref: storage.SeriesRef(refs[f[0]]), Intervals: ivsets[ivRed[f[1]]]}
				} else {
					f := vx.ProductAt([]int{len(refs), len(ivsets)}, int64(a), w.fields)
					s = tombstones.Stone{Ref: storage.SeriesRef(refs[f[0]]), Intervals: ivsets[f[1]]}
				}
				in = append(in, s)
				// The record is a flat list of (ref, interval): this is the value that must come back.
				for _, iv := range s.Intervals {
					flat = append(flat, tombstones.Stone{Ref: s.Ref, Intervals: tombstones.Intervals{iv}})
				}
			}
			w.inStones, w.flatStones = in, flat
			var enc Encoder
			w.buf = enc.Tombstones(in, w.buf[:0])
			got, err := w.dec.Tombstones(w.buf, w.stones[:0])
			if err != nil {
				return c14Fail("tombstones-decode-error", "decode of encoded %v failed: %v", in, err)
			}
			w.stones = got
			var gflat []tombstones.Stone
			for _, s := range got {
				for _, iv := range s.Intervals {
					gflat = append(gflat, tombstones.Stone{Ref: s.Ref, Intervals: tombstones.Intervals{iv}})
				}
			}
			if len(gflat) != len(flat) {
				return c14Fail("tombstones-count-mismatch", "encoded %v (%d intervals), decoded %v (%d intervals)", in, len(flat), got, len(gflat))
			}
			for i := range flat {
				if gflat[i].Ref != flat[i].Ref || gflat[i].Intervals[0] != flat[i].Intervals[0] {
					return c14Fail("tombstones-roundtrip-mismatch", "interval %d: wrote %v read %v (input %v)", i, flat[i], gflat[i], in)
				}
			}
			return c14Res{rec: w.buf, outcome: fmt.Sprintf("tombstones t=%d n=%d", w.dec.Type(w.buf), len(gflat))}
		},
	})

	// ---- exemplars -------------------------------------------------------------
	exLabels := []int{0, 1, 5, 6}
	exLabelsRed := []int{0, 2}
	exVals := []int{2, 4, 6}
	ks = append(ks, c14Kind{
		name: "exemplars",
		dims: [3][]int{
			{len(c14Refs), len(c14Times), len(exVals), len(exLabels)},
			{len(c14Refs), len(c14Times), 1, len(exLabels)},
			{len(c14RefsRed), len(c14TimesRed), 1, len(exLabelsRed)},
		},
		run: func(w *c14W, set int, seq []int) c14Res {
			refs := c14Pick(set, c14Refs, c14Refs, c14RefsRed)
			ts := c14Pick(set, c14Times, c14Times, c14TimesRed)
			ls := c14Pick(set, exLabels, exLabels, exLabelsRed)
			nv := 1
			if set == c14Full {
				nv = len(exVals)
			}
			dims := []int{len(refs), len(ts), nv, len(ls)}
			in := w.inEx[:0]
			for pos, a := range seq {
				f := vx.ProductAt(dims, int64(a), w.fields)
				v := c14V(exVals[f[2]])
				if set != c14Full {
					v = c14V(a + 3*pos)
				}
				in = append(in, RefExemplar{Ref: chunks.HeadSeriesRef(refs[f[0]]), T: ts[f[1]], V: v, Labels: c14Labels[ls[f[3]]]})
			}
			w.inEx = in
			var enc Encoder
			w.buf = enc.Exemplars(in, w.buf[:0])
			got, err := w.dec.Exemplars(w.buf, w.exemplars[:0])
			if err != nil {
				return c14Fail("exemplars-decode-error", "decode of %d encoded exemplars failed: %v", len(in), err)
			}
			w.exemplars = got
			if len(got) != len(in) {
				return c14Fail("exemplars-count-mismatch", "encoded %d exemplars, decoded %d", len(in), len(got))
			}
			for i := range in {
				if got[i].Ref != in[i].Ref || got[i].T != in[i].T || !c14F(got[i].V, in[i].V) || !c14LabelsEq(got[i].Labels, in[i].Labels) {
					return c14Fail("exemplars-roundtrip-mismatch", "entry %d: wrote %+v read %+v", i, in[i], got[i])
				}
			}
			return c14Res{rec: w.buf, outcome: fmt.Sprintf("exemplars t=%d n=%d", w.dec.Type(w.buf), len(got))}
		},
	})

	// ---- metadata ----------------------------------------------------------------
	mTypes := []uint8{0, 1, 7, 255}
	mStr := []string{"", "seconds", strings.Repeat("é", 100), "UNIT", "HELP"}
	ks = append(ks, c14Kind{
		name: "metadata",
		dims: [3][]int{
			{len(c14Refs), len(mTypes), len(mStr), len(mStr)},
			{len(c14Refs), len(mTypes), 3, 3},
			{len(c14RefsRed), 2, 2, 2},
		},
		run: func(w *c14W, set int, seq []int) c14Res {
			refs := c14Pick(set, c14Refs, c14Refs, c14RefsRed)
			var dims []int
			switch set {
			case c14Full:
				dims = []int{len(refs), len(mTypes), len(mStr), len(mStr)}
			case c14Mid:
				dims = []int{len(refs), len(mTypes), 3, 3}
			default:
				dims = []int{len(refs), 2, 2, 2}
			}
			in := w.inMeta[:0]
			for _, a := range seq {
				f := vx.ProductAt(dims, int64(a), w.fields)
				in = append(in, RefMetadata{Ref: chunks.HeadSeriesRef(refs[f[0]]), Type: mTypes[len(mTypes)-1-f[1]], Unit: mStr[f[2]], Help: mStr[(f[3]+1)%len(mStr)]})
			}
			w.inMeta = in
			var enc Encoder
			w.buf = enc.Metadata(in, w.buf[:0])
			got, err := w.dec.Metadata(w.buf, w.metadata[:0])
			if err != nil {
				return c14Fail("metadata-decode-error", "decode of %d encoded metadata failed: %v", len(in), err)
			}
			w.metadata = got
			if len(got) != len(in) {
				return c14Fail("metadata-count-mismatch", "encoded %d metadata, decoded %d", len(in), len(got))
			}
			for i := range in {
				if got[i] != in[i] {
					return c14Fail("metadata-roundtrip-mismatch", "entry %d: wrote %+v read %+v", i, in[i], got[i])
				}
			}
			return c14Res{rec: w.buf, outcome: fmt.Sprintf("metadata t=%d n=%d", w.dec.Type(w.buf), len(got))}
		},
	})

	// ---- m-map markers --------------------------------------------------------------
	ks = append(ks, c14Kind{
		name: "mmapmarkers",
		dims: [3][]int{{len(c14Refs), len(c14Refs)}, {len(c14Refs), len(c14Refs)}, {len(c14RefsRed), len(c14RefsRed)}},
		run: func(w *c14W, set int, seq []int) c14Res {
			refs := c14Pick(set, c14Refs, c14Refs, c14RefsRed)
			in := w.inMarkers[:0]
			for _, a := range seq {
				f := vx.ProductAt([]int{len(refs), len(refs)}, int64(a), w.fields)
				in = append(in, RefMmapMarker{Ref: chunks.HeadSeriesRef(refs[f[0]]), MmapRef: chunks.ChunkDiskMapperRef(refs[len(refs)-1-f[1]])})
			}
			w.inMarkers = in
			var enc Encoder
			w.buf = enc.MmapMarkers(in, w.buf[:0])
			got, err := w.dec.MmapMarkers(w.buf, w.markers[:0])
			if err != nil {
				return c14Fail("mmapmarkers-decode-error", "decode of %d encoded markers failed: %v", len(in), err)
			}
			w.markers = got
			if len(got) != len(in) {
				return c14Fail("mmapmarkers-count-mismatch", "encoded %d markers, decoded %d", len(in), len(got))
			}
			for i := range in {
				if got[i] != in[i] {
					return c14Fail("mmapmarkers-roundtrip-mismatch", "entry %d: wrote %+v read %+v", i, in[i], got[i])
				}
			}
			return c14Res{rec: w.buf, outcome: fmt.Sprintf("mmapmarkers t=%d n=%d", w.dec.Type(w.buf), len(got))}
		},
	})

	// ---- histograms (int / float) x (V1 / V2 with start timestamps) -------------------
	histDims := func(set int, st bool) []int {
		var d []int
		switch set {
		case c14Full:
			d = []int{len(c14RefsRed), len(c14TimesRed), 1, len(c14H)}
		case c14Mid:
			d = []int{3, 3, 1, len(c14ShapesMid)}
		default:
			d = []int{len(c14RefsTwo), len(c14TimesTwo), 1, len(c14ShapesRed)}
		}
		if st {
			if set == c14Full {
				d[2] = 4
			} else {
				d[2] = len(c14STsRed)
			}
		}
		return d
	}
	histAtom := func(set int, st bool, a int, fields []int) (ref uint64, t, stv int64, shape int) {
		dims := histDims(set, st)
		f := vx.ProductAt(dims, int64(a), fields)
		switch set {
		case c14Full:
			ref, t, shape = c14RefsRed[f[0]], c14TimesRed[f[1]], f[3]
			stv = []int64{0, 7, -1, math.MinInt64}[f[2]]
		case c14Mid:
			ref, t, shape = c14RefsRed[f[0]], c14TimesRed[f[1]+1], c14ShapesMid[f[3]]
			stv = c14STsRed[f[2]]
		default:
			ref, t, shape = c14RefsTwo[f[0]], c14TimesTwo[f[1]], c14ShapesRed[f[3]]
			stv = c14STsRed[f[2]]
		}
		if !st {
			stv = 0
		}
		return
	}
	for _, st := range []bool{false, true} {
		st := st
		name := "histograms"
		if st {
			name = "histogramsv2"
		}
		ks = append(ks, c14Kind{
			name: name,
			dims: [3][]int{histDims(0, st), histDims(1, st), histDims(2, st)},
			run: func(w *c14W, set int, seq []int) c14Res {
				in := w.inHS[:0]
				for _, a := range seq {
					ref, t, stv, shape := histAtom(set, st, a, w.fields)
					in = append(in, RefHistogramSample{Ref: chunks.HeadSeriesRef(ref), T: t, ST: stv, H: c14H[shape]})
				}
				w.inHS = in
				return c14RunHist(w, name, st, in)
			},
		})
		fname := "float" + name
		ks = append(ks, c14Kind{
			name: fname,
			dims: [3][]int{histDims(0, st), histDims(1, st), histDims(2, st)},
			run: func(w *c14W, set int, seq []int) c14Res {
				in := w.inFHS[:0]
				for _, a := range seq {
					ref, t, stv, shape := histAtom(set, st, a, w.fields)
					in = append(in, RefFloatHistogramSample{Ref: chunks.HeadSeriesRef(ref), T: t, ST: stv, FH: c14FH[shape]})
				}
				w.inFHS = in
				return c14RunFHist(w, fname, st, in)
			},
		})
	}
	return ks
}

// c14RunHist encodes a (possibly mixed) batch the way the head/agent appenders do: the main record
// first (logged only when non-empty), then the returned custom-bucket leftovers in their own
// record; both are decoded and compared with the input.
func c14RunHist(w *c14W, name string, st bool, in []RefHistogramSample) c14Res {
	enc := Encoder{EnableSTStorage: st}
	rec, left := enc.HistogramSamples(in, w.buf[:0])
	w.buf = rec
	var d1, d2 []RefHistogramSample
	var err error
	var t1, t2 Type
	if len(rec) > 0 {
		t1 = w.dec.Type(rec)
		d1, err = w.dec.HistogramSamples(rec, w.hs[:0])
		if err != nil {
			return c14Fail(name+"-decode-error", "decode of main record (type %v) of batch %s failed: %v", t1, c14DescHS(in), err)
		}
		w.hs = d1
	}
	if len(left) > 0 {
		rec2 := enc.CustomBucketsHistogramSamples(left, w.buf2[:0])
		w.buf2 = rec2
		t2 = w.dec.Type(rec2)
		d2, err = w.dec.HistogramSamples(rec2, w.hs2[:0])
		if err != nil {
			return c14Fail(name+"-decode-error", "decode of custom-bucket record (type %v) of batch %s failed: %v", t2, c14DescHS(in), err)
		}
		w.hs2 = d2
	}
	if !c14Interleave(in, d1, d2, c14RHEq) {
		if len(d1)+len(d2) == len(in) {
			return c14Fail(name+"-roundtrip-mismatch", "batch %s: main record gave %s, custom-bucket record gave %s", c14DescHS(in), c14DescHS(d1), c14DescHS(d2))
		}
		return c14Fail(name+"-split-lost-or-duplicated", "batch %s (%d samples): main record gave %s, custom-bucket record gave %s (%d samples)", c14DescHS(in), len(in), c14DescHS(d1), c14DescHS(d2), len(d1)+len(d2))
	}
	// the split is between the exponential and the custom-bucket record TYPES
	for _, h := range d1 {
		if t1 == HistogramSamples && h.H.UsesCustomBuckets() || t1 == CustomBucketsHistogramSamples && !h.H.UsesCustomBuckets() {
			return c14Fail(name+"-split-wrong-record-type", "record type %v contains histogram with schema %d", t1, h.H.Schema)
		}
	}
	for _, h := range d2 {
		if t2 == HistogramSamples && h.H.UsesCustomBuckets() || t2 == CustomBucketsHistogramSamples && !h.H.UsesCustomBuckets() {
			return c14Fail(name+"-split-wrong-record-type", "record type %v contains histogram with schema %d", t2, h.H.Schema)
		}
	}
	return c14Res{rec: append(append([]byte{}, rec...), w.buf2[:c14Len(len(left) > 0, len(w.buf2))]...), outcome: fmt.Sprintf("%s t=%d/%d n=%d+%d", name, t1, t2, len(d1), len(d2))}
}

func c14Len(use bool, n int) int {
	if use {
		return n
	}
	return 0
}

func c14RunFHist(w *c14W, name string, st bool, in []RefFloatHistogramSample) c14Res {
	enc := Encoder{EnableSTStorage: st}
	rec, left := enc.FloatHistogramSamples(in, w.buf[:0])
	w.buf = rec
	var d1, d2 []RefFloatHistogramSample
	var err error
	var t1, t2 Type
	if len(rec) > 0 {
		t1 = w.dec.Type(rec)
		d1, err = w.dec.FloatHistogramSamples(rec, w.fhs[:0])
		if err != nil {
			return c14Fail(name+"-decode-error", "decode of main record (type %v) of batch %s failed: %v", t1, c14DescFHS(in), err)
		}
		w.fhs = d1
	}
	if len(left) > 0 {
		rec2 := enc.CustomBucketsFloatHistogramSamples(left, w.buf2[:0])
		w.buf2 = rec2
		t2 = w.dec.Type(rec2)
		d2, err = w.dec.FloatHistogramSamples(rec2, w.fhs2[:0])
		if err != nil {
			return c14Fail(name+"-decode-error", "decode of custom-bucket record (type %v) of batch %s failed: %v", t2, c14DescFHS(in), err)
		}
		w.fhs2 = d2
	}
	if !c14Interleave(in, d1, d2, c14RFHEq) {
		if len(d1)+len(d2) == len(in) {
			return c14Fail(name+"-roundtrip-mismatch", "batch %s: main record gave %s, custom-bucket record gave %s", c14DescFHS(in), c14DescFHS(d1), c14DescFHS(d2))
		}
		return c14Fail(name+"-split-lost-or-duplicated", "batch %s (%d samples): main record gave %s, custom-bucket record gave %s (%d samples)", c14DescFHS(in), len(in), c14DescFHS(d1), c14DescFHS(d2), len(d1)+len(d2))
	}
	for _, h := range d1 {
		if t1 == FloatHistogramSamples && h.FH.UsesCustomBuckets() || t1 == CustomBucketsFloatHistogramSamples && !h.FH.UsesCustomBuckets() {
			return c14Fail(name+"-split-wrong-record-type", "record type %v contains histogram with schema %d", t1, h.FH.Schema)
		}
	}
	for _, h := range d2 {
		if t2 == FloatHistogramSamples && h.FH.UsesCustomBuckets() || t2 == CustomBucketsFloatHistogramSamples && !h.FH.UsesCustomBuckets() {
			return c14Fail(name+"-split-wrong-record-type", "record type %v contains histogram with schema %d", t2, h.FH.Schema)
		}
	}
	return c14Res{rec: append(append([]byte{}, rec...), w.buf2[:c14Len(len(left) > 0, len(w.buf2))]...), outcome: fmt.Sprintf("%s t=%d/%d n=%d+%d", name, t1, t2, len(d1), len(d2))}
}

func c14DescHS(hs []RefHistogramSample) string {
	var sb strings.Builder
	sb.WriteString("[")
	for i, h := range hs {
		if i > 0 {
			sb.WriteString(" ")
		}
		fmt.Fprintf(&sb, "{ref=%d st=%d t=%d schema=%d hint=%d count=%d nspans=%d/%d ncustom=%d}", h.Ref, h.ST, h.T, h.H.Schema, h.H.CounterResetHint, h.H.Count, len(h.H.PositiveSpans), len(h.H.NegativeSpans), len(h.H.CustomValues))
	}
	sb.WriteString("]")
	return sb.String()
}

func c14DescFHS(hs []RefFloatHistogramSample) string {
	var sb strings.Builder
	sb.WriteString("[")
	for i, h := range hs {
		if i > 0 {
			sb.WriteString(" ")
		}
		fmt.Fprintf(&sb, "{ref=%d st=%d t=%d schema=%d hint=%d count=%v nspans=%d/%d ncustom=%d}", h.Ref, h.ST, h.T, h.FH.Schema, h.FH.CounterResetHint, h.FH.Count, len(h.FH.PositiveSpans), len(h.FH.NegativeSpans), len(h.FH.CustomValues))
	}
	sb.WriteString("]")
	return sb.String()
}

// ---------------------------------------------------------------------------
// driver
// ---------------------------------------------------------------------------

type c14Block struct {
	kind           int
	set            int
	minLen, maxLen int
	alpha          int
	count          int64
	track          bool // record distinct encodings for this block
}

type c14Replay struct {
	Kind string `json:"kind"`
	Set  string `json:"set"`
	Seq  []int  `json:"seq"`
}

func c14RunCase(r *vx.Run, k *c14Kind, set int, seq []int) c14Res {
	w := c14Pool.Get().(*c14W)
	defer c14Pool.Put(w)
	var res c14Res
	p, stack := vx.Guard(func() { res = k.run(w, set, seq) })
	if p != nil {
		res = c14Fail(k.name+"-panic", "encode/decode panicked: %v\n%s", p, stack)
		// scratch state may be half-written; drop it
		*w = c14W{dec: NewDecoder(labels.NewSymbolTable(), promslog.NewNopLogger())}
	}
	h := fnv.New64a()
	h.Write(res.rec)
	res.recHash, res.recLen, res.rec = h.Sum64(), len(res.rec), nil
	if res.sig != "" {
		r.Violation(res.sig, fmt.Sprintf("kind %s, atom set %s, atom sequence %v: %s", k.name, c14SetNames[set], seq, res.msg),
			c14Replay{Kind: k.name, Set: c14SetNames[set], Seq: append([]int{}, seq...)})
	}
	return res
}

func c14SelfTest(t *testing.T) {
	// the comparators must see single-bit and structural differences
	if c14SampleEq(RefSample{V: 0}, RefSample{V: math.Copysign(0, -1)}) {
		t.Fatal("self-test: sample comparison ignores the sign of zero")
	}
	if c14SampleEq(RefSample{V: math.Float64frombits(0x7ff8000000000001)}, RefSample{V: math.Float64frombits(0x7ff0000000000002)}) {
		t.Fatal("self-test: sample comparison ignores NaN payloads")
	}
	if c14SampleEq(RefSample{ST: 1}, RefSample{ST: 0}) {
		t.Fatal("self-test: sample comparison ignores ST")
	}
	if c14LabelsEq(labels.FromStrings("a", "b"), labels.FromStrings("a", "c")) || c14LabelsEq(labels.EmptyLabels(), labels.FromStrings("a", "")) {
		t.Fatal("self-test: label comparison too weak")
	}
	h := c14Hists()[1]
	h.PositiveSpans[1].Offset++
	if c14HistEq(c14H[1], h) {
		t.Fatal("self-test: histogram comparison ignores spans")
	}
	h = c14Hists()[6]
	h.CustomValues[0] = 0 // was -0
	if c14HistEq(c14H[6], h) {
		t.Fatal("self-test: histogram comparison ignores custom value bits")
	}
	fh := c14FHists()[3]
	fh.PositiveBuckets[0] = 0
	if c14FHistEq(c14FH[3], fh) {
		t.Fatal("self-test: float histogram comparison ignores bucket bits")
	}
	fresh, ffresh := c14Hists(), c14FHists()
	for i := range c14H {
		if !c14HistEq(c14H[i], fresh[i]) || !c14FHistEq(c14FH[i], ffresh[i]) {
			t.Fatal("self-test: comparison not reflexive")
		}
	}
	// the split oracle rejects a lost, a duplicated and a reordered sample
	a := RefHistogramSample{Ref: 1, T: 1, H: c14H[1]}
	b := RefHistogramSample{Ref: 2, T: 2, H: c14H[2]}
	c := RefHistogramSample{Ref: 3, T: 3, H: c14H[3]}
	in := []RefHistogramSample{a, b, c}
	if !c14Interleave(in, []RefHistogramSample{a, c}, []RefHistogramSample{b}, c14RHEq) {
		t.Fatal("self-test: split oracle rejects a correct split")
	}
	if c14Interleave(in, []RefHistogramSample{a}, []RefHistogramSample{b}, c14RHEq) ||
		c14Interleave(in, []RefHistogramSample{a, c}, []RefHistogramSample{b, b}, c14RHEq) ||
		c14Interleave(in, []RefHistogramSample{c, a}, []RefHistogramSample{b}, c14RHEq) {
		t.Fatal("self-test: split oracle accepts a lost/duplicated/reordered sample")
	}
}

func TestVerifC14(t *testing.T) {
	r := vx.Start(t, "C14", "exploration")
	defer r.Finish()
	kinds := c14Kinds()

	if r.Replay != "" {
		var rp c14Replay
		r.LoadReplay(&rp)
		for i := range kinds {
			if kinds[i].name != rp.Kind {
				continue
			}
			for s, n := range c14SetNames {
				if n == rp.Set {
					c14RunCase(r, &kinds[i], s, rp.Seq)
					c14RunCase(r, &kinds[i], s, rp.Seq)
					return
				}
			}
		}
		t.Fatalf("replay: unknown kind/set %q/%q", rp.Kind, rp.Set)
	}

	c14SelfTest(t)
	// independent copies of the shapes (Histogram.Copy normalises custom-bucket histograms, so rebuild)
	shapesBefore, fshapesBefore := c14Hists(), c14FHists()

	// blocks: full atoms for 0..2 entries, then 3 entries over reduced atoms
	// (thorough: 3 over the middle product, 4 over the reduced one).
	var blocks []c14Block
	var total int64
	sizes := map[string]any{}
	for ki := range kinds {
		add := func(set, lo, hi int, track bool) {
			a := int(vx.ProductSize(kinds[ki].dims[set]))
			b := c14Block{kind: ki, set: set, minLen: lo, maxLen: hi, alpha: a, count: vx.SeqCount(a, lo, hi), track: track}
			blocks = append(blocks, b)
			total += b.count
			sizes[fmt.Sprintf("%s/%s", kinds[ki].name, c14SetNames[set])] = map[string]any{"atoms": a, "len": []int{lo, hi}, "sequences": b.count}
		}
		add(c14Full, 0, 2, true)
		if r.Thorough() {
			add(c14Mid, 3, 3, false)
			add(c14Red, 3, 3, true)
			add(c14Red, 4, 4, false)
		} else {
			add(c14Red, 3, 3, true)
		}
	}
	if total > 400e6 {
		t.Fatalf("enumeration unexpectedly large: %d", total)
	}
	var starts []int64
	{
		var s int64
		for _, b := range blocks {
			starts = append(starts, s)
			s += b.count
		}
	}
	var n, nOutcomes atomic.Int64
	r.ParallelN(total, func(i int64) {
		// locate block (few dozen blocks: linear scan)
		bi := len(blocks) - 1
		for bi > 0 && starts[bi] > i {
			bi--
		}
		b := &blocks[bi]
		seq := vx.SeqAt(b.alpha, b.minLen, b.maxLen, i-starts[bi], nil)
		k := &kinds[b.kind]
		res := c14RunCase(r, k, b.set, seq)
		cnt := n.Add(1)
		if res.sig == "" {
			if r.Distinct("distinct_outcomes", res.outcome) {
				nOutcomes.Add(1)
			}
			if b.track && len(seq) >= 2 {
				r.Distinct("distinct_nontrivial", fmt.Sprintf("%s/%x/%d", k.name, res.recHash, res.recLen))
			}
		}
		r.SampleAt(cnt, func() any {
			return map[string]any{"kind": k.name, "atom_set": c14SetNames[b.set], "atom_sequence": append([]int{}, seq...), "outcome": res.outcome, "encoded_bytes": res.recLen}
		})
	})
	r.Count("evaluations", int(n.Load()))

	for i := range c14H {
		if !c14HistEq(c14H[i], shapesBefore[i]) || !c14FHistEq(c14FH[i], fshapesBefore[i]) {
			r.Violation("encoder-mutated-input-histogram", fmt.Sprintf("histogram shape %d was modified by encoding/decoding", i), nil)
		}
	}
	if r.Violations() == 0 && nOutcomes.Load() < 2 {
		t.Fatalf("vacuous run: %d distinct outcomes over %d evaluations", nOutcomes.Load(), n.Load())
	}
	r.Set("sizes", sizes)
	r.Set("depth", vx.Pick(r, 3, 4))
	r.Set("rule", "per record kind (series, samples V1, samples V2 with ST, tombstones, exemplars, metadata, m-map markers, int/float histograms V1 and V2 incl. custom buckets): every sequence of 0..2 entries over the full atom product, every sequence of 3 over the reduced product (thorough: 3 over the middle product and 3..4 over the reduced one); each is encoded into a reused buffer and decoded into reused slices by a reused Decoder, then compared bitwise with the input; histogram batches go through HistogramSamples + CustomBuckets*Samples like the appenders do. distinct_nontrivial = distinct encoded byte strings of records with >=2 entries (delta / marker encodings in effect) in the 'full' and 'red' blocks; distinct_outcomes = distinct (kind, record type bytes, decoded counts[, length]).")
	r.Assume("histogram schemas are those this version writes (-4..8 exponential, -53 custom); the decoder deliberately drops unknown schemas and reduces 9..52")
	r.Assume("V1 sample/histogram records cannot carry start timestamps: V1 inputs have ST=0")
	r.Assume("a tombstones record is the flat list of (ref, interval) pairs; a Stone with k intervals reads back as k single-interval Stones")
	r.Assume("decoders are given empty destination slices (as every caller in the repository does)")
	r.Assume("default (stringlabels) build")
}
