package tsdb

// C09: retention removes only whole expired blocks, oldest first. Engine E1 (bounded-exhaustive
// configurations): real tiny blocks (<= 4) over a (mint,maxt) grid with equal max times and
// overlaps; retention durations = all pairwise maxt differences +-1 (and 0 = off); size limits =
// every prefix sum of block sizes (+ WAL / head-chunk size) +-1, as bytes and as a percentage of
// a fake filesystem size; superseded parents and Deletable blocks, in a running DB and at Open
// after a simulated interrupted compaction.
//
// Re-uses the block writer helpers of c07_test.go.

import (
	"context"
	"fmt"
	"math"
	"os"
	"path/filepath"
	"sort"
	"strings"
	"sync/atomic"
	"testing"
	"time"

	"github.com/oklog/ulid/v2"
	"github.com/prometheus/common/promslog"

	"github.com/prometheus/prometheus/internal/verif/vx"
	"github.com/prometheus/prometheus/model/labels"
	"github.com/prometheus/prometheus/tsdb/chunkenc"
)

// ---- block candidates ---------------------------------------------------------------------------

type c09Cand struct {
	Name       string
	Mint, Maxt int64
	Samples    int64  // number of samples (size knob)
	Hint       string // "" | "ooo" | "stale" (partial-view hints must not matter)
}

// grid 0/5/10/20/30: equal max times (B,D,E / C,F,G), overlaps (D,E,F), same range twice (C,G)
var c09Cands = []c09Cand{
	{"A[0,10)", 0, 10, 2, ""},
	{"B[10,20)", 10, 20, 2, ""},
	{"C[20,30)", 20, 30, 2, ""},
	{"D[0,20)", 0, 20, 12, ""},
	{"E[5,20)", 5, 20, 3, "ooo"},
	{"F[10,30)", 10, 30, 7, "stale"},
	{"G[20,30)", 20, 30, 9, ""},
}

const c09HeadT = 1000 // head samples live here, far above every block

type c09Block struct {
	ID        ulid.ULID
	Name      string
	Mint      int64
	Maxt      int64
	Size      int64 // bytes on disk (sum of the files of the directory)
	Parents   []ulid.ULID
	Deletable bool
}

type c09Pool struct {
	dir     string
	headTpl string     // a DB directory without blocks whose WAL holds the three head samples
	blocks  []c09Block // per candidate
}

func c09DirSize(dir string) (int64, error) {
	var n int64
	err := filepath.Walk(dir, func(_ string, info os.FileInfo, err error) error {
		if err != nil {
			return err
		}
		if !info.IsDir() {
			n += info.Size()
		}
		return nil
	})
	return n, err
}

func c09DirSizeOrZero(dir string) int64 {
	if _, err := os.Stat(dir); err != nil {
		return 0
	}
	n, _ := c09DirSize(dir)
	return n
}

// c09WriteBlock writes a block [mint,maxt) with n samples (first at mint, last at maxt-1).
func c09WriteBlock(parent string, id ulid.ULID, mint, maxt, n int64, mod func(m *BlockMeta)) (c09Block, error) {
	ts := []int64{mint}
	for i := int64(1); i < n-1 && mint+i < maxt-1; i++ {
		ts = append(ts, mint+i)
	}
	ts = append(ts, maxt-1)
	meta, model := c07MakeChunk(c07Chunk{"f", ts}, 3)
	s := c07SeriesIn{Labels: labels.FromStrings("__name__", "m", "blk", id.String()[20:]), Model: model}
	s.Chunks = append(s.Chunks, meta)
	dir, bm, err := c07WriteBlock(parent, id, []c07SeriesIn{s}, 0)
	if err != nil {
		return c09Block{}, err
	}
	if bm.MinTime != mint || bm.MaxTime != maxt {
		return c09Block{}, fmt.Errorf("c09: block range [%d,%d), want [%d,%d)", bm.MinTime, bm.MaxTime, mint, maxt)
	}
	if mod != nil {
		mod(bm)
		if _, err := writeMetaFile(promslog.NewNopLogger(), dir, bm); err != nil {
			return c09Block{}, err
		}
	}
	sz, err := c09DirSize(dir)
	if err != nil {
		return c09Block{}, err
	}
	b := c09Block{ID: id, Mint: mint, Maxt: maxt, Size: sz, Deletable: bm.Compaction.Deletable}
	for _, p := range bm.Compaction.Parents {
		b.Parents = append(b.Parents, p.ULID)
	}
	return b, nil
}

func c09BuildPool() (*c09Pool, error) {
	dir, err := os.MkdirTemp("", "c09pool")
	if err != nil {
		return nil, err
	}
	p := &c09Pool{dir: dir}
	for i, c := range c09Cands {
		b, err := c09WriteBlock(dir, c07ULID(uint64(9000+i)), c.Mint, c.Maxt, c.Samples, func(m *BlockMeta) {
			switch c.Hint {
			case "ooo":
				m.Compaction.SetOutOfOrder()
			case "stale":
				m.Compaction.SetStaleSeries()
			}
		})
		if err != nil {
			os.RemoveAll(dir)
			return nil, err
		}
		b.Name = c.Name
		p.blocks = append(p.blocks, b)
	}
	// head template: open an empty DB, commit three samples, close
	p.headTpl = filepath.Join(dir, "headtpl")
	db, err := Open(p.headTpl, nil, nil, c09Options(), nil)
	if err != nil {
		os.RemoveAll(dir)
		return nil, err
	}
	db.DisableCompactions()
	app := db.Appender(context.Background())
	for i := int64(0); i < 3; i++ {
		if _, err := app.Append(0, labels.FromStrings("__name__", "head"), c09HeadT+i, float64(i)); err != nil {
			db.Close()
			os.RemoveAll(dir)
			return nil, err
		}
	}
	if err := app.Commit(); err != nil {
		db.Close()
		os.RemoveAll(dir)
		return nil, err
	}
	if err := db.Close(); err != nil {
		os.RemoveAll(dir)
		return nil, err
	}
	return p, nil
}

// ---- reference model (written from the statement) -------------------------------------------------

// c09TimeDeletes: the blocks whose maximum time is at least d older than the newest block's maximum time.
func c09TimeDeletes(bs []c09Block, d int64) map[ulid.ULID]bool {
	out := map[ulid.ULID]bool{}
	if d <= 0 || len(bs) == 0 {
		return out
	}
	newest := int64(math.MinInt64)
	for _, b := range bs {
		newest = max(newest, b.Maxt)
	}
	for _, b := range bs {
		if newest-b.Maxt >= d {
			out[b.ID] = true
		}
	}
	return out
}

// c09SizeDeletes: the acceptable deletion sets of size retention: for every newest-first order
// (ties in max time in any order) keep the longest run whose cumulative size plus headSize stays
// within the limit. Returned as canonical strings of the deleted ids.
func c09SizeDeletes(bs []c09Block, headSize, limit int64) map[string]map[ulid.ULID]bool {
	out := map[string]map[ulid.ULID]bool{}
	if limit <= 0 || len(bs) == 0 {
		out[""] = map[ulid.ULID]bool{}
		return out
	}
	vx.Perms(len(bs), func(p []int) bool {
		for i := 1; i < len(p); i++ {
			if bs[p[i-1]].Maxt < bs[p[i]].Maxt {
				return true // not newest-first
			}
		}
		cum := headSize
		del := map[ulid.ULID]bool{}
		cut := false
		for _, i := range p {
			cum += bs[i].Size
			if cum > limit {
				cut = true
			}
			if cut {
				del[bs[i].ID] = true
			}
		}
		out[c09Key(del)] = del
		return true
	})
	return out
}

func c09Key(m map[ulid.ULID]bool) string {
	var s []string
	for id, v := range m {
		if v {
			s = append(s, id.String()[20:])
		}
	}
	sort.Strings(s)
	return strings.Join(s, ",")
}

type c09Setting struct {
	Duration int64   `json:"duration"`
	MaxBytes int64   `json:"max_bytes"`
	Percent  float64 `json:"percent"`
	FsSize   uint64  `json:"fs_size"`
	limit    int64   // effective byte limit (from MaxBytes or the percentage)
}

const c09FsSize = 1 << 20

func c09PercentFor(limit int64) float64 { return float64(limit) * 100 / c09FsSize } // exact: power-of-two divisor

// c09ExpectedFinal: the acceptable sets of block ids left on disk after a reload.
// countAll=false is the statement: retention is decided over the blocks that are neither
// superseded by a loaded child nor marked deletable. countAll=true is the variant in which the
// doomed blocks still take part in the retention arithmetic (used only to classify a mismatch).
func c09ExpectedFinal(bs []c09Block, headSize int64, st c09Setting, countAll bool) map[string]bool {
	doomed := map[ulid.ULID]bool{}
	for _, b := range bs {
		for _, p := range b.Parents {
			doomed[p] = true
		}
		if b.Deletable {
			doomed[b.ID] = true
		}
	}
	var surv []c09Block
	for _, b := range bs {
		if !doomed[b.ID] {
			surv = append(surv, b)
		}
	}
	basis := surv
	if countAll {
		basis = bs
	}
	td := c09TimeDeletes(basis, st.Duration)
	out := map[string]bool{}
	for _, sd := range c09SizeDeletes(basis, headSize, st.limit) {
		left := map[ulid.ULID]bool{}
		for _, b := range surv {
			if !td[b.ID] && !sd[b.ID] {
				left[b.ID] = true
			}
		}
		out[c09Key(left)] = true
	}
	return out
}

// ---- the real system --------------------------------------------------------------------------------

type c09Sys struct {
	dir  string
	db   *DB
	pool *c09Pool
}

func c09Options() *Options {
	o := DefaultOptions()
	o.MinBlockDuration = 10
	o.MaxBlockDuration = 90
	o.MaxBlockChunkSegmentSize = c07SegmentSize
	o.WALSegmentSize = 2 * 32 * 1024
	o.StripeSize = 8
	o.NoLockfile = true
	o.HeadChunksWriteQueueSize = 0
	o.WALReplayConcurrency = 1
	o.HeadChunksWriteBufferSize = 64 * 1024
	o.RetentionDuration = 0
	o.MaxBytes = 0
	o.BlockReloadInterval = 1000 * time.Hour
	o.FsSizeFunc = func(string) uint64 { return c09FsSize }
	return o
}

func (s *c09Sys) Close() {
	if s.db != nil {
		_ = s.db.Close()
	}
	os.RemoveAll(s.dir)
}

func (s *c09Sys) copyIn(src string, id ulid.ULID) error {
	dst := filepath.Join(s.dir, id.String())
	if _, err := os.Stat(dst); err == nil {
		return nil
	}
	return c07CopyDir(src, dst)
}

// c09Open creates a DB directory holding the given pool blocks, opens it with opts and appends
// three head samples (so that WAL and head have content). The head samples are appended before
// the blocks are copied in when withHead is set by a first open/close cycle.
func c09Open(pool *c09Pool, idx []int, opts *Options, prepareHead bool, extra func(dir string) error) (*c09Sys, error) {
	dir, err := os.MkdirTemp("", "c09")
	if err != nil {
		return nil, err
	}
	s := &c09Sys{dir: dir, pool: pool}
	if prepareHead {
		if err := c07CopyDir(pool.headTpl, dir); err != nil {
			os.RemoveAll(dir)
			return nil, err
		}
	}
	for _, i := range idx {
		if err := s.copyIn(filepath.Join(pool.dir, pool.blocks[i].ID.String()), pool.blocks[i].ID); err != nil {
			os.RemoveAll(dir)
			return nil, err
		}
	}
	if extra != nil {
		if err := extra(dir); err != nil {
			os.RemoveAll(dir)
			return nil, err
		}
	}
	db, err := Open(dir, nil, nil, opts, nil)
	if err != nil {
		os.RemoveAll(dir)
		return nil, err
	}
	db.DisableCompactions()
	s.db = db
	return s, nil
}

func (s *c09Sys) headSizeOnDisk() int64 {
	return c09DirSizeOrZero(filepath.Join(s.dir, "wal")) + c09DirSizeOrZero(filepath.Join(s.dir, "wbl")) + c09DirSizeOrZero(filepath.Join(s.dir, "chunks_head"))
}

func (s *c09Sys) apply(st c09Setting) {
	s.db.retentionMtx.Lock()
	s.db.opts.RetentionDuration = st.Duration
	s.db.opts.MaxBytes = st.MaxBytes
	s.db.opts.MaxPercentage = st.Percent
	s.db.retentionMtx.Unlock()
}

func (s *c09Sys) reload() error {
	s.db.cmtx.Lock()
	defer s.db.cmtx.Unlock()
	return s.db.reloadBlocks()
}

// dirsOnDisk lists the block directories (by ULID) and any leftover temporary directory.
func (s *c09Sys) dirsOnDisk() (ids map[ulid.ULID]bool, tmp []string) {
	ids = map[ulid.ULID]bool{}
	es, _ := os.ReadDir(s.dir)
	for _, e := range es {
		if !e.IsDir() {
			continue
		}
		if id, err := ulid.ParseStrict(e.Name()); err == nil {
			ids[id] = true
		} else if strings.Contains(e.Name(), ".tmp") {
			tmp = append(tmp, e.Name())
		}
	}
	return ids, tmp
}

func (s *c09Sys) headIntact() error {
	q, err := s.db.Querier(c09HeadT, c09HeadT+10)
	if err != nil {
		return err
	}
	defer q.Close()
	ss := q.Select(context.Background(), true, nil, labels.MustNewMatcher(labels.MatchEqual, "__name__", "head"))
	n := 0
	for ss.Next() {
		it := ss.At().Iterator(nil)
		for it.Next() != chunkenc.ValNone {
			n++
		}
	}
	if ss.Err() != nil {
		return ss.Err()
	}
	if n != 3 {
		return fmt.Errorf("head holds %d of its 3 samples", n)
	}
	return nil
}

// ---- case generation ----------------------------------------------------------------------------------

type c09Case struct {
	Layout   []int      `json:"layout"`
	Scenario string     `json:"scenario"` // "plain" | "child:i,j" | "flag-oldest"
	Setting  c09Setting `json:"setting"`
	AtOpen   bool       `json:"at_open"`
}

// c09Settings: durations = pairwise maxt differences +-1 (and 0); byte limits = prefix sums of
// every newest-first order (+ head size) +-1 (and 0); each alone, the limits also as a
// percentage, and the i-th duration together with the i-th limit.
func c09Settings(bs []c09Block, headSize int64) []c09Setting {
	ds := map[int64]bool{0: true}
	for _, a := range bs {
		for _, b := range bs {
			d := a.Maxt - b.Maxt
			for _, x := range []int64{d - 1, d, d + 1} {
				if x > 0 {
					ds[x] = true
				}
			}
		}
	}
	ls := map[int64]bool{0: true}
	vx.Perms(len(bs), func(p []int) bool {
		for i := 1; i < len(p); i++ {
			if bs[p[i-1]].Maxt < bs[p[i]].Maxt {
				return true
			}
		}
		cum := headSize
		for _, x := range []int64{cum - 1, cum, cum + 1} {
			ls[x] = true
		}
		for _, i := range p {
			cum += bs[i].Size
			for _, x := range []int64{cum - 1, cum, cum + 1} {
				ls[x] = true
			}
		}
		return true
	})
	var dl, ll []int64
	for d := range ds {
		dl = append(dl, d)
	}
	for l := range ls {
		if l >= 0 {
			ll = append(ll, l)
		}
	}
	sort.Slice(dl, func(i, j int) bool { return dl[i] < dl[j] })
	sort.Slice(ll, func(i, j int) bool { return ll[i] < ll[j] })
	var out []c09Setting
	for _, d := range dl {
		out = append(out, c09Setting{Duration: d})
	}
	for li, l := range ll {
		if l == 0 {
			continue
		}
		out = append(out, c09Setting{MaxBytes: l, limit: l})
		out = append(out, c09Setting{Percent: c09PercentFor(l), FsSize: c09FsSize, limit: l})
		if li%3 == 1 { // percentage prevails over bytes (every third limit)
			out = append(out, c09Setting{MaxBytes: 1, Percent: c09PercentFor(l), FsSize: c09FsSize, limit: l})
		}
	}
	for i := 0; i < len(dl) && i < len(ll); i++ {
		if dl[i] > 0 && ll[i] > 0 {
			out = append(out, c09Setting{Duration: dl[i], MaxBytes: ll[i], limit: ll[i]})
			j := len(ll) - 1 - i
			out = append(out, c09Setting{Duration: dl[i], MaxBytes: ll[j], limit: ll[j]})
		}
	}
	return out
}

type c09Run struct {
	r    *vx.Run
	pool *c09Pool
	nOut *atomic.Int64
}

func (x *c09Run) viol(sig, msg string, c c09Case, bs []c09Block) {
	var names []string
	for _, b := range bs {
		n := fmt.Sprintf("%s#%s size=%d", b.Name, b.ID.String()[20:], b.Size)
		if len(b.Parents) > 0 {
			n += " parents=" + fmt.Sprint(len(b.Parents))
		}
		if b.Deletable {
			n += " deletable"
		}
		names = append(names, n)
	}
	x.r.Violation(sig, fmt.Sprintf("%s [blocks %v scenario=%s atOpen=%v retention: duration=%d maxBytes=%d percent=%g of %d]", msg, names, c.Scenario, c.AtOpen, c.Setting.Duration, c.Setting.MaxBytes, c.Setting.Percent, c.Setting.FsSize), c)
}

func (x *c09Run) outcome(s string) {
	if x.r.Distinct("distinct_outcomes", s) {
		x.nOut.Add(1)
	}
}

// scenarioBlocks returns the extra block of a scenario (written into dir) and the model list.
func (x *c09Run) scenarioBlocks(layout []int, scenario string, dir string) ([]c09Block, error) {
	var bs []c09Block
	for _, i := range layout {
		bs = append(bs, x.pool.blocks[i])
	}
	switch {
	case scenario == "plain":
	case scenario == "flag-oldest":
		// the block with the smallest max time (first such) carries Compaction.Deletable
		oi := 0
		for i, b := range bs {
			if b.Maxt < bs[oi].Maxt {
				oi = i
			}
		}
		bd := filepath.Join(dir, bs[oi].ID.String())
		m, _, err := readMetaFile(bd)
		if err != nil {
			return nil, err
		}
		m.Compaction.Deletable = true
		if _, err := writeMetaFile(promslog.NewNopLogger(), bd, m); err != nil {
			return nil, err
		}
		bs[oi].Deletable = true
		sz, _ := c09DirSize(bd)
		bs[oi].Size = sz
	case strings.HasPrefix(scenario, "child:"):
		var i, j int
		fmt.Sscanf(scenario, "child:%d,%d", &i, &j)
		p1, p2 := bs[i], bs[j]
		id := c07ULID(uint64(9500 + 10*layout[i] + layout[j]))
		c, err := c09WriteBlock(dir, id, min(p1.Mint, p2.Mint), max(p1.Maxt, p2.Maxt), 6, func(m *BlockMeta) {
			m.Compaction.Level = 2
			m.Compaction.Sources = []ulid.ULID{p1.ID, p2.ID}
			m.Compaction.Parents = []BlockDesc{{ULID: p1.ID, MinTime: p1.Mint, MaxTime: p1.Maxt}, {ULID: p2.ID, MinTime: p2.Mint, MaxTime: p2.Maxt}}
		})
		if err != nil {
			return nil, err
		}
		c.Name = fmt.Sprintf("child(%s+%s)[%d,%d)", p1.Name, p2.Name, c.Mint, c.Maxt)
		bs = append(bs, c)
	default:
		return nil, fmt.Errorf("c09: scenario %q", scenario)
	}
	return bs, nil
}

func c09Scenarios(n int) []string {
	out := []string{"plain"}
	if n >= 2 {
		out = append(out, "flag-oldest")
		for i := 0; i < n; i++ {
			for j := i + 1; j < n; j++ {
				out = append(out, fmt.Sprintf("child:%d,%d", i, j))
			}
		}
	}
	return out
}

// checkFinal compares the directories and DB.Blocks() after a reload with the model.
func (x *c09Run) checkFinal(s *c09Sys, bs []c09Block, headSizes []int64, c c09Case) {
	ids, tmp := s.dirsOnDisk()
	left := map[ulid.ULID]bool{}
	for id := range ids {
		left[id] = true
	}
	got := c09Key(left)
	loaded := map[ulid.ULID]bool{}
	for _, b := range s.db.Blocks() {
		loaded[b.Meta().ULID] = true
	}
	x.r.Count("evaluations", 1)
	if len(tmp) > 0 {
		x.viol("temporary-dirs-left", fmt.Sprintf("temporary directories left behind: %v", tmp), c, bs)
		return
	}
	if c09Key(loaded) != got {
		x.viol("loaded-blocks-differ-from-directories", fmt.Sprintf("DB.Blocks() = {%s}, directories = {%s}", c09Key(loaded), got), c, bs)
		return
	}
	ok, okAll := false, false
	var wants []string
	for _, hs := range headSizes {
		exp := c09ExpectedFinal(bs, hs, c.Setting, false)
		for k := range exp {
			wants = append(wants, "{"+k+"}")
		}
		ok = ok || exp[got]
		okAll = okAll || c09ExpectedFinal(bs, hs, c.Setting, true)[got]
	}
	if !ok {
		// never a block strictly newer than a retained one
		sig := "retention-result-differs-from-definition"
		if okAll {
			// known-finding class: the result is what the definition gives when the doomed blocks
			// (superseded parents / blocks marked deletable) are still counted as live blocks
			sig = "retention-counts-superseded-parents"
			if c.Scenario == "flag-oldest" {
				sig = "retention-counts-deletable-blocks"
			}
		}
		x.viol(sig, fmt.Sprintf("blocks left {%s}, the definition allows %v (head/WAL size %v)", got, wants, headSizes), c, bs)
		return
	}
	if err := s.headIntact(); err != nil {
		x.viol("head-data-touched", err.Error(), c, bs)
		return
	}
	x.outcome(fmt.Sprintf("left %d of %d", len(left), len(bs)))
	if len(left) > 0 && len(left) < len(bs) {
		x.r.Distinct("distinct_nontrivial", fmt.Sprint(c.Layout, c.Scenario, c.Setting, c.AtOpen, got))
	}
}

// runLayout: one running DB per (layout, scenario); every setting applied through reloadBlocks.
func (x *c09Run) runLayout(layout []int, scenario string, only *c09Setting) {
	var bs []c09Block
	s, err := c09Open(x.pool, layout, c09Options(), true, nil)
	if err != nil {
		x.r.T.Errorf("c09: open %v: %v", layout, err)
		return
	}
	defer s.Close()
	// the scenario's extra state is put in place while the DB runs (a compaction that has just
	// written its child / marked its inputs)
	bs, err = x.scenarioBlocks(layout, scenario, s.dir)
	if err != nil {
		x.r.T.Errorf("c09: scenario %s: %v", scenario, err)
		return
	}
	// saved copies to restore deleted directories between settings
	save, err := os.MkdirTemp("", "c09save")
	if err != nil {
		x.r.T.Errorf("c09: %v", err)
		return
	}
	defer os.RemoveAll(save)
	for _, b := range bs {
		if err := c07CopyDir(filepath.Join(s.dir, b.ID.String()), filepath.Join(save, b.ID.String())); err != nil {
			x.r.T.Errorf("c09: %v", err)
			return
		}
	}
	for _, b := range bs {
		if !b.Deletable {
			continue
		}
		// LeveledCompactor.Compact marks its open input blocks in memory and on disk
		for _, lb := range s.db.Blocks() {
			if lb.Meta().ULID == b.ID {
				lb.meta.Compaction.Deletable = true
			}
		}
	}
	headSize := s.headSizeOnDisk()
	if hs := s.db.Head().Size(); hs != headSize {
		x.viol("head-size-differs-from-files", fmt.Sprintf("Head.Size()=%d, wal+wbl+chunks_head on disk = %d", hs, headSize), c09Case{Layout: layout, Scenario: scenario}, bs)
		return
	}
	settings := c09Settings(bs, headSize)
	if scenario != "plain" { // percentages are covered by the plain scenario
		var f []c09Setting
		for _, st := range settings {
			if st.Percent == 0 {
				f = append(f, st)
			}
		}
		settings = f
	}
	if only != nil {
		settings = []c09Setting{*only}
	}
	// the pure functions, on the loaded blocks in newest-first order (as deletableBlocks passes them)
	dirty := false
	for si, st := range settings {
		if x.r.Expired() {
			return
		}
		c := c09Case{Layout: layout, Scenario: scenario, Setting: st}
		// restore everything on disk, load it, then decide
		for _, b := range bs {
			if err := s.copyIn(filepath.Join(save, b.ID.String()), b.ID); err != nil {
				x.r.T.Errorf("c09: %v", err)
				return
			}
		}
		if scenario == "plain" {
			if dirty {
				s.apply(c09Setting{})
				if err := s.reload(); err != nil {
					x.viol("reload-error", err.Error(), c, bs)
					return
				}
				dirty = false
			}
			blocks := append([]*Block{}, s.db.Blocks()...)
			if len(blocks) != len(bs) {
				x.r.T.Errorf("c09: restore failed: %d blocks loaded, want %d", len(blocks), len(bs))
				return
			}
			sort.SliceStable(blocks, func(i, j int) bool { return blocks[i].Meta().MaxTime > blocks[j].Meta().MaxTime })
			for i, b := range blocks {
				var mb *c09Block
				for k := range bs {
					if bs[k].ID == b.Meta().ULID {
						mb = &bs[k]
					}
				}
				if mb == nil || b.Size() != mb.Size {
					x.viol("block-size-differs-from-files", fmt.Sprintf("block %d: Block.Size()=%d, files on disk %v", i, b.Size(), mb), c, bs)
					return
				}
			}
			s.apply(st)
			gotT := map[ulid.ULID]bool{}
			for id := range BeyondTimeRetention(s.db, blocks) {
				gotT[id] = true
			}
			if want := c09TimeDeletes(bs, st.Duration); c09Key(gotT) != c09Key(want) {
				x.viol("time-retention-set-differs", fmt.Sprintf("BeyondTimeRetention = {%s}, definition {%s}", c09Key(gotT), c09Key(want)), c, bs)
				continue
			}
			gotS := map[ulid.ULID]bool{}
			for id := range BeyondSizeRetention(s.db, blocks) {
				gotS[id] = true
			}
			wantS := c09SizeDeletes(bs, headSize, st.limit)
			if _, ok := wantS[c09Key(gotS)]; !ok {
				var w []string
				for k := range wantS {
					w = append(w, "{"+k+"}")
				}
				x.viol("size-retention-set-differs", fmt.Sprintf("BeyondSizeRetention = {%s}, definition allows %v (head size %d)", c09Key(gotS), w, headSize), c, bs)
				continue
			}
			x.r.Count("evaluations", 2)
			if st.Percent > 0 && si%4 != 0 {
				continue // the byte limit behind a percentage goes through reloadBlocks for every fourth only
			}
		}
		dirty = true
		s.apply(st)
		if err := s.reload(); err != nil {
			x.viol("reload-error", err.Error(), c, bs)
			return
		}
		x.checkFinal(s, bs, []int64{headSize}, c)
		// a second reload changes nothing
		before, _ := s.dirsOnDisk()
		if len(before) == len(bs) {
			continue // nothing was deleted: the next setting starts from the same state
		}
		if err := s.reload(); err != nil {
			x.viol("reload-error", err.Error(), c, bs)
			return
		}
		after, _ := s.dirsOnDisk()
		if c09Key(before) != c09Key(after) {
			x.viol("second-reload-deletes-more", fmt.Sprintf("first reload left {%s}, second {%s}", c09Key(before), c09Key(after)), c, bs)
		}
	}
}

// runAtOpen: the directory is prepared as a crash would leave it (child next to its parents,
// temporary directories), then opened with the retention options.
func (x *c09Run) runAtOpen(layout []int, scenario string, pick int, only *c09Setting) {
	// sizes are needed to choose the settings: build the model first in a scratch dir
	scratch, err := os.MkdirTemp("", "c09scr")
	if err != nil {
		x.r.T.Errorf("c09: %v", err)
		return
	}
	defer os.RemoveAll(scratch)
	for _, i := range layout {
		if err := c07CopyDir(filepath.Join(x.pool.dir, x.pool.blocks[i].ID.String()), filepath.Join(scratch, x.pool.blocks[i].ID.String())); err != nil {
			x.r.T.Errorf("c09: %v", err)
			return
		}
	}
	bs, err := x.scenarioBlocks(layout, scenario, scratch)
	if err != nil {
		x.r.T.Errorf("c09: %v", err)
		return
	}
	extra := func(dir string) error {
		for _, b := range bs {
			_ = os.RemoveAll(filepath.Join(dir, b.ID.String()))
			if err := c07CopyDir(filepath.Join(scratch, b.ID.String()), filepath.Join(dir, b.ID.String())); err != nil {
				return err
			}
		}
		// leftovers of an interrupted block creation and of an interrupted deletion
		if err := c07CopyDir(filepath.Join(scratch, bs[0].ID.String()), filepath.Join(dir, c07ULID(9990).String()+tmpForCreationBlockDirSuffix)); err != nil {
			return err
		}
		return c07CopyDir(filepath.Join(scratch, bs[0].ID.String()), filepath.Join(dir, c07ULID(9991).String()+tmpForDeletionBlockDirSuffix))
	}
	// head size before the open (files as the crashed process left them) is measured on a probe
	probe, err := c09Open(x.pool, nil, c09Options(), true, nil)
	if err != nil {
		x.r.T.Errorf("c09: %v", err)
		return
	}
	hsAfter := probe.headSizeOnDisk()
	probe.Close()
	all := c09Settings(bs, hsAfter)
	var settings []c09Setting
	// a spread of the settings: every stride-th, the phase rotating with the unit
	stride := vx.Pick(x.r, 9, 3)
	for i := pick % stride; i < len(all); i += stride {
		settings = append(settings, all[i])
	}
	if only != nil {
		settings = []c09Setting{*only}
	}
	for _, st := range settings {
		if x.r.Expired() {
			return
		}
		c := c09Case{Layout: layout, Scenario: scenario, Setting: st, AtOpen: true}
		o := c09Options()
		o.RetentionDuration, o.MaxBytes, o.MaxPercentage = st.Duration, st.MaxBytes, st.Percent
		var hsBefore int64
		s, err := c09Open(x.pool, nil, o, true, func(dir string) error {
			hsBefore = c09DirSizeOrZero(filepath.Join(dir, "wal")) + c09DirSizeOrZero(filepath.Join(dir, "wbl")) + c09DirSizeOrZero(filepath.Join(dir, "chunks_head"))
			return extra(dir)
		})
		if err != nil {
			x.viol("open-error", err.Error(), c, bs)
			continue
		}
		// Open measures the head size while it runs; the statement is satisfied with the size of
		// the files before the open or after it
		x.checkFinal(s, bs, []int64{hsBefore, s.headSizeOnDisk()}, c)
		s.Close()
	}
}

func c09SelfTest(t *testing.T) {
	id := func(n uint64) ulid.ULID { return c07ULID(n) }
	bs := []c09Block{{ID: id(1), Maxt: 10, Size: 100}, {ID: id(2), Maxt: 20, Size: 100}, {ID: id(3), Maxt: 20, Size: 50}, {ID: id(4), Maxt: 30, Size: 10}}
	if k := c09Key(c09TimeDeletes(bs, 10)); k != c09Key(map[ulid.ULID]bool{id(1): true, id(2): true, id(3): true}) {
		t.Fatalf("self-test: time model %s", k)
	}
	if k := c09Key(c09TimeDeletes(bs, 11)); k != c09Key(map[ulid.ULID]bool{id(1): true}) {
		t.Fatalf("self-test: time model %s", k)
	}
	if len(c09TimeDeletes(bs, 0)) != 0 || len(c09TimeDeletes(bs, 21)) != 0 {
		t.Fatal("self-test: time model deletes with retention off / too long")
	}
	// head 5 + 10 = 15 fits 115; next is either the 100 block (115 fits, then 50 does not) or the 50 block (65, then 165 does not)
	sd := c09SizeDeletes(bs, 5, 115)
	if len(sd) != 2 || sd[c09Key(map[ulid.ULID]bool{id(1): true, id(3): true})] == nil || sd[c09Key(map[ulid.ULID]bool{id(1): true, id(2): true})] == nil {
		t.Fatalf("self-test: size model %v", sd)
	}
	if sd := c09SizeDeletes(bs, 5, 114); len(sd) != 1 || sd[c09Key(map[ulid.ULID]bool{id(1): true, id(2): true})] == nil {
		// with 114 the order (10,100,...) keeps only the newest and deletes 2,3,1; the order (10,50,100) keeps 4,3
		if len(sd) != 2 {
			t.Fatalf("self-test: size model at 114: %v", sd)
		}
	}
	if sd := c09SizeDeletes(bs, 5, 4); len(sd) != 1 || len(sd[c09Key(map[ulid.ULID]bool{id(1): true, id(2): true, id(3): true, id(4): true})]) != 4 {
		t.Fatalf("self-test: size model with head alone over the limit: %v", sd)
	}
	// the final-state oracle rejects a wrong answer
	exp := c09ExpectedFinal(bs, 5, c09Setting{Duration: 11}, false)
	if exp[c09Key(map[ulid.ULID]bool{id(1): true, id(2): true, id(3): true, id(4): true})] || !exp[c09Key(map[ulid.ULID]bool{id(2): true, id(3): true, id(4): true})] {
		t.Fatalf("self-test: final model %v", exp)
	}
	if c09PercentFor(12345)*c09FsSize/100 != 12345 {
		t.Fatal("self-test: percentage is not exact")
	}
}

func TestVerifC09(t *testing.T) {
	r := vx.Start(t, "C09", "exploration")
	defer r.Finish()
	pool, err := c09BuildPool()
	if err != nil {
		t.Fatalf("c09: %v", err)
	}
	defer os.RemoveAll(pool.dir)
	var nOut atomic.Int64
	x := &c09Run{r: r, pool: pool, nOut: &nOut}
	if r.Replay != "" {
		var rp c09Case
		r.LoadReplay(&rp)
		rp.Setting.limit = rp.Setting.MaxBytes
		if rp.Setting.Percent > 0 {
			rp.Setting.limit = int64(float64(c09FsSize) * rp.Setting.Percent / 100)
		}
		if rp.AtOpen {
			x.runAtOpen(rp.Layout, rp.Scenario, 0, &rp.Setting)
		} else {
			x.runLayout(rp.Layout, rp.Scenario, &rp.Setting)
		}
		return
	}
	c09SelfTest(t)
	maxBlocks := vx.Pick(r, 3, 4)
	type unit struct {
		layout   []int
		scenario string
		atOpen   bool
		pick     int
	}
	var units []unit
	vx.Subsets(len(c09Cands), maxBlocks, func(idx []int) bool {
		if len(idx) == 0 {
			return true
		}
		l := append([]int{}, idx...)
		for _, sc := range c09Scenarios(len(l)) {
			if r.Quick() && len(l) == 3 && (sc == "flag-oldest" || sc == "child:0,2") {
				continue // quick: these two scenarios on layouts of <= 2 blocks only
			}
			units = append(units, unit{l, sc, false, 0})
		}
		return true
	})
	// crash simulation at Open: layouts of <= 2 (quick) / 3 blocks, child and flag scenarios
	nOpen := 0
	vx.Subsets(len(c09Cands), vx.Pick(r, 2, 3), func(idx []int) bool {
		if len(idx) == 0 {
			return true
		}
		l := append([]int{}, idx...)
		for _, sc := range c09Scenarios(len(l)) {
			if r.Quick() && sc == "plain" {
				continue // quick: only the crash leftovers (child next to parents, deletable mark) at Open
			}
			units = append(units, unit{l, sc, true, nOpen})
			nOpen++
		}
		return true
	})
	var done atomic.Int64
	r.ParallelN(int64(len(units)), func(i int64) {
		u := units[i]
		if u.atOpen {
			x.runAtOpen(u.layout, u.scenario, u.pick, nil)
		} else {
			x.runLayout(u.layout, u.scenario, nil)
		}
		k := done.Add(1)
		r.SampleAt(k, func() any {
			var names []string
			for _, j := range u.layout {
				names = append(names, c09Cands[j].Name)
			}
			return map[string]any{"blocks": names, "scenario": u.scenario, "at_open": u.atOpen, "settings": "all durations / byte limits / percentages derived from the layout"}
		})
	})
	r.Count("units_done", int(done.Load()))
	r.Set("units_planned", len(units))
	r.Set("block_candidates", len(c09Cands))
	r.Set("max_blocks", maxBlocks)
	r.Set("rule", "a unit = block layout (subset of <= max_blocks of 7 candidate blocks over the grid 0/5/10/20/30 with equal max times, overlaps and hints) x scenario (plain | oldest block marked Deletable | a compacted child of two of the blocks next to its parents) on a running DB with head + WAL data; for every retention setting derived from the layout (durations: pairwise max-time differences +-1; byte limits: prefix sums + head size +-1, as MaxBytes, as MaxPercentage of a fake filesystem, and MaxBytes overridden by a percentage; some duration+size pairs) BeyondTimeRetention / BeyondSizeRetention (plain scenario) and the directories + DB.Blocks() after reloadBlocks are compared with the definition; plus the same at Open for a directory left by an interrupted compaction (child + parents + temporary directories). evaluations = compared results; distinct_nontrivial = distinct cases in which some but not all blocks were left")
	r.Assume("block size = sum of the file sizes of its directory; head size = sum of the file sizes under wal/, wbl/ and chunks_head/ (both cross-checked against Block.Size / Head.Size)")
	r.Assume("blocks with equal max time may be visited in any order by size retention")
	r.Assume("retention is decided over the blocks that are neither superseded by a loaded child nor marked deletable")
	if r.Get("evaluations") == 0 || nOut.Load() < 2 {
		t.Fatalf("c09: vacuous run: %d evaluations, %d distinct outcomes", r.Get("evaluations"), nOut.Load())
	}
}
