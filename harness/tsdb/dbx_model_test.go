package tsdb

// dbx reference model ("tsdbmodel" of DESIGN §4): deliberately boring.
// A database is  map[series] map[timestamp] set-of-acceptable-values  plus the few scalars the
// documented admission rules need. Written from the property statements (C01, C02) and the
// storage documentation, not from the implementation.

import (
	"fmt"
	"math"
	"sort"
	"strings"

	"github.com/prometheus/prometheus/model/histogram"
	"github.com/prometheus/prometheus/model/value"
)

// Admission classes.
const (
	mInOrder = "inorder"
	mNoop    = "dup-noop"
	mOOO     = "ooo"
	mErrOOB  = "err-out-of-bounds"
	mErrOOO  = "err-out-of-order"
	mErrOld  = "err-too-old"
	mErrDup  = "err-duplicate"
	// mNoopOrDup: staleness marker on top of a staleness marker (see classify).
	mNoopOrDup = "dup-noop-or-err-duplicate"
	// mErrOldOrOOO: a too-old sample appended with the reject-out-of-order option.
	mErrOldOrOOO = "err-too-old-or-out-of-order"
)

type mSeries struct {
	samples    map[int64]map[string]bool // t -> acceptable values
	ooo        map[int64]bool            // timestamps that hold (also) an out-of-order stored sample
	// delOOO: values of out-of-order-stored samples removed by Delete. Known finding KF-ooo-delete:
	// the implementation does not reliably delete samples held in out-of-order head chunks, so
	// such a sample MAY still be returned; the oracle reports it as a (soft) violation with its
	// own signature and keeps exploring.
	delOOO map[int64]map[string]bool
	// opt: values that may or may not be stored at t where the statement leaves it open
	// (never reported; used by C02 for commit-time out-of-order under the reject option).
	opt map[int64]map[string]bool
	// delRanges: every range a Delete requested for this series so far (known finding
	// KF-ooo-after-delete: head tombstones also hide out-of-order samples appended LATER).
	delRanges [][2]int64
	hasInOrder bool
	inOrderMax int64
	lastVal    string // canonical value of the newest in-order sample
}

type dbModel struct {
	series map[string]*mSeries
	R, W   int64
	// everHist: series to which a histogram or float histogram was ever appended (accepted by an
	// Append call, committed or not). Only for such a series can a staleness marker be stored with
	// a histogram sample type (see classify).
	everHist map[string]bool
}

func newDBModel(r, w int64) *dbModel {
	return &dbModel{series: map[string]*mSeries{}, R: r, W: w, everHist: map[string]bool{}}
}

func (m *dbModel) get(sk string) *mSeries {
	s := m.series[sk]
	if s == nil {
		s = &mSeries{samples: map[int64]map[string]bool{}, ooo: map[int64]bool{}, delOOO: map[int64]map[string]bool{}, opt: map[int64]map[string]bool{}}
		m.series[sk] = s
	}
	return s
}

// mTxn is one appender. The windows are those in force when the appender was created (for an
// uninitialised head: when its first sample arrived).
type mTxn struct {
	m           *dbModel
	initialized bool
	headMaxt    int64
	minValid    int64 // max(headMaxt - R/2, head min valid time)
	headMinVal  int64
	rejectOOO   bool
	forced      bool
	pend        []mPend
}

type mPend struct {
	sk  string
	t   int64
	val string
}

// begin creates the model transaction. initialized/headMaxt/headMinValid are the head's
// published appendable window at appender creation.
func (m *dbModel) begin(initialized bool, headMaxt, headMinValid int64) *mTxn {
	tx := &mTxn{m: m, initialized: initialized, headMaxt: headMaxt, headMinVal: headMinValid}
	if initialized {
		tx.minValid = max(headMaxt-m.R/2, headMinValid)
	}
	return tx
}

// classify decides one append against the CURRENT model state and the transaction's windows.
func (tx *mTxn) classify(sk string, t int64, val string) string {
	if !tx.initialized {
		tx.initialized = true
		tx.headMaxt = t
		tx.minValid = max(t-tx.m.R/2, tx.headMinVal)
	}
	W := tx.m.W
	s := tx.m.series[sk]
	if t >= tx.minValid {
		if s == nil || !s.hasInOrder || t > s.inOrderMax {
			return mInOrder
		}
		if t == s.inOrderMax {
			if s.lastVal == val {
				if val == "stale" && tx.m.everHist[sk] {
					// A staleness marker is stored with the sample type of the series (float, histogram
					// or float histogram); re-appending one through a different type is not
					// "bit-identical" in every reading of the statement: accept no-op or duplicate error.
					// A series that never received a histogram can only hold a FLOAT marker, and the
					// alphabets append markers as floats: that re-append is bit-identical => no-op.
					return mNoopOrDup
				}
				return mNoop
			}
			return mErrDup
		}
	}
	if W > 0 && t >= tx.headMaxt-W {
		return mOOO
	}
	if W > 0 {
		return mErrOld
	}
	if t < tx.minValid {
		return mErrOOB
	}
	return mErrOOO
}

// append returns the predicted class; accepted samples are buffered until commit.
func (tx *mTxn) append(sk string, t int64, val string) string {
	c := tx.classify(sk, t, val)
	if c == mOOO && tx.rejectOOO {
		return mErrOOO
	}
	if c == mErrOld && tx.rejectOOO {
		// Too old AND the caller rejects out-of-order samples: both error classes describe it.
		return mErrOldOrOOO
	}
	switch c {
	case mInOrder, mNoop, mOOO, mNoopOrDup:
		tx.pend = append(tx.pend, mPend{sk, t, val})
		if strings.HasPrefix(val, "h:") || strings.HasPrefix(val, "fh:") {
			tx.m.everHist[sk] = true
		}
	}
	return c
}

// commit re-checks the buffered samples in append order under the same rules.
// Returns, per buffered sample, what happened to it.
func (tx *mTxn) commit() []string {
	var out []string
	for _, p := range tx.pend {
		c := tx.classify(p.sk, p.t, p.val)
		s := tx.m.get(p.sk)
		switch c {
		case mInOrder:
			s.store(p.t, p.val, false)
			s.hasInOrder, s.inOrderMax, s.lastVal = true, p.t, p.val
		case mOOO:
			if tx.rejectOOO && !tx.forced {
				// Accepted as in-order at append time, out-of-order only because of an earlier sample
				// of this transaction, and the caller asked for out-of-order samples to be rejected:
				// "exactly as if appended separately" allows dropping it; storing it out-of-order is
				// what an unflagged append would do. Either is accepted.
				if s.samples[p.t] == nil {
					if s.opt[p.t] == nil {
						s.opt[p.t] = map[string]bool{}
					}
					s.opt[p.t][p.val] = true
				} else {
					s.samples[p.t][p.val] = true
				}
			} else {
				s.store(p.t, p.val, true)
			}
		}
		out = append(out, c)
	}
	tx.pend = nil
	return out
}

func (tx *mTxn) rollback() { tx.pend = nil }

// forceOOO buffers a sample as accepted although the reject option would have refused it
// (used only to keep exploring behind a known finding).
func (tx *mTxn) forceOOO(sk string, t int64, val string) {
	tx.pend = append(tx.pend, mPend{sk, t, val})
	tx.forced = true
	if strings.HasPrefix(val, "h:") || strings.HasPrefix(val, "fh:") {
		tx.m.everHist[sk] = true
	}
}

func (s *mSeries) store(t int64, val string, ooo bool) {
	set := s.samples[t]
	if set == nil {
		set = map[string]bool{}
		s.samples[t] = set
	}
	// A sample already present at t (in-order copy and out-of-order copy can coexist, and the
	// out-of-order store only de-duplicates within its current chunk): the statement allows
	// "one of the values stored at that timestamp".
	set[val] = true
	if ooo {
		s.ooo[t] = true
	}
}

// delete removes [lo,hi] from the matched series (sk=="" means every series).
func (m *dbModel) delete(sk string, lo, hi int64) {
	for k, s := range m.series {
		if sk != "" && k != sk {
			continue
		}
		s.delRanges = append(s.delRanges, [2]int64{lo, hi})
		for t := range s.samples {
			if t >= lo && t <= hi {
				if s.ooo[t] {
					if s.delOOO[t] == nil {
						s.delOOO[t] = map[string]bool{}
					}
					for v := range s.samples[t] {
						s.delOOO[t][v] = true
					}
				}
				delete(s.samples, t)
				delete(s.ooo, t)
			}
		}
	}
}

func (s *mSeries) inEarlierDelete(t int64) bool {
	for _, r := range s.delRanges {
		if t >= r[0] && t <= r[1] {
			return true
		}
	}
	return false
}

func (m *dbModel) total() int {
	n := 0
	for _, s := range m.series {
		n += len(s.samples)
	}
	return n
}

// key is the canonical rendering of the model state.
func (m *dbModel) key() string {
	var sb strings.Builder
	sks := make([]string, 0, len(m.series))
	for k := range m.series {
		sks = append(sks, k)
	}
	sort.Strings(sks)
	for _, k := range sks {
		s := m.series[k]
		fmt.Fprintf(&sb, "%s[io=%v,%d,%s]{", k, s.hasInOrder, s.inOrderMax, s.lastVal)
		ts := make([]int64, 0, len(s.samples))
		for t := range s.samples {
			ts = append(ts, t)
		}
		sort.Slice(ts, func(i, j int) bool { return ts[i] < ts[j] })
		for _, t := range ts {
			vs := make([]string, 0, 1)
			for v := range s.samples[t] {
				vs = append(vs, v)
			}
			sort.Strings(vs)
			o := ""
			if s.ooo[t] {
				o = "o"
			}
			fmt.Fprintf(&sb, "%d%s=%s,", t, o, strings.Join(vs, "|"))
		}
		dts := make([]int64, 0, len(s.delOOO))
		for t := range s.delOOO {
			dts = append(dts, t)
		}
		sort.Slice(dts, func(i, j int) bool { return dts[i] < dts[j] })
		fmt.Fprintf(&sb, "}d%v r%v", dts, s.delRanges)
	}
	return sb.String()
}

// ---- canonical sample values -------------------------------------------------------------

func canonFloat(v float64) string {
	if value.IsStaleNaN(v) {
		return "stale"
	}
	return fmt.Sprintf("f:%016x", math.Float64bits(v))
}

func canonHist(h *histogram.Histogram) string {
	if value.IsStaleNaN(h.Sum) {
		return "stale"
	}
	return "h:" + canonFH(h.ToFloat(nil))
}

func canonFloatHist(fh *histogram.FloatHistogram) string {
	if value.IsStaleNaN(fh.Sum) {
		return "stale"
	}
	return "fh:" + canonFH(fh)
}

// canonFH renders the semantic content of a histogram: schema, zero bucket, count, sum, custom
// bounds and every NON-EMPTY bucket by index. Span layout, empty buckets and the counter-reset
// hint are not part of it.
func canonFH(fh *histogram.FloatHistogram) string {
	var sb strings.Builder
	fmt.Fprintf(&sb, "s%d zt%016x zc%016x c%016x sum%016x", fh.Schema, math.Float64bits(fh.ZeroThreshold), math.Float64bits(fh.ZeroCount), math.Float64bits(fh.Count), math.Float64bits(fh.Sum))
	if len(fh.CustomValues) > 0 {
		fmt.Fprintf(&sb, " cv%v", fh.CustomValues)
	}
	it := fh.PositiveBucketIterator()
	for it.Next() {
		b := it.At()
		if b.Count != 0 {
			fmt.Fprintf(&sb, " +%d:%016x", b.Index, math.Float64bits(b.Count))
		}
	}
	it = fh.NegativeBucketIterator()
	for it.Next() {
		b := it.At()
		if b.Count != 0 {
			fmt.Fprintf(&sb, " -%d:%016x", b.Index, math.Float64bits(b.Count))
		}
	}
	return sb.String()
}
