package tsdb

// C15 (server head part): explicit-state BFS over c15Sys histories.

import (
	"fmt"
	"os"
	"strings"
	"testing"
	"time"

	"github.com/prometheus/prometheus/internal/verif/vx"
	"github.com/prometheus/prometheus/tsdb/tombstones"
	"github.com/prometheus/prometheus/tsdb/wlog"
)

func c15With(r *vx.Run, name string) *c15Sys {
	x := newC15(c15Parse(name))
	x.soft = func(sig, msg string) {
		r.Violation(sig, msg, map[string]any{"config": name, "ops": append([]string{}, x.hist...)})
	}
	x.obs = func(o string) { r.Distinct("distinct_outcomes", o) }
	return x
}

func c15SelfTest(t *testing.T, r *vx.Run) {
	x := newC15(c15Parse("medium"))
	defer x.Close()
	for _, op := range []string{"a/s1/F+1/x", "del/s1/F/F", "a/s2/F+1", "md/s1", "a/s1/F+1", "TR/F", "re", "a/s1/F+1"} {
		if f := x.Apply(op, true); f != nil {
			r.Violation(f.Signature, "self-test history: "+f.Message, map[string]any{"config": "medium", "ops": append([]string{}, x.hist...)})
			return
		}
	}
	a, err := c15Replay(x.walDir(), true, x.maxMint)
	if err != nil {
		t.Fatalf("self-test: replay: %v", err)
	}
	if len(a.Samples["s1"]) != 2 || len(a.Samples["s2"]) != 0 || a.Meta["s1"] == "" {
		t.Fatalf("self-test: unexpected view %+v", a)
	}
	// the comparison must notice a lost sample, a lost tombstone and changed metadata
	q := &c15Req{Meta: map[string]string{}, MetaOptional: map[string]bool{}, Tombs: map[string]tombstones.Intervals{}, RacyEx: map[string]map[string]bool{}}
	b := &c15View{Samples: map[string][]string{"s1": append([]string{"99=1"}, a.Samples["s1"]...)}, Exemplars: a.Exemplars, Tombs: a.Tombs, Meta: a.Meta}
	if f := c15Compare(a, b, q, "x", ""); f == nil || !strings.HasPrefix(f.Signature, "replay-samples-differ") {
		t.Fatalf("self-test: sample difference not reported (%v)", f)
	}
	b = &c15View{Samples: a.Samples, Exemplars: a.Exemplars, Tombs: a.Tombs, Meta: a.Meta}
	q.Tombs["s1"] = tombstones.Intervals{{Mint: 20, Maxt: 30}}
	if f := c15Compare(a, b, q, "x", ""); f == nil || !strings.HasPrefix(f.Signature, "replay-tombstones-differ") {
		t.Fatalf("self-test: tombstone difference not reported (%v)", f)
	}
	delete(q.Tombs, "s1")
	b = &c15View{Samples: a.Samples, Exemplars: a.Exemplars, Tombs: a.Tombs, Meta: map[string]string{"s1": "other"}}
	if f := c15Compare(a, b, q, "x", ""); f == nil || !strings.HasPrefix(f.Signature, "replay-metadata-differs") {
		t.Fatalf("self-test: metadata difference not reported (%v)", f)
	}
	// the orphan rule must notice a record whose series record is missing: drop the checkpoint
	w, f := c15Decode(x.walDir(), true)
	if f != nil || w.CP < 0 {
		t.Fatalf("self-test: expected a checkpoint (%v)", f)
	}
	if err := os.RemoveAll(wlog.CheckpointDir(x.walDir(), w.CP)); err != nil {
		t.Fatal(err)
	}
	w, f = c15Decode(x.walDir(), true)
	if f != nil {
		t.Fatalf("self-test: %s", f.Message)
	}
	orphans := 0
	for _, rec := range w.Recs {
		if rec.Series == "" {
			orphans++
		}
	}
	if orphans == 0 {
		t.Fatalf("self-test: no orphan record found after removing the checkpoint: %s", w.Digest)
	}
}

func TestVerifC15Head(t *testing.T) {
	r := vx.Start(t, "C15", "model_checking")
	defer r.Finish()
	if r.Replay != "" {
		var rp struct {
			Config string   `json:"config"`
			Ops    []string `json:"ops"`
		}
		r.LoadReplay(&rp)
		if strings.HasPrefix(rp.Config, "agent:") {
			return // belongs to the agent part
		}
		if f := r.ReplayOps(func() vx.Sys { return c15With(r, rp.Config) }, rp.Ops); f != nil {
			r.Violation(f.Signature, f.Message, rp)
		}
		return
	}
	c15SelfTest(t, r)
	type plan struct {
		name  string
		depth int
	}
	var plans []plan
	if r.Quick() {
		plans = []plan{{"small", 3}, {"medium", 2}, {"small+cp", 2}, {"small+dup", 2}, {"medium+dup", 2}, {"small+md", 2}}
	} else {
		plans = []plan{{"small", 5}, {"medium", 3}, {"small+cp", 4}, {"small+dup", 4}, {"medium+cp", 3}, {"medium+dup", 3}, {"small+md", 4}, {"medium+md", 2}}
	}
	if v := os.Getenv("VERIF_C15_PLAN"); v != "" { // e.g. "small:4,medium+dup:2"
		plans = nil
		for _, p := range strings.Split(v, ",") {
			var pl plan
			q := strings.Split(p, ":")
			pl.name = q[0]
			fmt.Sscan(q[1], &pl.depth)
			plans = append(plans, pl)
		}
	}
	for _, p := range plans {
		if r.Expired() {
			r.NotExhaustive("deadline before plan " + p.name)
			break
		}
		t0 := time.Now()
		res := r.BFS("head:"+p.name, func() vx.Sys { return c15With(r, p.name) }, p.depth)
		t.Logf("C15 head %s depth %d: states=%d transitions=%d depthCompleted=%d %.0fs", p.name, p.depth, res.States, res.Transitions, res.DepthCompleted, time.Since(t0).Seconds())
	}
	r.Set("rule", "explicit-state BFS over histories of a real Head with a real WAL (append to s1/s2/a fresh series, exemplar, histogram, metadata, Delete, selected-series eviction, segment roll, Head.Truncate with and without a due checkpoint, restart) with canonical-state de-duplication; after every transition a fresh Head replays (a) a copy of checkpoint+segments and (b) the retained untruncated shadow log, and samples/exemplars/tombstones/latest metadata at or after the truncation time must agree; the live log is decoded in replay order and every non-series record must follow a series record for its ref. Plan names are alphabet[+prefix history].")
	r.Assume("in-order float/histogram samples with positive timestamps; restart passes the truncation time as minValidTime (as DB.Open does with the newest block's maxt); no m-mapped chunks, no WBL, no snapshot")
	if n := r.Get("states"); n < 50 {
		t.Fatalf("vacuous run: only %d states", n)
	}
}
