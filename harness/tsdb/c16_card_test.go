package tsdb

// C16, high-cardinality part: one label with 31..97 distinct values, in a persisted block and in
// the head. The block index reader keeps only every 32nd value of a label (plus the last one) in
// memory and scans the postings offset table between those entries; the small universe of the
// main part never gets past the first entry of that table.

import (
	"context"
	"fmt"
	"math"
	"os"
	"regexp"
	"sort"
	"strings"

	"github.com/prometheus/prometheus/model/labels"
	"github.com/prometheus/prometheus/storage"
)

var c16CardSizes = []int{31, 32, 33, 34, 63, 64, 65, 97}

// c16CardSeries: n series {__name__=m, v=v00.., w=a|b} plus one series without v.
func c16CardSeries(n int) []c16LS {
	var out []c16LS
	for i := 0; i < n; i++ {
		w := "a"
		if i%2 == 1 {
			w = "b"
		}
		out = append(out, c16LS{{"__name__", "m"}, {"v", fmt.Sprintf("v%02d", i)}, {"w", w}})
	}
	out = append(out, c16LS{{"__name__", "m"}, {"w", "a"}})
	return out
}

type c16CardMatcher struct {
	Type  labels.MatchType
	Name  string
	Value string
}

func (m c16CardMatcher) String() string { return m.Name + m.Type.String() + `"` + m.Value + `"` }

func (m c16CardMatcher) ref(ls c16LS) bool {
	if m.Type == labels.MatchRegexp || m.Type == labels.MatchNotRegexp {
		if c16ReCache[m.Value] == nil {
			panic("c16: regexp not precompiled " + m.Value)
		}
	}
	return c16RefMatches(m.Type, m.Value, ls.get(m.Name))
}

// c16CardLists: the matcher lists evaluated for cardinality n.
func c16CardLists(n int) [][]c16CardMatcher {
	v := func(i int) string { return fmt.Sprintf("v%02d", i) }
	eq, ne, re, nre := labels.MatchEqual, labels.MatchNotEqual, labels.MatchRegexp, labels.MatchNotRegexp
	var out [][]c16CardMatcher
	for i := 0; i < n; i++ { // postings of every value
		out = append(out, []c16CardMatcher{{eq, "v", v(i)}})
	}
	set := v(0) + "|" + v(n/2) + "|" + v(n-1)
	singles := []c16CardMatcher{
		{eq, "v", v(n)}, {eq, "v", "v"}, {eq, "v", ""}, {ne, "v", ""}, {ne, "v", v(n - 1)}, {ne, "v", v(0)},
		{re, "v", ".+"}, {re, "v", ".*"}, {nre, "v", ".+"}, {re, "v", "v.+"}, {re, "v", "v0.*"}, {re, "v", "v[3-9].*"},
		{re, "v", "v3.+"}, {nre, "v", "v[0-2].*"}, {re, "v", set}, {nre, "v", set}, {re, "v", "(" + v(n-1) + "|)"},
		{eq, "w", "a"}, {re, "w", ".+"}, {eq, "__name__", "m"},
	}
	for _, m := range singles {
		out = append(out, []c16CardMatcher{m})
	}
	pairs := [][]c16CardMatcher{
		{{eq, "w", "a"}, {re, "v", ".+"}}, {{eq, "w", "b"}, {ne, "v", ""}}, {{eq, "w", "a"}, {eq, "v", ""}},
		{{eq, "w", "b"}, {eq, "v", v(n - 1)}}, {{eq, "w", "a"}, {eq, "v", v(n - 1)}}, {{re, "v", "v[3-9].*"}, {ne, "v", v(n - 1)}},
		{{eq, "__name__", "m"}, {nre, "v", "v0.*"}}, {{re, "v", ".+"}, {nre, "w", "a"}},
	}
	out = append(out, pairs...)
	for _, l := range out {
		for _, m := range l {
			if (m.Type == labels.MatchRegexp || m.Type == labels.MatchNotRegexp) && c16ReCache[m.Value] == nil {
				c16ReCache[m.Value] = c16MustRe(m.Value)
			}
		}
	}
	return out
}

func c16MustRe(v string) *regexp.Regexp { return regexp.MustCompile("^(?s:" + v + ")$") }

// c16RunCard builds the store for cardinality n in the given placement ("block" | "head") and
// compares Select, LabelValues and LabelNames over the whole time range with the reference
// (exact equality: every stored series has data in the range).
func (c *c16Ctx) c16RunCard(n int, placement string) {
	series := c16CardSeries(n)
	lists := c16CardLists(n) // before any concurrent reader of the regexp cache (called serially)
	dir, err := os.MkdirTemp("", "c16card")
	if err != nil {
		c.r.T.Errorf("c16: %v", err)
		return
	}
	defer os.RemoveAll(dir)
	db, err := Open(dir, nil, nil, c16Options(0), nil)
	if err != nil {
		c.r.T.Errorf("c16: %v", err)
		return
	}
	defer db.Close()
	db.DisableCompactions()
	ctx := context.Background()
	t := int64(c16THead)
	if placement == "block" {
		t = c16TBlock
	}
	app := db.Appender(ctx)
	real := make([]labels.Labels, len(series))
	for i, ls := range series {
		var flat []string
		for _, p := range ls {
			flat = append(flat, p.N, p.V)
		}
		real[i] = labels.FromStrings(flat...)
		if _, err := app.Append(0, real[i], t, float64(i)); err != nil {
			c.r.T.Errorf("c16: %v", err)
			return
		}
	}
	if err := app.Commit(); err != nil {
		c.r.T.Errorf("c16: %v", err)
		return
	}
	if placement == "block" {
		if err := db.CompactHead(NewRangeHead(db.Head(), 0, 99)); err != nil {
			c.r.T.Errorf("c16: CompactHead: %v", err)
			return
		}
		if len(db.Blocks()) != 1 || db.Head().NumSeries() != 0 {
			c.r.T.Errorf("c16: card setup: %d blocks, %d head series", len(db.Blocks()), db.Head().NumSeries())
			return
		}
	}
	q, err := db.Querier(math.MinInt64, math.MaxInt64)
	if err != nil {
		c.r.T.Errorf("c16: %v", err)
		return
	}
	defer q.Close()
	viol := func(sig, msg string, l []c16CardMatcher) {
		var txt []string
		for _, m := range l {
			txt = append(txt, m.String())
		}
		c.r.Violation("card-"+sig, fmt.Sprintf("%s; %d values v00..v%02d of label v, placement=%s, matchers={%s}", msg, n, n-1, placement, strings.Join(txt, ", ")),
			c16Case{Subset: []int{n}, Placement: "card-" + placement, Range: "all", Text: strings.Join(txt, ", ")})
	}
	uniq := func(in []string) []string {
		sort.Strings(in)
		var out []string
		for i, s := range in {
			if i == 0 || s != in[i-1] {
				out = append(out, s)
			}
		}
		return out
	}
	for _, l := range append([][]c16CardMatcher{nil}, lists...) {
		var want []c16LS
		for _, ls := range series {
			ok := true
			for _, m := range l {
				ok = ok && m.ref(ls)
			}
			if ok {
				want = append(want, ls)
			}
		}
		sort.Slice(want, func(i, j int) bool { return c16Less(want[i], want[j]) })
		mk := func() []*labels.Matcher {
			var ms []*labels.Matcher
			for _, m := range l {
				ms = append(ms, labels.MustNewMatcher(m.Type, m.Name, m.Value))
			}
			return ms
		}
		if len(l) > 0 {
			var got []string
			ss := q.Select(ctx, true, nil, mk()...)
			for ss.Next() {
				var sb strings.Builder
				ss.At().Labels().Range(func(lb labels.Label) { sb.WriteString(lb.Name + "=" + lb.Value + ",") })
				got = append(got, sb.String())
			}
			c.nq++
			var ws []string
			for _, w := range want {
				ws = append(ws, w.String())
			}
			if ss.Err() != nil {
				viol("select-error", ss.Err().Error(), l)
			} else if fmt.Sprint(got) != fmt.Sprint(ws) {
				viol("select-differs", fmt.Sprintf("Select returned %d series %v, want %d %v", len(got), got, len(ws), ws), l)
			}
			c.outc[fmt.Sprint("card-select:", len(got))] = struct{}{}
			if len(ws) > 0 && len(ws) < len(series) {
				c.local[fmt.Sprint("card", n, placement, l)] = struct{}{}
			}
		}
		for _, name := range []string{"v", "w", "__name__"} {
			var wv []string
			for _, w := range want {
				if x := w.get(name); x != "" {
					wv = append(wv, x)
				}
			}
			wv = uniq(wv)
			var unlimited []string
			for _, lim := range []int{0, 1, 33} {
				got, _, err := q.LabelValues(ctx, name, &storage.LabelHints{Limit: lim}, mk()...)
				c.nq++
				if err != nil {
					viol("label-values-error", err.Error(), l)
					break
				}
				if lim == 0 {
					if fmt.Sprint(got) != fmt.Sprint(wv) && !(len(got) == 0 && len(wv) == 0) {
						viol("label-values-differ", fmt.Sprintf("LabelValues(%s) returned %v, want %v", name, got, wv), l)
						break
					}
					unlimited = got
				} else if f := c16CheckLimited(got, unlimited, lim); f != "" {
					viol("label-values-"+f, fmt.Sprintf("LabelValues(%s, limit %d) returned %v, unlimited %v", name, lim, got, unlimited), l)
				}
			}
		}
		var wn []string
		for _, w := range want {
			for _, p := range w {
				wn = append(wn, p.N)
			}
		}
		wn = uniq(wn)
		got, _, err := q.LabelNames(ctx, nil, mk()...)
		c.nq++
		if err != nil {
			viol("label-names-error", err.Error(), l)
		} else if fmt.Sprint(got) != fmt.Sprint(wn) && !(len(got) == 0 && len(wn) == 0) {
			viol("label-names-differ", fmt.Sprintf("LabelNames returned %v, want %v", got, wn), l)
		}
	}
	c.flush()
}
