package tsdb

// C24: persistent blocks round-trip (labels, chunk ranges, chunk bytes, symbols, postings, label
// values; reopen gives the same queries) and detect corruption (every byte of every chunk record of
// chunks/000001 and of every series entry of the index altered one at a time => reading returns an
// error, never data).
//
//   part R (exploration)        series sets x chunk layouts x segment sizes written with index.Writer /
//                               chunks.Writer, re-written by LeveledCompactor.Compact and created from
//                               samples with CreateBlock (BlockWriter); read back through the index
//                               reader, the chunk reader and the block querier, before and after reopen
//   part D (fault enumeration)  E4: 8 single-bit flips + zeroing of every byte of the chunk records /
//                               series entries of small blocks
//
// Re-uses the block writer helpers of c07_test.go.

import (
	"bytes"
	"context"
	"encoding/binary"
	"fmt"
	"hash/crc32"
	"math"
	"os"
	"path/filepath"
	"regexp"
	"sort"
	"strings"
	"sync/atomic"
	"testing"
	"time"

	"github.com/prometheus/common/promslog"

	"github.com/prometheus/prometheus/internal/verif/vx"
	"github.com/prometheus/prometheus/model/labels"
	"github.com/prometheus/prometheus/storage"
	"github.com/prometheus/prometheus/tsdb/chunkenc"
	"github.com/prometheus/prometheus/tsdb/chunks"
	"github.com/prometheus/prometheus/tsdb/index"
)

// ---- input alphabet ----------------------------------------------------------------------------

// label sets with shared symbols (a value that is also a name, the same value under two names),
// unique symbols, a multi-byte UTF-8 symbol and a symbol longer than 127 bytes (2-byte length).
var c24Universe = []labels.Labels{
	labels.FromStrings("__name__", "m"),
	labels.FromStrings("__name__", "m", "a", "1"),
	labels.FromStrings("__name__", "m", "a", "2", "b", "1"),
	labels.FromStrings("__name__", "n", "a", "1"),
	labels.FromStrings("__name__", "a", "m", "__name__"),
	labels.FromStrings("__name__", "m", "uniq", "hé世\U0001F600"),
	labels.FromStrings("__name__", "m", "long", strings.Repeat("x", 130)),
}

func c24Times(from, n int64) []int64 {
	var ts []int64
	for i := int64(0); i < n; i++ {
		ts = append(ts, from+i)
	}
	return ts
}

// chunk layouts: 1-3 chunks, every encoding, a 120-sample chunk (record length needs 2 bytes)
var c24Layouts = [][]c07Chunk{
	{{"f", c24Times(1, 3)}},
	{{"f", c24Times(1, 2)}, {"h", c24Times(3, 2)}},
	{{"x2", c24Times(1, 2)}, {"fh", c24Times(3, 2)}, {"f", c24Times(5, 4)}},
	{{"h", c24Times(7, 1)}},
	{{"f", c24Times(1, 120)}},
}

type c24Case struct {
	Subset  []int  `json:"subset"`
	Rot     int    `json:"rot"`
	SegSize int64  `json:"seg_size"`
	Writer  string `json:"writer,omitempty"`
	Card    int    `json:"card,omitempty"` // >0: instead of Subset, Card series {__name__=m, v=v00..} (one label of that cardinality)
	// damage part
	Block   string `json:"block,omitempty"`
	File    string `json:"file,omitempty"`
	Offset  int    `json:"offset,omitempty"`
	Variant int    `json:"variant,omitempty"` // 0..7 bit flips, 8 zeroing
}

// c24Model is what a block must hold.
type c24Model struct {
	Series []c07SeriesIn // sorted by labels; Chunks carry the original chunk objects (bytes)
}

func c24Build(subset []int, rot int) c24Model {
	var m c24Model
	for _, ui := range subset {
		lay := c24Layouts[(ui+rot)%len(c24Layouts)]
		s := c07SeriesIn{Labels: c24Universe[ui]}
		for _, c := range lay {
			meta, model := c07MakeChunk(c, int64(10+ui))
			s.Chunks = append(s.Chunks, meta)
			s.Model = append(s.Model, model...)
		}
		m.Series = append(m.Series, s)
	}
	sort.Slice(m.Series, func(i, j int) bool { return labels.Compare(m.Series[i].Labels, m.Series[j].Labels) < 0 })
	return m
}

// c24CardSizes: cardinalities around the index reader's 1-in-32 sampling of the postings offset table.
var c24CardSizes = []int{31, 32, 33, 34, 63, 64, 65, 97}

func c24BuildCard(n int) c24Model {
	var m c24Model
	for i := 0; i < n; i++ {
		s := c07SeriesIn{Labels: labels.FromStrings("__name__", "m", "v", fmt.Sprintf("v%02d", i))}
		meta, model := c07MakeChunk(c07Chunk{"f", []int64{1, 2}}, int64(i))
		s.Chunks = append(s.Chunks, meta)
		s.Model = append(s.Model, model...)
		m.Series = append(m.Series, s)
	}
	sort.Slice(m.Series, func(i, j int) bool { return labels.Compare(m.Series[i].Labels, m.Series[j].Labels) < 0 })
	return m
}

func (m c24Model) symbols() []string {
	set := map[string]struct{}{}
	for _, s := range m.Series {
		s.Labels.Range(func(l labels.Label) {
			set[l.Name] = struct{}{}
			set[l.Value] = struct{}{}
		})
	}
	out := make([]string, 0, len(set))
	for k := range set {
		out = append(out, k)
	}
	sort.Strings(out)
	return out
}

func (m c24Model) labelValues() map[string][]string {
	set := map[string]map[string]struct{}{}
	for _, s := range m.Series {
		s.Labels.Range(func(l labels.Label) {
			if set[l.Name] == nil {
				set[l.Name] = map[string]struct{}{}
			}
			set[l.Name][l.Value] = struct{}{}
		})
	}
	out := map[string][]string{}
	for n, vs := range set {
		for v := range vs {
			out[n] = append(out[n], v)
		}
		sort.Strings(out[n])
	}
	return out
}

func (m c24Model) samples() map[string][]qSample {
	out := map[string][]qSample{}
	for _, s := range m.Series {
		var q []qSample
		for _, sm := range s.Model {
			q = append(q, qSample{sm.T, sm.Val})
		}
		out[s.Labels.String()] = q
	}
	return out
}

// ---- read-back oracle --------------------------------------------------------------------------

type c24Fail struct{ Sig, Msg string }

func c24f(sig, format string, a ...any) *c24Fail { return &c24Fail{sig, fmt.Sprintf(format, a...)} }

// c24CheckBlock reads the block at dir and compares everything the statement lists with the model.
// exactChunks=false (blocks created from samples) compares samples instead of chunk ranges/bytes.
func c24CheckBlock(dir string, m c24Model, exactChunks bool) (fail *c24Fail, queries map[string][]qSample) {
	b, err := OpenBlock(nil, dir, nil, nil)
	if err != nil {
		return c24f("open-error", "OpenBlock: %v", err), nil
	}
	defer b.Close()
	ctx := context.Background()
	ir, err := b.Index()
	if err != nil {
		return c24f("open-error", "Index: %v", err), nil
	}
	defer ir.Close()
	cr, err := b.Chunks()
	if err != nil {
		return c24f("open-error", "Chunks: %v", err), nil
	}
	defer cr.Close()

	// symbols
	var syms []string
	it := ir.Symbols()
	for it.Next() {
		syms = append(syms, strings.Clone(it.At()))
	}
	if it.Err() != nil {
		return c24f("symbols-error", "Symbols: %v", it.Err()), nil
	}
	if !exactChunks && len(syms) > 0 && syms[0] == "" {
		// A block written from a Head carries the head's symbol table, which always holds the empty
		// string (the all-postings key); the statement is about the symbols of the written series.
		syms = syms[1:]
	}
	if want := m.symbols(); fmt.Sprintf("%q", syms) != fmt.Sprintf("%q", want) {
		return c24f("symbols-mismatch", "symbols %q, want %q", syms, want), nil
	}
	// label names and values
	lv := m.labelValues()
	names, err := ir.LabelNames(ctx)
	if err != nil {
		return c24f("label-names-error", "%v", err), nil
	}
	var wantNames []string
	for n := range lv {
		wantNames = append(wantNames, n)
	}
	sort.Strings(wantNames)
	if fmt.Sprintf("%q", names) != fmt.Sprintf("%q", wantNames) {
		return c24f("label-names-mismatch", "label names %q, want %q", names, wantNames), nil
	}
	for n, want := range lv {
		got, err := ir.SortedLabelValues(ctx, n, nil)
		if err != nil {
			return c24f("label-values-error", "%v", err), nil
		}
		if fmt.Sprintf("%q", got) != fmt.Sprintf("%q", want) {
			return c24f("label-values-mismatch", "values of %q: %q, want %q", n, got, want), nil
		}
	}
	// postings: all + per label pair, resolved through Series
	readSeries := func(p index.Postings) ([]labels.Labels, [][]chunks.Meta, error) {
		var ls []labels.Labels
		var cs [][]chunks.Meta
		var bld labels.ScratchBuilder
		for p.Next() {
			var chks []chunks.Meta
			if err := ir.Series(p.At(), &bld, &chks); err != nil {
				return nil, nil, err
			}
			ls = append(ls, bld.Labels().Copy())
			cs = append(cs, chks)
		}
		return ls, cs, p.Err()
	}
	k, v := index.AllPostingsKey()
	ap, err := ir.Postings(ctx, k, v)
	if err != nil {
		return c24f("postings-error", "all postings: %v", err), nil
	}
	gotL, gotC, err := readSeries(ap)
	if err != nil {
		return c24f("series-read-error", "%v", err), nil
	}
	if len(gotL) != len(m.Series) {
		return c24f("postings-mismatch", "all postings list %d series, want %d", len(gotL), len(m.Series)), nil
	}
	for i, s := range m.Series {
		if !labels.Equal(gotL[i], s.Labels) {
			return c24f("labels-mismatch", "series %d: labels %s, want %s", i, gotL[i].String(), s.Labels.String()), nil
		}
		if !exactChunks {
			continue
		}
		if len(gotC[i]) != len(s.Chunks) {
			return c24f("chunk-count-mismatch", "series %s: %d chunks, want %d", s.Labels.String(), len(gotC[i]), len(s.Chunks)), nil
		}
		for j, c := range s.Chunks {
			g := gotC[i][j]
			if g.MinTime != c.MinTime || g.MaxTime != c.MaxTime {
				return c24f("chunk-range-mismatch", "series %s chunk %d: [%d,%d], want [%d,%d]", s.Labels.String(), j, g.MinTime, g.MaxTime, c.MinTime, c.MaxTime), nil
			}
			chk, iter, err := cr.ChunkOrIterable(g)
			if err != nil {
				return c24f("chunk-read-error", "series %s chunk %d: %v", s.Labels.String(), j, err), nil
			}
			if iter != nil || chk == nil {
				return c24f("chunk-read-error", "series %s chunk %d: no chunk returned", s.Labels.String(), j), nil
			}
			if chk.Encoding() != c.Chunk.Encoding() || !bytes.Equal(chk.Bytes(), c.Chunk.Bytes()) {
				return c24f("chunk-bytes-mismatch", "series %s chunk %d: encoding %v bytes %x, want %v %x", s.Labels.String(), j, chk.Encoding(), chk.Bytes(), c.Chunk.Encoding(), c.Chunk.Bytes()), nil
			}
		}
	}
	for n, vals := range lv {
		for _, val := range vals {
			p, err := ir.Postings(ctx, n, val)
			if err != nil {
				return c24f("postings-error", "%s=%s: %v", n, val, err), nil
			}
			ls, _, err := readSeries(p)
			if err != nil {
				return c24f("series-read-error", "%v", err), nil
			}
			var want []string
			for _, s := range m.Series {
				if s.Labels.Get(n) == val {
					want = append(want, s.Labels.String())
				}
			}
			var got []string
			for _, l := range ls {
				got = append(got, l.String())
			}
			if fmt.Sprint(got) != fmt.Sprint(want) {
				return c24f("postings-mismatch", "postings of %s=%q resolve to %v, want %v", n, val, got, want), nil
			}
		}
	}
	// queries
	q, err := NewBlockQuerier(b, math.MinInt64, math.MaxInt64)
	if err != nil {
		return c24f("querier-error", "%v", err), nil
	}
	defer q.Close()
	queries = map[string][]qSample{}
	ss := q.Select(ctx, true, nil, labels.MustNewMatcher(labels.MatchRegexp, "__name__", ".+"))
	for ss.Next() {
		s := ss.At()
		smp, err := drainSeries(s.Iterator(nil))
		if err != nil {
			return c24f("query-error", "series %s: %v", s.Labels().String(), err), nil
		}
		queries[s.Labels().String()] = smp
	}
	if ss.Err() != nil {
		return c24f("query-error", "%v", ss.Err()), nil
	}
	if want := m.samples(); fmt.Sprint(queries) != fmt.Sprint(want) {
		return c24f("query-mismatch", "block querier returns %v, want %v", queries, want), queries
	}
	return nil, queries
}

func c24Compactor(seg int64) (*LeveledCompactor, error) {
	return NewLeveledCompactorWithOptions(context.Background(), nil, promslog.NewNopLogger(), []int64{1000}, nil, LeveledCompactorOptions{
		MaxBlockChunkSegmentSize:    seg,
		EnableOverlappingCompaction: true,
	})
}

type c24Run struct {
	r    *vx.Run
	nOut *atomic.Int64
}

func (x *c24Run) viol(f *c24Fail, c c24Case) {
	x.r.Violation(f.Sig, fmt.Sprintf("%s [writer=%s subset=%v rot=%d segment=%d block=%s file=%s offset=%d variant=%d]", f.Msg, c.Writer, c.Subset, c.Rot, c.SegSize, c.Block, c.File, c.Offset, c.Variant), c)
}

func (x *c24Run) outcome(s string) {
	if x.r.Distinct("distinct_outcomes", s) {
		x.nOut.Add(1)
	}
}

// roundTrip runs one (subset, rot, segment size) through the writers.
func (x *c24Run) roundTrip(c c24Case, withCreateBlock bool) {
	m := c24Build(c.Subset, c.Rot)
	if c.Card > 0 {
		m = c24BuildCard(c.Card)
	}
	tmp, err := os.MkdirTemp("", "c24r")
	if err != nil {
		x.r.T.Errorf("c24: %v", err)
		return
	}
	defer os.RemoveAll(tmp)
	check := func(writer, dir string, exact bool) bool {
		cc := c
		cc.Writer = writer
		f, q1 := c24CheckBlock(dir, m, exact)
		x.r.Count("evaluations", 1)
		if f != nil {
			f.Sig = "roundtrip-" + f.Sig
			x.viol(f, cc)
			return false
		}
		// reopen: same answers
		f, q2 := c24CheckBlock(dir, m, exact)
		if f != nil {
			f.Sig = "reopen-" + f.Sig
			x.viol(f, cc)
			return false
		}
		if fmt.Sprint(q1) != fmt.Sprint(q2) {
			x.viol(c24f("reopen-query-differs", "first open %v, second open %v", q1, q2), cc)
			return false
		}
		return true
	}
	// W1: index.Writer + chunks.Writer
	dir, _, err := c07WriteBlock(tmp, c07ULID(1), m.Series, c.SegSize)
	if err != nil {
		cc := c
		cc.Writer = "writers"
		x.viol(c24f("write-error", "index/chunk writer: %v", err), cc)
		return
	}
	if !check("writers", dir, true) {
		return
	}
	nseg := 0
	if fs, err := os.ReadDir(chunkDir(dir)); err == nil {
		nseg = len(fs)
	}
	// W3: compaction of that block (no tombstones, one input: chunks are carried over as they are)
	comp, err := c24Compactor(c.SegSize)
	if err != nil {
		x.r.T.Errorf("c24: %v", err)
		return
	}
	out := filepath.Join(tmp, "out")
	ids, err := comp.Compact(out, []string{dir}, nil)
	if err != nil || len(ids) != 1 {
		cc := c
		cc.Writer = "compaction"
		x.viol(c24f("write-error", "Compact: ids=%v err=%v", ids, err), cc)
		return
	}
	if !check("compaction", filepath.Join(out, ids[0].String()), true) {
		return
	}
	if withCreateBlock {
		// W2: BlockWriter from samples (chunks are cut by the head: compare at sample level)
		var ser []storage.Series
		for _, s := range m.Series {
			var smp []chunks.Sample
			for _, ch := range s.Chunks {
				it := ch.Chunk.Iterator(nil)
				for vt := it.Next(); vt != chunkenc.ValNone; vt = it.Next() {
					switch vt {
					case chunkenc.ValFloat:
						t, v := it.At()
						smp = append(smp, newSample(0, t, v, nil, nil))
					case chunkenc.ValHistogram:
						t, h := it.AtHistogram(nil)
						smp = append(smp, newSample(0, t, 0, h, nil))
					case chunkenc.ValFloatHistogram:
						t, fh := it.AtFloatHistogram(nil)
						smp = append(smp, newSample(0, t, 0, nil, fh))
					}
				}
			}
			ser = append(ser, storage.NewListSeries(s.Labels, smp))
		}
		cb := filepath.Join(tmp, "cb")
		bdir, err := CreateBlock(ser, cb, 1000, promslog.NewNopLogger())
		if err != nil {
			cc := c
			cc.Writer = "blockwriter"
			x.viol(c24f("write-error", "CreateBlock: %v", err), cc)
			return
		}
		if !check("blockwriter", bdir, false) {
			return
		}
	}
	x.outcome(fmt.Sprintf("ok series=%d segments=%d", len(m.Series), nseg))
	x.r.Distinct("distinct_nontrivial", fmt.Sprint("R", c.Subset, c.Rot, c.SegSize, c.Card))
}

// ---- damage sweep -------------------------------------------------------------------------------

type c24Extent struct {
	Off, Len int
	Series   int // model series index
	Chunk    int // chunk index within the series (-1 for a series entry)
}

type c24Target struct {
	name    string
	dir     string
	m       c24Model
	refs    []storage.SeriesRef // per model series
	metas   [][]chunks.Meta     // per model series, as read from the pristine index
	files   map[string][]byte   // pristine bytes of "chunks/000001" and "index"
	extents map[string][]c24Extent
}

func c24PrepareTarget(name, parent string, subset []int, rot int, seg int64) (*c24Target, error) {
	m := c24Build(subset, rot)
	dir, _, err := c07WriteBlock(parent, c07ULID(uint64(100+rot)), m.Series, seg)
	if err != nil {
		return nil, err
	}
	tg := &c24Target{name: name, dir: dir, m: m, files: map[string][]byte{}, extents: map[string][]c24Extent{}}
	if f, _ := c24CheckBlock(dir, m, true); f != nil {
		return nil, &c24PristineErr{f}
	}
	for _, fn := range []string{"chunks/000001", "index"} {
		b, err := os.ReadFile(filepath.Join(dir, fn))
		if err != nil {
			return nil, err
		}
		tg.files[fn] = b
	}
	ir, err := index.NewFileReader(filepath.Join(dir, indexFilename), index.DecodePostingsRaw)
	if err != nil {
		return nil, err
	}
	defer ir.Close()
	k, v := index.AllPostingsKey()
	p, err := ir.Postings(context.Background(), k, v)
	if err != nil {
		return nil, err
	}
	var bld labels.ScratchBuilder
	ib := tg.files["index"]
	cb := tg.files["chunks/000001"]
	for i := 0; p.Next(); i++ {
		var chks []chunks.Meta
		if err := ir.Series(p.At(), &bld, &chks); err != nil {
			return nil, err
		}
		tg.refs = append(tg.refs, p.At())
		tg.metas = append(tg.metas, chks)
		// series entry: uvarint length | body | crc32, at ref*16 (index format v2)
		off := int(p.At()) * 16
		l, n := binary.Uvarint(ib[off:])
		if n <= 0 || off+n+int(l)+4 > len(ib) {
			return nil, fmt.Errorf("cannot delimit series entry %d", i)
		}
		if crc32.Checksum(ib[off+n:off+n+int(l)], crc32.MakeTable(crc32.Castagnoli)) != binary.BigEndian.Uint32(ib[off+n+int(l):]) {
			return nil, fmt.Errorf("series entry %d: my extent does not end in its checksum", i)
		}
		tg.extents["index"] = append(tg.extents["index"], c24Extent{off, n + int(l) + 4, i, -1})
		for j, c := range chks {
			seq, coff := chunks.BlockChunkRef(c.Ref).Unpack()
			if seq != 0 {
				continue // only chunks/000001 is swept
			}
			l, n := binary.Uvarint(cb[coff:])
			if n <= 0 || coff+n+1+int(l)+4 > len(cb) {
				return nil, fmt.Errorf("cannot delimit chunk record %d/%d", i, j)
			}
			if crc32.Checksum(cb[coff+n:coff+n+1+int(l)], crc32.MakeTable(crc32.Castagnoli)) != binary.BigEndian.Uint32(cb[coff+n+1+int(l):]) {
				return nil, fmt.Errorf("chunk record %d/%d: my extent does not end in its checksum", i, j)
			}
			tg.extents["chunks/000001"] = append(tg.extents["chunks/000001"], c24Extent{coff, n + 1 + int(l) + 4, i, j})
		}
	}
	if err := p.Err(); err != nil {
		return nil, err
	}
	// the chunk records must tile the segment file after its 8-byte header
	ext := append([]c24Extent{}, tg.extents["chunks/000001"]...)
	sort.Slice(ext, func(i, j int) bool { return ext[i].Off < ext[j].Off })
	pos := chunks.SegmentHeaderSize
	for _, e := range ext {
		if e.Off != pos {
			return nil, fmt.Errorf("chunk records do not tile chunks/000001: gap at %d", pos)
		}
		pos += e.Len
	}
	if pos != len(cb) {
		return nil, fmt.Errorf("chunk records do not tile chunks/000001: %d trailing bytes", len(cb)-pos)
	}
	return tg, nil
}

type c24PristineErr struct{ f *c24Fail }

func (e *c24PristineErr) Error() string { return "pristine block does not round-trip: " + e.f.Msg }

type c24Damage struct {
	tg      *c24Target
	file    string
	ext     c24Extent
	off     int // absolute offset in the file
	variant int
}

func (tg *c24Target) damages() []c24Damage {
	var out []c24Damage
	for _, fn := range []string{"chunks/000001", "index"} {
		for _, e := range tg.extents[fn] {
			for o := e.Off; o < e.Off+e.Len; o++ {
				for v := 0; v <= 8; v++ {
					if v == 8 && tg.files[fn][o] == 0 {
						continue // zeroing a zero byte changes nothing
					}
					out = append(out, c24Damage{tg, fn, e, o, v})
				}
			}
		}
	}
	return out
}

var c24Num = regexp.MustCompile(`[0-9a-fA-F]{6,}|[0-9]+`)

func c24ErrClass(err error) string {
	s := err.Error()
	if len(s) > 120 {
		s = s[:120]
	}
	return c24Num.ReplaceAllString(s, "N")
}

// applyDamage evaluates one damaged copy (scratch is a private copy of the block directory).
func (x *c24Run) applyDamage(d c24Damage, scratch string) {
	cs := c24Case{Block: d.tg.name, File: d.file, Offset: d.off, Variant: d.variant}
	orig := d.tg.files[d.file]
	dam := append([]byte{}, orig...)
	if d.variant == 8 {
		dam[d.off] = 0
	} else {
		dam[d.off] ^= 1 << uint(d.variant)
	}
	path := filepath.Join(scratch, d.file)
	if err := os.WriteFile(path, dam, 0o666); err != nil {
		x.r.T.Errorf("c24: %v", err)
		return
	}
	defer os.WriteFile(path, orig, 0o666)
	x.r.Count("evaluations", 1)
	what := "chunk-record"
	if d.ext.Chunk < 0 {
		what = "series-entry"
	}
	b, err := OpenBlock(nil, scratch, nil, nil)
	if err != nil {
		x.outcome(what + " open: " + c24ErrClass(err))
		x.r.Distinct("distinct_nontrivial", fmt.Sprint("D", d.tg.name, d.file, d.off, d.variant))
		return
	}
	defer b.Close()
	ir, err1 := b.Index()
	cr, err2 := b.Chunks()
	if err1 != nil || err2 != nil {
		x.outcome(what + " open-readers: error")
		if ir != nil {
			ir.Close()
		}
		if cr != nil {
			cr.Close()
		}
		return
	}
	defer ir.Close()
	defer cr.Close()
	// reader level: the damaged item must be refused; every other item is refused or intact
	var bld labels.ScratchBuilder
	sawError := false
	for i, s := range d.tg.m.Series {
		var chks []chunks.Meta
		err := ir.Series(d.tg.refs[i], &bld, &chks)
		damagedEntry := d.ext.Chunk < 0 && d.ext.Series == i
		switch {
		case err != nil:
			if damagedEntry {
				sawError = true
				x.outcome("series-entry read: " + c24ErrClass(err))
			}
		case damagedEntry:
			x.viol(c24f("damaged-series-entry-returned-as-data", "Series(%d) succeeded on a damaged entry: labels %s chunks %v", d.tg.refs[i], bld.Labels().String(), chks), cs)
			return
		default:
			if !labels.Equal(bld.Labels(), s.Labels) || fmt.Sprint(c24Plain(chks)) != fmt.Sprint(c24Plain(d.tg.metas[i])) {
				x.viol(c24f("undamaged-series-entry-changed", "series %s read back as %s %v", s.Labels.String(), bld.Labels().String(), chks), cs)
				return
			}
		}
		for j, meta := range d.tg.metas[i] {
			chk, _, err := cr.ChunkOrIterable(meta)
			damagedChunk := d.ext.Chunk == j && d.ext.Series == i
			switch {
			case err != nil:
				if damagedChunk {
					sawError = true
					x.outcome("chunk-record read: " + c24ErrClass(err))
				}
			case damagedChunk:
				x.viol(c24f("damaged-chunk-returned-as-data", "ChunkOrIterable(ref %d) succeeded on a damaged record: encoding %v bytes %x (pristine %x)", meta.Ref, chk.Encoding(), chk.Bytes(), s.Chunks[j].Chunk.Bytes()), cs)
				return
			default:
				if chk.Encoding() != s.Chunks[j].Chunk.Encoding() || !bytes.Equal(chk.Bytes(), s.Chunks[j].Chunk.Bytes()) {
					x.viol(c24f("undamaged-chunk-changed", "series %s chunk %d reads %x, pristine %x", s.Labels.String(), j, chk.Bytes(), s.Chunks[j].Chunk.Bytes()), cs)
					return
				}
			}
		}
	}
	if !sawError {
		x.viol(c24f("damage-not-reported", "no reader reported the damage"), cs)
		return
	}
	// query level: a full scan reads the damaged item and must fail
	q, err := NewBlockQuerier(b, math.MinInt64, math.MaxInt64)
	if err != nil {
		x.outcome(what + " querier: " + c24ErrClass(err))
		return
	}
	defer q.Close()
	var qerr error
	got := map[string][]qSample{}
	ss := q.Select(context.Background(), true, nil, labels.MustNewMatcher(labels.MatchRegexp, "__name__", ".+"))
	for ss.Next() {
		s := ss.At()
		smp, err := drainSeries(s.Iterator(nil))
		if err != nil && qerr == nil {
			qerr = err
		}
		got[s.Labels().String()] = smp
	}
	if ss.Err() != nil && qerr == nil {
		qerr = ss.Err()
	}
	if qerr == nil {
		x.viol(c24f("damage-not-reported-by-query", "a full Select over the damaged block returned %v without error", got), cs)
		return
	}
	x.outcome(what + " query: " + c24ErrClass(qerr))
	x.r.Distinct("distinct_nontrivial", fmt.Sprint("D", d.tg.name, d.file, d.off, d.variant))
}

func c24Plain(ms []chunks.Meta) []string {
	var out []string
	for _, m := range ms {
		out = append(out, fmt.Sprintf("%d:[%d,%d]", m.Ref, m.MinTime, m.MaxTime))
	}
	return out
}

func c24SelfTest(t *testing.T, x *c24Run) {
	m := c24Build([]int{1, 2}, 0)
	tmp := t.TempDir()
	dir, _, err := c07WriteBlock(tmp, c07ULID(7), m.Series, 0)
	if err != nil {
		t.Fatalf("self-test: %v", err)
	}
	if f, _ := c24CheckBlock(dir, m, true); f != nil {
		// the real writers/readers do not round-trip the simplest block: a finding, not a tool failure
		f.Sig = "roundtrip-" + f.Sig
		x.viol(f, c24Case{Subset: []int{1, 2}, Writer: "writers"})
		return
	}
	// the oracle must notice a different model: other chunk bytes, other labels
	m2 := c24Build([]int{1, 2}, 1)
	if f, _ := c24CheckBlock(dir, m2, true); f == nil {
		t.Fatal("self-test: oracle accepts a block with different chunks")
	}
	m3 := c24Build([]int{1, 3}, 0)
	if f, _ := c24CheckBlock(dir, m3, true); f == nil || !strings.Contains(f.Sig, "mismatch") {
		t.Fatalf("self-test: oracle accepts a block with different labels (%v)", f)
	}
}

func TestVerifC24(t *testing.T) {
	r := vx.Start(t, "C24", "fault_enumeration")
	defer r.Finish()
	var nOut atomic.Int64
	x := &c24Run{r: r, nOut: &nOut}
	const tinySeg = 96 // forces a new segment file for nearly every chunk
	targetsSpec := []struct {
		name   string
		subset []int
		rot    int
		seg    int64
	}{
		{"small", []int{1, 2, 4}, 0, 0},  // layouts 1,2,4: f|h, x2|fh|f, 120-sample f (2-byte record length)
		{"two-files", []int{0, 3}, 1, 200}, // second segment file exists; 000001 is swept
		{"all", []int{0, 1, 2, 3, 4, 5, 6}, 0, 0},
	}
	tdir, err := os.MkdirTemp("", "c24t")
	if err != nil {
		t.Fatal(err)
	}
	defer os.RemoveAll(tdir)
	prepare := func(names ...string) []*c24Target {
		var out []*c24Target
		for i, ts := range targetsSpec {
			use := false
			for _, n := range names {
				use = use || n == ts.name
			}
			if !use {
				continue
			}
			tg, err := c24PrepareTarget(ts.name, filepath.Join(tdir, fmt.Sprint(i)), ts.subset, ts.rot, ts.seg)
			if pe, ok := err.(*c24PristineErr); ok {
				pe.f.Sig = "roundtrip-" + pe.f.Sig
				x.viol(pe.f, c24Case{Subset: ts.subset, Rot: ts.rot, SegSize: ts.seg, Writer: "writers"})
				continue
			}
			if err != nil {
				t.Fatalf("c24: preparing target %s: %v", ts.name, err)
			}
			out = append(out, tg)
		}
		return out
	}
	if r.Replay != "" {
		var rp c24Case
		r.LoadReplay(&rp)
		if rp.Block == "" {
			x.roundTrip(rp, true)
			return
		}
		for _, tg := range prepare(rp.Block) {
			scratch := filepath.Join(tdir, "scratch")
			if err := c07CopyDir(tg.dir, scratch); err != nil {
				t.Fatal(err)
			}
			for _, d := range tg.damages() {
				if d.file == rp.File && d.off == rp.Offset && d.variant == rp.Variant {
					x.applyDamage(d, scratch)
				}
			}
		}
		return
	}
	c24SelfTest(t, x)
	tStart := time.Now()

	// ---- part D
	names := []string{"small", "two-files"}
	if r.Thorough() {
		names = append(names, "all")
	}
	var dmg []c24Damage
	swept := map[string]int{}
	for _, tg := range prepare(names...) {
		ds := tg.damages()
		dmg = append(dmg, ds...)
		for fn, es := range tg.extents {
			for _, e := range es {
				swept[tg.name+"/"+fn] += e.Len
			}
		}
	}
	var scratchDirs []string
	mk := func(tg *c24Target) string {
		d, err := os.MkdirTemp(tdir, "scratch")
		if err != nil {
			t.Fatal(err)
		}
		if err := c07CopyDir(tg.dir, d); err != nil {
			t.Fatal(err)
		}
		scratchDirs = append(scratchDirs, d)
		return d
	}
	// one private scratch copy per (worker, target)
	workers := r.Workers()
	pools := map[*c24Target]chan string{}
	for _, d := range dmg {
		if pools[d.tg] == nil {
			ch := make(chan string, workers)
			for w := 0; w < workers; w++ {
				ch <- mk(d.tg)
			}
			pools[d.tg] = ch
		}
	}
	var doneD atomic.Int64
	r.ParallelN(int64(len(dmg)), func(i int64) {
		d := dmg[i]
		s := <-pools[d.tg]
		p, stack := vx.Guard(func() { x.applyDamage(d, s) })
		if p != nil {
			x.viol(c24f("panic-on-damaged-block", "panic: %v\n%s", p, stack), c24Case{Block: d.tg.name, File: d.file, Offset: d.off, Variant: d.variant})
			_ = os.WriteFile(filepath.Join(s, d.file), d.tg.files[d.file], 0o666)
		}
		pools[d.tg] <- s
		k := doneD.Add(1)
		r.SampleAt(k, func() any {
			return map[string]any{"part": "damage", "block": d.tg.name, "file": d.file, "offset": d.off, "variant": d.variant}
		})
	})
	r.Count("damage_cases", int(doneD.Load()))
	t.Logf("c24: part D done after %v", time.Since(tStart))
	// ---- part R
	maxSet := vx.Pick(r, 2, 5)
	var cases []c24Case
	vx.Subsets(len(c24Universe), maxSet, func(idx []int) bool {
		if len(idx) == 0 {
			return true
		}
		for rot := 0; rot < len(c24Layouts); rot++ {
			for _, seg := range []int64{0, tinySeg} {
				if seg == tinySeg && r.Quick() && rot != 0 && rot != 2 {
					continue // quick: several segment files for two of the five rotations
				}
				cases = append(cases, c24Case{Subset: append([]int{}, idx...), Rot: rot, SegSize: seg})
			}
		}
		return true
	})
	for _, n := range c24CardSizes { // one label with 31..97 values (both tiers)
		cases = append(cases, c24Case{Card: n})
	}
	var doneR atomic.Int64
	r.ParallelN(int64(len(cases)), func(i int64) {
		c := cases[i]
		// CreateBlock (BlockWriter) is the slow path: rot 0 with the default segment size only
		x.roundTrip(c, c.Rot == 0 && c.SegSize == 0 && (r.Thorough() || len(c.Subset) <= 1))
		k := doneR.Add(1)
		r.SampleAt(k, func() any { return map[string]any{"part": "round trip", "case": c} })
	})
	r.Count("roundtrip_cases", int(doneR.Load()))
	t.Logf("c24: part R done after %v", time.Since(tStart))

	r.Set("damage_cases_planned", len(dmg))
	r.Set("roundtrip_cases_planned", len(cases))
	r.Set("bytes_swept", swept)
	r.Set("rule", "part R: every non-empty subset of <=k of 7 label sets x 5 chunk-layout rotations x segment size {64 KiB, 96 B}; written with index.Writer/chunks.Writer, re-written by Compact, (rotation 0, default segment) created with CreateBlock; read back: symbols, label names/values, all postings and the postings of every label pair resolved through Series, chunk ranges, chunk bytes and encodings, block querier samples, twice (reopen). part D: for every byte of every chunk record of chunks/000001 and of every series entry of the index of the target blocks: 8 single-bit flips and zeroing; the damaged item must be refused by ChunkOrIterable/Series, every other item must be refused or bit-identical, and a full Select must fail. evaluations = blocks read back + damaged copies read; distinct_nontrivial = distinct round-trip inputs + distinct damages that were refused; distinct_outcomes = distinct error classes / round-trip shapes")
	r.Assume("series entries are located at ref*16 and delimited by their uvarint length and CRC32; chunk records by uvarint length, encoding byte and CRC32 (both verified against the pristine files before the sweep)")
	r.Assume("the 16-byte alignment padding between series entries and everything outside chunk records / series entries (TOC, symbols, postings, headers) is not altered")
	if r.Get("evaluations") == 0 || nOut.Load() < 2 {
		t.Fatalf("c24: vacuous run: %d evaluations, %d distinct outcomes", r.Get("evaluations"), nOut.Load())
	}
	if !r.Expired() && r.Violations() == 0 && (doneD.Load() != int64(len(dmg)) || doneR.Load() != int64(len(cases))) {
		t.Fatalf("c24: incomplete without deadline: %d/%d damages, %d/%d round trips", doneD.Load(), len(dmg), doneR.Load(), len(cases))
	}
}
