package chunkenc

// C11 (a): native histograms appended through the chunk appenders (the AppendHistogram /
// AppendFloatHistogram entry points the head uses, with the same new-chunk / recode / previous
// appender protocol as memSeries.appendHistogram) are read back faithfully, and the caller's
// histograms stay semantically unchanged.
//
// Engine E1 (sequence mode): ALL sequences of <= depth atoms (shape x {int,float}) over the
// histmodel shape alphabet, each under a set of storage configurations (plain / start-timestamp
// capable chunk encodings, forced chunk cuts before any subset of the samples, appender re-opened
// from the chunk before every append, the same histogram object re-appended). Oracle: histmodel
// equality at every timestamp in eight read modes.

import (
	"fmt"
	"math"
	"strings"
	"sync/atomic"
	"testing"

	"github.com/prometheus/prometheus/internal/verif/histmodel"
	"github.com/prometheus/prometheus/internal/verif/vx"
	"github.com/prometheus/prometheus/model/histogram"
)

// ---------------------------------------------------------------------------
// alphabet
// ---------------------------------------------------------------------------

type c11Atom struct {
	Name  string
	Float bool
	I     *histogram.Histogram
	F     *histogram.FloatHistogram
	M     *histmodel.H
}

func c11CopyInt(h *histogram.Histogram) *histogram.Histogram {
	c := *h
	c.PositiveSpans = append([]histogram.Span(nil), h.PositiveSpans...)
	c.NegativeSpans = append([]histogram.Span(nil), h.NegativeSpans...)
	c.PositiveBuckets = append([]int64(nil), h.PositiveBuckets...)
	c.NegativeBuckets = append([]int64(nil), h.NegativeBuckets...)
	c.CustomValues = append([]float64(nil), h.CustomValues...)
	return &c
}

func c11CopyFloat(h *histogram.FloatHistogram) *histogram.FloatHistogram {
	c := *h
	c.PositiveSpans = append([]histogram.Span(nil), h.PositiveSpans...)
	c.NegativeSpans = append([]histogram.Span(nil), h.NegativeSpans...)
	c.PositiveBuckets = append([]float64(nil), h.PositiveBuckets...)
	c.NegativeBuckets = append([]float64(nil), h.NegativeBuckets...)
	c.CustomValues = append([]float64(nil), h.CustomValues...)
	return &c
}

func c11FindShape(shapes []histmodel.Shape, spec string) histmodel.Shape {
	for _, s := range shapes {
		if strings.HasPrefix(s.Name, spec+"/") {
			return s
		}
	}
	panic("c11: no shape " + spec)
}

// c11Derive builds the shape of specification spec in the given span layout; gauge=true turns it
// into a gauge histogram (same buckets).
func c11Derive(shapes []histmodel.Shape, spec string, layout int, gauge bool) histmodel.Shape {
	m := c11FindShape(shapes, spec).Model.Copy()
	name := fmt.Sprintf("%s/L%d", spec, layout)
	if gauge {
		m.Hint, m.Gauge = histogram.GaugeType, true
		name = "g-" + name
	}
	sh := histmodel.Shape{Name: name, Layout: layout, Exact: true, Model: m, Float: m.ToFloat(layout)}
	if m.Integral() {
		sh.Int = m.ToInt(layout)
	}
	return sh
}

func c11Atoms(shapes []histmodel.Shape) []c11Atom {
	var out []c11Atom
	for _, s := range shapes {
		if s.Int != nil {
			out = append(out, c11Atom{Name: s.Name + "/int", I: s.Int, M: s.Model})
		}
		out = append(out, c11Atom{Name: s.Name + "/float", Float: true, F: s.Float, M: s.Model})
	}
	return out
}

// full alphabet: the core histmodel shapes plus three gauge variants that share schema and zero
// threshold (so that gauge chunks are recoded both ways instead of being cut).
func c11FullShapes() []histmodel.Shape {
	shapes := histmodel.Shapes()
	shapes = append(shapes,
		c11Derive(shapes, "e04-s0-grown-front", 0, true),
		c11Derive(shapes, "e05-s0-gap", 1, true),
		c11Derive(shapes, "e02-s0-two", 2, true))
	return shapes
}

// small alphabet (depth 4): shapes that collide with each other in every way the appenders
// distinguish (forward inserts, backward inserts from stored empty buckets, front growth, gaps,
// zero-threshold / schema / bucket-type change, explicit reset, stale, gauge both ways, custom
// bounds).
func c11SmallShapes() []histmodel.Shape {
	s := histmodel.Shapes()
	return []histmodel.Shape{
		c11Derive(s, "e02-s0-two", 1, false),
		c11Derive(s, "e03-s0-grown", 0, false),
		c11Derive(s, "e04-s0-grown-front", 2, false),
		c11Derive(s, "e05-s0-gap", 3, false),
		c11Derive(s, "e01-zero-only", 0, false),
		c11Derive(s, "e06-s0-both-sides", 0, false),
		c11Derive(s, "e08-s1", 0, false),
		c11Derive(s, "e29-stale", 0, false),
		c11Derive(s, "e04-s0-grown-front", 0, true),
		c11Derive(s, "e05-s0-gap", 1, true),
		c11Derive(s, "e32-hint-reset", 0, false),
		c11Derive(s, "c01", 1, false),
		c11Derive(s, "c02-grown", 0, false),
	}
}

// ---------------------------------------------------------------------------
// a series at chunk level, driven exactly like memSeries.appendHistogram drives the appenders
// ---------------------------------------------------------------------------

type c11Cfg struct {
	ST     int  `json:"st"`     // 0 plain encodings; 1.. start-timestamp encodings with ST pattern c11STs[ST]
	Mask   int  `json:"mask"`   // bit i-1 set: the "head" cuts a new chunk before sample i
	Reopen bool `json:"reopen"` // re-derive the appender from the chunk before every append
	Shared bool `json:"shared"` // repeated atoms re-append the same object
}

var c11Ts = []int64{1000, 1015, 1100, 1101}

var c11STs = [][]int64{
	nil,
	{0, 0, 0, 0},
	{990, 1005, 1005, 1100},
	{0, 0, 1050, 1050},
}

type c11Ser struct {
	st     bool
	chunks []Chunk
	app    Appender
	events []byte
}

func (s *c11Ser) append(float, forceCut, reopen bool, st, t int64, h *histogram.Histogram, fh *histogram.FloatHistogram) error {
	vt := ValHistogram
	if float {
		vt = ValFloatHistogram
	}
	enc := vt.ChunkEncoding(false, s.st)
	prevApp := s.app
	created := false
	n := len(s.chunks)
	if n > 0 && reopen {
		a, err := s.chunks[n-1].Appender()
		if err != nil {
			return fmt.Errorf("re-opening appender: %w", err)
		}
		s.app, prevApp = a, a
	}
	switch {
	case n == 0:
		created = true
	case s.chunks[n-1].Encoding() != enc:
		created = true
		s.events = append(s.events, 'E')
	case forceCut:
		created = true
		s.events = append(s.events, 'F')
	}
	if created {
		c, err := NewEmptyChunk(enc)
		if err != nil {
			return err
		}
		s.chunks = append(s.chunks, c)
		if s.app, err = c.Appender(); err != nil {
			return err
		}
	} else {
		prevApp = nil
	}
	var (
		newChunk Chunk
		recoded  bool
		err      error
	)
	if float {
		newChunk, recoded, s.app, err = s.app.AppendFloatHistogram(prevApp, st, t, fh, false)
	} else {
		newChunk, recoded, s.app, err = s.app.AppendHistogram(prevApp, st, t, h, false)
	}
	if err != nil {
		return err
	}
	switch {
	case newChunk == nil:
		s.events = append(s.events, 'a')
	case recoded:
		s.chunks[len(s.chunks)-1] = newChunk
		s.events = append(s.events, 'R')
	default:
		s.chunks = append(s.chunks, newChunk)
		s.events = append(s.events, 'N')
	}
	return nil
}

// ---------------------------------------------------------------------------
// oracle
// ---------------------------------------------------------------------------

type c11Exp struct {
	t int64
	m *histmodel.H
}

type c11Got struct {
	t int64
	m *histmodel.H
}

// c11Compare is the property: same timestamps; a stale marker wherever one was appended; otherwise
// a non-stale histogram semantically equal to the appended one.
func c11Compare(exp []c11Exp, got []c11Got) (what, msg string) {
	if len(exp) != len(got) {
		return "sample-count", fmt.Sprintf("appended %d samples, read %d", len(exp), len(got))
	}
	for i := range exp {
		if exp[i].t != got[i].t {
			return "timestamp", fmt.Sprintf("sample %d: appended t=%d read t=%d", i, exp[i].t, got[i].t)
		}
		if exp[i].m.Stale {
			if !got[i].m.Stale {
				return "stale-marker-lost", fmt.Sprintf("sample %d (t=%d): appended a staleness marker, read %s", i, exp[i].t, got[i].m)
			}
			continue
		}
		if got[i].m.Stale {
			return "spurious-stale-marker", fmt.Sprintf("sample %d (t=%d): appended %s, read a staleness marker", i, exp[i].t, exp[i].m)
		}
		if d := histmodel.Diff(exp[i].m, got[i].m, 0); d != "" {
			return "histogram-mismatch", fmt.Sprintf("sample %d (t=%d): %s; appended %s read %s", i, exp[i].t, d, exp[i].m, got[i].m)
		}
	}
	return "", ""
}

var c11Modes = []string{"next-nil", "next-reuse", "as-float-nil", "as-float-reuse", "from-bytes", "seek", "reencode-appendonly", "mixed-nil"}

// c11Read reads every sample of the chunk list in the given mode.
func c11Read(chunks []Chunk, mode string, ts []int64) ([]c11Got, error) {
	var got []c11Got
	switch mode {
	case "next-nil", "as-float-nil", "from-bytes", "mixed-nil":
		// fresh iterator per chunk, fresh objects; everything is collected first and decoded
		// only after all iterators are exhausted (returned objects must stay valid).
		var ih []*histogram.Histogram
		var fh []*histogram.FloatHistogram
		var order []bool
		var tt []int64
		for ci, c := range chunks {
			if mode == "from-bytes" {
				b := append([]byte(nil), c.Bytes()...)
				var err error
				if c, err = FromData(c.Encoding(), b); err != nil {
					return nil, err
				}
			}
			it := c.Iterator(nil)
			k := 0
			for vt := it.Next(); vt != ValNone; vt = it.Next() {
				asFloat := vt == ValFloatHistogram || mode == "as-float-nil" || (mode == "mixed-nil" && (ci+k)%2 == 1)
				k++
				if asFloat {
					t, h := it.AtFloatHistogram(nil)
					fh, tt, order = append(fh, h), append(tt, t), append(order, true)
				} else {
					t, h := it.AtHistogram(nil)
					ih, tt, order = append(ih, h), append(tt, t), append(order, false)
				}
			}
			if err := it.Err(); err != nil {
				return nil, err
			}
		}
		for i, f := range order {
			if f {
				got = append(got, c11Got{tt[i], histmodel.FromFloat(fh[0])})
				fh = fh[1:]
			} else {
				got = append(got, c11Got{tt[i], histmodel.FromInt(ih[0])})
				ih = ih[1:]
			}
		}
	case "next-reuse", "as-float-reuse":
		// one iterator recycled over all chunks, one histogram object recycled over all samples.
		var it Iterator
		hb, fb := &histogram.Histogram{}, &histogram.FloatHistogram{}
		for _, c := range chunks {
			it = c.Iterator(it)
			for vt := it.Next(); vt != ValNone; vt = it.Next() {
				if vt == ValFloatHistogram || mode == "as-float-reuse" {
					var t int64
					t, fb = it.AtFloatHistogram(fb)
					got = append(got, c11Got{t, histmodel.FromFloat(fb)})
				} else {
					var t int64
					t, hb = it.AtHistogram(hb)
					got = append(got, c11Got{t, histmodel.FromInt(hb)})
				}
			}
			if err := it.Err(); err != nil {
				return nil, err
			}
		}
	case "seek":
		// every sample reached by Seek(t) on a fresh iterator of the chunk that holds it.
		for _, t := range ts {
			found := false
			for _, c := range chunks {
				it := c.Iterator(nil)
				vt := it.Seek(t)
				if vt == ValNone {
					if err := it.Err(); err != nil {
						return nil, err
					}
					continue
				}
				if vt == ValFloatHistogram {
					tg, h := it.AtFloatHistogram(nil)
					got = append(got, c11Got{tg, histmodel.FromFloat(h)})
				} else {
					tg, h := it.AtHistogram(nil)
					got = append(got, c11Got{tg, histmodel.FromInt(h)})
				}
				found = true
				break
			}
			if !found {
				return got, nil // sample-count mismatch is reported by the comparison
			}
		}
	case "reencode-appendonly":
		// every chunk re-encoded sample by sample in append-only mode, as the block querier does
		// for a chunk it has to rewrite; the rewritten chunks are then read.
		var re []Chunk
		for _, c := range chunks {
			nc, err := NewEmptyChunk(c.Encoding())
			if err != nil {
				return nil, err
			}
			app, err := nc.Appender()
			if err != nil {
				return nil, err
			}
			it := c.Iterator(nil)
			for vt := it.Next(); vt != ValNone; vt = it.Next() {
				st := it.AtST()
				if vt == ValFloatHistogram {
					t, h := it.AtFloatHistogram(nil)
					_, _, app, err = app.AppendFloatHistogram(nil, st, t, h, true)
				} else {
					t, h := it.AtHistogram(nil)
					_, _, app, err = app.AppendHistogram(nil, st, t, h, true)
				}
				if err != nil {
					return nil, fmt.Errorf("append-only re-encoding of a chunk's own samples refused: %w", err)
				}
			}
			if err := it.Err(); err != nil {
				return nil, err
			}
			re = append(re, nc)
		}
		return c11Read(re, "next-nil", ts)
	default:
		panic(mode)
	}
	return got, nil
}

type c11Case struct {
	Alpha string   `json:"alpha"`
	Seq   []string `json:"seq"`
	Cfg   c11Cfg   `json:"cfg"`
}

// c11Run executes one (sequence, configuration) case; returns the event string (outcome).
func c11Run(r *vx.Run, alpha string, atoms []c11Atom, seq []int, cfg c11Cfg) string {
	rp := func() any {
		c := c11Case{Alpha: alpha, Cfg: cfg}
		for _, a := range seq {
			c.Seq = append(c.Seq, atoms[a].Name)
		}
		return c
	}
	ser := &c11Ser{st: cfg.ST > 0}
	var exp []c11Exp
	ints := map[int]*histogram.Histogram{}
	floats := map[int]*histogram.FloatHistogram{}
	type passed struct {
		a int
		h *histogram.Histogram
		f *histogram.FloatHistogram
	}
	var objs []passed
	callerChanged := false
	for i, ai := range seq {
		at := atoms[ai]
		var h *histogram.Histogram
		var fh *histogram.FloatHistogram
		if at.Float {
			if fh = floats[ai]; fh == nil || !cfg.Shared {
				fh = c11CopyFloat(at.F)
				floats[ai] = fh
			}
		} else {
			if h = ints[ai]; h == nil || !cfg.Shared {
				h = c11CopyInt(at.I)
				ints[ai] = h
			}
		}
		objs = append(objs, passed{ai, h, fh})
		var st int64
		if cfg.ST > 0 {
			st = c11STs[cfg.ST][i]
		}
		var err error
		p, stack := vx.Guard(func() {
			err = ser.append(at.Float, i > 0 && cfg.Mask&(1<<(i-1)) != 0, cfg.Reopen, st, c11Ts[i], h, fh)
		})
		if p != nil {
			r.Violation("chunkenc-append-panic", fmt.Sprintf("appending sample %d of %v (cfg %+v) panicked: %v\n%s", i, rp().(c11Case).Seq, cfg, p, c11Trim(stack)), rp())
			return "panic"
		}
		if err != nil {
			r.Violation("chunkenc-append-error", fmt.Sprintf("appending sample %d of %v (cfg %+v): %v", i, rp().(c11Case).Seq, cfg, err), rp())
			return "error"
		}
		exp = append(exp, c11Exp{c11Ts[i], at.M})
		// the caller's histograms (all passed so far) remain semantically unchanged
		for j, o := range objs {
			var now *histmodel.H
			var layoutChanged bool
			if o.f != nil {
				now = histmodel.FromFloat(o.f)
				layoutChanged = len(o.f.PositiveBuckets) != len(atoms[o.a].F.PositiveBuckets) || len(o.f.NegativeBuckets) != len(atoms[o.a].F.NegativeBuckets)
			} else {
				now = histmodel.FromInt(o.h)
				layoutChanged = len(o.h.PositiveBuckets) != len(atoms[o.a].I.PositiveBuckets) || len(o.h.NegativeBuckets) != len(atoms[o.a].I.NegativeBuckets)
			}
			callerChanged = callerChanged || layoutChanged
			want := atoms[o.a].M
			d := histmodel.Diff(want, now, 0)
			if d == "" && want.Gauge != now.Gauge {
				d = fmt.Sprintf("gauge %v vs %v", want.Gauge, now.Gauge)
			}
			if d != "" {
				r.Violation("chunkenc-caller-histogram-changed", fmt.Sprintf("after appending sample %d of %v (cfg %+v) the caller's histogram passed as sample %d differs: %s; before %s after %s", i, rp().(c11Case).Seq, cfg, j, d, want, now), rp())
				return "caller-changed"
			}
		}
	}
	for _, mode := range c11Modes {
		var got []c11Got
		var err error
		p, stack := vx.Guard(func() { got, err = c11Read(ser.chunks, mode, c11Ts[:len(seq)]) })
		if p != nil {
			r.Violation("chunkenc-"+mode+"-panic", fmt.Sprintf("reading %v (cfg %+v, events %s) panicked: %v\n%s", rp().(c11Case).Seq, cfg, ser.events, p, c11Trim(stack)), rp())
			continue
		}
		if err != nil {
			r.Violation("chunkenc-"+mode+"-error", fmt.Sprintf("reading %v (cfg %+v, events %s): %v", rp().(c11Case).Seq, cfg, ser.events, err), rp())
			continue
		}
		if what, msg := c11Compare(exp, got); what != "" {
			r.Violation("chunkenc-"+mode+"-"+what, fmt.Sprintf("sequence %v (cfg %+v, events %s, %d chunks): %s", rp().(c11Case).Seq, cfg, ser.events, len(ser.chunks), msg), rp())
		}
	}
	ev := string(ser.events)
	if callerChanged {
		ev += "+B"
	}
	return ev
}

func c11Trim(stack string) string {
	if len(stack) > 1500 {
		return stack[:1500]
	}
	return stack
}

// c11Cfgs enumerates the configurations explored for sequences of length n.
func c11Cfgs(n int, sts []int, allMasks bool, reopens []bool) []c11Cfg {
	var out []c11Cfg
	masks := []int{0}
	if n > 1 {
		if allMasks {
			masks = nil
			for m := 0; m < 1<<(n-1); m++ {
				masks = append(masks, m)
			}
		} else {
			masks = []int{0, 1<<(n-1) - 1}
		}
	}
	for _, st := range sts {
		for _, m := range masks {
			for _, ro := range reopens {
				out = append(out, c11Cfg{ST: st, Mask: m, Reopen: ro})
			}
		}
	}
	return out
}

func c11HasRepeat(seq []int) bool {
	for i := range seq {
		for j := 0; j < i; j++ {
			if seq[i] == seq[j] {
				return true
			}
		}
	}
	return false
}

func c11SelfTest(t *testing.T, full []c11Atom) {
	// (1) every atom decodes to its specification and deep copies keep the layout.
	for _, a := range full {
		var m *histmodel.H
		if a.Float {
			c := c11CopyFloat(a.F)
			m = histmodel.FromFloat(c)
			if err := c.Validate(); err != nil && !a.M.Stale {
				t.Fatalf("self-test: shape %s invalid: %v", a.Name, err)
			}
		} else {
			c := c11CopyInt(a.I)
			m = histmodel.FromInt(c)
			if err := c.Validate(); err != nil && !a.M.Stale {
				t.Fatalf("self-test: shape %s invalid: %v", a.Name, err)
			}
		}
		if d := histmodel.Diff(a.M, m, 0); d != "" {
			t.Fatalf("self-test: atom %s does not decode to its model: %s", a.Name, d)
		}
	}
	// (2) the oracle rejects wrong answers: a lost bucket, a lost stale marker, a lost sample.
	var grown, stale *c11Atom
	for i := range full {
		if strings.HasPrefix(full[i].Name, "e03-s0-grown/") && !full[i].Float {
			grown = &full[i]
		}
		if strings.HasPrefix(full[i].Name, "e29-stale/") && !full[i].Float {
			stale = &full[i]
		}
	}
	if grown == nil || stale == nil {
		t.Fatal("self-test: shapes missing")
	}
	bad := c11CopyInt(grown.I)
	bad.PositiveBuckets[len(bad.PositiveBuckets)-1]-- // one observation lost in the last bucket
	exp := []c11Exp{{1000, grown.M}, {1015, stale.M}}
	ok := []c11Got{{1000, histmodel.FromInt(grown.I)}, {1015, histmodel.FromInt(&histogram.Histogram{Sum: math.Float64frombits(0x7ff0000000000002)})}}
	if what, _ := c11Compare(exp, ok); what != "" {
		t.Fatalf("self-test: oracle rejects a faithful read-back: %s", what)
	}
	for name, g := range map[string][]c11Got{
		"lost-bucket":   {{1000, histmodel.FromInt(bad)}, ok[1]},
		"lost-stale":    {ok[0], {1015, histmodel.FromInt(&histogram.Histogram{Sum: math.NaN()})}},
		"lost-sample":   {ok[0]},
		"shifted-time":  {ok[0], {1016, ok[1].m}},
		"spurious-stale": {{1000, ok[1].m}, ok[1]},
	} {
		if what, _ := c11Compare(exp, g); what == "" {
			t.Fatalf("self-test: oracle accepts the wrong answer %q", name)
		}
	}
}

func TestVerifC11a(t *testing.T) {
	r := vx.Start(t, "C11", "exploration")
	defer r.Finish()
	full := c11Atoms(c11FullShapes())
	small := c11Atoms(c11SmallShapes())
	alphas := map[string][]c11Atom{"full": full, "small": small}

	if r.Replay != "" {
		var c c11Case
		r.LoadReplay(&c)
		atoms, ok := alphas[c.Alpha]
		if !ok {
			fmt.Println("replay is not for part (a)")
			return
		}
		var seq []int
		for _, n := range c.Seq {
			for i, a := range atoms {
				if a.Name == n {
					seq = append(seq, i)
				}
			}
		}
		if len(seq) != len(c.Seq) {
			t.Fatalf("replay: unknown atom in %v", c.Seq)
		}
		fmt.Println("events:", c11Run(r, c.Alpha, atoms, seq, c.Cfg))
		return
	}
	c11SelfTest(t, full)

	var evals, seqs atomic.Int64
	type phase struct {
		alpha          string
		minLen, maxLen int
		cfgs           func(n int) []c11Cfg
	}
	allST := []int{0, 1, 2, 3}
	both := []bool{false, true}
	var phases []phase
	if r.Quick() {
		phases = []phase{
			// every configuration on everything up to length 2 and on the small alphabet up to length 3
			{"full", 1, 2, func(n int) []c11Cfg { return c11Cfgs(n, allST, true, both) }},
			{"small", 3, 3, func(n int) []c11Cfg { return c11Cfgs(n, allST, true, both) }},
			// length 3 over the full alphabet under three configurations
			{"full", 3, 3, func(n int) []c11Cfg {
				return []c11Cfg{{ST: 0, Mask: 0}, {ST: 2, Mask: 0, Reopen: true}, {ST: 0, Mask: 3}}
			}},
		}
	} else {
		phases = []phase{
			{"full", 1, 2, func(n int) []c11Cfg { return c11Cfgs(n, allST, true, both) }},
			{"small", 3, 4, func(n int) []c11Cfg { return c11Cfgs(n, allST, true, both) }},
			{"full", 3, 3, func(n int) []c11Cfg { return c11Cfgs(n, []int{0, 2}, true, both) }},
		}
	}
	var phaseDesc []string
	depthDone := map[string]int{}
	for _, ph := range phases {
		atoms := alphas[ph.alpha]
		total := vx.SeqCount(len(atoms), ph.minLen, ph.maxLen)
		ncfg := 0
		r.ParallelN(total, func(i int64) {
			seq := vx.SeqAt(len(atoms), ph.minLen, ph.maxLen, i, nil)
			cfgs := ph.cfgs(len(seq))
			if c11HasRepeat(seq) {
				// the same object appended again: only meaningful when an atom repeats
				for _, c := range cfgs[:len(cfgs):len(cfgs)] {
					c.Shared = true
					cfgs = append(cfgs, c)
				}
			}
			nontrivial := false
			for _, cfg := range cfgs {
				ev := c11Run(r, ph.alpha, atoms, seq, cfg)
				r.Distinct("distinct_outcomes", ev)
				if strings.ContainsAny(ev, "RNB") {
					nontrivial = true
				}
				if strings.Contains(ev, "R") {
					r.Count("cases_with_recode", 1)
				}
				if strings.Contains(ev, "N") {
					r.Count("cases_with_appender_cut", 1)
				}
				if strings.Contains(ev, "B") {
					r.Count("cases_with_backward_insert_into_caller_histogram", 1)
				}
			}
			if nontrivial {
				r.Distinct("distinct_nontrivial", fmt.Sprint(ph.alpha, seq))
			}
			evals.Add(int64(len(cfgs)))
			k := seqs.Add(1)
			r.SampleAt(k, func() any {
				c := c11Case{Alpha: ph.alpha, Cfg: cfgs[len(cfgs)-1]}
				for _, a := range seq {
					c.Seq = append(c.Seq, atoms[a].Name)
				}
				return map[string]any{"part": "a", "case": c, "configs_run": len(cfgs)}
			})
		})
		ncfg = len(ph.cfgs(ph.maxLen))
		phaseDesc = append(phaseDesc, fmt.Sprintf("%s alphabet (%d atoms) length %d..%d x %d configurations at the longest length", ph.alpha, len(atoms), ph.minLen, ph.maxLen, ncfg))
		if r.Expired() {
			break
		}
		if ph.maxLen > depthDone[ph.alpha] {
			depthDone[ph.alpha] = ph.maxLen
		}
	}
	r.Count("evaluations", int(evals.Load()))
	r.Count("sequences_chunkenc", int(seqs.Load()))
	r.Set("depth_completed_chunkenc", depthDone)
	r.Set("phases_chunkenc", phaseDesc)
	r.Set("rule", "part (a): every sequence of atoms (histmodel shape x int|float; full = core shapes + 3 gauge variants, small = 13 colliding shapes) up to the stated length, each run under every listed configuration (plain or start-timestamp chunk encoding with 3 ST patterns, forced chunk cut before any subset of samples, appender re-opened before every append, repeated atoms re-appending the same object) through AppendHistogram/AppendFloatHistogram with the head's new-chunk/recode/prevApp protocol, read back in 8 modes (fresh/recycled iterators and objects, int chunks read as float, FromData copy, Seek, append-only re-encoding) and compared with histmodel at every timestamp; the caller's objects are re-decoded after every append. A sequence is non-trivial when an appender recoded the chunk, cut a chunk itself, or inserted empty buckets into the caller's histogram. Parts (b)-(d): see rule_head.")
	r.Assume("histmodel (decode + semantic equality) is the trusted reference; shapes are valid histograms by construction (Validate() checked in the self-test)")
	if r.Get("cases_with_recode") == 0 || r.Get("cases_with_appender_cut") == 0 || r.Get("cases_with_backward_insert_into_caller_histogram") == 0 {
		t.Fatalf("vacuous: recode=%d appender cuts=%d backward inserts=%d", r.Get("cases_with_recode"), r.Get("cases_with_appender_cut"), r.Get("cases_with_backward_insert_into_caller_histogram"))
	}
}
