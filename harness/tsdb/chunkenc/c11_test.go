package chunkenc

// C11 (a): native histograms appended through the chunk appenders (the AppendHistogram /
// AppendFloatHistogram entry points the head uses, with the same new-chunk / recode / previous
// appender protocol as memSeries.appendHistogram) are read back faithfully, and the caller's
// histograms stay semantically unchanged.
//
// Engine E1 (sequence mode): ALL sequences of <= depth atoms (shape x {int,float}) over the
// histmodel shape alphabet, each under a set of storage configurations (plain / start-timestamp
// capable chunk encodings, forced chunk cuts before any subset of the samples, appender re-opened
// from the chunk before every append, the same histogram object re-appended). Oracle: histmodel
// equality at every timestamp in five read passes.

import (
	"fmt"
	"math"
	"strings"
	"sync"
	"sync/atomic"
	"testing"

	"github.com/prometheus/prometheus/internal/verif/histalpha"
	"github.com/prometheus/prometheus/internal/verif/histmodel"
	"github.com/prometheus/prometheus/internal/verif/vx"
	"github.com/prometheus/prometheus/model/histogram"
)

// ---------------------------------------------------------------------------
// a series at chunk level, driven exactly like memSeries.appendHistogram drives the appenders
// ---------------------------------------------------------------------------

type c11Cfg struct {
	ST     int  `json:"st"`     // 0 plain encodings; 1.. start-timestamp encodings with ST pattern c11STs[ST]
	Mask   int  `json:"mask"`   // bit i-1 set: the "head" cuts a new chunk before sample i
	Reopen bool `json:"reopen"` // re-derive the appender from the chunk before every append
	Shared bool `json:"shared"` // repeated atoms re-append the same object
}

var c11Ts = []int64{1000, 1015, 1100, 1101}

var c11STs = [][]int64{
	nil,
	{0, 0, 0, 0},
	{990, 1005, 1005, 1100},
	{0, 0, 1050, 1050},
}

type c11Ser struct {
	st     bool
	chunks []Chunk
	app    Appender
	events []byte
}

func (s *c11Ser) append(float, forceCut, reopen bool, st, t int64, h *histogram.Histogram, fh *histogram.FloatHistogram) error {
	vt := ValHistogram
	if float {
		vt = ValFloatHistogram
	}
	enc := vt.ChunkEncoding(false, s.st)
	prevApp := s.app
	created := false
	n := len(s.chunks)
	if n > 0 && reopen {
		a, err := s.chunks[n-1].Appender()
		if err != nil {
			return fmt.Errorf("re-opening appender: %w", err)
		}
		s.app, prevApp = a, a
	}
	switch {
	case n == 0:
		created = true
	case s.chunks[n-1].Encoding() != enc:
		created = true
		s.events = append(s.events, 'E')
	case forceCut:
		created = true
		s.events = append(s.events, 'F')
	}
	if created {
		c, err := NewEmptyChunk(enc)
		if err != nil {
			return err
		}
		s.chunks = append(s.chunks, c)
		if s.app, err = c.Appender(); err != nil {
			return err
		}
	} else {
		prevApp = nil
	}
	var (
		newChunk Chunk
		recoded  bool
		err      error
	)
	if float {
		newChunk, recoded, s.app, err = s.app.AppendFloatHistogram(prevApp, st, t, fh, false)
	} else {
		newChunk, recoded, s.app, err = s.app.AppendHistogram(prevApp, st, t, h, false)
	}
	if err != nil {
		return err
	}
	switch {
	case newChunk == nil:
		s.events = append(s.events, 'a')
	case recoded:
		s.chunks[len(s.chunks)-1] = newChunk
		s.events = append(s.events, 'R')
	default:
		s.chunks = append(s.chunks, newChunk)
		s.events = append(s.events, 'N')
	}
	return nil
}

// ---------------------------------------------------------------------------
// staleness-marker variants and the staleness-interplay alphabet
// ---------------------------------------------------------------------------

// c11Marker is a staleness marker (Sum = StaleNaN bit pattern) that is not the bare
// &Histogram{Sum: StaleNaN} of the core set: it carries the given counter-reset hint (a sender that
// stamps the hint of its series on every sample, markers included) and - when from != "" - the
// schema, zero bucket, buckets and count of the specification from (a sender that marks staleness
// by overwriting Sum only). The statement quantifies over staleness markers, not over bare ones.
func c11Marker(shapes []histmodel.Shape, name, from string, layout int, hint histogram.CounterResetHint) histmodel.Shape {
	m := histalpha.Derive(shapes, "e29-stale", 0, false).Model.Copy()
	if from != "" {
		m = histalpha.Derive(shapes, from, 0, false).Model.Copy()
	}
	m.Sum, m.Stale = math.Float64frombits(0x7ff0000000000002), true
	m.Hint, m.Gauge = hint, hint == histogram.GaugeType
	return histmodel.Shape{Name: fmt.Sprintf("%s/L%d", name, layout), Layout: layout, Exact: true, Model: m, Float: m.ToFloat(layout), Int: m.ToInt(layout)}
}

// c11FullShapes is histalpha.FullShapes plus the gauge-hinted bare staleness marker (the marker of
// a gauge series: it is the only kind of marker the gauge paths of the appenders accept into a
// non-empty chunk).
func c11FullShapes() []histmodel.Shape {
	full := histalpha.FullShapes()
	return append(full, c11Marker(full, "g-e29-stale", "", 0, histogram.GaugeType))
}

// c11StaleShapes is the staleness-interplay alphabet: for each kind of series (counter, gauge,
// custom-bucket gauge) two shapes that share a chunk when appended one after the other, and every
// kind of staleness marker that can come between them (bare with each of the four hints; with
// buckets left in place, unknown and gauge hint). Simplest first.
func c11StaleShapes() []histmodel.Shape {
	s := histmodel.Shapes()
	return []histmodel.Shape{
		histalpha.Derive(s, "e02-s0-two", 1, false),
		histalpha.Derive(s, "e03-s0-grown", 0, false),
		histalpha.Derive(s, "e29-stale", 0, false),
		histalpha.Derive(s, "e04-s0-grown-front", 0, true),
		histalpha.Derive(s, "e05-s0-gap", 1, true),
		c11Marker(s, "g-e29-stale", "", 0, histogram.GaugeType),
		histalpha.Derive(s, "c08-gauge", 0, false),
		c11Marker(s, "e29r-stale-hint-reset", "", 0, histogram.CounterReset),
		c11Marker(s, "e29n-stale-hint-noreset", "", 0, histogram.NotCounterReset),
		c11Marker(s, "e29b-stale-with-buckets", "e03-s0-grown", 0, histogram.UnknownCounterReset),
		c11Marker(s, "g-e29b-stale-with-buckets", "e05-s0-gap", 1, histogram.GaugeType),
	}
}

// ---------------------------------------------------------------------------
// reading back (the oracle is histalpha.Compare: histmodel equality at every timestamp)
// ---------------------------------------------------------------------------

type (
	c11Atom = histalpha.Atom
	c11Exp  = histalpha.Exp
	c11Got  = histalpha.Got
)

var c11Compare = histalpha.Compare

var c11Modes = []string{"next-nil", "reuse", "from-bytes-as-float", "seek", "reencode-appendonly"}

// c11Read reads every sample of the chunk list in the given mode. Mode "reuse" returns two
// decodings per integer sample (AtHistogram and AtFloatHistogram into recycled objects); the
// caller compares both against the same expectation (dup=true entries repeat the position).
func c11Read(chunks []Chunk, mode string, ts []int64) (got []c11Got, dup []c11Got, err error) {
	switch mode {
	case "next-nil", "from-bytes-as-float":
		// fresh iterator per chunk, fresh objects; everything is collected first and decoded
		// only after all iterators are exhausted (returned objects must stay valid).
		// from-bytes-as-float: the chunk is rebuilt from a copy of its bytes (as after m-mapping)
		// and integer samples are read through AtFloatHistogram.
		var ih []*histogram.Histogram
		var fh []*histogram.FloatHistogram
		var order []bool
		var tt []int64
		for _, c := range chunks {
			if mode == "from-bytes-as-float" {
				b := append([]byte(nil), c.Bytes()...)
				if c, err = FromData(c.Encoding(), b); err != nil {
					return nil, nil, err
				}
			}
			it := c.Iterator(nil)
			for vt := it.Next(); vt != ValNone; vt = it.Next() {
				if vt == ValFloatHistogram || mode == "from-bytes-as-float" {
					t, h := it.AtFloatHistogram(nil)
					fh, tt, order = append(fh, h), append(tt, t), append(order, true)
				} else {
					t, h := it.AtHistogram(nil)
					ih, tt, order = append(ih, h), append(tt, t), append(order, false)
				}
			}
			if err := it.Err(); err != nil {
				return nil, nil, err
			}
		}
		for i, f := range order {
			if f {
				got = append(got, c11Got{T: tt[i], M: histmodel.FromFloat(fh[0])})
				fh = fh[1:]
			} else {
				got = append(got, c11Got{T: tt[i], M: histmodel.FromInt(ih[0])})
				ih = ih[1:]
			}
		}
	case "reuse":
		// one iterator recycled over all chunks, one histogram object of each kind recycled over
		// all samples; integer samples are read both ways at every position.
		var it Iterator
		hb, fb := &histogram.Histogram{}, &histogram.FloatHistogram{}
		for _, c := range chunks {
			it = c.Iterator(it)
			for vt := it.Next(); vt != ValNone; vt = it.Next() {
				var t int64
				if vt == ValHistogram {
					t, hb = it.AtHistogram(hb)
					got = append(got, c11Got{T: t, M: histmodel.FromInt(hb)})
				}
				t, fb = it.AtFloatHistogram(fb)
				if vt == ValHistogram {
					dup = append(dup, c11Got{T: t, M: histmodel.FromFloat(fb)})
				} else {
					m := histmodel.FromFloat(fb)
					got, dup = append(got, c11Got{T: t, M: m}), append(dup, c11Got{T: t, M: m})
				}
			}
			if err := it.Err(); err != nil {
				return nil, nil, err
			}
		}
	case "seek":
		// every sample reached by Seek(t) on a fresh iterator of the first chunk that has one.
		for _, t := range ts {
			found := false
			for _, c := range chunks {
				it := c.Iterator(nil)
				vt := it.Seek(t)
				if vt == ValNone {
					if err := it.Err(); err != nil {
						return nil, nil, err
					}
					continue
				}
				if vt == ValFloatHistogram {
					tg, h := it.AtFloatHistogram(nil)
					got = append(got, c11Got{T: tg, M: histmodel.FromFloat(h)})
				} else {
					tg, h := it.AtHistogram(nil)
					got = append(got, c11Got{T: tg, M: histmodel.FromInt(h)})
				}
				found = true
				break
			}
			if !found {
				return got, nil, nil // the sample-count mismatch is reported by the comparison
			}
		}
	case "reencode-appendonly":
		// every chunk re-encoded sample by sample in append-only mode, as the block querier does
		// for a chunk it has to rewrite; the rewritten chunks are then read.
		var re []Chunk
		for _, c := range chunks {
			nc, err := NewEmptyChunk(c.Encoding())
			if err != nil {
				return nil, nil, err
			}
			app, err := nc.Appender()
			if err != nil {
				return nil, nil, err
			}
			it := c.Iterator(nil)
			for vt := it.Next(); vt != ValNone; vt = it.Next() {
				st := it.AtST()
				if vt == ValFloatHistogram {
					t, h := it.AtFloatHistogram(nil)
					_, _, app, err = app.AppendFloatHistogram(nil, st, t, h, true)
				} else {
					t, h := it.AtHistogram(nil)
					_, _, app, err = app.AppendHistogram(nil, st, t, h, true)
				}
				if err != nil {
					return nil, nil, fmt.Errorf("append-only re-encoding of a chunk's own samples refused: %w", err)
				}
			}
			if err := it.Err(); err != nil {
				return nil, nil, err
			}
			re = append(re, nc)
		}
		return c11Read(re, "next-nil", ts)
	default:
		panic(mode)
	}
	return got, dup, nil
}

type c11Case struct {
	Part  string   `json:"part"` // "a"
	Alpha string   `json:"alpha"`
	Seq   []string `json:"seq"`
	Cfg   c11Cfg   `json:"cfg"`
}

// c11Run executes one (sequence, configuration) case; returns the event string (outcome).
func c11Run(r *vx.Run, alpha string, atoms []c11Atom, seq []int, cfg c11Cfg) string {
	rp := func() any {
		c := c11Case{Part: "a", Alpha: alpha, Cfg: cfg}
		for _, a := range seq {
			c.Seq = append(c.Seq, atoms[a].Name)
		}
		return c
	}
	ser := &c11Ser{st: cfg.ST > 0}
	var exp []c11Exp
	ints := map[int]*histogram.Histogram{}
	floats := map[int]*histogram.FloatHistogram{}
	type passed struct {
		a int
		h *histogram.Histogram
		f *histogram.FloatHistogram
	}
	var objs []passed
	callerChanged, negChanged := false, false
	markerJoined, gaugeMarkerJoined := false, false
	for i, ai := range seq {
		at := atoms[ai]
		var h *histogram.Histogram
		var fh *histogram.FloatHistogram
		if at.Float {
			if fh = floats[ai]; fh == nil || !cfg.Shared {
				fh = histalpha.CopyFloat(at.F)
				floats[ai] = fh
			}
		} else {
			if h = ints[ai]; h == nil || !cfg.Shared {
				h = histalpha.CopyInt(at.I)
				ints[ai] = h
			}
		}
		objs = append(objs, passed{ai, h, fh})
		var st int64
		if cfg.ST > 0 {
			st = c11STs[cfg.ST][i]
		}
		var err error
		p, stack := vx.Guard(func() {
			err = ser.append(at.Float, i > 0 && cfg.Mask&(1<<(i-1)) != 0, cfg.Reopen, st, c11Ts[i], h, fh)
		})
		if p != nil {
			r.Violation("chunkenc-append-panic", fmt.Sprintf("appending sample %d of %v (cfg %+v) panicked: %v\n%s", i, rp().(c11Case).Seq, cfg, p, c11Trim(stack)), rp())
			return "panic"
		}
		if err != nil {
			r.Violation("chunkenc-append-error", fmt.Sprintf("appending sample %d of %v (cfg %+v): %v", i, rp().(c11Case).Seq, cfg, err), rp())
			return "error"
		}
		exp = append(exp, c11Exp{T: c11Ts[i], M: at.M})
		if at.M.Stale && ser.chunks[len(ser.chunks)-1].NumSamples() >= 2 {
			// a staleness marker joined a chunk that already holds samples
			markerJoined = true
			gaugeMarkerJoined = gaugeMarkerJoined || at.M.Gauge
		}
	}
	// The caller's histograms remain semantically unchanged. (Checked once, after the last append:
	// every prefix of the sequence is a case of its own under the same configuration.)
	for j, o := range objs {
		var now *histmodel.H
		var layoutChanged bool
		if o.f != nil {
			now = histmodel.FromFloat(o.f)
			layoutChanged = len(o.f.PositiveBuckets) != len(atoms[o.a].F.PositiveBuckets) || len(o.f.NegativeBuckets) != len(atoms[o.a].F.NegativeBuckets)
			negChanged = negChanged || len(o.f.NegativeBuckets) != len(atoms[o.a].F.NegativeBuckets)
		} else {
			now = histmodel.FromInt(o.h)
			layoutChanged = len(o.h.PositiveBuckets) != len(atoms[o.a].I.PositiveBuckets) || len(o.h.NegativeBuckets) != len(atoms[o.a].I.NegativeBuckets)
			negChanged = negChanged || len(o.h.NegativeBuckets) != len(atoms[o.a].I.NegativeBuckets)
		}
		callerChanged = callerChanged || layoutChanged
		want := atoms[o.a].M
		d := ""
		if !histalpha.Same(want, now) {
			d = histmodel.Diff(want, now, 0)
		}
		if d == "" && want.Gauge != now.Gauge {
			d = fmt.Sprintf("gauge %v vs %v", want.Gauge, now.Gauge)
		}
		if d != "" {
			r.Violation("chunkenc-caller-histogram-changed", fmt.Sprintf("after appending %v (cfg %+v, events %s) the caller's histogram passed as sample %d differs: %s; before %s after %s", rp().(c11Case).Seq, cfg, ser.events, j, d, want, now), rp())
		}
	}
	for _, mode := range c11Modes {
		var got, dup []c11Got
		var err error
		p, stack := vx.Guard(func() { got, dup, err = c11Read(ser.chunks, mode, c11Ts[:len(seq)]) })
		if p != nil {
			r.Violation("chunkenc-"+mode+"-panic", fmt.Sprintf("reading %v (cfg %+v, events %s) panicked: %v\n%s", rp().(c11Case).Seq, cfg, ser.events, p, c11Trim(stack)), rp())
			continue
		}
		if err != nil {
			r.Violation("chunkenc-"+mode+"-error", fmt.Sprintf("reading %v (cfg %+v, events %s): %v", rp().(c11Case).Seq, cfg, ser.events, err), rp())
			continue
		}
		if what, msg := c11Compare(exp, got); what != "" {
			r.Violation("chunkenc-"+mode+"-"+what, fmt.Sprintf("sequence %v (cfg %+v, events %s, %d chunks): %s", rp().(c11Case).Seq, cfg, ser.events, len(ser.chunks), msg), rp())
		}
		if dup != nil {
			if what, msg := c11Compare(exp, dup); what != "" {
				r.Violation("chunkenc-"+mode+"-as-float-"+what, fmt.Sprintf("sequence %v (cfg %+v, events %s, %d chunks): %s", rp().(c11Case).Seq, cfg, ser.events, len(ser.chunks), msg), rp())
			}
		}
	}
	ev := string(ser.events)
	if callerChanged {
		ev += "+B"
	}
	if negChanged {
		ev += "n"
	}
	if markerJoined {
		ev += "+S"
	}
	if gaugeMarkerJoined {
		ev += "g"
	}
	return ev
}

func c11Trim(stack string) string {
	if len(stack) > 1500 {
		return stack[:1500]
	}
	return stack
}

// c11Cfgs enumerates the configurations explored for sequences of length n.
func c11Cfgs(n int, sts []int, allMasks bool, reopens []bool) []c11Cfg {
	var out []c11Cfg
	masks := []int{0}
	if n > 1 {
		if allMasks {
			masks = nil
			for m := 0; m < 1<<(n-1); m++ {
				masks = append(masks, m)
			}
		} else {
			masks = []int{0, 1<<(n-1) - 1}
		}
	}
	for _, st := range sts {
		for _, m := range masks {
			for _, ro := range reopens {
				out = append(out, c11Cfg{ST: st, Mask: m, Reopen: ro})
			}
		}
	}
	return out
}

func c11HasRepeat(seq []int) bool {
	for i := range seq {
		for j := 0; j < i; j++ {
			if seq[i] == seq[j] {
				return true
			}
		}
	}
	return false
}

func c11SelfTest(t *testing.T, full []c11Atom) {
	// (1) every atom decodes to its specification and deep copies keep the layout.
	for _, a := range full {
		var m *histmodel.H
		if a.Float {
			c := histalpha.CopyFloat(a.F)
			m = histmodel.FromFloat(c)
			if err := c.Validate(); err != nil && !a.M.Stale {
				t.Fatalf("self-test: shape %s invalid: %v", a.Name, err)
			}
		} else {
			c := histalpha.CopyInt(a.I)
			m = histmodel.FromInt(c)
			if err := c.Validate(); err != nil && !a.M.Stale {
				t.Fatalf("self-test: shape %s invalid: %v", a.Name, err)
			}
		}
		if d := histmodel.Diff(a.M, m, 0); d != "" {
			t.Fatalf("self-test: atom %s does not decode to its model: %s", a.Name, d)
		}
	}
	// (2) the oracle rejects wrong answers: a lost bucket, a lost stale marker, a lost sample.
	var grown, stale *c11Atom
	for i := range full {
		if strings.HasPrefix(full[i].Name, "e03-s0-grown/") && !full[i].Float {
			grown = &full[i]
		}
		if strings.HasPrefix(full[i].Name, "e29-stale/") && !full[i].Float {
			stale = &full[i]
		}
	}
	if grown == nil || stale == nil {
		t.Fatal("self-test: shapes missing")
	}
	bad := histalpha.CopyInt(grown.I)
	bad.PositiveBuckets[len(bad.PositiveBuckets)-1]-- // one observation lost in the last bucket
	exp := []c11Exp{{1000, grown.M}, {1015, stale.M}}
	ok := []c11Got{{1000, histmodel.FromInt(grown.I)}, {1015, histmodel.FromInt(&histogram.Histogram{Sum: math.Float64frombits(0x7ff0000000000002)})}}
	if what, _ := c11Compare(exp, ok); what != "" {
		t.Fatalf("self-test: oracle rejects a faithful read-back: %s", what)
	}
	for name, g := range map[string][]c11Got{
		"lost-bucket":    {{1000, histmodel.FromInt(bad)}, ok[1]},
		"lost-stale":     {ok[0], {1015, histmodel.FromInt(&histogram.Histogram{Sum: math.NaN()})}},
		"lost-sample":    {ok[0]},
		"shifted-time":   {ok[0], {1016, ok[1].M}},
		"spurious-stale": {{1000, ok[1].M}, ok[1]},
	} {
		if what, _ := c11Compare(exp, g); what == "" {
			t.Fatalf("self-test: oracle accepts the wrong answer %q", name)
		}
	}
}

func TestVerifC11a(t *testing.T) {
	r := vx.Start(t, "C11", "exploration")
	defer r.Finish()
	full := histalpha.Atoms(c11FullShapes())
	small := histalpha.Atoms(histalpha.SmallShapes())
	stale := histalpha.Atoms(c11StaleShapes())
	alphas := map[string][]c11Atom{"full": full, "small": small, "stale": stale, "one": histalpha.OnePerShape(c11FullShapes())}

	if r.Replay != "" {
		var c c11Case
		r.LoadReplay(&c)
		atoms, ok := alphas[c.Alpha]
		if !ok || c.Part != "a" {
			fmt.Println("replay is not for part (a)")
			return
		}
		var seq []int
		for _, n := range c.Seq {
			for i, a := range atoms {
				if a.Name == n {
					seq = append(seq, i)
				}
			}
		}
		if len(seq) != len(c.Seq) {
			t.Fatalf("replay: unknown atom in %v", c.Seq)
		}
		fmt.Println("events:", c11Run(r, c.Alpha, atoms, seq, c.Cfg))
		return
	}
	c11SelfTest(t, full)
	c11SelfTest(t, append(stale[:len(stale):len(stale)], full...))

	var evals, seqs, nRecode, nCut, nBack, nBackNeg, nNontrivial, nMarker, nGaugeMarker atomic.Int64
	var outcomes sync.Map
	type phase struct {
		alpha          string
		minLen, maxLen int
		cfgs           func(n int) []c11Cfg
	}
	allST := []int{0, 1, 2, 3}
	both := []bool{false, true}
	var phases []phase
	if r.Quick() {
		phases = []phase{
			// every configuration on everything up to length 2 and on the small alphabet up to length 3
			{"full", 1, 2, func(n int) []c11Cfg { return c11Cfgs(n, allST, true, both) }},
			// what may share a chunk with a staleness marker: every kind of marker between two
			// compatible histograms of every kind of series, all configurations
			{"stale", 3, 3, func(n int) []c11Cfg { return c11Cfgs(n, allST, true, both) }},
			{"small", 3, 3, func(n int) []c11Cfg { return c11Cfgs(n, allST, true, both) }},
			// length 3 over one atom per shape (int when integral, else float), plain and one
			// start-timestamp configuration (thorough: all 122 atoms under 10 configurations)
			{"one", 3, 3, func(n int) []c11Cfg {
				return []c11Cfg{{ST: 0, Mask: 0}, {ST: 2, Mask: 0, Reopen: true}}
			}},
		}
	} else {
		phases = []phase{
			{"full", 1, 2, func(n int) []c11Cfg { return c11Cfgs(n, allST, true, both) }},
			{"stale", 3, 3, func(n int) []c11Cfg { return c11Cfgs(n, allST, true, both) }},
			{"small", 3, 3, func(n int) []c11Cfg { return c11Cfgs(n, allST, true, both) }},
			{"stale", 4, 4, func(n int) []c11Cfg { return c11Cfgs(n, []int{0, 2}, true, []bool{false}) }},
			// length 3 over the full alphabet: plain encodings with no cut / a cut before the second
			// / before the third sample, and one start-timestamp encoding with the appender
			// re-opened before every append
			{"full", 3, 3, func(n int) []c11Cfg {
				return []c11Cfg{{ST: 0, Mask: 0}, {ST: 0, Mask: 1}, {ST: 0, Mask: 2}, {ST: 2, Mask: 0, Reopen: true}}
			}},
			{"small", 4, 4, func(n int) []c11Cfg { return c11Cfgs(n, []int{0}, true, []bool{false}) }},
		}
	}
	var phaseDesc []string
	depthDone := map[string]int{}
	for _, ph := range phases {
		atoms := alphas[ph.alpha]
		total := vx.SeqCount(len(atoms), ph.minLen, ph.maxLen)
		ncfg := 0
		r.ParallelN(total, func(i int64) {
			seq := vx.SeqAt(len(atoms), ph.minLen, ph.maxLen, i, nil)
			cfgs := ph.cfgs(len(seq))
			if c11HasRepeat(seq) {
				// the same object appended again: only meaningful when an atom repeats
				for _, c := range cfgs[:len(cfgs):len(cfgs)] {
					c.Shared = true
					cfgs = append(cfgs, c)
				}
			}
			nontrivial := false
			for _, cfg := range cfgs {
				ev := c11Run(r, ph.alpha, atoms, seq, cfg)
				if _, seen := outcomes.LoadOrStore(ev, true); !seen {
					r.Distinct("distinct_outcomes", ev)
				}
				if strings.ContainsAny(ev, "RNB") {
					nontrivial = true
				}
				if strings.Contains(ev, "R") {
					nRecode.Add(1)
				}
				if strings.Contains(ev, "N") {
					nCut.Add(1)
				}
				if strings.Contains(ev, "B") {
					nBack.Add(1)
				}
				if strings.Contains(ev, "Bn") {
					nBackNeg.Add(1)
				}
				if strings.Contains(ev, "+S") {
					nMarker.Add(1)
				}
				if strings.Contains(ev, "+Sg") {
					nGaugeMarker.Add(1)
				}
			}
			if nontrivial {
				nNontrivial.Add(1)
			}
			evals.Add(int64(len(cfgs)))
			k := seqs.Add(1)
			r.SampleAt(k, func() any {
				c := c11Case{Part: "a", Alpha: ph.alpha, Cfg: cfgs[len(cfgs)-1]}
				for _, a := range seq {
					c.Seq = append(c.Seq, atoms[a].Name)
				}
				return map[string]any{"part": "a", "case": c, "configs_run": len(cfgs)}
			})
		})
		ncfg = len(ph.cfgs(ph.maxLen))
		phaseDesc = append(phaseDesc, fmt.Sprintf("%s alphabet (%d atoms) length %d..%d x %d configurations at the longest length", ph.alpha, len(atoms), ph.minLen, ph.maxLen, ncfg))
		if r.Expired() {
			break
		}
		if ph.maxLen > depthDone[ph.alpha] {
			depthDone[ph.alpha] = ph.maxLen
		}
	}
	r.Count("evaluations", int(evals.Load()))
	r.Count("distinct_nontrivial", int(nNontrivial.Load()))
	r.Count("cases_with_recode", int(nRecode.Load()))
	r.Count("cases_with_appender_cut", int(nCut.Load()))
	r.Count("cases_with_backward_insert_into_caller_histogram", int(nBack.Load()))
	r.Count("cases_with_backward_insert_on_negative_side", int(nBackNeg.Load()))
	r.Count("cases_with_marker_joining_a_chunk", int(nMarker.Load()))
	r.Count("cases_with_gauge_marker_joining_a_chunk", int(nGaugeMarker.Load()))
	r.Count("sequences_chunkenc", int(seqs.Load()))
	r.Set("depth_completed_chunkenc", depthDone)
	r.Set("phases_chunkenc", phaseDesc)
	r.Set("rule", "part (a): every sequence of atoms (histmodel shape x int|float; full = core shapes + 9 derived gauge, padded, grown and shifted variants + the gauge-hinted staleness marker, one = the same shapes with one representation each, small = 14 colliding shapes, stale = the staleness-interplay alphabet: two chunk-sharing shapes for each of a counter and a gauge series, a custom-bucket gauge, and 6 kinds of staleness marker - bare with unknown / gauge / reset / no-reset hint, with buckets left in place with unknown / gauge hint) up to the stated length, each run under every listed configuration (plain or start-timestamp chunk encoding with 3 ST patterns, forced chunk cut before any subset of samples, appender re-opened before every append, repeated atoms re-appending the same object) through AppendHistogram/AppendFloatHistogram with the head's new-chunk/recode/prevApp protocol, read back in 5 passes (fresh iterators and objects kept until the end; one recycled iterator and recycled objects with integer samples read both as int and as float; chunks rebuilt from a copy of their bytes and read as float; Seek to every timestamp; append-only re-encoding of every chunk) and compared with histmodel at every timestamp; the caller's objects are re-decoded after the last append (every prefix is a case of its own). distinct_nontrivial counts the enumerated sequences (distinct by construction: no sequence is enumerated twice) in which an appender recoded the chunk, cut a chunk itself, or inserted empty buckets into the caller's histogram; cases in which a staleness marker (a gauge-hinted one) joined a non-empty chunk are counted separately and must occur. Parts (b)-(d): see rule_head.")
	r.Assume("histmodel (decode + semantic equality) is the trusted reference; shapes are valid histograms by construction (Validate() checked in the self-test)")
	if !r.TooManyViolations() && (nMarker.Load() == 0 || nGaugeMarker.Load() == 0) {
		// the full alphabet at length 2 (always completed) already contains these cases
		t.Fatalf("vacuous: staleness marker joined a non-empty chunk in %d cases, a gauge-hinted one in %d", nMarker.Load(), nGaugeMarker.Load())
	}
	if !r.Expired() && (r.Get("cases_with_recode") == 0 || r.Get("cases_with_appender_cut") == 0 || r.Get("cases_with_backward_insert_into_caller_histogram") == 0 || r.Get("cases_with_backward_insert_on_negative_side") == 0) {
		t.Fatalf("vacuous: recode=%d appender cuts=%d backward inserts=%d", r.Get("cases_with_recode"), r.Get("cases_with_appender_cut"), r.Get("cases_with_backward_insert_into_caller_histogram"))
	}
}
