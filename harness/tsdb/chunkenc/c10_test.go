package chunkenc

// C10: float chunks (XOR, XOR2) return exactly what was appended.
//
// For strictly increasing timestamps within +-2^62, any float64 bit patterns and (XOR2) any start
// timestamps, iterating returns the appended (st, t, v) triples bit for bit; this also holds when
// appending resumes on a chunk reloaded from its bytes; Seek(t) lands on the first sample with
// timestamp >= t (or stays where it is when the current sample already satisfies that).
//
// Engine E1, bounded-exhaustive enumeration in several parts (all deterministic odometers):
//   short  - every sequence of 1..3 samples over the per-position product (t0 | first delta | delta
//            of delta at every encoder bucket edge +-1) x (value bit patterns that move the XOR
//            leading/trailing window, stale NaN, -0, NaN payloads) x (start-time patterns:
//            none / same / first-known / encoder ST-delta at bucket edges / extremes); 4 (thorough 5)
//            samples over a reduced product.
//   dod    - EVERY delta-of-delta value of the packed classes (quick: all of +-8200 and the
//            neighbourhoods of the 17/20-bit edges; thorough: all of +-524300) as the third..tenth
//            sample, at every bit alignment, with/without following data, value same/changed/stale,
//            ST off/on.
//   stdod  - EVERY ST delta in +-2100 (thorough +-140000) and the edges of the larger varbit
//            classes, fused with each timestamp/value control path, at every bit alignment.
//   cycle  - periodic sequences of 260 samples (beyond the 127-sample ST header limit and the
//            120/240 usual chunk sizes) over all cycles of period <=2 (thorough 3) of an atom
//            alphabet; first ST change at every interesting index; 65535-sample (capacity) chunks.
//   seek   - all tiny sequences x all Next-prefixes x all targets x all second targets.
// Every case is read back through Iterator (reused and fresh, from the object and from a copy of
// its bytes); the short/cycle cases are also rebuilt with the appender re-opened before every
// sample position (same object / FromData(copy of Bytes()) / Pool.Get / after Compact()), and
// every Seek(t) for t in sample times +-1 after every Next prefix.
//
// Oracle: identity on the appended triples (XOR has no ST: 0 expected), Seek by the definition
// above; nothing is derived from the encoded bytes.

import (
	"fmt"
	"hash/fnv"
	"math"
	"os"
	"strings"
	"sync"
	"sync/atomic"
	"testing"

	"github.com/prometheus/prometheus/internal/verif/vx"
)

type c10S struct {
	ST int64  `json:"st"`
	T  int64  `json:"t"`
	V  uint64 `json:"vbits"`
}

const (
	c10MaxT = int64(1) << 62

	c10Stale = uint64(0x7ff0000000000002)
	c10One   = uint64(0x3ff0000000000000)
	c10Two   = uint64(0x4000000000000000)
	c10Three = uint64(0x4008000000000000)
)

const (
	c10RNone = iota
	c10RSame
	c10RBytes
	c10RPool
	c10RCompact
)

var c10ModeNames = []string{"", "reopen-same-object", "reopen-from-bytes", "reopen-from-pool", "compact"}

func c10EncName(e Encoding) string {
	if e == EncXOR {
		return "xor"
	}
	return "xor2"
}

// ---------------------------------------------------------------------------
// executor + oracle
// ---------------------------------------------------------------------------

type c10W struct {
	pool Pool
	its  [8]Iterator // re-used iterators, by encoding
	f    []int
	ss   []c10S
	tg   []int64
}

var c10Pool = sync.Pool{New: func() any { return &c10W{pool: NewPool()} }}

type c10Fail struct{ sig, msg string }

func c10Clone(b []byte) []byte { return append(make([]byte, 0, len(b)), b...) }

// build appends ss to a fresh chunk; before sample i (i>0) the appender is re-opened in the given
// mode when at == i or at < 0 (every position).
func (w *c10W) build(enc Encoding, ss []c10S, mode, at int) (Chunk, *c10Fail) {
	c, err := NewEmptyChunk(enc)
	if err != nil {
		return nil, &c10Fail{"new-chunk-error", err.Error()}
	}
	app, err := c.Appender()
	if err != nil {
		return nil, &c10Fail{"appender-error", err.Error()}
	}
	for i, s := range ss {
		if i > 0 && mode != c10RNone && (at < 0 || at == i) {
			switch mode {
			case c10RSame:
				app, err = c.Appender()
			case c10RBytes:
				c, err = FromData(enc, c10Clone(c.Bytes()))
				if err == nil {
					app, err = c.Appender()
				}
			case c10RPool:
				b := c10Clone(c.Bytes())
				_ = w.pool.Put(c)
				c, err = w.pool.Get(enc, b)
				if err == nil {
					app, err = c.Appender()
				}
			case c10RCompact:
				c.Compact()
			}
			if err != nil {
				return nil, &c10Fail{"appender-error", fmt.Sprintf("re-opening the appender before sample %d: %v", i, err)}
			}
		}
		app.Append(s.ST, s.T, math.Float64frombits(s.V))
	}
	return c, nil
}

func c10Want(enc Encoding, s c10S) c10S {
	if enc == EncXOR {
		s.ST = 0 // the XOR encoding has no start timestamps
	}
	return s
}

// c10At compares the iterator's current sample with the expectation.
func c10At(it Iterator, enc Encoding, want c10S, i int) *c10Fail {
	want = c10Want(enc, want)
	t, v := it.At()
	if t != want.T || it.AtT() != want.T {
		return &c10Fail{"t-mismatch", fmt.Sprintf("sample %d: appended t=%d, read At().t=%d AtT()=%d", i, want.T, t, it.AtT())}
	}
	if math.Float64bits(v) != want.V {
		return &c10Fail{"v-mismatch", fmt.Sprintf("sample %d (t=%d): appended value bits %016x, read %016x", i, want.T, want.V, math.Float64bits(v))}
	}
	if st := it.AtST(); st != want.ST {
		return &c10Fail{"st-mismatch", fmt.Sprintf("sample %d (t=%d): appended st=%d, read st=%d", i, want.T, want.ST, st)}
	}
	return nil
}

// c10Walk expects the iterator to deliver ss[from:upto] next and, when upto == len(ss), the end.
func c10Walk(it Iterator, enc Encoding, ss []c10S, from, upto int) *c10Fail {
	for i := from; i < upto; i++ {
		if vt := it.Next(); vt != ValFloat {
			return &c10Fail{"iter-ended-early", fmt.Sprintf("Next() = %v at sample %d of %d (Err: %v)", vt, i, len(ss), it.Err())}
		}
		if f := c10At(it, enc, ss[i], i); f != nil {
			return f
		}
	}
	if upto == len(ss) {
		if vt := it.Next(); vt != ValNone {
			t, v := it.At()
			return &c10Fail{"iter-extra-sample", fmt.Sprintf("Next() = %v after all %d samples (t=%d v=%016x)", vt, len(ss), t, math.Float64bits(v))}
		}
		if err := it.Err(); err != nil {
			return &c10Fail{"iter-error", fmt.Sprintf("Err() = %v after all %d samples", err, len(ss))}
		}
	}
	return nil
}

func (w *c10W) iter(c Chunk, enc Encoding) Iterator {
	it := c.Iterator(w.its[enc])
	w.its[enc] = it
	return it
}

// verify reads the whole chunk back (re-used iterator on the object; fresh iterator on a copy of the bytes).
func (w *c10W) verify(c Chunk, enc Encoding, ss []c10S, fromBytes bool) *c10Fail {
	if n := c.NumSamples(); n != len(ss) {
		return &c10Fail{"numsamples-mismatch", fmt.Sprintf("NumSamples() = %d after %d appends", n, len(ss))}
	}
	if f := c10Walk(w.iter(c, enc), enc, ss, 0, len(ss)); f != nil {
		return f
	}
	if fromBytes {
		c2, err := FromData(enc, c10Clone(c.Bytes()))
		if err != nil {
			return &c10Fail{"fromdata-error", err.Error()}
		}
		if f := c10Walk(c2.Iterator(nil), enc, ss, 0, len(ss)); f != nil {
			f.sig = "from-bytes/" + f.sig
			return f
		}
	}
	return nil
}

// c10FirstAtOrAfter is the reference for Seek: smallest index >= lo whose timestamp is >= t (len(ss) if none).
func c10FirstAtOrAfter(ss []c10S, lo int, t int64) int {
	if lo < 0 {
		lo = 0
	}
	for i := lo; i < len(ss); i++ {
		if ss[i].T >= t {
			return i
		}
	}
	return len(ss)
}

// seekOne: fresh iteration, k x Next, Seek(t1) [, Seek(t2)], then `cont` following samples (-1: to the end).
func (w *c10W) seekOne(c Chunk, enc Encoding, ss []c10S, k int, t1 int64, second bool, t2 int64, cont int) *c10Fail {
	it := w.iter(c, enc)
	for j := 0; j < k; j++ {
		if it.Next() != ValFloat {
			return &c10Fail{"iter-ended-early", fmt.Sprintf("Next() #%d failed before Seek (Err: %v)", j, it.Err())}
		}
	}
	pos := k - 1
	for round, t := range []int64{t1, t2} {
		if round == 1 && !second {
			break
		}
		exp := c10FirstAtOrAfter(ss, pos, t)
		vt := it.Seek(t)
		if exp == len(ss) {
			if vt != ValNone {
				at, _ := it.At()
				return &c10Fail{"seek-found-sample-beyond-end", fmt.Sprintf("after %d Next (seek round %d): Seek(%d) = %v at t=%d, but no sample at or after %d exists from position %d", k, round, t, vt, at, t, pos)}
			}
			if err := it.Err(); err != nil {
				return &c10Fail{"seek-error", fmt.Sprintf("Seek(%d) past the end: Err() = %v", t, err)}
			}
			return nil
		}
		if vt != ValFloat {
			return &c10Fail{"seek-missed-sample", fmt.Sprintf("after %d Next (seek round %d): Seek(%d) = %v (Err %v), expected to land on sample %d (t=%d)", k, round, t, vt, it.Err(), exp, ss[exp].T)}
		}
		if at := it.AtT(); at != ss[exp].T {
			return &c10Fail{"seek-wrong-landing", fmt.Sprintf("after %d Next (seek round %d): Seek(%d) landed on t=%d, expected sample %d (t=%d)", k, round, t, at, exp, ss[exp].T)}
		}
		if f := c10At(it, enc, ss[exp], exp); f != nil {
			f.sig = "seek/" + f.sig
			return f
		}
		pos = exp
	}
	upto := len(ss)
	if cont >= 0 && pos+1+cont < upto {
		upto = pos + 1 + cont
	}
	if f := c10Walk(it, enc, ss, pos+1, upto); f != nil {
		f.sig = "after-seek/" + f.sig
		return f
	}
	return nil
}

func (w *c10W) targets(ss []c10S) []int64 {
	tg := w.tg[:0]
	tg = append(tg, math.MinInt64)
	for _, s := range ss {
		tg = append(tg, s.T-1, s.T, s.T+1)
	}
	tg = append(tg, math.MaxInt64)
	w.tg = tg
	return tg
}

type c10Opts struct {
	reopenEach   bool  // single re-open before every position, every mode
	reopenEvery  bool  // re-open before EVERY sample in one build, every mode
	reopenAt     []int // single re-open (from bytes) before these positions only
	seekKs       []int // Next-prefix lengths before Seek (nil: none; [-1]: all 0..n)
	seekCont     int   // samples to check after landing (-1: all)
	seekDouble   bool
	verifyPrefix bool // also verify every prefix chunk while it grows
}

// check runs the whole oracle for one sample sequence; it returns the first failure and the chunk bytes.
func (w *c10W) check(enc Encoding, ss []c10S, o c10Opts) (fails []*c10Fail, bytes []byte) {
	c, f := w.build(enc, ss, c10RNone, 0)
	if f != nil {
		return []*c10Fail{f}, nil
	}
	bytes = c.Bytes()
	if f := w.verify(c, enc, ss, true); f != nil {
		// plain append/iterate is broken: the derived checks would only repeat it
		return []*c10Fail{f}, bytes
	}
	if o.verifyPrefix {
		for n := 1; n < len(ss); n++ {
			pc, f := w.build(enc, ss[:n], c10RNone, 0)
			if f == nil {
				f = w.verify(pc, enc, ss[:n], false)
			}
			if f != nil {
				f.sig = "prefix/" + f.sig
				fails = append(fails, f)
				break
			}
		}
	}
	redo := func(mode, at int) *c10Fail {
		rc, f := w.build(enc, ss, mode, at)
		if f == nil {
			f = w.verify(rc, enc, ss, mode == c10RCompact)
		}
		if f != nil {
			f.sig = c10ModeNames[mode] + "/" + f.sig
			where := "every sample"
			if at >= 0 {
				where = fmt.Sprintf("sample %d", at)
			}
			f.msg = fmt.Sprintf("[%s before %s] %s", c10ModeNames[mode], where, f.msg)
		}
		return f
	}
	// Each re-open mode is explored independently (a failure in one mode does not hide the others);
	// within a mode the first failing position is reported.
	var failed [c10RCompact + 1]bool
	try := func(mode, at int) {
		if failed[mode] {
			return
		}
		if f := redo(mode, at); f != nil {
			failed[mode] = true
			fails = append(fails, f)
		}
	}
	if o.reopenEach {
		for at := 1; at < len(ss); at++ {
			for mode := c10RSame; mode <= c10RCompact; mode++ {
				try(mode, at)
			}
		}
	}
	for _, at := range o.reopenAt {
		if at >= 1 && at < len(ss) {
			try(c10RBytes, at)
		}
	}
	if o.reopenEvery && len(ss) > 2 {
		for mode := c10RSame; mode <= c10RCompact; mode++ {
			try(mode, -1)
		}
	}
	if o.seekKs != nil {
		ks := o.seekKs
		if len(ks) == 1 && ks[0] == -1 {
			ks = nil
			for k := 0; k <= len(ss); k++ {
				ks = append(ks, k)
			}
		}
		tg := w.targets(ss)
	seeks:
		for _, k := range ks {
			if k > len(ss) {
				continue
			}
			for _, t := range tg {
				if f := w.seekOne(c, enc, ss, k, t, false, 0, o.seekCont); f != nil {
					fails = append(fails, f)
					break seeks
				}
				if o.seekDouble {
					for _, t2 := range tg {
						if f := w.seekOne(c, enc, ss, k, t, true, t2, o.seekCont); f != nil {
							fails = append(fails, f)
							break seeks
						}
					}
				}
			}
		}
	}
	return fails, bytes
}

// ---------------------------------------------------------------------------
// start-timestamp atoms
// ---------------------------------------------------------------------------

// kind: 'z' st=0; 's' same as the previous sample's st (0 for the first); 'r' st = t-k;
// 'a' st = k; 'j' the st for which the encoder's ST delta field equals k (first sample: t-st = k;
// first change: prevT-st = k; later: (prevT-st) - (prevprevT-prevst) = k).
type c10STAtom struct {
	kind byte
	k    int64
}

func c10STOf(a c10STAtom, prev []c10S, t int64) int64 {
	i := len(prev)
	switch a.kind {
	case 'z':
		return 0
	case 's':
		if i == 0 {
			return 0
		}
		return prev[i-1].ST
	case 'r':
		return t - a.k
	case 'a':
		return a.k
	}
	// 'j'
	if i == 0 {
		return t - a.k
	}
	changed := i-1 >= maxFirstSTChangeOn
	for j := 1; j < i && !changed; j++ {
		changed = prev[j].ST != prev[j-1].ST
	}
	if !changed || i < 2 {
		return prev[i-1].T - a.k
	}
	prevDiff := prev[i-2].T - prev[i-1].ST
	return prev[i-1].T - (prevDiff + a.k)
}

// ---------------------------------------------------------------------------
// parts
// ---------------------------------------------------------------------------

type c10Part struct {
	name     string
	count    int64
	trackMod int64 // record the chunk-bytes hash of every trackMod-th case
	gen      func(w *c10W, i int64) (enc Encoding, ss []c10S, o c10Opts, ok bool)
}

// ---- short sequences -------------------------------------------------------------

type c10Alpha struct {
	t0, d1, dod []int64
	v0, v       []uint64
	st0, st1, st []c10STAtom
}

var (
	c10VAll = []uint64{
		c10One, c10One + 1, c10Two, c10Stale, 1 << 63, 1,
		0xfff8000000000abc, 0x7ff8000000000001, 0, 0x7ff0000000000000, 0x7fefffffffffffff, math.MaxUint64,
	}
	c10DodXOR2 = []int64{0, 1, -1, 4095, 4096, -4096, -4097, 524287, 524288, -524288, -524289, 1 << 40, -(1 << 40), 4094, -4095, 524286, -524287, 1 << 61}
	c10DodXOR  = []int64{0, 1, -1, 8192, 8193, -8191, -8192, 65536, 65537, -65535, -65536, 524288, 524289, -524287, -524288, 1 << 40, -(1 << 40), 8191, -8190, 1 << 61}
	c10STEdges = []c10STAtom{
		{'s', 0}, {'z', 0}, {'j', 0}, {'j', 1}, {'j', -3}, {'j', 4}, {'j', 5}, {'j', -4}, {'j', 32}, {'j', 33}, {'j', -31}, {'j', -32},
		{'j', 256}, {'j', 257}, {'j', -255}, {'j', -256}, {'j', 2048}, {'j', 2049}, {'j', -2047}, {'j', -2048},
		{'a', math.MaxInt64}, {'a', math.MinInt64}, {'r', 0}, {'j', 1 << 40},
	}
)

func c10ShortAlpha(enc Encoding, level int) *c10Alpha {
	// level 0: reduced (4 samples, thorough), 4: smaller reduced (4 samples, quick), 1: quick full, 2: thorough full, 3: tiny (longest sequences)
	a := &c10Alpha{}
	dods := c10DodXOR2
	if enc == EncXOR {
		dods = c10DodXOR
	}
	switch level {
	case 0:
		a.t0 = []int64{0, -c10MaxT}
		a.d1 = []int64{600000, 1 << 41}
		a.dod = []int64{0, 1, dods[4], dods[5], -(1 << 40)}
		a.v0 = []uint64{c10One, c10Stale}
		a.v = []uint64{c10One, c10One + 1, c10Two, c10Stale}
		a.st0 = []c10STAtom{{'z', 0}, {'r', 5}}
		a.st1 = []c10STAtom{{'s', 0}, {'z', 0}, {'j', 33}}
		a.st = []c10STAtom{{'s', 0}, {'j', 0}, {'j', -4}, {'a', math.MaxInt64}}
	case 1:
		a.t0 = []int64{0, -c10MaxT, c10MaxT - (1 << 42)}
		a.d1 = []int64{1, 600000, 1 << 41}
		a.dod = []int64{0, 1, -1, 4095, 4096, -4096, -4097, 524288, -524289}
		if enc == EncXOR {
			a.dod = []int64{0, 1, -1, 8192, 8193, -8191, -8192, 65536, -65536, 524288, -524288}
		}
		a.v0 = []uint64{c10One, c10Stale, 1}
		a.v = []uint64{c10One, c10One + 1, c10Stale, 1 << 63}
		a.st0 = []c10STAtom{{'z', 0}, {'r', 5}, {'a', math.MinInt64}}
		a.st1 = []c10STAtom{{'s', 0}, {'z', 0}, {'j', 1}, {'j', -256}}
		a.st = []c10STAtom{{'s', 0}, {'z', 0}, {'j', 0}, {'j', -4}, {'j', 33}, {'a', math.MaxInt64}}
	case 4:
		a.t0 = []int64{0, -c10MaxT}
		a.d1 = []int64{600000, 1 << 41}
		a.dod = []int64{0, dods[4], dods[5], -(1 << 40)}
		a.v0 = []uint64{c10One, c10Stale}
		a.v = []uint64{c10One, c10Two, c10Stale}
		a.st0 = []c10STAtom{{'z', 0}, {'r', 5}}
		a.st1 = []c10STAtom{{'s', 0}, {'z', 0}, {'j', 33}}
		a.st = []c10STAtom{{'s', 0}, {'j', -4}, {'a', math.MaxInt64}}
	case 3:
		a.t0 = []int64{0, -c10MaxT}
		a.d1 = []int64{600000, 1 << 41}
		a.dod = []int64{0, dods[4], -(1 << 40)}
		a.v0 = []uint64{c10One}
		a.v = []uint64{c10One, c10Two, c10Stale}
		a.st0 = []c10STAtom{{'z', 0}, {'r', 5}}
		a.st1 = []c10STAtom{{'s', 0}, {'j', 33}}
		a.st = []c10STAtom{{'s', 0}, {'j', 1}, {'z', 0}}
	default:
		a.t0 = []int64{0, -c10MaxT, 1700000000000, c10MaxT - (1 << 42)}
		a.d1 = []int64{1, 1000, 600000, 1 << 41}
		a.dod = dods
		a.v0 = []uint64{c10One, c10Stale, 1 << 63, 1}
		a.v = c10VAll[:7]
		a.st0 = []c10STAtom{{'z', 0}, {'r', 5}, {'a', math.MinInt64}}
		a.st1 = []c10STAtom{{'s', 0}, {'z', 0}, {'j', 1}, {'j', 5}, {'j', -256}, {'a', math.MaxInt64}}
		a.st = c10STEdges[:12]
	}
	if enc == EncXOR {
		a.st0, a.st1, a.st = []c10STAtom{{'z', 0}}, []c10STAtom{{'z', 0}}, []c10STAtom{{'z', 0}}
	}
	return a
}

func c10ShortPart(enc Encoding, n, level int, track int64) c10Part {
	a := c10ShortAlpha(enc, level)
	var dims []int
	for p := 0; p < n; p++ {
		switch p {
		case 0:
			dims = append(dims, len(a.t0), len(a.v0), len(a.st0))
		case 1:
			dims = append(dims, len(a.d1), len(a.v), len(a.st1))
		default:
			dims = append(dims, len(a.dod), len(a.v), len(a.st))
		}
	}
	return c10Part{
		name:     fmt.Sprintf("short/%s/n%d/L%d", c10EncName(enc), n, level),
		count:    vx.ProductSize(dims),
		trackMod: track,
		gen: func(w *c10W, i int64) (Encoding, []c10S, c10Opts, bool) {
			f := vx.ProductAt(dims, i, w.f)
			w.f = f
			ss := w.ss[:0]
			var t, delta int64
			for p := 0; p < n; p++ {
				ti, vi, si := f[3*p], f[3*p+1], f[3*p+2]
				var v uint64
				var sa c10STAtom
				switch p {
				case 0:
					t, v, sa = a.t0[ti], a.v0[vi], a.st0[si]
				case 1:
					delta = a.d1[ti]
					v, sa = a.v[vi], a.st1[si]
				default:
					delta += a.dod[ti]
					v, sa = a.v[vi], a.st[si]
				}
				if p > 0 {
					if delta <= 0 || t > c10MaxT-delta {
						w.ss = ss
						return enc, nil, c10Opts{}, false
					}
					t += delta
				}
				ss = append(ss, c10S{ST: c10STOf(sa, ss, t), T: t, V: v})
			}
			w.ss = ss
			return enc, ss, c10Opts{reopenEach: true, reopenEvery: true, seekKs: []int{-1}, seekCont: -1}, true
		},
	}
}

// ---- dod sweep --------------------------------------------------------------------------

const (
	c10T0   = int64(1_000_000_000_000)
	c10Base = int64(600000) // base delta; larger than every packed negative dod
)

func c10Range(lo, hi int64, out []int64) []int64 {
	for x := lo; x <= hi; x++ {
		out = append(out, x)
	}
	return out
}

func c10DodPart(enc Encoding, thorough bool) c10Part {
	var dods []int64
	if thorough {
		dods = c10Range(-524300, 524300, nil)
	} else {
		dods = c10Range(-4200, 4200, nil)
		for _, e := range []int64{8192, 65536, 524288} {
			dods = c10Range(e-8, e+8, dods)
			dods = c10Range(-e-8, -e+8, dods)
		}
	}
	dods = append(dods, 1<<40, -(1 << 40), 1<<61) // 64-bit escapes
	nST := 3
	if enc == EncXOR {
		nST = 1
	}
	shifts := 8
	if thorough {
		shifts = 2 // the full range is swept at two alignments; every alignment is covered by the edge list of the quick part
	}
	dims := []int{len(dods), shifts, 3, nST, 2}
	return c10Part{
		name:     fmt.Sprintf("dod/%s", c10EncName(enc)),
		count:    vx.ProductSize(dims),
		trackMod: 16,
		gen: func(w *c10W, i int64) (Encoding, []c10S, c10Opts, bool) {
			f := vx.ProductAt(dims, i, w.f)
			w.f = f
			dod, shift, variant, stMode, tail := dods[f[0]], f[1], f[2], f[3], f[4]
			ss := w.ss[:0]
			t, delta := c10T0, c10Base
			st := func(t, prevT int64) int64 {
				switch stMode {
				case 1:
					return t - 5 // ST delta field = -(dod) : both fields move together
				case 2:
					return prevT - 7 // constant ST delta field
				}
				return 0
			}
			ss = append(ss, c10S{ST: 0, T: t, V: c10One})
			for k := 0; k < 1+shift; k++ { // second sample + `shift` one/two-bit samples
				ss = append(ss, c10S{ST: st(t+delta, t), T: t + delta, V: c10One})
				t += delta
			}
			delta += dod
			if delta <= 0 {
				w.ss = ss
				return enc, nil, c10Opts{}, false
			}
			v := []uint64{c10One, c10Two, c10Stale}[variant]
			ss = append(ss, c10S{ST: st(t+delta, t), T: t + delta, V: v})
			t += delta
			test := len(ss) - 1
			if tail == 1 && delta < 1<<50 {
				// 2 samples with 64-bit escapes: >= 17 bytes after the sample under test, so the
				// reader takes its buffered fast paths on it.
				delta += 1 << 40
				ss = append(ss, c10S{ST: st(t+delta, t), T: t + delta, V: c10Three})
				t += delta
				delta -= 1 << 40
				ss = append(ss, c10S{ST: st(t+delta, t), T: t + delta, V: c10Three})
			}
			w.ss = ss
			return enc, ss, c10Opts{reopenAt: []int{test, test + 1}}, true
		},
	}
}

// ---- ST delta sweep (XOR2) ------------------------------------------------------------

func c10STDodPart(thorough bool) c10Part {
	var ks []int64
	if thorough {
		ks = c10Range(-20000, 20000, nil)
		ks = c10Range(131072-3, 131072+3, ks)
		ks = c10Range(-131072-3, -131072+3, ks)
	} else {
		ks = c10Range(-2100, 2100, nil)
		ks = c10Range(131072-3, 131072+3, ks)
		ks = c10Range(-131072-3, -131072+3, ks)
	}
	for _, e := range []int64{1 << 24, 1 << 55} {
		ks = c10Range(e-2, e+2, ks)
		ks = c10Range(-e-2, -e+2, ks)
	}
	ks = append(ks, math.MaxInt64, math.MinInt64, math.MaxInt64-1, math.MinInt64+1)
	type tv struct {
		dod int64
		v   uint64
	}
	tvs := []tv{{0, c10One}, {100, c10One}, {0, c10Two}, {300000, c10Two}, {0, c10Stale}, {-5000, c10One}, {1 << 40, c10One}}
	dims := []int{len(ks), len(tvs), 8, 2, 2}
	return c10Part{
		name:     "stdod/xor2",
		count:    vx.ProductSize(dims),
		trackMod: 16,
		gen: func(w *c10W, i int64) (Encoding, []c10S, c10Opts, bool) {
			f := vx.ProductAt(dims, i, w.f)
			w.f = f
			k, c, shift, tail, firstHere := ks[f[0]], tvs[f[1]], f[2], f[3], f[4] == 1
			ss := w.ss[:0]
			t, delta := c10T0, c10Base
			st0 := t - 9
			ss = append(ss, c10S{ST: st0, T: t, V: c10One})
			cur := int64(3) // running prevT-st once ST deltas are active
			for j := 0; j < 1+shift; j++ {
				s := c10S{T: t + delta, V: c10One, ST: st0}
				if !firstHere {
					s.ST = t - cur // first change on sample 1, afterwards constant difference (delta field 0)
				}
				ss = append(ss, s)
				t += delta
			}
			delta += c.dod
			s := c10S{T: t + delta, V: c.v}
			if firstHere {
				cur = k
			} else {
				cur += k
			}
			s.ST = t - cur
			ss = append(ss, s)
			t += delta
			test := len(ss) - 1
			if tail == 1 {
				delta += 1 << 40
				ss = append(ss, c10S{ST: t - cur, T: t + delta, V: c10Three})
				t += delta
				delta -= 1 << 40
				ss = append(ss, c10S{ST: t - cur, T: t + delta, V: c10Three})
			}
			w.ss = ss
			return EncXOR2, ss, c10Opts{reopenAt: []int{test, test + 1}}, true
		},
	}
}

// ---- periodic long sequences -------------------------------------------------------------

var (
	c10CycDeltas = []int64{15000, 15001, 1, 1 << 33}
	c10CycVals   = []byte{'c', 'i', 's'}     // constant 1.0 | float64(7*i) | stale marker
	c10CycSTs    = []byte{'z', 'r', 'k', 'j'} // 0 | t-5 | constant (first sample's t-5) | drifting
)

func c10CycSample(prev []c10S, atom [3]int, enc Encoding) c10S {
	i := len(prev)
	t := c10T0
	if i > 0 {
		t = prev[i-1].T + c10CycDeltas[atom[0]]
	}
	var v uint64
	switch c10CycVals[atom[1]] {
	case 'c':
		v = c10One
	case 'i':
		v = math.Float64bits(float64(7 * i))
	default:
		v = c10Stale
	}
	var st int64
	switch c10CycSTs[atom[2]] {
	case 'r':
		st = t - 5
	case 'k':
		st = c10T0 - 5
	case 'j':
		st = t - 5 - int64(i%7)*int64(i%3)
	}
	if enc == EncXOR {
		st = 0
	}
	return c10S{ST: st, T: t, V: v}
}

func c10LongOpts(n int, allPositions bool) c10Opts {
	if n > 2000 {
		return c10Opts{reopenAt: []int{1, 2, 3, 126, 127, 128, 129, n / 2, n - 1}}
	}
	// reopenEvery re-opens before every position in one build (each sample is then written by a
	// freshly reconstructed appender); single re-opens are tried at the listed positions.
	at := []int{1, 2, 3, 63, 64, 65, 126, 127, 128, 129, 130, 200, n - 2, n - 1}
	if allPositions {
		at = at[:0]
		for i := 1; i < n; i++ {
			at = append(at, i)
		}
	}
	return c10Opts{reopenAt: at, reopenEvery: true, seekKs: []int{0, n / 2}, seekCont: 1}
}

func c10CyclePart(enc Encoding, period, n int, allPositions bool) c10Part {
	nST := len(c10CycSTs)
	if enc == EncXOR {
		nST = 1
	}
	var dims []int
	for p := 0; p < period; p++ {
		dims = append(dims, len(c10CycDeltas), len(c10CycVals), nST)
	}
	return c10Part{
		name:     fmt.Sprintf("cycle/%s/p%d/n%d", c10EncName(enc), period, n),
		count:    vx.ProductSize(dims),
		trackMod: 1,
		gen: func(w *c10W, i int64) (Encoding, []c10S, c10Opts, bool) {
			f := append([]int{}, vx.ProductAt(dims, i, w.f)...)
			// a cycle that is a repetition of a shorter one was already covered by that period
			if period > 1 {
				rep := true
				for p := 1; p < period && rep; p++ {
					rep = f[3*p] == f[0] && f[3*p+1] == f[1] && f[3*p+2] == f[2]
				}
				if rep {
					return enc, nil, c10Opts{}, false
				}
			}
			ss := make([]c10S, 0, n)
			for j := 0; j < n; j++ {
				p := j % period
				ss = append(ss, c10CycSample(ss, [3]int{f[3*p], f[3*p+1], f[3*p+2]}, enc))
			}
			return enc, ss, c10LongOpts(n, allPositions), true
		},
	}
}

// first ST change at index F of a 260-sample chunk (the header can only name indices <= 127).
func c10FirstChangePart(n int, thorough bool) c10Part {
	fs := []int{1, 2, 3, 126, 127, 128, 129, 200, n - 1}
	after := []c10STAtom{{'r', 5}, {'j', 0}, {'j', 1}, {'z', 0}, {'a', 42}, {'j', -256}}
	nd, nv := 2, 2
	if thorough {
		nd, nv = len(c10CycDeltas), len(c10CycVals)
	}
	dims := []int{len(fs), len(after), nd, nv, 2}
	return c10Part{
		name:     fmt.Sprintf("firstchange/xor2/n%d", n),
		count:    vx.ProductSize(dims),
		trackMod: 1,
		gen: func(w *c10W, i int64) (Encoding, []c10S, c10Opts, bool) {
			f := append([]int{}, vx.ProductAt(dims, i, w.f)...)
			first, sa := fs[f[0]], after[f[1]]
			ss := make([]c10S, 0, n)
			for j := 0; j < n; j++ {
				s := c10CycSample(ss, [3]int{f[2], f[3], 0}, EncXOR2)
				switch {
				case j < first && f[4] == 1:
					s.ST = c10T0 - 5 // known and constant
				case j < first:
					s.ST = 0
				default:
					s.ST = c10STOf(sa, ss, s.T)
				}
				ss = append(ss, s)
			}
			return EncXOR2, ss, c10LongOpts(n, thorough), true
		},
	}
}

// ---- Seek semantics on tiny chunks ---------------------------------------------------------

func c10SeekPart(enc Encoding, n int) c10Part {
	t0s := []int64{-3, 0, -c10MaxT, math.MaxInt64/2 - 7}
	ds := []int64{1, 2, 1 << 61}
	dims := []int{len(t0s)}
	for p := 1; p < n; p++ {
		dims = append(dims, len(ds))
	}
	return c10Part{
		name:     fmt.Sprintf("seek/%s/n%d", c10EncName(enc), n),
		count:    vx.ProductSize(dims),
		trackMod: 1,
		gen: func(w *c10W, i int64) (Encoding, []c10S, c10Opts, bool) {
			f := vx.ProductAt(dims, i, w.f)
			w.f = f
			ss := w.ss[:0]
			t := t0s[f[0]]
			for p := 0; p < n; p++ {
				if p > 0 {
					d := ds[f[p]]
					if t > c10MaxT-d {
						w.ss = ss
						return enc, nil, c10Opts{}, false
					}
					t += d
				}
				if t > c10MaxT || t < -c10MaxT {
					w.ss = ss
					return enc, nil, c10Opts{}, false
				}
				st := t - 1
				if enc == EncXOR {
					st = 0
				}
				ss = append(ss, c10S{ST: st, T: t, V: math.Float64bits(float64(p))})
			}
			w.ss = ss
			return enc, ss, c10Opts{seekKs: []int{-1}, seekCont: -1, seekDouble: true}, true
		},
	}
}

// ---------------------------------------------------------------------------
// driver
// ---------------------------------------------------------------------------

type c10Replay struct {
	Part    string `json:"part"`
	Index   int64  `json:"index"`
	Enc     string `json:"encoding"`
	Samples []c10S `json:"samples,omitempty"`
}

func c10Parts(r *vx.Run) []c10Part {
	var ps []c10Part
	th := r.Thorough()
	for _, enc := range []Encoding{EncXOR, EncXOR2} {
		for n := 1; n <= vx.Pick(r, 4, 5); n++ {
			ps = append(ps, c10SeekPart(enc, n))
		}
		if enc == EncXOR {
			for n := 1; n <= 3; n++ {
				ps = append(ps, c10ShortPart(enc, n, 2, 1))
			}
			ps = append(ps, c10ShortPart(enc, 4, vx.Pick(r, 0, 1), 1), c10ShortPart(enc, 5, 0, 1))
			if th {
				ps = append(ps, c10ShortPart(enc, 6, 0, 16))
			}
		} else {
			for n := 1; n <= 3; n++ {
				ps = append(ps, c10ShortPart(enc, n, vx.Pick(r, 1, 2), vx.Pick[int64](r, 1, 16)))
			}
			ps = append(ps, c10ShortPart(enc, 4, vx.Pick(r, 4, 0), 1))
			if th {
				ps = append(ps, c10ShortPart(enc, 5, 3, 16))
			}
		}
		ps = append(ps, c10DodPart(enc, false))
		if th {
			ps = append(ps, c10DodPart(enc, true))
		}
		for p := 1; p <= vx.Pick(r, 2, 3); p++ {
			if enc == EncXOR2 && p == 3 {
				continue // 110k cycles x 260^2: left to period 3 on the XOR alphabet and period 2 here
			}
			ps = append(ps, c10CyclePart(enc, p, 260, th || p == 1))
		}
		ps = append(ps, c10CyclePart(enc, 1, math.MaxUint16, false))
	}
	ps = append(ps, c10STDodPart(false))
	if th {
		ps = append(ps, c10STDodPart(true))
	}
	ps = append(ps, c10FirstChangePart(260, th))
	// development aid: VERIF_C10_PARTS=<substring> restricts the run to matching parts (the run is
	// then marked non-exhaustive).
	if sel := os.Getenv("VERIF_C10_PARTS"); sel != "" {
		var keep []c10Part
		for _, p := range ps {
			if strings.Contains(p.name, sel) {
				keep = append(keep, p)
			}
		}
		r.NotExhaustive("VERIF_C10_PARTS=" + sel)
		return keep
	}
	return ps
}

func c10RunCase(r *vx.Run, p *c10Part, i int64) (ok bool, h uint64, outcome string) {
	w := c10Pool.Get().(*c10W)
	defer c10Pool.Put(w)
	var (
		enc   Encoding
		ss    []c10S
		fails []*c10Fail
		bytes []byte
		valid bool
	)
	pn, stack := vx.Guard(func() {
		var o c10Opts
		enc, ss, o, valid = p.gen(w, i)
		valid = valid && c10InStatement(ss)
		if valid {
			fails, bytes = w.check(enc, ss, o)
		}
	})
	if pn != nil {
		fails = []*c10Fail{{"panic", fmt.Sprintf("%v\n%s", pn, stack)}}
		*w = c10W{pool: NewPool()}
		valid = true
	}
	if !valid {
		return false, 0, ""
	}
	if len(fails) > 0 {
		rp := c10Replay{Part: p.name, Index: i, Enc: c10EncName(enc)}
		desc := fmt.Sprintf("%d samples", len(ss))
		if len(ss) <= 16 {
			rp.Samples = append([]c10S{}, ss...)
			desc = fmt.Sprintf("samples (st,t,vbits) %s", c10Desc(ss))
		}
		for _, fail := range fails {
			r.Violation(c10EncName(enc)+"/"+fail.sig, fmt.Sprintf("%s case %d, %s: %s", p.name, i, desc, fail.msg), rp)
		}
		return true, 0, "violation"
	}
	hh := fnv.New64a()
	hh.Write(bytes)
	stHdr := byte(0)
	if enc == EncXOR2 && len(bytes) > 2 {
		stHdr = bytes[2]
	}
	lb := len(bytes)
	if lb > 64 {
		lb = 64 + lb/64*64
	}
	return true, hh.Sum64(), fmt.Sprintf("%s n=%d bytes=%d sthdr=%02x", c10EncName(enc), len(ss), lb, stHdr)
}

// c10InStatement: the statement quantifies over strictly increasing timestamps within +-2^62.
func c10InStatement(ss []c10S) bool {
	for i, s := range ss {
		if s.T > c10MaxT || s.T < -c10MaxT || (i > 0 && s.T <= ss[i-1].T) {
			return false
		}
	}
	return len(ss) > 0
}

func c10Desc(ss []c10S) string {
	s := "["
	for i, x := range ss {
		if i > 0 {
			s += " "
		}
		s += fmt.Sprintf("(%d,%d,%016x)", x.ST, x.T, x.V)
	}
	return s + "]"
}

// fake iterator for the self-test: replays a list of samples, optionally wrongly.
type c10FakeIt struct {
	Iterator
	ss  []c10S
	i   int
	bug string
}

func (f *c10FakeIt) Next() ValueType {
	f.i++
	if f.bug == "skip" && f.i == 1 {
		f.i++
	}
	if f.i >= len(f.ss) {
		return ValNone
	}
	return ValFloat
}

func (f *c10FakeIt) Seek(t int64) ValueType {
	if f.bug == "seek-strict" {
		for f.i < 0 || (f.i < len(f.ss) && f.ss[f.i].T <= t) {
			f.i++
		}
	} else {
		for f.i < 0 || (f.i < len(f.ss) && f.ss[f.i].T < t) {
			f.i++
		}
	}
	if f.i >= len(f.ss) {
		return ValNone
	}
	return ValFloat
}
func (f *c10FakeIt) At() (int64, float64) { return f.ss[f.i].T, math.Float64frombits(f.vbits()) }
func (f *c10FakeIt) AtT() int64           { return f.ss[f.i].T }
func (f *c10FakeIt) Err() error           { return nil }
func (f *c10FakeIt) AtST() int64 {
	if f.bug == "st" {
		return 0
	}
	return f.ss[f.i].ST
}

func (f *c10FakeIt) vbits() uint64 {
	if f.bug == "negzero" && f.ss[f.i].V == 1<<63 {
		return 0
	}
	return f.ss[f.i].V
}

type c10FakeChunk struct {
	Chunk
	ss  []c10S
	bug string
}

func (c *c10FakeChunk) Iterator(Iterator) Iterator { return &c10FakeIt{ss: c.ss, i: -1, bug: c.bug} }

func c10SelfTest(t *testing.T) {
	ss := []c10S{{ST: 5, T: 10, V: 1 << 63}, {ST: 5, T: 20, V: c10Stale}, {ST: 7, T: 30, V: c10One}}
	for _, bug := range []string{"skip", "st", "negzero"} {
		if c10Walk(&c10FakeIt{ss: ss, i: -1, bug: bug}, EncXOR2, ss, 0, len(ss)) == nil {
			t.Fatalf("self-test: iteration oracle accepts a %q iterator", bug)
		}
	}
	if f := c10Walk(&c10FakeIt{ss: ss, i: -1}, EncXOR2, ss, 0, len(ss)); f != nil {
		t.Fatalf("self-test: iteration oracle rejects a correct iterator: %s", f.msg)
	}
	w := &c10W{pool: NewPool()}
	good, bad := 0, 0
	for k := 0; k <= 3; k++ {
		for _, tg := range w.targets(ss) {
			w.its = [8]Iterator{}
			if w.seekOne(&c10FakeChunk{ss: ss}, EncXOR2, ss, k, tg, false, 0, -1) != nil {
				t.Fatalf("self-test: seek oracle rejects a correct Seek (k=%d t=%d)", k, tg)
			}
			good++
			w.its = [8]Iterator{}
			if w.seekOne(&c10FakeChunk{ss: ss, bug: "seek-strict"}, EncXOR2, ss, k, tg, false, 0, -1) != nil {
				bad++
			}
		}
	}
	if bad == 0 {
		t.Fatal("self-test: seek oracle accepts a Seek that lands strictly after t")
	}
	if c10FirstAtOrAfter(ss, 0, 20) != 1 || c10FirstAtOrAfter(ss, 2, 5) != 2 || c10FirstAtOrAfter(ss, 0, 31) != 3 {
		t.Fatal("self-test: seek reference wrong")
	}
}

func TestVerifC10(t *testing.T) {
	r := vx.Start(t, "C10", "exploration")
	defer r.Finish()
	parts := c10Parts(r)

	if r.Replay != "" {
		var rp c10Replay
		r.LoadReplay(&rp)
		// the part list depends on the tier; try both
		for _, tier := range []string{r.Tier, "thorough", "quick"} {
			r.Tier = tier
			for _, p := range c10Parts(r) {
				if p.name == rp.Part && rp.Index < p.count {
					c10RunCase(r, &p, rp.Index)
					c10RunCase(r, &p, rp.Index)
					return
				}
			}
		}
		t.Fatalf("replay: unknown part %q", rp.Part)
	}

	c10SelfTest(t)

	var total int64
	var starts []int64
	sizes := map[string]int64{}
	for _, p := range parts {
		starts = append(starts, total)
		total += p.count
		sizes[p.name] = p.count
	}
	var nEval, nSkipped, nOutcomes atomic.Int64
	r.ParallelN(total, func(i int64) {
		// Interleave the parts so that a deadline cuts all of them proportionally... no: keep the
		// simple order (parts are listed cheapest and sharpest first).
		pi := len(parts) - 1
		for pi > 0 && starts[pi] > i {
			pi--
		}
		p := &parts[pi]
		idx := i - starts[pi]
		ok, h, outcome := c10RunCase(r, p, idx)
		if !ok {
			nSkipped.Add(1)
			return
		}
		n := nEval.Add(1)
		if outcome != "violation" {
			if r.Distinct("distinct_outcomes", outcome) {
				nOutcomes.Add(1)
			}
			if idx%p.trackMod == 0 {
				r.Distinct("distinct_nontrivial", fmt.Sprintf("%x", h))
			}
		}
		r.SampleAt(n, func() any {
			w := c10Pool.Get().(*c10W)
			defer c10Pool.Put(w)
			enc, ss, _, _ := p.gen(w, idx)
			if len(ss) > 8 {
				ss = ss[:8]
			}
			return map[string]any{"part": p.name, "index": idx, "encoding": c10EncName(enc), "first_samples_st_t_vbits": c10Desc(ss), "outcome": outcome}
		})
	})
	r.Count("evaluations", int(nEval.Load()))
	r.Count("skipped_invalid_combinations", int(nSkipped.Load()))
	if r.Violations() == 0 && nOutcomes.Load() < 2 {
		t.Fatalf("vacuous run: %d distinct outcomes over %d evaluations", nOutcomes.Load(), nEval.Load())
	}
	r.Set("part_sizes", sizes)
	r.Set("depth", vx.Pick(r, 4, 5))
	r.Set("rule", "one evaluation = one (encoding, sample sequence) case from the parts listed in part_sizes (index products; combinations whose timestamps would not be strictly increasing within +-2^62 are skipped and counted separately). Each case: build, read back via re-used and fresh iterators from the object and from a copy of Bytes(); short/cycle/firstchange cases are rebuilt with the appender re-opened before each position (same object, FromData(copy), Pool.Get(copy), after Compact) and before every position at once, and checked with Seek(t) for all t in {sample times +-1, int64 extremes} after every Next prefix; dod/stdod cases re-open from bytes before and after the sample under test. distinct_nontrivial = distinct encoded chunk byte strings (every case of the small parts, every 16th/64th case of the big sweeps: see trackMod in the harness); distinct_outcomes = distinct (encoding, sample count, chunk size bucket, ST header byte).")
	r.Assume("timestamps strictly increasing and within +-2^62 (as in the statement); XOR ignores start timestamps so AtST()=0 is expected there")
	r.Assume("Seek is not called after Next/Seek returned ValNone (behaviour of an exhausted iterator is outside the statement)")
	r.Assume("values/deltas between the enumerated boundary atoms are covered only by the dod/stdod sweeps")
}
