package tsdb

// C16: series selection and label-name/value queries follow matcher semantics (head, block,
// split and out-of-order data, limits, time ranges). Engine E1, bounded-exhaustive input
// enumeration on a real tsdb.DB against a label-set reference ("lblmodel": a label set is a
// list of sorted pairs, a matcher is evaluated with the standard regexp package).

import (
	"context"
	"fmt"
	"math"
	"os"
	"regexp"
	"sort"
	"strings"
	"sync/atomic"
	"testing"
	"time"

	"github.com/prometheus/prometheus/internal/verif/vx"
	"github.com/prometheus/prometheus/model/labels"
	"github.com/prometheus/prometheus/storage"
	"github.com/prometheus/prometheus/tsdb/chunkenc"
)

const (
	c16TBlock = 50   // sample time of block data (block [0,100))
	c16THead  = 1000 // sample time of in-order head data
	c16TOOO   = 900  // sample time of out-of-order head data
	c16W      = 200  // out-of-order window of the "ooo" placement
)

// ---- universe and reference model ----------------------------------------------------------

type c16Pair struct{ N, V string }

// c16LS is the reference label set: pairs sorted by name.
type c16LS []c16Pair

func (l c16LS) get(n string) string {
	for _, p := range l {
		if p.N == n {
			return p.V
		}
	}
	return "" // an absent label counts as the empty string
}

func (l c16LS) String() string {
	var sb strings.Builder
	for _, p := range l {
		sb.WriteString(p.N + "=" + p.V + ",")
	}
	return sb.String()
}

func c16Less(a, b c16LS) bool { // order of sorted label sets: pairwise by name then value, shorter first
	for i := 0; i < len(a) && i < len(b); i++ {
		if a[i].N != b[i].N {
			return a[i].N < b[i].N
		}
		if a[i].V != b[i].V {
			return a[i].V < b[i].V
		}
	}
	return len(a) < len(b)
}

type c16Univ struct {
	ref  []c16LS
	real []labels.Labels
	hash map[uint64]int
}

func c16Universe() *c16Univ {
	u := &c16Univ{hash: map[uint64]int{}}
	vals := []string{"", "1", "2"}
	// simplest first: fewer labels first
	for nl := 0; nl <= 2; nl++ {
		for _, name := range []string{"m", "n"} {
			for _, a := range vals {
				for _, b := range vals {
					k := 0
					if a != "" {
						k++
					}
					if b != "" {
						k++
					}
					if k != nl {
						continue
					}
					ls := c16LS{{"__name__", name}}
					if a != "" {
						ls = append(ls, c16Pair{"a", a})
					}
					if b != "" {
						ls = append(ls, c16Pair{"b", b})
					}
					var flat []string
					for _, p := range ls {
						flat = append(flat, p.N, p.V)
					}
					rl := labels.FromStrings(flat...)
					u.hash[rl.Hash()] = len(u.ref)
					u.ref = append(u.ref, ls)
					u.real = append(u.real, rl)
				}
			}
		}
	}
	if len(u.hash) != len(u.ref) {
		panic("c16: label hash collision in the universe")
	}
	return u
}

type c16Matcher struct {
	Name  string
	Type  labels.MatchType
	Value string
	m     *labels.Matcher
	tab   uint32 // bit u set: reference says the matcher accepts universe series u
}

var c16Names = []string{"a", "b", "c", "__name__"}
var c16Values = []string{"", "1", "1|2", ".*", ".+", "2.*", "x", "(1|)"}
var c16Types = []labels.MatchType{labels.MatchEqual, labels.MatchNotEqual, labels.MatchRegexp, labels.MatchNotRegexp}

var c16ReCache = map[string]*regexp.Regexp{}

// c16RefMatches is the reference matcher semantics.
func c16RefMatches(t labels.MatchType, pattern, v string) bool {
	switch t {
	case labels.MatchEqual:
		return v == pattern
	case labels.MatchNotEqual:
		return v != pattern
	}
	re := c16ReCache[pattern]
	if re == nil {
		panic("c16: regexp not precompiled: " + pattern)
	}
	if t == labels.MatchRegexp {
		return re.MatchString(v)
	}
	return !re.MatchString(v)
}

func c16Matchers(u *c16Univ) []c16Matcher {
	var out []c16Matcher
	for _, n := range c16Names {
		for _, v := range c16Values {
			if n == "__name__" { // the same value shapes over the metric names m,n
				v = strings.NewReplacer("1", "m", "2", "n").Replace(v)
			}
			if c16ReCache[v] == nil {
				c16ReCache[v] = regexp.MustCompile("^(?s:" + v + ")$")
			}
			for _, t := range c16Types {
				cm := c16Matcher{Name: n, Type: t, Value: v, m: labels.MustNewMatcher(t, n, v)}
				for i, ls := range u.ref {
					if c16RefMatches(t, v, ls.get(n)) {
						cm.tab |= 1 << uint(i)
					}
				}
				out = append(out, cm)
			}
		}
	}
	return out
}

func (m c16Matcher) String() string { return m.Name + m.Type.String() + `"` + m.Value + `"` }

// ---- stored data ----------------------------------------------------------------------------

type c16Sample struct {
	T    int64
	Kind string // "block" | "inorder" | "ooo"
}

var c16Placements = []string{"head", "block", "split", "ooo"}

// c16Layout says which samples the i-th stored series of a placement gets.
func c16Layout(placement string, i int) []c16Sample {
	switch placement {
	case "head":
		return []c16Sample{{c16THead, "inorder"}}
	case "block":
		return []c16Sample{{c16TBlock, "block"}}
	case "split":
		switch i % 3 {
		case 0:
			return []c16Sample{{c16TBlock, "block"}}
		case 1:
			return []c16Sample{{c16THead, "inorder"}}
		}
		return []c16Sample{{c16TBlock, "block"}, {c16THead, "inorder"}}
	case "ooo":
		switch {
		case i == 0:
			return []c16Sample{{c16THead, "inorder"}}
		case i%2 == 1:
			return []c16Sample{{c16TOOO, "ooo"}} // a series that exists only out-of-order
		}
		return []c16Sample{{c16THead, "inorder"}, {c16TOOO, "ooo"}}
	}
	panic("c16: placement " + placement)
}

type c16Range struct {
	Name       string
	Mint, Maxt int64
}

func c16Ranges(placement string) []c16Range {
	all := c16Range{"all", math.MinInt64, math.MaxInt64}
	switch placement {
	case "head":
		return []c16Range{all, {"hit", c16THead, c16THead}, {"below", 0, c16THead - 1}, {"above", c16THead + 1, 2000}}
	case "block":
		return []c16Range{all, {"hit", c16TBlock, c16TBlock}, {"inside-block-no-sample", c16TBlock + 1, 99}, {"above", 100, 2000}}
	case "split":
		return []c16Range{all, {"block-only", 0, 99}, {"head-only", c16THead, c16THead}, {"between", 100, c16THead - 1}, {"both", c16TBlock, c16THead}}
	case "ooo":
		return []c16Range{all, {"ooo-only", 850, 950}, {"inorder-only", c16THead, c16THead}, {"below", 0, 800}, {"both", c16TOOO, c16THead}}
	}
	panic("c16: placement " + placement)
}

type c16Store struct {
	dir     string
	db      *DB
	subset  []int
	samples [][]c16Sample // per stored series
	stored  uint32        // universe bitmask
}

func (s *c16Store) Close() {
	if s.db != nil {
		_ = s.db.Close()
	}
	os.RemoveAll(s.dir)
}

func c16Options(w int64) *Options {
	o := DefaultOptions()
	o.MinBlockDuration = 100
	o.MaxBlockDuration = 900
	o.MaxBlockChunkSegmentSize = 64 << 10 // segment files are pre-allocated to this size (default 512 MiB, real memory on tmpfs)
	o.WALSegmentSize = 2 * 32 * 1024
	o.StripeSize = 8
	o.NoLockfile = true
	o.HeadChunksWriteQueueSize = 0
	o.WALReplayConcurrency = 1
	o.HeadChunksWriteBufferSize = 64 * 1024
	o.RetentionDuration = 0
	o.OutOfOrderTimeWindow = w
	o.BlockReloadInterval = 1000 * time.Hour
	return o
}

func c16Build(u *c16Univ, subset []int, placement string) (*c16Store, error) {
	dir, err := os.MkdirTemp("", "c16")
	if err != nil {
		return nil, err
	}
	s := &c16Store{dir: dir, subset: append([]int{}, subset...)}
	w := int64(0)
	if placement == "ooo" {
		w = c16W
	}
	db, err := Open(dir, nil, nil, c16Options(w), nil)
	if err != nil {
		os.RemoveAll(dir)
		return nil, err
	}
	db.DisableCompactions()
	s.db = db
	for i, ui := range subset {
		s.samples = append(s.samples, c16Layout(placement, i))
		s.stored |= 1 << uint(ui)
	}
	ctx := context.Background()
	phase := func(kind string) error {
		app := db.Appender(ctx)
		n := 0
		for i, ui := range subset {
			for _, sm := range s.samples[i] {
				if sm.Kind != kind {
					continue
				}
				if _, err := app.Append(0, u.real[ui], sm.T, float64(ui)); err != nil {
					_ = app.Rollback()
					return fmt.Errorf("append %s t=%d (%s): %w", u.ref[ui], sm.T, kind, err)
				}
				n++
			}
		}
		if n == 0 {
			return app.Rollback()
		}
		return app.Commit()
	}
	if err := phase("block"); err != nil {
		s.Close()
		return nil, err
	}
	if db.Head().NumSeries() > 0 {
		if err := db.CompactHead(NewRangeHead(db.Head(), 0, 99)); err != nil {
			s.Close()
			return nil, fmt.Errorf("CompactHead: %w", err)
		}
		if len(db.Blocks()) != 1 || db.Head().NumSeries() != 0 {
			s.Close()
			return nil, fmt.Errorf("setup: expected 1 block and an empty head, got %d blocks, %d head series", len(db.Blocks()), db.Head().NumSeries())
		}
	}
	if err := phase("inorder"); err != nil {
		s.Close()
		return nil, err
	}
	if err := phase("ooo"); err != nil {
		s.Close()
		return nil, err
	}
	// the layout must be what the model believes (setup sanity, tool failure otherwise)
	wantOOO := false
	for _, ss := range s.samples {
		for _, sm := range ss {
			if sm.Kind == "ooo" {
				wantOOO = true
			}
		}
	}
	h := db.Head()
	if wantOOO && (h.MinOOOTime() != c16TOOO || h.MaxOOOTime() != c16TOOO || h.MinTime() != c16THead) {
		s.Close()
		return nil, fmt.Errorf("setup: out-of-order layout not as planned: head [%d,%d] ooo [%d,%d]", h.MinTime(), h.MaxTime(), h.MinOOOTime(), h.MaxOOOTime())
	}
	return s, nil
}

// ---- oracle ---------------------------------------------------------------------------------

type c16Case struct {
	Subset    []int  `json:"subset"`
	Placement string `json:"placement"`
	Range     string `json:"range"`
	Matchers  []int  `json:"matchers"`
	Text      string `json:"text,omitempty"`
}

type c16Ctx struct {
	r     *vx.Run
	u     *c16Univ
	ms    []c16Matcher
	local map[string]struct{}
	outc  map[string]struct{}
	nq    int64
	nOut  *atomic.Int64
}

// inRange: stored series (bitmask over the universe) having a sample inside [mint,maxt];
// oooOnly: the range holds stored samples, all of them out-of-order head samples, and does not
// touch the in-order head range.
func (s *c16Store) inRange(rg c16Range) (mask uint32, oooOnly bool) {
	n, nOOO := 0, 0
	touchesInorder := false
	for i, ui := range s.subset {
		for _, sm := range s.samples[i] {
			if sm.T >= rg.Mint && sm.T <= rg.Maxt {
				mask |= 1 << uint(ui)
				n++
				if sm.Kind == "ooo" {
					nOOO++
				}
			}
			if sm.Kind == "inorder" && sm.T >= rg.Mint && sm.T <= rg.Maxt {
				touchesInorder = true
			}
		}
	}
	return mask, n > 0 && n == nOOO && !touchesInorder
}

func c16SetStrings(u *c16Univ, mask uint32, f func(ls c16LS, add func(string))) []string {
	set := map[string]struct{}{}
	for i := range u.ref {
		if mask&(1<<uint(i)) != 0 {
			f(u.ref[i], func(s string) { set[s] = struct{}{} })
		}
	}
	out := make([]string, 0, len(set))
	for k := range set {
		out = append(out, k)
	}
	sort.Strings(out)
	return out
}

// c16CheckStrings: got must be sorted, duplicate-free, contain every element of must and only
// elements of may. Returns "" or the failure class.
func c16CheckStrings(got, must, may []string) string {
	for i := 1; i < len(got); i++ {
		if got[i] == got[i-1] {
			return "duplicate"
		}
		if got[i] < got[i-1] {
			return "unsorted"
		}
	}
	in := func(l []string, s string) bool {
		i := sort.SearchStrings(l, s)
		return i < len(l) && l[i] == s
	}
	for _, g := range got {
		if !in(may, g) {
			return "extra"
		}
	}
	gs := append([]string{}, got...)
	sort.Strings(gs)
	for _, m := range must {
		if !in(gs, m) {
			return "missing"
		}
	}
	return ""
}

// c16CheckLimited: with a limit N the result has min(N, |unlimited|) entries taken from the
// unlimited result (sorted, duplicate-free).
func c16CheckLimited(got, unlimited []string, limit int) string {
	if f := c16CheckStrings(got, nil, unlimited); f != "" {
		if f == "extra" {
			return "limited-not-from-unlimited"
		}
		return "limited-" + f
	}
	want := len(unlimited)
	if limit > 0 && limit < want {
		want = limit
	}
	if len(got) != want {
		return "limited-count"
	}
	return ""
}

// c16CheckSelect: got is the list of universe indices in the order returned.
func c16CheckSelect(u *c16Univ, got []int, must, may uint32, sorted bool) string {
	var seen uint32
	for i, g := range got {
		if seen&(1<<uint(g)) != 0 {
			return "select-duplicate-series"
		}
		seen |= 1 << uint(g)
		if may&(1<<uint(g)) == 0 {
			return "select-returns-non-matching-series"
		}
		if sorted && i > 0 && !c16Less(u.ref[got[i-1]], u.ref[g]) {
			return "select-not-sorted"
		}
	}
	if must&^seen != 0 {
		return "select-misses-matching-series"
	}
	return ""
}

type c16Opts struct {
	Limits   []int
	Unsorted bool
	Chunked  bool
}

func (c *c16Ctx) viol(sig, msg string, s *c16Store, placement string, rg c16Range, ml []int) {
	var txt []string
	for _, i := range ml {
		txt = append(txt, c.ms[i].String())
	}
	var st []string
	for _, ui := range s.subset {
		st = append(st, "{"+c.u.ref[ui].String()+"}")
	}
	c.r.Violation(sig, fmt.Sprintf("%s; stored %s placement=%s range=%s[%d,%d] matchers={%s}", msg, strings.Join(st, " "), placement, rg.Name, rg.Mint, rg.Maxt, strings.Join(txt, ", ")),
		c16Case{Subset: s.subset, Placement: placement, Range: rg.Name, Matchers: ml, Text: strings.Join(txt, ", ")})
}

// runList evaluates one matcher list on one open querier.
func (c *c16Ctx) runList(s *c16Store, placement string, rg c16Range, q storage.Querier, cq storage.ChunkQuerier, ml []int, o c16Opts) {
	ctx := context.Background()
	match := s.stored
	real := make([]*labels.Matcher, len(ml))
	for k, i := range ml {
		match &= c.ms[i].tab
		real[k] = c.ms[i].m
	}
	inr, oooOnly := s.inRange(rg)
	must := match & inr
	may := match
	fresh := func() []*labels.Matcher { return append([]*labels.Matcher{}, real...) } // the callee may reorder its argument

	// --- Select (needs at least one matcher: see assumptions)
	if len(ml) > 0 {
		for _, sorted := range []bool{true, false} {
			if !sorted && !o.Unsorted {
				continue
			}
			var got []int
			bad := ""
			ss := q.Select(ctx, sorted, nil, fresh()...)
			for ss.Next() {
				sr := ss.At()
				ls := sr.Labels()
				ui, ok := c.u.hash[ls.Hash()]
				if !ok || !labels.Equal(c.u.real[ui], ls) {
					bad = "select-returns-unknown-series: " + ls.String()
					break
				}
				got = append(got, ui)
				if must&(1<<uint(ui)) != 0 {
					n := 0
					it := sr.Iterator(nil)
					for it.Next() != chunkenc.ValNone {
						if t := it.AtT(); t < rg.Mint || t > rg.Maxt {
							bad = fmt.Sprintf("select-sample-outside-range: %s t=%d", ls.String(), t)
						}
						n++
					}
					if it.Err() != nil {
						bad = "select-iterator-error: " + it.Err().Error()
					}
					if n == 0 && bad == "" {
						bad = "select-series-without-its-sample: " + ls.String()
					}
				}
			}
			c.nq++
			if err := ss.Err(); err != nil {
				c.viol("select-error", "Select returned error "+err.Error(), s, placement, rg, ml)
				continue
			}
			if bad != "" {
				c.viol(strings.SplitN(bad, ":", 2)[0], bad, s, placement, rg, ml)
				continue
			}
			if f := c16CheckSelect(c.u, got, must, may, sorted); f != "" {
				c.viol(f, fmt.Sprintf("Select(sorted=%v) returned %v (universe indices); must contain mask %b, may contain mask %b", sorted, got, must, may), s, placement, rg, ml)
			}
			if sorted {
				c.note(ml, must, may, got)
			}
		}
		if o.Chunked && cq != nil {
			var got []int
			ss := cq.Select(ctx, true, nil, fresh()...)
			bad := ""
			for ss.Next() {
				ls := ss.At().Labels()
				ui, ok := c.u.hash[ls.Hash()]
				if !ok || !labels.Equal(c.u.real[ui], ls) {
					bad = "select-returns-unknown-series: " + ls.String()
					break
				}
				got = append(got, ui)
			}
			c.nq++
			if err := ss.Err(); err != nil {
				c.viol("select-error", "ChunkQuerier.Select returned error "+err.Error(), s, placement, rg, ml)
			} else if bad != "" {
				c.viol(strings.SplitN(bad, ":", 2)[0], "ChunkQuerier: "+bad, s, placement, rg, ml)
			} else if f := c16CheckSelect(c.u, got, must, may, true); f != "" {
				c.viol("chunk-"+f, fmt.Sprintf("ChunkQuerier.Select returned %v (universe indices); must contain mask %b, may contain mask %b", got, must, may), s, placement, rg, ml)
			}
		}
	}

	// --- label names
	mustN := c16SetStrings(c.u, must, func(ls c16LS, add func(string)) {
		for _, p := range ls {
			add(p.N)
		}
	})
	mayN := c16SetStrings(c.u, may, func(ls c16LS, add func(string)) {
		for _, p := range ls {
			add(p.N)
		}
	})
	lq := func(what string, mustL, mayL []string, call func(h *storage.LabelHints) ([]string, error)) {
		var unlimited []string
		okUnlimited := false
		for _, lim := range o.Limits {
			got, err := call(&storage.LabelHints{Limit: lim})
			c.nq++
			if err != nil {
				c.viol(what+"-error", fmt.Sprintf("%s(limit %d) returned error %v", what, lim, err), s, placement, rg, ml)
				continue
			}
			if lim == 0 {
				f := c16CheckStrings(got, mustL, mayL)
				if f == "missing" && oooOnly && len(got) == 0 {
					// Known-finding class: precondition = the queried range holds only out-of-order head
					// samples (and does not touch the in-order head range) and the answer is empty.
					c.viol(what+"-empty-for-ooo-only-range", fmt.Sprintf("%s returned nothing, although Select over the same range returns series; want at least %v", what, mustL), s, placement, rg, ml)
				} else if f != "" {
					c.viol(what+"-"+f, fmt.Sprintf("%s(no limit) returned %v; must contain %v, may contain %v", what, got, mustL, mayL), s, placement, rg, ml)
				} else {
					unlimited, okUnlimited = got, true
					c.outc[what+":"+strings.Join(got, ",")] = struct{}{}
				}
				continue
			}
			if !okUnlimited {
				continue
			}
			if f := c16CheckLimited(got, unlimited, lim); f != "" {
				c.viol(what+"-"+f, fmt.Sprintf("%s(limit %d) returned %v; unlimited result %v", what, lim, got, unlimited), s, placement, rg, ml)
			}
		}
	}
	lq("label-names", mustN, mayN, func(h *storage.LabelHints) ([]string, error) {
		got, _, err := q.LabelNames(ctx, h, fresh()...)
		return got, err
	})
	for _, name := range c16Names {
		vals := func(ls c16LS, add func(string)) {
			if v := ls.get(name); v != "" {
				add(v)
			}
		}
		lq("label-values", c16SetStrings(c.u, must, vals), c16SetStrings(c.u, may, vals), func(h *storage.LabelHints) ([]string, error) {
			got, _, err := q.LabelValues(ctx, name, h, fresh()...)
			return got, err
		})
	}
}

// note records coverage items locally (flushed per unit to keep lock traffic low).
func (c *c16Ctx) note(ml []int, must, may uint32, got []int) {
	if must != 0 {
		key := fmt.Sprint(ml, must)
		if len(ml) >= 3 { // keep the distinct set small: matcher shapes only
			var sh []string
			for _, i := range ml {
				sh = append(sh, c.ms[i].Name+c.ms[i].Type.String())
			}
			key = fmt.Sprint(sh, must)
		}
		c.local[key] = struct{}{}
	}
	c.outc[fmt.Sprint("select:", got)] = struct{}{}
}

func (c *c16Ctx) flush() {
	for k := range c.local {
		c.r.Distinct("distinct_nontrivial", k)
	}
	for k := range c.outc {
		if c.r.Distinct("distinct_outcomes", k) {
			c.nOut.Add(1)
		}
	}
	c.r.Count("evaluations", int(c.nq))
	c.local, c.outc, c.nq = map[string]struct{}{}, map[string]struct{}{}, 0
}

// ---- enumeration ------------------------------------------------------------------------------

// c16ListAt enumerates matcher lists of exactly n entries as multisets (i<=j<=k), the order of
// the entries rotated by the index sum so that both orders occur across the space.
func c16ListCount(a, n int) int64 {
	switch n {
	case 0:
		return 1
	case 1:
		return int64(a)
	case 2:
		return int64(a) * int64(a+1) / 2
	case 3:
		return int64(a) * int64(a+1) * int64(a+2) / 6
	}
	panic("c16: list length")
}

func c16ForLists(a, n int, f func(ml []int) bool) {
	switch n {
	case 0:
		f(nil)
	case 1:
		for i := 0; i < a; i++ {
			if !f([]int{i}) {
				return
			}
		}
	case 2:
		for i := 0; i < a; i++ {
			for j := i; j < a; j++ {
				ml := []int{i, j}
				if (i+j)%2 == 1 {
					ml = []int{j, i}
				}
				if !f(ml) {
					return
				}
			}
		}
	case 3:
		for i := 0; i < a; i++ {
			for j := i; j < a; j++ {
				for k := j; k < a; k++ {
					ml := []int{i, j, k}
					switch (i + j + k) % 3 {
					case 1:
						ml = []int{k, i, j}
					case 2:
						ml = []int{j, k, i}
					}
					if !f(ml) {
						return
					}
				}
			}
		}
	}
}

type c16Layer struct {
	Name       string
	SetMax     int  // every subset of <= SetMax universe series ...
	Full       bool // ... plus the full universe
	ListLens   []int
	Placements []string
	AllRanges  bool // false: only "all" and, for the ooo placement, "ooo-only"
	Opts       c16Opts
}

type c16Unit struct {
	layer     int
	subset    []int
	placement string
}

func c16Plan(r *vx.Run) []c16Layer {
	mem, disk, all := []string{"head", "ooo"}, []string{"block", "split"}, c16Placements
	fullOpts := c16Opts{Limits: []int{0, 1, 2}, Unsorted: true, Chunked: true}
	if r.Quick() {
		return []c16Layer{
			{Name: "singles/head", SetMax: 3, Full: true, ListLens: []int{0, 1}, Placements: mem, AllRanges: true, Opts: fullOpts},
			{Name: "singles/block", SetMax: 2, Full: true, ListLens: []int{0, 1}, Placements: disk, AllRanges: true, Opts: fullOpts},
			{Name: "pairs", SetMax: 1, Full: true, ListLens: []int{2}, Placements: all, AllRanges: false, Opts: c16Opts{Limits: []int{0, 1}}},
		}
	}
	return []c16Layer{
		{Name: "singles/head", SetMax: 4, Full: true, ListLens: []int{0, 1}, Placements: mem, AllRanges: true, Opts: fullOpts},
		{Name: "singles/block", SetMax: 3, Full: true, ListLens: []int{0, 1}, Placements: disk, AllRanges: true, Opts: fullOpts},
		{Name: "pairs", SetMax: 2, Full: true, ListLens: []int{2}, Placements: all, AllRanges: false, Opts: c16Opts{Limits: []int{0, 1, 2}}},
		{Name: "triples", SetMax: 1, Full: true, ListLens: []int{3}, Placements: []string{"head", "block"}, AllRanges: false, Opts: c16Opts{Limits: []int{0}}},
		{Name: "triples/full", SetMax: -1, Full: true, ListLens: []int{3}, Placements: []string{"split", "ooo"}, AllRanges: false, Opts: c16Opts{Limits: []int{0}}},
	}
}

func (c *c16Ctx) runUnit(l c16Layer, subset []int, placement string, only *c16Case) {
	s, err := c16Build(c.u, subset, placement)
	if err != nil {
		c.r.T.Errorf("c16: building store %v/%s: %v", subset, placement, err)
		return
	}
	defer s.Close()
	defer c.flush()
	for _, rg := range c16Ranges(placement) {
		if !l.AllRanges && rg.Name != "all" && rg.Name != "ooo-only" {
			continue
		}
		if only != nil && only.Range != rg.Name {
			continue
		}
		q, err := s.db.Querier(rg.Mint, rg.Maxt)
		if err != nil {
			c.viol("querier-error", err.Error(), s, placement, rg, nil)
			continue
		}
		var cq storage.ChunkQuerier
		if l.Opts.Chunked {
			cq, err = s.db.ChunkQuerier(rg.Mint, rg.Maxt)
			if err != nil {
				c.viol("querier-error", err.Error(), s, placement, rg, nil)
			}
		}
		opts := l.Opts
		if rg.Name != "all" && rg.Name != "ooo-only" { // secondary ranges: unlimited queries only
			opts = c16Opts{Limits: []int{0}, Chunked: l.Opts.Chunked}
		}
		if only != nil {
			c.runList(s, placement, rg, q, cq, only.Matchers, opts)
		} else {
			for _, n := range l.ListLens {
				k := 0
				c16ForLists(len(c.ms), n, func(ml []int) bool {
					p, stack := vx.Guard(func() { c.runList(s, placement, rg, q, cq, ml, opts) })
					if p != nil {
						c.viol("query-panic", fmt.Sprintf("panic %v\n%s", p, stack), s, placement, rg, ml)
					}
					k++
					return k%256 != 0 || !c.r.Expired()
				})
			}
		}
		_ = q.Close()
		if cq != nil {
			_ = cq.Close()
		}
	}
}

func c16SelfTest(t *testing.T, u *c16Univ, ms []c16Matcher) {
	// reference semantics: an absent label is the empty string
	find := func(s string) c16Matcher {
		for _, m := range ms {
			if m.String() == s {
				return m
			}
		}
		t.Fatalf("self-test: no matcher %s", s)
		return c16Matcher{}
	}
	var noA, withA1 int
	for i, ls := range u.ref {
		if ls.get("a") == "" {
			noA |= 1 << uint(i)
		}
		if ls.get("a") == "1" {
			withA1 |= 1 << uint(i)
		}
	}
	if find(`a=""`).tab != uint32(noA) || find(`a!=""`).tab != ^uint32(noA)&(1<<uint(len(u.ref))-1) || find(`a=~"(1|)"`).tab != uint32(noA|withA1) || find(`c!~".+"`).tab != 1<<uint(len(u.ref))-1 {
		t.Fatal("self-test: reference matcher semantics wrong")
	}
	// the oracles reject wrong answers
	if c16CheckSelect(u, []int{0}, 0b11, 0b11, true) != "select-misses-matching-series" ||
		c16CheckSelect(u, []int{0, 2}, 0b1, 0b11, true) != "select-returns-non-matching-series" ||
		c16CheckSelect(u, []int{1, 0}, 0b11, 0b11, true) != "select-not-sorted" ||
		c16CheckSelect(u, []int{1, 1}, 0b10, 0b10, false) != "select-duplicate-series" ||
		c16CheckSelect(u, []int{1, 0}, 0b11, 0b11, false) != "" {
		t.Fatal("self-test: select oracle accepts a wrong answer")
	}
	if c16CheckStrings([]string{"1"}, []string{"1", "2"}, []string{"1", "2"}) != "missing" ||
		c16CheckStrings([]string{"1", "3"}, []string{"1"}, []string{"1", "2"}) != "extra" ||
		c16CheckStrings([]string{"2", "1"}, nil, []string{"1", "2"}) != "unsorted" ||
		c16CheckStrings([]string{"1", "1"}, nil, []string{"1", "2"}) != "duplicate" ||
		c16CheckLimited([]string{"1", "2"}, []string{"1", "2", "3"}, 1) != "limited-count" ||
		c16CheckLimited([]string{"4"}, []string{"1", "2", "3"}, 1) != "limited-not-from-unlimited" ||
		c16CheckLimited([]string{"2"}, []string{"1", "2", "3"}, 1) != "" ||
		c16CheckLimited(nil, []string{"1"}, 1) != "limited-count" {
		t.Fatal("self-test: label oracle accepts a wrong answer")
	}
}

func TestVerifC16(t *testing.T) {
	r := vx.Start(t, "C16", "exploration")
	defer r.Finish()
	u := c16Universe()
	ms := c16Matchers(u)
	var nOut atomic.Int64
	newCtx := func() *c16Ctx {
		return &c16Ctx{r: r, u: u, ms: ms, local: map[string]struct{}{}, outc: map[string]struct{}{}, nOut: &nOut}
	}
	full := make([]int, len(u.ref))
	for i := range full {
		full[i] = i
	}
	if r.Replay != "" {
		var rp c16Case
		r.LoadReplay(&rp)
		if strings.HasPrefix(rp.Placement, "card-") {
			newCtx().c16RunCard(rp.Subset[0], strings.TrimPrefix(rp.Placement, "card-"))
			return
		}
		l := c16Layer{AllRanges: true, Opts: c16Opts{Limits: []int{0, 1, 2}, Unsorted: true, Chunked: true}}
		newCtx().runUnit(l, rp.Subset, rp.Placement, &rp)
		return
	}
	c16SelfTest(t, u, ms)
	// high-cardinality part (serial, cheap): one label with 31..97 values in a block and in the head
	for _, n := range c16CardSizes {
		for _, p := range []string{"block", "head"} {
			newCtx().c16RunCard(n, p)
		}
	}
	r.Set("cardinality_cases", fmt.Sprintf("label v with %v distinct values x {block, head}: Select for every value, 20 single matchers, 8 pairs; LabelValues (limits 0,1,33) and LabelNames with each list", c16CardSizes))
	layers := c16Plan(r)
	var units []c16Unit
	var planned int64
	for li, l := range layers {
		var sets [][]int
		if l.SetMax >= 0 {
			vx.Subsets(len(u.ref), l.SetMax, func(idx []int) bool {
				sets = append(sets, append([]int{}, idx...))
				return true
			})
		}
		if l.Full {
			sets = append(sets, full)
		}
		for _, s := range sets {
			for _, p := range l.Placements {
				units = append(units, c16Unit{li, s, p})
				for _, n := range l.ListLens {
					planned += c16ListCount(len(ms), n)
				}
			}
		}
	}
	var done atomic.Int64
	r.ParallelN(int64(len(units)), func(i int64) {
		un := units[i]
		c := newCtx()
		c.runUnit(layers[un.layer], un.subset, un.placement, nil)
		k := done.Add(1)
		r.SampleAt(k, func() any {
			var st []string
			for _, ui := range un.subset {
				st = append(st, u.ref[ui].String())
			}
			return map[string]any{"layer": layers[un.layer].Name, "stored": st, "placement": un.placement, "matcher_lists": "all lists of the layer's lengths", "ranges": c16Ranges(un.placement)}
		})
	})
	r.Count("units_done", int(done.Load()))
	r.Set("units_planned", len(units))
	r.Set("matcher_lists_x_stores_planned", planned)
	r.Set("universe_series", len(u.ref))
	r.Set("matcher_alphabet", len(ms))
	r.Set("layers", layers)
	r.Set("rule", "a unit = stored series set x placement (head | block | split head/block | in-order + out-of-order head); for every unit every matcher list of the layer (multisets over 128 matchers, entry order rotated by index sum) x time ranges is evaluated through DB.Querier: Select sorted/unsorted (+ChunkQuerier), LabelNames and LabelValues for names a,b,c,__name__ with limits; evaluations = queries issued; distinct_nontrivial = distinct (matcher list, expected non-empty series set) pairs (matcher shapes only for lists of 3); distinct_outcomes = distinct returned results")
	r.Assume("Select is called with at least one matcher (an empty matcher list selects nothing by design; every API entry point rejects it)")
	r.Assume("for __name__ the matcher values are the same shapes over the stored metric names (1->m, 2->n)")
	r.Assume("label queries: sandwich oracle from the statement - every name/value of a matching series with data in the range is required, any name/value of a stored matching series is allowed")
	if !r.Expired() && r.Violations() == 0 && done.Load() != int64(len(units)) {
		t.Fatalf("c16: %d of %d units done without deadline", done.Load(), len(units))
	}
	if r.Get("evaluations") == 0 || nOut.Load() < 2 {
		t.Fatalf("c16: vacuous run: %d evaluations, %d distinct outcomes", r.Get("evaluations"), nOut.Load())
	}
}
