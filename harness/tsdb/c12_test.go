package tsdb

// C12: counter-reset hints returned by queries are sound.
//
// Statement (checked literally on FULL-range results): whenever a returned counter histogram sample
// that is not a staleness marker is marked NotCounterReset, the preceding sample of that series in
// the same result exists, is a non-stale histogram with the same schema / zero threshold / custom
// bounds, and none of count, zero count or bucket counts decreased. Interpretation for
// range-restricted reads (recorded in level_note): the "preceding sample" of the FIRST returned
// sample is taken from the unrestricted result of the same querier (a read that starts mid-chunk
// legitimately returns a first sample that is already marked NotCounterReset).
//
// Engine E1 (sequence mode), two parts:
//   - TestVerifC12d: every sequence of counter atoms is one series of a real tsdb.DB, its samples
//     split over the in-order head, the out-of-order head (by append order) and two overlapping
//     blocks; read through DB.Querier / DB.ChunkQuerier (full range and every sub-range) live,
//     after OOO compaction, after vertical compaction of the overlapping blocks, after head
//     compaction and after a final vertical compaction.
//   - TestVerifC12m: every sequence placed into every combination of up to three overlapping
//     stores (duplicates allowed), merged with storage.NewMergeSeriesSet + ChainedSeriesMerge
//     (what DB.Querier uses) and storage.NewMergeChunkSeriesSet + NewCompactingChunkSeriesMerger
//     (what compaction uses), read by Next and by Seek to every timestamp.

import (
	"context"
	"fmt"
	"math"
	"os"
	"path/filepath"
	"sort"
	"strings"
	"sync"
	"sync/atomic"
	"testing"

	"github.com/prometheus/common/promslog"

	"github.com/prometheus/prometheus/internal/verif/histalpha"
	"github.com/prometheus/prometheus/internal/verif/histmodel"
	"github.com/prometheus/prometheus/internal/verif/vx"
	"github.com/prometheus/prometheus/model/histogram"
	"github.com/prometheus/prometheus/model/labels"
	"github.com/prometheus/prometheus/storage"
	"github.com/prometheus/prometheus/tsdb/chunkenc"
	"github.com/prometheus/prometheus/tsdb/chunks"
	"github.com/prometheus/prometheus/util/annotations"
)

// ---------------------------------------------------------------------------
// oracle (written from the statement)
// ---------------------------------------------------------------------------

// c12Sample is one returned sample. The histogram object is kept and decoded into the reference
// model only when the oracle needs it (most results carry no NotCounterReset mark at all).
type c12Sample struct {
	T     int64
	Hint  histogram.CounterResetHint
	Stale bool
	h     *histogram.Histogram
	fh    *histogram.FloatHistogram
	m     *histmodel.H
}

func (s *c12Sample) M() *histmodel.H {
	if s.m == nil {
		if s.h != nil {
			s.m = histmodel.FromInt(s.h)
		} else {
			s.m = histmodel.FromFloat(s.fh)
		}
	}
	return s.m
}

// c12FromModel wraps a model histogram as a returned sample (self-test only).
func c12FromModel(t int64, m *histmodel.H) c12Sample {
	return c12Sample{T: t, Hint: m.Hint, Stale: m.Stale, m: m}
}

const c12StaleBits = 0x7ff0000000000002

// c12Sound checks one marked sample against its predecessor; "" when the marking is sound.
func c12Sound(cur, prev *histmodel.H) (what, msg string) {
	if prev.Stale {
		return "preceded-by-stale-marker", "the preceding sample is a staleness marker"
	}
	if cur.Custom != prev.Custom {
		return "layout-differs", "bucket type differs from the preceding sample"
	}
	if cur.Custom {
		if len(cur.Bounds) != len(prev.Bounds) {
			return "layout-differs", fmt.Sprintf("custom bounds %v vs %v", prev.Bounds, cur.Bounds)
		}
		for i := range cur.Bounds {
			if cur.Bounds[i] != prev.Bounds[i] {
				return "layout-differs", fmt.Sprintf("custom bounds %v vs %v", prev.Bounds, cur.Bounds)
			}
		}
	} else {
		if cur.Schema != prev.Schema {
			return "layout-differs", fmt.Sprintf("schema %d vs %d", prev.Schema, cur.Schema)
		}
		if cur.ZeroThreshold != prev.ZeroThreshold {
			return "layout-differs", fmt.Sprintf("zero threshold %g vs %g", prev.ZeroThreshold, cur.ZeroThreshold)
		}
		if cur.ZeroCount < prev.ZeroCount {
			return "count-decreased", fmt.Sprintf("zero count %g -> %g", prev.ZeroCount, cur.ZeroCount)
		}
	}
	if cur.Count < prev.Count {
		return "count-decreased", fmt.Sprintf("count %g -> %g", prev.Count, cur.Count)
	}
	for _, side := range [2][2]map[int32]float64{{prev.Pos, cur.Pos}, {prev.Neg, cur.Neg}} {
		keys := make([]int32, 0, len(side[0]))
		for k := range side[0] {
			keys = append(keys, k)
		}
		sort.Slice(keys, func(i, j int) bool { return keys[i] < keys[j] })
		for _, k := range keys {
			if side[1][k] < side[0][k] {
				return "count-decreased", fmt.Sprintf("bucket %d: %g -> %g", k, side[0][k], side[1][k])
			}
		}
	}
	return "", ""
}

// c12Check applies the statement to one result. full is the unrestricted result of the same
// querier (nil when res is itself unrestricted). It returns the first unsound marking and the
// number of NotCounterReset markings examined.
func c12Check(res, full []c12Sample) (what, msg string, marked int) {
	what, msg, marked, _ = c12CheckAt(res, full)
	return what, msg, marked
}

// c12CheckAt is c12Check that also reports the index (in res) of the first unsound marking.
func c12CheckAt(res, full []c12Sample) (what, msg string, marked, at int) {
	for i := range res {
		s := &res[i]
		if s.Stale || s.Hint == histogram.GaugeType || s.Hint != histogram.NotCounterReset {
			continue
		}
		marked++
		var prev *c12Sample
		switch {
		case i > 0:
			prev = &res[i-1]
		case full != nil:
			for j := range full {
				if full[j].T < s.T {
					prev = &full[j]
				}
			}
		}
		if prev == nil {
			if what == "" {
				what, msg, at = "no-preceding-sample", fmt.Sprintf("sample at t=%d (%s) is marked NotCounterReset but nothing precedes it", s.T, s.M()), i
			}
			continue
		}
		if w, m := c12Sound(s.M(), prev.M()); w != "" && what == "" {
			what, msg, at = w, fmt.Sprintf("sample at t=%d is marked NotCounterReset but %s; preceding (t=%d) %s, marked %s", s.T, m, prev.T, prev.M(), s.M()), i
		}
	}
	return what, msg, marked, at
}

// c12KnownRangeStart is the precondition of the known finding
// "range-start-mark-ignores-intervening-sample": the unsound marking sits on the FIRST sample of
// a range-restricted result, and the unrestricted result of the same querier does NOT mark that
// sample (there the merge saw a sample of another chunk/store in between and withheld the mark).
// The restricted read only sees the chunk that holds the sample and reports the mark the chunk
// computed against its own previous sample, which lies outside the range.
func c12KnownRangeStart(res, full []c12Sample, at int) bool {
	if at != 0 || full == nil {
		return false
	}
	for _, f := range full {
		if f.T == res[0].T {
			return f.Hint != histogram.NotCounterReset
		}
	}
	return false
}

func c12Hints(res []c12Sample) string {
	var sb strings.Builder
	for _, s := range res {
		switch {
		case s.Stale:
			sb.WriteByte('s')
		case s.Hint == histogram.NotCounterReset:
			sb.WriteByte('N')
		case s.Hint == histogram.CounterReset:
			sb.WriteByte('R')
		case s.Hint == histogram.GaugeType:
			sb.WriteByte('G')
		default:
			sb.WriteByte('u')
		}
	}
	return sb.String()
}

// c12Drain reads all remaining samples of it (the iterator is positioned BEFORE the first sample
// to read unless first != ValNone, in which case the current sample is read first). asFloat reads
// integer histograms through AtFloatHistogram, as the PromQL engine does.
func c12Drain(it chunkenc.Iterator, first chunkenc.ValueType, asFloat bool) ([]c12Sample, error) {
	var out []c12Sample
	vt := first
	if vt == chunkenc.ValNone {
		vt = it.Next()
	}
	for ; vt != chunkenc.ValNone; vt = it.Next() {
		switch {
		case vt == chunkenc.ValHistogram && !asFloat:
			t, h := it.AtHistogram(nil)
			out = append(out, c12Sample{T: t, Hint: h.CounterResetHint, Stale: math.Float64bits(h.Sum) == c12StaleBits, h: h})
		case vt == chunkenc.ValHistogram || vt == chunkenc.ValFloatHistogram:
			t, fh := it.AtFloatHistogram(nil)
			out = append(out, c12Sample{T: t, Hint: fh.CounterResetHint, Stale: math.Float64bits(fh.Sum) == c12StaleBits, fh: fh})
		default:
			return nil, fmt.Errorf("float sample at %d", it.AtT())
		}
	}
	return out, it.Err()
}

// ---------------------------------------------------------------------------
// alphabets: counters only, sequences of one representation (all int or all float; a change of
// representation always starts a new chunk whose first sample is never marked)
// ---------------------------------------------------------------------------

type c12Alpha struct {
	name  string
	atoms []histalpha.Atom
}

func c12Counters(shapes []histmodel.Shape, float bool) []histalpha.Atom {
	var out []histalpha.Atom
	for _, a := range histalpha.Atoms(shapes) {
		if a.M.Gauge || a.Float != float {
			continue
		}
		out = append(out, a)
	}
	return out
}

func c12NoCustom(in []histalpha.Atom) []histalpha.Atom {
	var out []histalpha.Atom
	for _, a := range in {
		if !a.M.Custom {
			out = append(out, a)
		}
	}
	return out
}

// c12Small is the small alphabet of C11 plus the shifted shape (a reset visible only per bucket).
func c12Small() []histmodel.Shape {
	s := histalpha.SmallShapes()
	return append(s, histalpha.Shifted(histmodel.Shapes()))
}

// c12Tiny is the alphabet of the deepest divergent-store phases: a chain that grows (e02 -> e03 /
// e03s, marked NotCounterReset inside one chunk), two shapes that are a reset of each other only
// per bucket (e03 / e03s), a schema change and a staleness marker.
func c12Tiny() []histmodel.Shape {
	var out []histmodel.Shape
	for _, want := range []string{"e02-s0-two/", "e03-s0-grown/", "e03s-s0-shifted/", "e08-s1/", "e29-stale/"} {
		for _, sh := range c12Small() {
			if strings.HasPrefix(sh.Name, want) {
				out = append(out, sh)
			}
		}
	}
	if len(out) != 5 {
		panic("c12Tiny: shapes missing")
	}
	return out
}

func c12Alphas() map[string]c12Alpha {
	m := map[string]c12Alpha{}
	for _, a := range []c12Alpha{
		{"small-int", c12Counters(c12Small(), false)},
		{"small-float", c12Counters(c12Small(), true)},
		{"small10-int", c12NoCustom(c12Counters(c12Small(), false))},
		{"small10-float", c12NoCustom(c12Counters(c12Small(), true))},
		{"tiny-int", c12Counters(c12Tiny(), false)},
		{"tiny-float", c12Counters(c12Tiny(), true)},
		{"tiny3-int", c12Counters(c12Tiny()[:3], false)},
		{"full-int", c12Counters(histalpha.FullShapes(), false)},
		{"full-float", c12Counters(histalpha.FullShapes(), true)},
	} {
		m[a.name] = a
	}
	return m
}

func c12T(i int) int64 { return 1000 + 100*int64(i) }

var c12Matcher = labels.MustNewMatcher(labels.MatchEqual, "__name__", "c12")

func c12Labels(k int) labels.Labels {
	return labels.FromStrings("__name__", "c12", "c", fmt.Sprintf("%07d", k))
}

func c12Key(l labels.Labels) int {
	var k int
	fmt.Sscanf(l.Get("c"), "%d", &k)
	return k
}

type c12Stats struct {
	cases, marked, casesMarked, queries atomic.Int64
	conflicts, conflictsMarked          atomic.Int64 // cases whose sources disagree on a value (and had a marking)
	hintsSeen                           c12StringSet
}

type c12StringSet struct {
	mu sync.Mutex
	m  map[string]struct{}
}

func (s *c12StringSet) add(x string) bool {
	s.mu.Lock()
	defer s.mu.Unlock()
	if s.m == nil {
		s.m = map[string]struct{}{}
	}
	if _, ok := s.m[x]; ok {
		return false
	}
	s.m[x] = struct{}{}
	return true
}

func c12Trim(stack string) string {
	if len(stack) > 1500 {
		return stack[:1500]
	}
	return stack
}

func c12SelfTest(t *testing.T) {
	s := histalpha.SmallShapes()
	get := func(prefix string) *histmodel.H {
		for _, x := range s {
			if strings.HasPrefix(x.Name, prefix) {
				return x.Model.Copy()
			}
		}
		t.Fatalf("self-test: shape %s missing", prefix)
		return nil
	}
	mark := func(m *histmodel.H) *histmodel.H { m.Hint = histogram.NotCounterReset; return m }
	two, grownS, s1, stale := get("e02-s0-two/"), get("e03-s0-grown/"), get("e08-s1/"), get("e29-stale/")
	// sound: e02 -> e03 (every bucket grew)
	S := c12FromModel
	if w, _, n := c12Check([]c12Sample{S(1, two), S(2, mark(grownS.Copy()))}, nil); w != "" || n != 1 {
		t.Fatalf("self-test: oracle rejects a sound marking: %s", w)
	}
	for name, res := range map[string][]c12Sample{
		"no-preceding-sample":      {S(1, mark(two.Copy()))},
		"count-decreased":          {S(1, grownS), S(2, mark(two.Copy()))},
		"layout-differs":           {S(1, two), S(2, mark(s1.Copy()))},
		"preceded-by-stale-marker": {S(1, stale), S(2, mark(two.Copy()))},
	} {
		if w, _, _ := c12Check(res, nil); w != name {
			t.Fatalf("self-test: oracle answered %q for the wrong marking %q", w, name)
		}
	}
	// restricted read: predecessor comes from the unrestricted result
	full := []c12Sample{S(1, grownS), S(2, two)}
	bad := []c12Sample{S(2, mark(two.Copy()))}
	w, _, _, at := c12CheckAt(bad, full)
	if w != "count-decreased" {
		t.Fatalf("self-test: restricted read not checked against the unrestricted predecessor: %q", w)
	}
	if !c12KnownRangeStart(bad, full, at) || c12KnownRangeStart(bad, []c12Sample{S(1, grownS), S(2, mark(two.Copy()))}, at) || c12KnownRangeStart(bad, full, 1) {
		t.Fatal("self-test: known-finding precondition is not narrow")
	}
	if w, _, _ := c12Check([]c12Sample{S(2, mark(grownS.Copy()))}, []c12Sample{S(1, two), S(2, grownS)}); w != "" {
		t.Fatalf("self-test: sound restricted read rejected: %q", w)
	}
	// lazily decoded samples behave like model-built ones
	gi := histalpha.Atoms(s)[2] // e03-s0-grown/L0/int
	h, _ := gi.Fresh()
	h.CounterResetHint = histogram.NotCounterReset
	lazy := c12Sample{T: 2, Hint: h.CounterResetHint, h: h}
	if w, _, _ := c12Check([]c12Sample{S(1, two), lazy}, nil); w != "" {
		t.Fatalf("self-test: lazily decoded sample rejected: %q", w)
	}
}

// ===========================================================================
// Part m: merges without a DB
// ===========================================================================

type c12mCase struct {
	Alpha string   `json:"alpha"`
	Seq   []string `json:"seq"`
	Place []int    `json:"place"` // per sample: bit set of the stores (1,2,4) holding it
	// Cut: every store is encoded like a head that cuts a new chunk before every sample, passing
	// the previous appender (so chunk headers carry NotCounterReset / CounterReset / unknown as
	// computed against the previous chunk). Otherwise storage.NewSeriesToChunkEncoder encodes.
	Cut bool `json:"cut"`
	// Div (divergent stores; Seq and Place unused): per store, per time slot, the name of the atom
	// the store holds there ("" = no sample). The stores are independent sources of one series and
	// may DISAGREE on the value at a timestamp (a corrected late write, diverging replicas /
	// backfills); the merge returns one of the copies and the hints must be sound for the samples
	// actually returned.
	Div [][]string `json:"div,omitempty"`
}

// c12mContent is what c12mRun merges: per store, per time slot, the atom index held (-1 = none).
type c12mContent [][]int

// c12mPlaced is the content of the classical cases: sample i of seq sits in the stores of place[i].
func c12mPlaced(seq, place []int) c12mContent {
	c := make(c12mContent, 3)
	for s := range c {
		c[s] = make([]int, len(seq))
		for i, a := range seq {
			c[s][i] = -1
			if place[i]&(1<<s) != 0 {
				c[s][i] = a
			}
		}
	}
	return c
}

func (c c12mContent) names(al c12Alpha) [][]string {
	out := make([][]string, len(c))
	for s := range c {
		out[s] = make([]string, len(c[s]))
		for i, a := range c[s] {
			if a >= 0 {
				out[s][i] = al.atoms[a].Name
			}
		}
	}
	return out
}

// slots lists the time slots populated by at least one store; conflict says whether two stores
// hold different atoms at one slot.
func (c c12mContent) slots() (slots []int, conflict bool) {
	for i := range c[0] {
		first := -1
		for s := range c {
			a := c[s][i]
			if a < 0 {
				continue
			}
			if first < 0 {
				first = a
				slots = append(slots, i)
			} else if a != first {
				conflict = true
			}
		}
	}
	return slots, conflict
}

// c12EncodeCut encodes samples one per chunk with the head's protocol (memSeries.appendHistogram:
// new chunk, previous appender handed to the first append of the new chunk).
func c12EncodeCut(samples []chunks.Sample) ([]chunks.Meta, error) {
	var metas []chunks.Meta
	var prev chunkenc.Appender
	for _, sm := range samples {
		c, err := chunkenc.NewEmptyChunk(sm.Type().ChunkEncoding(false, false))
		if err != nil {
			return nil, err
		}
		app, err := c.Appender()
		if err != nil {
			return nil, err
		}
		var nc chunkenc.Chunk
		if sm.Type() == chunkenc.ValHistogram {
			nc, _, app, err = app.AppendHistogram(prev, 0, sm.T(), sm.H(), false)
		} else {
			nc, _, app, err = app.AppendFloatHistogram(prev, 0, sm.T(), sm.FH(), false)
		}
		if err != nil {
			return nil, err
		}
		if nc != nil {
			return nil, fmt.Errorf("first append to an empty chunk returned a new chunk")
		}
		prev = app
		metas = append(metas, chunks.Meta{Chunk: c, MinTime: sm.T(), MaxTime: sm.T()})
	}
	return metas, nil
}

type c12ChunkSet struct {
	s    []storage.ChunkSeries
	i    int
	done bool
}

func (c *c12ChunkSet) Next() bool                        { c.i++; return c.i <= len(c.s) }
func (c *c12ChunkSet) At() storage.ChunkSeries           { return c.s[c.i-1] }
func (*c12ChunkSet) Err() error                          { return nil }
func (*c12ChunkSet) Warnings() annotations.Annotations   { return nil }

func c12NewChunkSet(lset labels.Labels, metas []chunks.Meta) *c12ChunkSet {
	return &c12ChunkSet{s: []storage.ChunkSeries{&storage.ChunkSeriesEntry{
		Lset:            lset,
		ChunkIteratorFn: func(chunks.Iterator) chunks.Iterator { return storage.NewListChunkSeriesIterator(metas...) },
	}}}
}

func c12mRun(r *vx.Run, st *c12Stats, al c12Alpha, content c12mContent, cut bool, it *chunkenc.Iterator, rp func() c12mCase) {
	viol := func(sig, msg string) {
		c := rp()
		if c.Div != nil {
			r.Violation(sig, fmt.Sprintf("stores (atom per time slot) %q cut=%v: %s", c.Div, cut, msg), c)
			return
		}
		r.Violation(sig, fmt.Sprintf("sequence %v placement %v cut=%v: %s", c.Seq, c.Place, cut, msg), c)
	}
	lset := c12Labels(0)
	// slots holds the time slots at which the merged series must have a sample
	slots, conflict := content.slots()
	if conflict {
		st.conflicts.Add(1)
	}
	// encode every store
	var stores [][]chunks.Meta
	for s := range content {
		var samples []chunks.Sample
		for i, a := range content[s] {
			if a < 0 {
				continue
			}
			h, fh := al.atoms[a].Fresh()
			samples = append(samples, newSample(0, c12T(i), 0, h, fh))
		}
		if len(samples) == 0 {
			continue
		}
		var metas []chunks.Meta
		var err error
		p, stack := vx.Guard(func() {
			if cut {
				metas, err = c12EncodeCut(samples)
				return
			}
			cit := storage.NewSeriesToChunkEncoder(storage.NewListSeries(lset, samples)).Iterator(nil)
			for cit.Next() {
				metas = append(metas, cit.At())
			}
			err = cit.Err()
		})
		if p != nil || err != nil {
			viol("merge-encode-error", fmt.Sprintf("encoding store %d: %v %v\n%s", s, p, err, c12Trim(stack)))
			return
		}
		stores = append(stores, metas)
	}
	st.cases.Add(1)
	anyMarked := false
	check := func(sig string, res, full []c12Sample) {
		st.queries.Add(1)
		what, msg, marked := c12Check(res, full)
		if marked > 0 {
			anyMarked = true
			st.marked.Add(int64(marked))
		}
		if what != "" {
			viol(sig+"-"+what, msg+" [hints "+c12Hints(res)+"]")
		}
	}
	// (1) sample-level vertical merge; integer sequences are read through AtHistogram and
	// through AtFloatHistogram (the chain iterator adjusts the hint separately in both).
	modes := []bool{false}
	if !al.atoms[0].Float {
		modes = append(modes, true)
	}
	for _, asFloat := range modes {
	sfx := ""
	if asFloat {
		sfx = "-as-float"
	}
	var full []c12Sample
	p, stack := vx.Guard(func() {
		sets := make([]storage.SeriesSet, len(stores))
		for i, m := range stores {
			sets[i] = storage.NewSeriesSetFromChunkSeriesSet(c12NewChunkSet(lset, m))
		}
		ms := storage.NewMergeSeriesSet(sets, 0, storage.ChainedSeriesMerge)
		if !ms.Next() {
			viol("merge-samples-no-series", fmt.Sprintf("merged set is empty: %v", ms.Err()))
			return
		}
		ser := ms.At()
		*it = ser.Iterator(*it)
		var err error
		if full, err = c12Drain(*it, chunkenc.ValNone, asFloat); err != nil {
			viol("merge-samples-error", err.Error())
			return
		}
		if len(full) != len(slots) {
			viol("merge-samples-count", fmt.Sprintf("merged result has %d samples, want %d", len(full), len(slots)))
			return
		}
		check("merge-samples-full"+sfx, full, nil)
		if st.hintsSeen.add(c12Hints(full)) {
			r.Distinct("distinct_outcomes", c12Hints(full))
		}
		for i := 1; i < len(slots); i++ {
			seekT := c12T(slots[i]) // timestamp of the i-th sample of the merged series
			*it = ser.Iterator(*it)
			vt := (*it).Seek(seekT)
			if vt == chunkenc.ValNone {
				viol("merge-seek-lost", fmt.Sprintf("Seek(%d) found nothing: %v", seekT, (*it).Err()))
				continue
			}
			res, err := c12Drain(*it, vt, asFloat)
			if err != nil {
				viol("merge-seek-error", err.Error())
				continue
			}
			check("merge-samples-seek"+sfx, res, full)
			// advance by Next first, then Seek: pre == i Next calls leave the iterator on sample
			// i-1 (Seek has to advance), pre == i+1 leave it on sample i (Seek is a no-op and the
			// hint computed by Next stays in force).
			for pre := i; pre <= i+1; pre++ {
				*it = ser.Iterator(*it)
				okPath := true
				for k := 0; k < pre; k++ {
					if (*it).Next() == chunkenc.ValNone {
						okPath = false
					}
				}
				if !okPath {
					viol("merge-seek-lost", fmt.Sprintf("%d x Next ran out of samples: %v", pre, (*it).Err()))
					continue
				}
				vt := (*it).Seek(seekT)
				if vt == chunkenc.ValNone {
					viol("merge-seek-lost", fmt.Sprintf("%d x Next then Seek(%d) found nothing: %v", pre, seekT, (*it).Err()))
					continue
				}
				res2, err := c12Drain(*it, vt, asFloat)
				if err != nil {
					viol("merge-seek-error", err.Error())
					continue
				}
				check("merge-samples-next-seek"+sfx, res2, full)
			}
		}
	})
	if p != nil {
		viol("merge-samples-panic", fmt.Sprintf("%v\n%s", p, c12Trim(stack)))
	}
	}
	// (2) chunk-level vertical merge as done by compaction
	p, stack := vx.Guard(func() {
		sets := make([]storage.ChunkSeriesSet, len(stores))
		for i, m := range stores {
			sets[i] = c12NewChunkSet(lset, m)
		}
		ms := storage.NewMergeChunkSeriesSet(sets, 0, storage.NewCompactingChunkSeriesMerger(storage.ChainedSeriesMerge))
		if !ms.Next() {
			viol("merge-chunks-no-series", fmt.Sprintf("merged chunk set is empty: %v", ms.Err()))
			return
		}
		cit := ms.At().Iterator(nil)
		var res []c12Sample
		var cit2 chunkenc.Iterator
		for cit.Next() {
			cit2 = cit.At().Chunk.Iterator(cit2)
			part, err := c12Drain(cit2, chunkenc.ValNone, false)
			if err != nil {
				viol("merge-chunks-error", err.Error())
				return
			}
			res = append(res, part...)
		}
		if err := cit.Err(); err != nil {
			viol("merge-chunks-error", err.Error())
			return
		}
		if len(res) != len(slots) {
			viol("merge-chunks-count", fmt.Sprintf("merged chunks hold %d samples, want %d", len(res), len(slots)))
			return
		}
		check("merge-chunks-full", res, nil)
	})
	if p != nil {
		viol("merge-chunks-panic", fmt.Sprintf("%v\n%s", p, c12Trim(stack)))
	}
	if anyMarked {
		st.casesMarked.Add(1)
		if conflict {
			st.conflictsMarked.Add(1)
		}
	}
}

// c12Places enumerates the placements of n samples: every sample in a non-empty subset of the
// stores, subsets limited to maxPer stores per sample.
func c12Places(n, maxPer int) [][]int {
	var subsets []int
	for m := 1; m < 8; m++ {
		c := 0
		for b := 0; b < 3; b++ {
			if m&(1<<b) != 0 {
				c++
			}
		}
		if c <= maxPer {
			subsets = append(subsets, m)
		}
	}
	dims := make([]int, n)
	for i := range dims {
		dims[i] = len(subsets)
	}
	var out [][]int
	for i := int64(0); i < vx.ProductSize(dims); i++ {
		ix := vx.ProductAt(dims, i, nil)
		p := make([]int, n)
		for k, x := range ix {
			p[k] = subsets[x]
		}
		out = append(out, p)
	}
	return out
}

func TestVerifC12m(t *testing.T) {
	r := vx.Start(t, "C12", "exploration")
	defer r.Finish()
	alphas := c12Alphas()
	st := &c12Stats{}
	if r.Replay != "" {
		var c c12mCase
		r.LoadReplay(&c)
		al, ok := alphas[c.Alpha]
		if !ok || (len(c.Place) == 0 && len(c.Div) == 0) {
			fmt.Println("replay is not for part m")
			return
		}
		var it chunkenc.Iterator
		if len(c.Div) > 0 {
			content := make(c12mContent, len(c.Div))
			for s := range c.Div {
				for _, n := range c.Div[s] {
					content[s] = append(content[s], histalpha.Index(al.atoms, n)) // "" -> -1
				}
			}
			c12mRun(r, st, al, content, c.Cut, &it, func() c12mCase { return c })
			return
		}
		var seq []int
		for _, n := range c.Seq {
			seq = append(seq, histalpha.Index(al.atoms, n))
		}
		c12mRun(r, st, al, c12mPlaced(seq, c.Place), c.Cut, &it, func() c12mCase { return c })
		return
	}
	c12SelfTest(t)
	// A phase is either classical (every sequence of n atoms x every placement into the stores,
	// all copies of a sample identical) or divergent (div > 0: div stores, each holding at each of
	// the n time slots nothing or ANY atom, independently of the other stores - the whole product).
	type phase struct {
		alpha  string
		n      int
		maxPer int
		div    int
	}
	var phases []phase
	if r.Quick() {
		phases = []phase{
			{"full-int", 1, 3, 0}, {"full-float", 1, 3, 0}, {"full-int", 2, 3, 0}, {"full-float", 2, 3, 0},
			{"small-int", 2, 0, 2}, {"small-float", 2, 0, 2}, {"tiny-int", 3, 0, 2}, {"tiny-int", 2, 0, 3},
			{"small-int", 3, 2, 0}, {"small-float", 3, 1, 0},
		}
	} else {
		phases = []phase{
			{"full-int", 1, 3, 0}, {"full-float", 1, 3, 0}, {"full-int", 2, 3, 0}, {"full-float", 2, 3, 0},
			{"small-int", 2, 0, 2}, {"small-float", 2, 0, 2}, {"tiny-int", 3, 0, 2}, {"tiny-float", 3, 0, 2},
			{"tiny-int", 2, 0, 3}, {"tiny-float", 2, 0, 3},
			{"small-int", 3, 3, 0}, {"small-float", 3, 3, 0},
			{"tiny3-int", 3, 0, 3},
			{"full-int", 3, 1, 0},
			{"small-int", 4, 1, 0},
			{"tiny-int", 4, 0, 2},
		}
	}
	var desc []string
	for _, ph := range phases {
		al := alphas[ph.alpha]
		if ph.div > 0 {
			dims := make([]int, ph.div*ph.n)
			for i := range dims {
				dims[i] = len(al.atoms) + 1
			}
			total := vx.ProductSize(dims)
			var n, skipped atomic.Int64
			r.ParallelN(total, func(i int64) {
				ix := vx.ProductAt(dims, i, nil)
				content := make(c12mContent, ph.div)
				for s := range content {
					content[s] = make([]int, ph.n)
					empty := true
					for k := range content[s] {
						content[s][k] = ix[s*ph.n+k] - 1
						empty = empty && content[s][k] < 0
					}
					if empty { // fewer stores: covered by the phases with fewer stores
						skipped.Add(1)
						return
					}
				}
				var it chunkenc.Iterator
				rp := func(cut bool) func() c12mCase {
					return func() c12mCase { return c12mCase{Alpha: al.name, Div: content.names(al), Cut: cut} }
				}
				c12mRun(r, st, al, content, false, &it, rp(false))
				if ph.n*ph.div <= 4 && !al.atoms[0].Float {
					// also with every store cut into one-sample chunks (head protocol)
					c12mRun(r, st, al, content, true, &it, rp(true))
				}
				k := n.Add(1)
				r.SampleAt(k, func() any { return map[string]any{"part": "m", "case": rp(false)()} })
			})
			state := "complete"
			if r.Expired() {
				state = fmt.Sprintf("%d of %d contents", n.Load()+skipped.Load(), total)
			}
			desc = append(desc, fmt.Sprintf("divergent stores: %s (%d atoms), %d stores x %d time slots, each store holds nothing or any atom at each slot (%d contents, %d with an empty store skipped): %s", ph.alpha, len(al.atoms), ph.div, ph.n, total, skipped.Load(), state))
			if r.Expired() {
				break
			}
			continue
		}
		places := c12Places(ph.n, ph.maxPer)
		total := vx.SeqCount(len(al.atoms), ph.n, ph.n)
		var n atomic.Int64
		r.ParallelN(total, func(i int64) {
			seq := vx.SeqAt(len(al.atoms), ph.n, ph.n, i, nil)
			var it chunkenc.Iterator
			for _, pl := range places {
				rp := func(cut bool) func() c12mCase {
					return func() c12mCase {
						return c12mCase{Alpha: al.name, Seq: histalpha.Names(al.atoms, seq), Place: pl, Cut: cut}
					}
				}
				c12mRun(r, st, al, c12mPlaced(seq, pl), false, &it, rp(false))
				single := true
				for _, m := range pl {
					single = single && m&(m-1) == 0
				}
				if single && ph.n > 1 {
					// one store per sample: also with every store cut into one-sample chunks
					c12mRun(r, st, al, c12mPlaced(seq, pl), true, &it, rp(true))
				}
			}
			k := n.Add(1)
			r.SampleAt(k, func() any {
				return map[string]any{"part": "m", "case": c12mCase{Alpha: al.name, Seq: histalpha.Names(al.atoms, seq), Place: places[len(places)/2]}, "placements_run": len(places)}
			})
		})
		state := "complete"
		if r.Expired() {
			state = fmt.Sprintf("%d of %d sequences", n.Load(), total)
		}
		desc = append(desc, fmt.Sprintf("%s (%d atoms) length %d x %d placements (<=%d stores per sample): %s", ph.alpha, len(al.atoms), ph.n, len(places), ph.maxPer, state))
		if r.Expired() {
			break
		}
	}
	r.Count("evaluations", int(st.cases.Load()))
	r.Count("distinct_nontrivial", int(st.casesMarked.Load()))
	r.Count("merge_cases", int(st.cases.Load()))
	r.Count("merge_cases_with_a_marked_sample", int(st.casesMarked.Load()))
	r.Count("not_counter_reset_markings_checked", int(st.marked.Load()))
	r.Count("results_checked", int(st.queries.Load()))
	r.Count("merge_cases_sources_disagree_on_a_value", int(st.conflicts.Load()))
	r.Count("merge_cases_sources_disagree_with_a_marked_sample", int(st.conflictsMarked.Load()))
	r.Set("phases_merge", desc)
	r.Set("rule_merge", "part m: every sequence of counter atoms of one representation (int or float) with timestamps 1000,1100,...; every placement of the samples into non-empty subsets of three stores; each store encoded by storage.NewSeriesToChunkEncoder and, for placements with one store per sample, also as one-sample chunks cut with the head's previous-appender protocol (chunk headers NotCounterReset/CounterReset/unknown); sample-level merge = NewMergeSeriesSet(NewSeriesSetFromChunkSeriesSet(store)..., ChainedSeriesMerge) read by Next, by Seek(t_i) on a recycled iterator and by i x Next followed by Seek(t_i); chunk-level merge = NewMergeChunkSeriesSet(..., NewCompactingChunkSeriesMerger(ChainedSeriesMerge)). Divergent-store phases: 2 or 3 stores, each holding at each time slot nothing or ANY atom independently of the others (the whole product; the stores may disagree on the value at a timestamp, the merged series has one sample per populated slot), read the same ways; merge_cases_sources_disagree_* count them. distinct_nontrivial counts the enumerated (sequence, placement) cases (distinct by construction) in which at least one returned sample was marked NotCounterReset, i.e. the oracle had something to verify.")
	r.Set("rule", "see rule_db (part d) and rule_merge (part m)")
	if !r.Expired() && (st.marked.Load() == 0 || len(st.hintsSeen.m) < 2) {
		t.Fatalf("vacuous: %d markings checked, %d distinct hint patterns", st.marked.Load(), len(st.hintsSeen.m))
	}
	if !r.Expired() && st.conflictsMarked.Load() == 0 {
		t.Fatal("vacuous: no merge of sources that disagree on a value returned a marked sample")
	}
}

// ===========================================================================
// Part d: a real DB
// ===========================================================================

// c12Split: Assign[i] in {0 head, 1 block B1, 2 block B2}; Order lists the head-assigned sample
// indices in append order (a sample older than one appended before it goes to the OOO head).
type c12Split struct {
	Assign []int `json:"assign"`
	Order  []int `json:"order"`
}

func c12Splits(n int, stores int) []c12Split {
	var out []c12Split
	dims := make([]int, n)
	for i := range dims {
		dims[i] = stores
	}
	for i := int64(0); i < vx.ProductSize(dims); i++ {
		as := vx.ProductAt(dims, i, nil)
		var head []int
		for k, a := range as {
			if a == 0 {
				head = append(head, k)
			}
		}
		vx.Perms(len(head), func(p []int) bool {
			o := make([]int, len(head))
			for k, x := range p {
				o[k] = head[x]
			}
			out = append(out, c12Split{Assign: append([]int(nil), as...), Order: o})
			return true
		})
	}
	return out
}

type c12dCfg struct {
	OOOCap int64 `json:"ooo_cap"`
	// Cut > 0: a chunk-range boundary (head chunk range 2000) lies before sample Cut, so the head
	// and the block writers cut a new chunk there by time and compute its header against the
	// previous chunk.
	Cut int `json:"cut"`
}

// t is the timestamp of sample i in part d: 1900, 1910, ... (all inside chunk range [0,2000)),
// samples from Cut on shifted by 100 into the next chunk range. The whole series spans far less
// than half a chunk range, so the head-wide append window (max time - range/2) never interferes.
func (c c12dCfg) t(i int) int64 {
	t := 1900 + 10*int64(i)
	if c.Cut > 0 && i >= c.Cut {
		t += 100
	}
	return t
}

type c12dCase struct {
	Alpha string   `json:"alpha"`
	Seq   []string `json:"seq"`
	Split c12Split `json:"split"`
	Cfg   c12dCfg  `json:"cfg"`
	// Div (divergent sources; Seq and Split unused), see c12dDiv.
	Div *c12dDiv `json:"div,omitempty"`
}

// c12dDiv is a series whose sources DISAGREE on values: per time slot the name of the atom ("" =
// none) appended to the head in order (Head), held by the backfilled block B1 (Block), and
// appended to the head a second time after all of Head (Rewrite: a late corrected write of a
// timestamp that is older than the newest sample; it lands in the out-of-order head, which does
// not compare it with the in-order chunk). Every source is an independent choice.
type c12dDiv struct {
	Head    []string `json:"head"`
	Block   []string `json:"block"`
	Rewrite []string `json:"rewrite"`
}

type c12dEv struct{ slot, atom int }

// c12dItem is one series: the head appends in order, the contents of the two blocks, and the
// number of distinct timestamps (want). seq/split or div say where it came from (replay).
type c12dItem struct {
	seq   []int
	split c12Split
	div   []int // digits of the divergent case: head, block, rewrite per slot (0 = none, a+1 = atom a)
	head  []c12dEv
	blk   [2][]c12dEv
	want  int
	// conflict: two sources hold different atoms at one timestamp
	conflict bool
}

func c12dSplitItem(seq []int, sp c12Split) c12dItem {
	it := c12dItem{seq: seq, split: sp, want: len(seq)}
	for _, i := range sp.Order {
		it.head = append(it.head, c12dEv{i, seq[i]})
	}
	for i, a := range sp.Assign {
		if a > 0 {
			it.blk[a-1] = append(it.blk[a-1], c12dEv{i, seq[i]})
		}
	}
	return it
}

// c12dDivItem builds the series of the digit vector d (3n digits: head, block, rewrite per slot);
// ok=false for vectors outside the space: an empty series, or a rewrite of a slot the head does
// not hold or that is the head's newest one (an in-order duplicate, rejected by the appender).
func c12dDivItem(d []int) (it c12dItem, ok bool) {
	n := len(d) / 3
	it.div = d
	top := -1
	for i := 0; i < n; i++ {
		if d[i] > 0 {
			top = i
		}
	}
	for i := 0; i < n; i++ {
		if d[i] > 0 {
			it.head = append(it.head, c12dEv{i, d[i] - 1})
		}
		if d[n+i] > 0 {
			it.blk[0] = append(it.blk[0], c12dEv{i, d[n+i] - 1})
		}
		if d[i] > 0 || d[n+i] > 0 {
			it.want++
		}
		if (d[i] > 0 && d[n+i] > 0 && d[i] != d[n+i]) || (d[2*n+i] > 0 && (d[2*n+i] != d[i] || (d[n+i] > 0 && d[2*n+i] != d[n+i]))) {
			it.conflict = true
		}
		if d[2*n+i] > 0 && (d[i] == 0 || i >= top) {
			return it, false
		}
	}
	for i := 0; i < n; i++ {
		if d[2*n+i] > 0 {
			it.head = append(it.head, c12dEv{i, d[2*n+i] - 1})
		}
	}
	return it, it.want > 0
}

// c12dDivs lists the valid digit vectors of the divergent space over nAtoms atoms and n slots, in
// product order (simplest first).
func c12dDivs(nAtoms, n int) [][]int {
	dims := make([]int, 3*n)
	for i := range dims {
		dims[i] = nAtoms + 1
	}
	var out [][]int
	for i := int64(0); i < vx.ProductSize(dims); i++ {
		d := vx.ProductAt(dims, i, nil)
		if _, ok := c12dDivItem(d); ok {
			out = append(out, d)
		}
	}
	return out
}

type c12dBatch struct {
	r     *vx.Run
	st    *c12Stats
	al    c12Alpha
	n     int
	cfg   c12dCfg
	items []c12dItem
	mark  []bool
}

func (b *c12dBatch) replay(k int) any {
	it := b.items[k]
	if it.div != nil {
		n := len(it.div) / 3
		name := func(d []int) []string {
			out := make([]string, len(d))
			for i, x := range d {
				if x > 0 {
					out[i] = b.al.atoms[x-1].Name
				}
			}
			return out
		}
		return c12dCase{Alpha: b.al.name, Cfg: b.cfg, Div: &c12dDiv{Head: name(it.div[:n]), Block: name(it.div[n : 2*n]), Rewrite: name(it.div[2*n:])}}
	}
	return c12dCase{Alpha: b.al.name, Seq: histalpha.Names(b.al.atoms, it.seq), Split: it.split, Cfg: b.cfg}
}

func (b *c12dBatch) viol(k int, sig, msg string) {
	it := b.items[k]
	if it.div != nil {
		d := b.replay(k).(c12dCase).Div
		b.r.Violation(sig, fmt.Sprintf("series with divergent sources (atom per time slot) head %q block %q rewritten-late %q (cfg %+v): %s", d.Head, d.Block, d.Rewrite, b.cfg, msg), b.replay(k))
		return
	}
	b.r.Violation(sig, fmt.Sprintf("series %v split %+v (cfg %+v): %s", histalpha.Names(b.al.atoms, it.seq), it.split, b.cfg, msg), b.replay(k))
}

func (b *c12dBatch) readSamples(db *DB, mint, maxt int64, asFloat bool) ([][]c12Sample, error) {
	q, err := db.Querier(mint, maxt)
	if err != nil {
		return nil, err
	}
	defer q.Close()
	out := make([][]c12Sample, len(b.items))
	ss := q.Select(context.Background(), true, nil, c12Matcher)
	var it chunkenc.Iterator
	for ss.Next() {
		s := ss.At()
		k := c12Key(s.Labels())
		it = s.Iterator(it)
		res, err := c12Drain(it, chunkenc.ValNone, asFloat)
		if err != nil {
			return nil, fmt.Errorf("series %s: %w", s.Labels(), err)
		}
		out[k] = res
	}
	return out, ss.Err()
}

func (b *c12dBatch) readChunks(db *DB) ([][]c12Sample, error) {
	q, err := db.ChunkQuerier(math.MinInt64, math.MaxInt64)
	if err != nil {
		return nil, err
	}
	defer q.Close()
	out := make([][]c12Sample, len(b.items))
	ss := q.Select(context.Background(), true, nil, c12Matcher)
	var cit chunks.Iterator
	var it chunkenc.Iterator
	for ss.Next() {
		s := ss.At()
		k := c12Key(s.Labels())
		cit = s.Iterator(cit)
		var res []c12Sample
		for cit.Next() {
			it = cit.At().Chunk.Iterator(it)
			part, err := c12Drain(it, chunkenc.ValNone, false)
			if err != nil {
				return nil, fmt.Errorf("series %s: %w", s.Labels(), err)
			}
			res = append(res, part...)
		}
		if err := cit.Err(); err != nil {
			return nil, fmt.Errorf("series %s: %w", s.Labels(), err)
		}
		out[k] = res
	}
	return out, ss.Err()
}

// stage runs all reads of one stage and checks every series.
func (b *c12dBatch) stage(db *DB, stage string) bool {
	var full [][]c12Sample
	var err error
	p, stack := vx.Guard(func() { full, err = b.readSamples(db, math.MinInt64, math.MaxInt64, false) })
	if p != nil || err != nil {
		b.viol(0, "db-"+stage+"-query-error", fmt.Sprintf("(some series of the batch) %v %v\n%s", p, err, c12Trim(stack)))
		return false
	}
	for k := range b.items {
		b.st.queries.Add(1)
		if len(full[k]) != b.items[k].want {
			b.viol(k, "db-"+stage+"-sample-count", fmt.Sprintf("full-range result has %d samples, want %d (C12 needs the complete series; see C01/C11)", len(full[k]), b.items[k].want))
			continue
		}
		what, msg, marked := c12Check(full[k], nil)
		if marked > 0 {
			b.mark[k] = true
			b.st.marked.Add(int64(marked))
		}
		if what != "" {
			b.viol(k, "db-"+stage+"-full-"+what, msg+" [hints "+c12Hints(full[k])+"]")
		}
		if h := stage + ":" + c12Hints(full[k]); b.st.hintsSeen.add(h) {
			b.r.Distinct("distinct_outcomes", h)
		}
	}
	if stage == "live" && !b.al.atoms[0].Float {
		var ff [][]c12Sample
		p, stack := vx.Guard(func() { ff, err = b.readSamples(db, math.MinInt64, math.MaxInt64, true) })
		if p != nil || err != nil {
			b.viol(0, "db-"+stage+"-query-error", fmt.Sprintf("(some series of the batch) %v %v\n%s", p, err, c12Trim(stack)))
			return false
		}
		for k := range b.items {
			b.st.queries.Add(1)
			if what, msg, _ := c12Check(ff[k], nil); what != "" {
				b.viol(k, "db-"+stage+"-full-as-float-"+what, msg+" [hints "+c12Hints(ff[k])+"]")
			}
		}
	}
	// every proper sub-range [t_i, t_j] (integer histograms read as float histograms, like the engine)
	for i := 0; i < b.n; i++ {
		for j := i; j < b.n; j++ {
			if i == 0 && j == b.n-1 {
				continue
			}
			var res [][]c12Sample
			p, stack := vx.Guard(func() { res, err = b.readSamples(db, b.cfg.t(i), b.cfg.t(j), true) })
			if p != nil || err != nil {
				b.viol(0, "db-"+stage+"-query-error", fmt.Sprintf("(some series of the batch) range [%d,%d]: %v %v\n%s", b.cfg.t(i), b.cfg.t(j), p, err, c12Trim(stack)))
				return false
			}
			for k := range b.items {
				b.st.queries.Add(1)
				what, msg, marked, at := c12CheckAt(res[k], full[k])
				if marked > 0 {
					b.mark[k] = true
					b.st.marked.Add(int64(marked))
				}
				if what != "" && c12KnownRangeStart(res[k], full[k], at) {
					// soft: known finding, exploration continues
					b.viol(k, "range-start-mark-ignores-intervening-sample", fmt.Sprintf("stage %s range [%d,%d]: %s (%s) [hints %s, unrestricted %s]", stage, b.cfg.t(i), b.cfg.t(j), msg, what, c12Hints(res[k]), c12Hints(full[k])))
				} else if what != "" {
					b.viol(k, "db-"+stage+"-range-"+what, fmt.Sprintf("range [%d,%d]: %s [hints %s, unrestricted %s]", b.cfg.t(i), b.cfg.t(j), msg, c12Hints(res[k]), c12Hints(full[k])))
				}
			}
		}
	}
	var ch [][]c12Sample
	p, stack = vx.Guard(func() { ch, err = b.readChunks(db) })
	if p != nil || err != nil {
		b.viol(0, "db-"+stage+"-chunk-query-error", fmt.Sprintf("(some series of the batch) %v %v\n%s", p, err, c12Trim(stack)))
		return false
	}
	for k := range b.items {
		b.st.queries.Add(1)
		what, msg, marked := c12Check(ch[k], nil)
		if marked > 0 {
			b.mark[k] = true
			b.st.marked.Add(int64(marked))
		}
		if what != "" {
			b.viol(k, "db-"+stage+"-chunks-"+what, msg+" [hints "+c12Hints(ch[k])+"]")
		}
	}
	return true
}

func (b *c12dBatch) run() {
	dir, err := os.MkdirTemp("", "c12")
	if err != nil {
		panic(err)
	}
	defer os.RemoveAll(dir)
	ctx := context.Background()
	b.mark = make([]bool, len(b.items))
	lsets := make([]labels.Labels, len(b.items))
	for k := range lsets {
		lsets[k] = c12Labels(k)
	}
	appendOne := func(app storage.Appender, k int, ev c12dEv) error {
		h, fh := b.al.atoms[ev.atom].Fresh()
		_, err := app.AppendHistogram(0, lsets[k], b.cfg.t(ev.slot), h, fh)
		return err
	}
	// blocks B1, B2 (written like a backfill, outside the DB directory, moved in later)
	stageDir := filepath.Join(dir, "staging")
	dbDir := filepath.Join(dir, "db")
	for _, d := range []string{stageDir, dbDir} {
		if err := os.MkdirAll(d, 0o777); err != nil {
			panic(err)
		}
	}
	var blockDirs []string
	for store := 1; store <= 2; store++ {
		any := false
		for _, it := range b.items {
			any = any || len(it.blk[store-1]) > 0
		}
		if !any {
			continue
		}
		failed := false
		p, stack := vx.Guard(func() {
			w, err := NewBlockWriter(promslog.NewNopLogger(), stageDir, 2000)
			if err != nil {
				panic(err)
			}
			defer w.Close()
			app := w.Appender(ctx)
			for k, it := range b.items {
				for _, ev := range it.blk[store-1] {
					if err := appendOne(app, k, ev); err != nil {
						b.viol(k, "db-block-append-error", fmt.Sprintf("block %d sample %d: %v", store, ev.slot, err))
						failed = true
					}
				}
			}
			if err := app.Commit(); err != nil {
				b.viol(0, "db-block-commit-error", "(some series of the batch) "+err.Error())
				failed = true
				return
			}
			id, err := w.Flush(ctx)
			if err != nil {
				b.viol(0, "db-block-flush-error", "(some series of the batch) "+err.Error())
				failed = true
				return
			}
			blockDirs = append(blockDirs, id.String())
		})
		if p != nil {
			b.viol(0, "db-block-panic", fmt.Sprintf("(some series of the batch) %v\n%s", p, c12Trim(stack)))
			return
		}
		if failed {
			return
		}
	}
	o := DefaultOptions()
	o.MinBlockDuration = 2000
	o.MaxBlockDuration = 20000
	o.WALSegmentSize = 1 << 20
	o.StripeSize = 64
	o.NoLockfile = true
	o.HeadChunksWriteQueueSize = 0
	o.HeadChunksWriteBufferSize = 64 * 1024
	o.WALReplayConcurrency = 1
	o.RetentionDuration = 0
	o.OutOfOrderTimeWindow = 100000
	o.OutOfOrderCapMax = b.cfg.OOOCap
	o.EnableOverlappingCompaction = true
	db, err := Open(dbDir, nil, nil, o, nil)
	if err != nil {
		panic(err)
	}
	defer db.Close()
	db.DisableCompactions()
	// head: round r appends, for every series, the r-th head sample of its append order
	for rnd := 0; ; rnd++ {
		app := db.Appender(ctx)
		n := 0
		for k, it := range b.items {
			if rnd >= len(it.head) {
				continue
			}
			n++
			var err error
			p, stack := vx.Guard(func() { err = appendOne(app, k, it.head[rnd]) })
			if p != nil || err != nil {
				b.viol(k, "db-head-append-error", fmt.Sprintf("round %d sample %d: %v %v\n%s", rnd, it.head[rnd].slot, p, err, c12Trim(stack)))
				_ = app.Rollback()
				return
			}
		}
		if n == 0 {
			_ = app.Rollback()
			break
		}
		if err := app.Commit(); err != nil {
			b.viol(0, "db-head-commit-error", "(some series of the batch) "+err.Error())
			return
		}
	}
	for _, id := range blockDirs {
		if err := os.Rename(filepath.Join(stageDir, id), filepath.Join(dbDir, id)); err != nil {
			panic(err)
		}
	}
	if len(blockDirs) > 0 {
		if err := db.reloadBlocks(); err != nil {
			b.viol(0, "db-reload-error", "(some series of the batch) "+err.Error())
			return
		}
	}
	steps := []struct {
		name string
		op   func() error
	}{
		{"live", func() error { return nil }},
		{"ooo-compacted", func() error { return db.CompactOOOHead(ctx) }},
		{"blocks-merged", func() error { return db.Compact(ctx) }},
		{"head-compacted", func() error {
			if db.head.NumSeries() == 0 || db.head.MinTime() > db.head.MaxTime() {
				return nil
			}
			return db.CompactHead(NewRangeHead(db.head, db.head.MinTime(), db.head.MaxTime()))
		}},
		{"all-merged", func() error { return db.Compact(ctx) }},
	}
	for _, s := range steps {
		var err error
		p, stack := vx.Guard(func() { err = s.op() })
		if p != nil || err != nil {
			b.viol(0, "db-"+s.name+"-op-error", fmt.Sprintf("(some series of the batch) %v %v\n%s", p, err, c12Trim(stack)))
			return
		}
		if !b.stage(db, s.name) {
			return
		}
	}
	b.st.cases.Add(int64(len(b.items)))
	for k, m := range b.mark {
		if b.items[k].conflict {
			b.st.conflicts.Add(1)
		}
		if m {
			b.st.casesMarked.Add(1)
			if b.items[k].conflict {
				b.st.conflictsMarked.Add(1)
			}
		}
	}
}

func TestVerifC12d(t *testing.T) {
	r := vx.Start(t, "C12", "exploration")
	defer r.Finish()
	alphas := c12Alphas()
	st := &c12Stats{}
	if r.Replay != "" {
		var c c12dCase
		r.LoadReplay(&c)
		al, ok := alphas[c.Alpha]
		if !ok || (len(c.Split.Assign) == 0 && c.Div == nil) {
			fmt.Println("replay is not for part d")
			return
		}
		if c.Div != nil {
			var d []int
			for _, l := range [][]string{c.Div.Head, c.Div.Block, c.Div.Rewrite} {
				for _, n := range l {
					d = append(d, histalpha.Index(al.atoms, n)+1) // "" -> 0
				}
			}
			it, ok := c12dDivItem(d)
			if !ok || len(c.Div.Block) != len(c.Div.Head) || len(c.Div.Rewrite) != len(c.Div.Head) {
				t.Fatal("replay: not a case of the divergent space")
			}
			b := &c12dBatch{r: r, st: st, al: al, n: len(c.Div.Head), cfg: c.Cfg, items: []c12dItem{it}}
			b.run()
			return
		}
		var seq []int
		for _, n := range c.Seq {
			seq = append(seq, histalpha.Index(al.atoms, n))
		}
		b := &c12dBatch{r: r, st: st, al: al, n: len(seq), cfg: c.Cfg, items: []c12dItem{c12dSplitItem(seq, c.Split)}}
		b.run()
		return
	}
	c12SelfTest(t)
	type phase struct {
		alpha  string
		n      int
		stores int // 3: head + two blocks; 2: head + one block; 1: head only
		cfgs   []c12dCfg
		// div: instead of sequences x splits, the divergent space (c12dDivs): head, block B1 and late
		// rewrites each hold nothing or ANY atom per time slot, independently (stores unused)
		div bool
	}
	cfg := func(cap int64, cut int) c12dCfg { return c12dCfg{OOOCap: cap, Cut: cut} }
	var phases []phase
	if r.Quick() {
		phases = []phase{
			{"small-int", 1, 3, []c12dCfg{cfg(32, 0)}, false}, {"small-float", 1, 3, []c12dCfg{cfg(32, 0)}, false},
			{"small-int", 2, 3, []c12dCfg{cfg(32, 0), cfg(32, 1)}, false}, {"small-float", 2, 3, []c12dCfg{cfg(32, 0), cfg(32, 1)}, false},
			{"tiny-int", 2, 0, []c12dCfg{cfg(32, 0)}, true},
			{"small10-int", 3, 3, []c12dCfg{cfg(32, 0), cfg(32, 2), cfg(1, 0)}, false},
			{"small10-float", 3, 3, []c12dCfg{cfg(32, 2)}, false},
		}
	} else {
		all3 := []c12dCfg{cfg(32, 0), cfg(32, 1), cfg(32, 2), cfg(1, 0), cfg(1, 2)}
		phases = []phase{
			{"small-int", 1, 3, []c12dCfg{cfg(32, 0)}, false}, {"small-float", 1, 3, []c12dCfg{cfg(32, 0)}, false},
			{"full-int", 2, 3, []c12dCfg{cfg(32, 0), cfg(32, 1), cfg(1, 0)}, false}, {"full-float", 2, 3, []c12dCfg{cfg(32, 1)}, false},
			{"tiny-int", 2, 0, []c12dCfg{cfg(32, 0), cfg(32, 1), cfg(1, 0)}, true}, {"tiny-float", 2, 0, []c12dCfg{cfg(32, 0)}, true},
			{"small-int", 3, 3, all3, false}, {"small-float", 3, 3, []c12dCfg{cfg(32, 0), cfg(32, 2)}, false},
			{"tiny3-int", 3, 0, []c12dCfg{cfg(32, 0), cfg(32, 2)}, true},
			{"small10-int", 4, 1, []c12dCfg{cfg(32, 2)}, false},
		}
	}
	const batchSize = 8192
	type job struct {
		ph       int
		from, to int64 // range of (sequence, split) case indices
		cfg      c12dCfg
	}
	var jobs []job
	splitsOf := make([][]c12Split, len(phases))
	divsOf := make([][][]int, len(phases))
	for pi, ph := range phases {
		var total int64
		if ph.div {
			divsOf[pi] = c12dDivs(len(alphas[ph.alpha].atoms), ph.n)
			total = int64(len(divsOf[pi]))
		} else {
			splitsOf[pi] = c12Splits(ph.n, ph.stores)
			total = vx.SeqCount(len(alphas[ph.alpha].atoms), ph.n, ph.n) * int64(len(splitsOf[pi]))
		}
		for from := int64(0); from < total; from += batchSize {
			for _, c := range ph.cfgs {
				jobs = append(jobs, job{pi, from, min(from+batchSize, total), c})
			}
		}
	}
	phaseDone := make([]atomic.Int64, len(phases))
	var done atomic.Int64
	r.ParallelN(int64(len(jobs)), func(i int64) {
		if r.Expired() { // ParallelN consults the deadline only every 64 items; batches are big
			return
		}
		j := jobs[i]
		ph := phases[j.ph]
		al := alphas[ph.alpha]
		sp := splitsOf[j.ph]
		b := &c12dBatch{r: r, st: st, al: al, n: ph.n, cfg: j.cfg}
		for c := j.from; c < j.to; c++ {
			if ph.div {
				it, _ := c12dDivItem(divsOf[j.ph][c])
				b.items = append(b.items, it)
				continue
			}
			seq := vx.SeqAt(len(al.atoms), ph.n, ph.n, c/int64(len(sp)), nil)
			b.items = append(b.items, c12dSplitItem(seq, sp[c%int64(len(sp))]))
		}
		b.run()
		phaseDone[j.ph].Add(1)
		k := done.Add(1)
		r.SampleAt(k*7, func() any {
			return map[string]any{"part": "d", "case": b.replay(len(b.items) / 2), "series_in_batch": len(b.items)}
		})
	})
	jobsPer := make([]int64, len(phases))
	for _, j := range jobs {
		jobsPer[j.ph]++
	}
	var desc []string
	for pi, ph := range phases {
		state := "complete"
		if phaseDone[pi].Load() != jobsPer[pi] {
			state = fmt.Sprintf("%d of %d batches", phaseDone[pi].Load(), jobsPer[pi])
		}
		if ph.div {
			desc = append(desc, fmt.Sprintf("divergent sources: %s (%d atoms), %d time slots; in-order head, block B1 and late rewrite (OOO head) each hold nothing or any atom per slot (%d series) x configurations %v: %s", ph.alpha, len(alphas[ph.alpha].atoms), ph.n, len(divsOf[pi]), ph.cfgs, state))
			continue
		}
		desc = append(desc, fmt.Sprintf("%s (%d atoms) length %d x %d splits over %d stores x configurations (OOO chunk capacity, chunk-range cut before sample) %v: %s", ph.alpha, len(alphas[ph.alpha].atoms), ph.n, len(splitsOf[pi]), ph.stores, ph.cfgs, state))
	}
	r.Count("evaluations", int(st.cases.Load()))
	r.Count("distinct_nontrivial", int(st.casesMarked.Load()))
	r.Count("db_cases", int(st.cases.Load()))
	r.Count("db_cases_with_a_marked_sample", int(st.casesMarked.Load()))
	r.Count("not_counter_reset_markings_checked", int(st.marked.Load()))
	r.Count("results_checked", int(st.queries.Load()))
	r.Count("db_cases_sources_disagree_on_a_value", int(st.conflicts.Load()))
	r.Count("db_cases_sources_disagree_with_a_marked_sample", int(st.conflictsMarked.Load()))
	r.Set("phases_db", desc)
	r.Set("rule_db", "part d: every sequence of counter atoms of one representation is one series (timestamps 1900,1910,...) of a real tsdb.DB (up to 8192 series per DB); every split assigns each sample to the head or to one of two backfilled blocks (written with BlockWriter, moved into the DB directory, reloadBlocks) and every append order of the head samples (a sample older than an earlier-appended one lands in the out-of-order head). Configurations: OOO chunk capacity 32 or 1; optionally a head chunk-range boundary before one of the samples (the head and the block writers then cut a chunk by time and compute its header against the previous chunk). Reads: DB.Querier full range (integer histograms also through AtFloatHistogram at the live stage), DB.Querier for every proper sub-range [t_i,t_j] (through AtFloatHistogram), DB.ChunkQuerier full range; at five stages: live, after CompactOOOHead, after Compact (vertical merge of the overlapping blocks), after CompactHead, after a final Compact. Divergent-source phases: per time slot the in-order head, the block B1 and a late second head append of the same timestamp (accepted into the OOO head unless it is the newest head sample) each hold nothing or ANY atom, independently (the whole product; sources may disagree on the value at a timestamp), same reads and stages; db_cases_sources_disagree_* count them. distinct_nontrivial counts the enumerated (sequence, split, configuration) cases (distinct by construction) in which at least one returned sample was marked NotCounterReset.")
	r.Set("rule", "see rule_db (part d) and rule_merge (part m)")
	r.Assume("C12 presupposes complete results (C01/C11): a series whose full-range result misses samples is reported as db-*-sample-count and not examined further")
	if !r.Expired() && (st.marked.Load() == 0 || len(st.hintsSeen.m) < 2) {
		t.Fatalf("vacuous: %d markings checked, %d distinct hint patterns", st.marked.Load(), len(st.hintsSeen.m))
	}
	if !r.Expired() && st.conflictsMarked.Load() == 0 {
		t.Fatal("vacuous: no series whose sources disagree on a value returned a marked sample")
	}
}
