package rules

// C45 reference model: recording rules write their result vectors and staleness markers.
// Written from the property statement, the documentation of recording rules
// (docs/configuration/recording_rules.md) and the documented storage contract (samples of one
// series are appended in time order; an equal timestamp with a different value is rejected).

import (
	"fmt"
	"math"
	"sort"
	"strings"

	"github.com/prometheus/prometheus/model/labels"
	"github.com/prometheus/prometheus/model/value"
)

const (
	c45T0       = int64(1_000_000_000_000) // ms
	c45Interval = int64(60_000)
	c45Off1     = int64(10_000) // evaluation offset of group g1 inside the interval
	c45Off2     = int64(40_000) // ... of group g2
	c45OffNow   = int64(50_000) // reloads happen here, after both evaluations
	c45Lookback = int64(300_000)
)

// c45RuleDef is one recording rule of the fixed rule universe.
type c45RuleDef struct {
	ID     string // identity for CopyState = record name + labels (X and Xa share it)
	Record string
	From   string // source metric
	Sel    string // "" = all series, "a" = only s="a"
	Op     byte   // '=' plain selector, '*' or '+' with constant C (drops the metric name)
	C      float64
	Labels map[string]string
}

var c45Rules = map[string]c45RuleDef{
	"X":  {ID: "X", Record: "x", From: "b", Op: '='},
	"Xa": {ID: "X", Record: "x", From: "b", Sel: "a", Op: '='}, // X with a narrower expression
	"Y":  {ID: "Y", Record: "y", From: "x", Op: '*', C: 2},      // chained on X
	"W":  {ID: "W", Record: "w", From: "b", Op: '+', C: 10, Labels: map[string]string{"l": "1"}},
}

// expr renders the PromQL expression with the instance suffix sfx on metric names.
func (d c45RuleDef) expr(sfx string) string {
	e := d.From + sfx
	if d.Sel != "" {
		e += fmt.Sprintf(`{s=%q}`, d.Sel)
	}
	if d.Op != '=' {
		e += fmt.Sprintf(" %c %g", d.Op, d.C)
	}
	return e
}

type c45Smp struct {
	T int64
	V float64
}

func (s c45Smp) String() string {
	if value.IsStaleNaN(s.V) {
		return fmt.Sprintf("%d:stale", s.T-c45T0)
	}
	return fmt.Sprintf("%d:%g", s.T-c45T0, s.V)
}

var c45Stale = math.Float64frombits(value.StaleNaN)

// c45Store is the reference storage: per series an append-only, time-ordered sample list.
type c45Store map[string][]c45Smp

// append implements the storage contract; it reports whether the sample was accepted.
func (st c45Store) append(series string, t int64, v float64) bool {
	l := st[series]
	if n := len(l); n > 0 {
		last := l[n-1]
		if t < last.T {
			return false // out of order
		}
		if t == last.T {
			return math.Float64bits(v) == math.Float64bits(last.V) // exact duplicate is a no-op, else rejected
		}
	}
	st[series] = append(l, c45Smp{t, v})
	return true
}

// visible returns the sample an instant vector selector sees at ts.
func (st c45Store) visible(series string, ts int64) (float64, bool) {
	l := st[series]
	for i := len(l) - 1; i >= 0; i-- {
		if l[i].T <= ts {
			if value.IsStaleNaN(l[i].V) || l[i].T <= ts-c45Lookback {
				return 0, false
			}
			return l[i].V, true
		}
	}
	return 0, false
}

func (st c45Store) clone() c45Store {
	c := make(c45Store, len(st))
	for k, v := range st {
		c[k] = append([]c45Smp(nil), v...)
	}
	return c
}

func c45Series(name string, lbls map[string]string) string {
	m := map[string]string{"__name__": name}
	for k, v := range lbls {
		m[k] = v
	}
	return labels.FromMap(m).String()
}

type c45Group struct {
	Rules []string            // rule variant names in file order
	Limit int
	Prev  map[string][]string // rule ID -> series produced by its previous successful evaluation
	Stale []string            // series of rules removed from this group, to be marked stale at its next evaluation
}

func (g *c45Group) clone() *c45Group {
	c := &c45Group{Rules: append([]string(nil), g.Rules...), Limit: g.Limit, Prev: map[string][]string{}, Stale: append([]string(nil), g.Stale...)}
	for k, v := range g.Prev {
		c.Prev[k] = append([]string(nil), v...)
	}
	return c
}

type c45Cleanup struct {
	Due    int // tick at whose end the removed group's series are marked stale (2 intervals later)
	TS     int64
	Series []string
}

type c45Model struct {
	K          int
	Concurrent bool
	Groups     map[string]*c45Group // "g1", "g2"
	Pending    []c45Cleanup
	Store      c45Store
	PrevBase   map[string]bool
	Events     []string
}

func (m *c45Model) clone() *c45Model {
	c := &c45Model{K: m.K, Concurrent: m.Concurrent, Groups: map[string]*c45Group{}, Store: m.Store.clone(), PrevBase: map[string]bool{}}
	for k, g := range m.Groups {
		c.Groups[k] = g.clone()
	}
	for _, p := range m.Pending {
		c.Pending = append(c.Pending, c45Cleanup{p.Due, p.TS, append([]string(nil), p.Series...)})
	}
	for k, v := range m.PrevBase {
		c.PrevBase[k] = v
	}
	c.Events = append([]string(nil), m.Events...)
	return c
}

func (m *c45Model) now() int64 { return c45T0 + int64(m.K)*c45Interval + c45OffNow }

func c45BaseValue(k int) float64 { return float64(k%3 + 1) }

// writeBase models the scrape at the start of tick K: the exposed base series get a sample, the
// ones exposed last time and not now a staleness marker.
func (m *c45Model) writeBase(subset string) {
	m.K++
	t := c45T0 + int64(m.K)*c45Interval
	cur := map[string]bool{}
	for _, s := range []string{"a", "b"} {
		key := c45Series("b", map[string]string{"s": s})
		if strings.Contains(subset, s) {
			m.Store.append(key, t, c45BaseValue(m.K))
			cur[s] = true
		} else if m.PrevBase[s] {
			m.Store.append(key, t, c45Stale)
		}
	}
	m.PrevBase = cur
}

// evalRule computes the result vector of rule d at ts against the model storage.
func (m *c45Model) evalRule(d c45RuleDef, ts int64) map[string]float64 {
	res := map[string]float64{}
	for _, s := range []string{"a", "b"} {
		if d.Sel != "" && d.Sel != s {
			continue
		}
		for _, extra := range []map[string]string{{"s": s}, {"s": s, "l": "1"}} {
			src := c45Series(d.From, extra)
			v, ok := m.Store.visible(src, ts)
			if !ok {
				continue
			}
			switch d.Op {
			case '*':
				v *= d.C
			case '+':
				v += d.C
			}
			out := map[string]string{}
			for k, x := range extra {
				out[k] = x
			}
			for k, x := range d.Labels {
				out[k] = x
			}
			res[c45Series(d.Record, out)] = v
		}
	}
	return res
}

// evalOne: "Each evaluation of a recording rule stores its result vector at the evaluation time
// under the rule's name and labels, and stores a staleness marker at that time for every series
// produced by the previous successful evaluation but not by this one."
func (m *c45Model) evalOne(g *c45Group, variant string, ts int64) {
	d := c45Rules[variant]
	res := m.evalRule(d, ts)
	if g.Limit > 0 && len(res) > g.Limit {
		m.Events = append(m.Events, "evaluation-failed-limit")
		return // failed evaluation: nothing stored, "previous successful evaluation" unchanged
	}
	keys := make([]string, 0, len(res))
	for k := range res {
		keys = append(keys, k)
	}
	sort.Strings(keys)
	var produced []string
	for _, k := range keys {
		if m.Store.append(k, ts, res[k]) {
			produced = append(produced, k)
		} else {
			m.Events = append(m.Events, "result-sample-rejected")
		}
	}
	if d.ID == "Y" && len(produced) > 0 {
		if l := m.Store[c45Series("x", map[string]string{"s": "a"})]; len(l) > 0 && l[len(l)-1].T == ts {
			m.Events = append(m.Events, "dependent-saw-same-evaluation")
		} else if l := m.Store[c45Series("x", map[string]string{"s": "b"})]; len(l) > 0 && l[len(l)-1].T == ts {
			m.Events = append(m.Events, "dependent-saw-same-evaluation")
		} else {
			m.Events = append(m.Events, "dependent-saw-older-evaluation")
		}
	}
	for _, p := range g.Prev[d.ID] {
		found := false
		for _, k := range produced {
			if k == p {
				found = true
			}
		}
		if !found {
			if m.Store.append(p, ts, c45Stale) {
				m.Events = append(m.Events, "stale-marker-vanished-series")
			}
		}
	}
	g.Prev[d.ID] = produced
}

// evalGroup returns the acceptable outcomes of one evaluation of group name at ts: rules are
// evaluated in file order; with concurrent evaluation enabled any order is acceptable in which
// every rule still comes after the EARLIER rules it depends on.
func (m *c45Model) evalGroup(name string, ts int64) []*c45Model {
	g := m.Groups[name]
	if g == nil {
		return []*c45Model{m}
	}
	n := len(g.Rules)
	var orders [][]int
	idx := make([]int, n)
	for i := range idx {
		idx[i] = i
	}
	if !m.Concurrent {
		orders = [][]int{idx}
	} else {
		var rec func(cur []int, used []bool)
		rec = func(cur []int, used []bool) {
			if len(cur) == n {
				orders = append(orders, append([]int(nil), cur...))
				return
			}
			for i := 0; i < n; i++ {
				if used[i] {
					continue
				}
				ok := true
				for j := 0; j < i; j++ { // earlier rule j that rule i depends on must already be done
					if !used[j] && c45Rules[g.Rules[i]].From == c45Rules[g.Rules[j]].Record {
						ok = false
					}
				}
				if !ok {
					continue
				}
				used[i] = true
				rec(append(cur, i), used)
				used[i] = false
			}
		}
		rec(nil, make([]bool, n))
	}
	var out []*c45Model
	seen := map[string]bool{}
	for _, o := range orders {
		c := m.clone()
		cg := c.Groups[name]
		for _, i := range o {
			c.evalOne(cg, cg.Rules[i], ts)
		}
		// "removing a rule ... on reload marks all its series stale": at the group's next evaluation
		for _, s := range cg.Stale {
			if c.Store.append(s, ts, c45Stale) {
				c.Events = append(c.Events, "stale-marker-removed-rule")
			} else {
				c.Events = append(c.Events, "stale-marker-removed-rule-rejected")
			}
		}
		cg.Stale = nil
		k := c.storeString()
		if !seen[k] {
			seen[k] = true
			out = append(out, c)
		}
	}
	return out
}

// endTick runs the cleanups of removed groups that are due ("removing a ... group on reload marks
// all its series stale": two intervals after the removal, at the removal time).
func (m *c45Model) endTick() {
	var rest []c45Cleanup
	for _, p := range m.Pending {
		if p.Due > m.K {
			rest = append(rest, p)
			continue
		}
		for _, s := range p.Series {
			if m.Store.append(s, p.TS, c45Stale) {
				m.Events = append(m.Events, "stale-marker-removed-group")
			} else {
				m.Events = append(m.Events, "stale-marker-removed-group-rejected")
			}
		}
	}
	m.Pending = rest
}

// c45Config is an assignment of ordered rule lists to the two groups, e.g. "X,Y|W".
func c45ParseConfig(s string) (g1, g2 []string) {
	a, b, _ := strings.Cut(s, "|")
	split := func(x string) []string {
		if x == "" {
			return nil
		}
		return strings.Split(x, ",")
	}
	return split(a), split(b)
}

func (m *c45Model) config() string {
	j := func(g *c45Group) string {
		if g == nil {
			return ""
		}
		return strings.Join(g.Rules, ",")
	}
	return j(m.Groups["g1"]) + "|" + j(m.Groups["g2"])
}

// reload installs a new configuration. Rule state is matched by rule identity (name + labels)
// within the group of the same name; rules that disappeared from a group get their series queued
// for staleness marking, a group that disappeared gets all its series marked stale.
func (m *c45Model) reload(cfg string, limits map[string]int) {
	g1, g2 := c45ParseConfig(cfg)
	newGroups := map[string]*c45Group{}
	for name, rules := range map[string][]string{"g1": g1, "g2": g2} {
		if len(rules) == 0 {
			continue
		}
		ng := &c45Group{Rules: rules, Limit: limits[name], Prev: map[string][]string{}}
		if old := m.Groups[name]; old != nil {
			if strings.Join(old.Rules, ",") == strings.Join(rules, ",") && old.Limit == ng.Limit {
				newGroups[name] = old // unchanged group keeps running
				continue
			}
			ng.Stale = append(ng.Stale, old.Stale...)
			matched := map[string]bool{}
			for _, r := range rules {
				id := c45Rules[r].ID
				if p, ok := old.Prev[id]; ok {
					ng.Prev[id] = p
				}
				matched[id] = true
			}
			for _, r := range old.Rules {
				id := c45Rules[r].ID
				if !matched[id] {
					ng.Stale = append(ng.Stale, old.Prev[id]...)
				}
			}
		}
		newGroups[name] = ng
	}
	for _, name := range []string{"g1", "g2"} {
		old := m.Groups[name]
		if old == nil || newGroups[name] != nil {
			continue
		}
		c := c45Cleanup{Due: m.K + 2, TS: m.now()}
		c.Series = append(c.Series, old.Stale...)
		for _, r := range old.Rules {
			c.Series = append(c.Series, old.Prev[c45Rules[r].ID]...)
		}
		m.Pending = append(m.Pending, c)
	}
	m.Groups = newGroups
}

func (m *c45Model) storeString() string {
	keys := make([]string, 0, len(m.Store))
	for k := range m.Store {
		if !strings.Contains(k, `__name__="b"`) {
			keys = append(keys, k)
		}
	}
	sort.Strings(keys)
	var b strings.Builder
	for _, k := range keys {
		fmt.Fprintf(&b, "%s %v\n", k, m.Store[k])
	}
	return b.String()
}

// key: everything that can influence the future. Of the storage only the newest sample of every
// series matters (appends are time-ordered, queries look at the newest sample <= now); its age is
// capped beyond lookback + 2 intervals (it is only compared with the lookback and, for rejected
// out-of-order appends, with removal times that are at most 2 intervals old). The tick number
// enters modulo 3 (it determines the base values).
func (m *c45Model) key() string {
	var b strings.Builder
	now := m.now()
	fmt.Fprintf(&b, "k%%3=%d conc=%v", m.K%3, m.Concurrent)
	for _, name := range []string{"g1", "g2"} {
		g := m.Groups[name]
		if g == nil {
			continue
		}
		fmt.Fprintf(&b, " %s[%s lim=%d", name, strings.Join(g.Rules, ","), g.Limit)
		ids := make([]string, 0, len(g.Prev))
		for id := range g.Prev {
			ids = append(ids, id)
		}
		sort.Strings(ids)
		for _, id := range ids {
			p := append([]string(nil), g.Prev[id]...)
			sort.Strings(p)
			fmt.Fprintf(&b, " prev%s=%v", id, p)
		}
		st := append([]string(nil), g.Stale...)
		sort.Strings(st)
		fmt.Fprintf(&b, " stale=%v]", st)
	}
	for _, p := range m.Pending {
		s := append([]string(nil), p.Series...)
		sort.Strings(s)
		fmt.Fprintf(&b, " pending(due+%d,age=%d,%v)", p.Due-m.K, now-p.TS, s)
	}
	keys := make([]string, 0, len(m.Store))
	for k := range m.Store {
		keys = append(keys, k)
	}
	sort.Strings(keys)
	for _, k := range keys {
		l := m.Store[k]
		last := l[len(l)-1]
		age := now - last.T
		if age > c45Lookback+2*c45Interval {
			age = c45Lookback + 2*c45Interval + 1
		}
		if value.IsStaleNaN(last.V) {
			fmt.Fprintf(&b, " %s@-%d=stale", k, age)
		} else {
			fmt.Fprintf(&b, " %s@-%d=%g", k, age, last.V)
		}
	}
	pb := make([]string, 0, 2)
	for s := range m.PrevBase {
		pb = append(pb, s)
	}
	sort.Strings(pb)
	fmt.Fprintf(&b, " base=%v", pb)
	return b.String()
}
