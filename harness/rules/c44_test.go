package rules

// C44: alert states follow the for / keep_firing_for semantics — explicit-state BFS (engine E1,
// state mode) over evaluation timelines of one alerting rule inside a real Group:
// Group.Eval (-> AlertingRule.Eval, sendAlerts, sample + staleness-marker appends), reload with a
// changed hold duration through Group.CopyState, restart and Group.RestoreForState against a real
// test storage holding the ALERTS_FOR_STATE samples the real code wrote before the restart.
// Time is fully scripted: every evaluation gets an explicit timestamp.

import (
	"context"
	"fmt"
	"math"
	"os"
	"runtime/debug"
	"sort"
	"strconv"
	"strings"
	"sync/atomic"
	"testing"
	"time"

	"github.com/prometheus/common/promslog"

	"github.com/prometheus/prometheus/internal/verif/vx"
	"github.com/prometheus/prometheus/model/labels"
	"github.com/prometheus/prometheus/model/value"
	"github.com/prometheus/prometheus/promql"
	"github.com/prometheus/prometheus/promql/parser"
	"github.com/prometheus/prometheus/storage"
	"github.com/prometheus/prometheus/util/teststorage"
)

// ---------------------------------------------------------------------------------------------
// recording Appendable (what Group.Eval commits), later materialised into a real test storage
// ---------------------------------------------------------------------------------------------

type c44Sample struct {
	L labels.Labels
	T int64
	V float64
}

type c44Rec struct {
	batches [][]c44Sample // committed batches in commit order
}

type c44App struct {
	storage.Appender // unimplemented methods panic (never called by rule evaluation of float vectors)
	rec              *c44Rec
	buf              []c44Sample
}

func (r *c44Rec) Appender(context.Context) storage.Appender { return &c44App{rec: r} }

func (a *c44App) Append(_ storage.SeriesRef, l labels.Labels, t int64, v float64) (storage.SeriesRef, error) {
	a.buf = append(a.buf, c44Sample{l.Copy(), t, v})
	return 0, nil
}
func (a *c44App) SetOptions(*storage.AppendOptions) {}
func (a *c44App) Commit() error {
	if len(a.buf) > 0 {
		a.rec.batches = append(a.rec.batches, a.buf)
	}
	return nil
}
func (a *c44App) Rollback() error { return nil }

type c44Queryable struct{ s *c44Sys }

func (q c44Queryable) Querier(mint, maxt int64) (storage.Querier, error) {
	return q.s.store.st.Querier(mint, maxt)
}

// Real test storages are expensive to open, so a small pool of them is shared by consecutive
// system instances. Every instance uses its own alert name, hence its series are disjoint from
// those of all other instances that used the same storage; a storage is retired after
// c44StoreUses instances.
type c44Store struct {
	st   *teststorage.TestStorage
	uses int
}

const c44StoreUses = 4000

var (
	c44Pool    = make(chan *c44Store, 64)
	c44NameSeq atomic.Int64
	c44SoftSeen atomic.Bool
)

func c44Acquire() *c44Store {
	select {
	case st := <-c44Pool:
		return st
	default:
	}
	st, err := teststorage.NewWithError()
	if err != nil {
		panic(err)
	}
	return &c44Store{st: st}
}

func c44Release(st *c44Store) {
	st.uses++
	if st.uses < c44StoreUses {
		select {
		case c44Pool <- st:
			return
		default:
		}
	}
	st.st.Close()
}

func c44DrainPool() {
	for {
		select {
		case st := <-c44Pool:
			st.st.Close()
		default:
			return
		}
	}
}

// ---------------------------------------------------------------------------------------------
// the system: real Group + AlertingRule, scripted query results, reference model
// ---------------------------------------------------------------------------------------------

var (
	c44Expr    = func() parser.Expr { e, _ := parser.NewParser(parser.Options{}).ParseExpr("m > 0"); return e }()
	c44Metrics = NewGroupMetrics(nil)
)

type c44Cfg struct {
	For, Kff int64
	// ModelFor/ModelKff differ from For/Kff only in the self-test.
	ModelFor, ModelKff int64
	Ops                string // "evals": evaluations only; "base": + restart/restore; "hold": evaluations + hold change; "full": all
}

type c44Sys struct {
	r     *vx.Run
	cfg   c44Cfg
	name  string
	m     *c44Model
	opts  *ManagerOptions
	g     *Group
	rule  *AlertingRule
	rec   *c44Rec
	store   *c44Store // held from the first restore until Close
	flushed int       // number of committed batches already copied into store
	alert   string    // unique alert name of this instance
	// script for the next evaluation
	present  map[string]bool
	notified []string
	hist     []string
	events   func(string)
}

func c44Time(s int64) time.Time { return time.Unix(c44T0+s, 0).UTC() }

func c44NewSys(r *vx.Run, name string, cfg c44Cfg) *c44Sys {
	s := &c44Sys{r: r, cfg: cfg, name: name, rec: &c44Rec{}, alert: fmt.Sprintf("al%d", c44NameSeq.Add(1))}
	s.m = c44NewModel(cfg.ModelFor, cfg.ModelKff)
	s.opts = &ManagerOptions{
		QueryFunc: func(_ context.Context, _ string, ts time.Time) (promql.Vector, error) {
			var v promql.Vector
			sec := ts.Unix() - c44T0
			for i, l := range c44Labels {
				if s.present[l] {
					// the value changes with the parity of the evaluation time and differs per series
					v = append(v, promql.Sample{Metric: labels.FromStrings("__name__", "m", "s", l), T: ts.UnixMilli(), F: float64(1 + 2*i + int(sec%2))})
				}
			}
			return v, nil
		},
		NotifyFunc: func(_ context.Context, _ string, alerts ...*Alert) {
			for _, a := range alerts {
				s.notified = append(s.notified, c44DescribeNotified(a))
			}
		},
		Context:         context.Background(),
		Appendable:      s.rec,
		Queryable:       c44Queryable{s},
		Logger:          promslog.NewNopLogger(),
		Metrics:         c44Metrics,
		OutageTolerance: c44Tol * time.Second,
		ForGracePeriod:  c44Grace * time.Second,
		ResendDelay:     0,
	}
	s.rule = s.newRule(cfg.For, true)
	s.g = s.newGroup(s.rule, false)
	return s
}

func (s *c44Sys) newRule(forD int64, restored bool) *AlertingRule {
	return NewAlertingRule(s.alert, c44Expr, time.Duration(forD)*time.Second, time.Duration(s.cfg.Kff)*time.Second,
		labels.EmptyLabels(), labels.EmptyLabels(), labels.EmptyLabels(), "", restored, promslog.NewNopLogger())
}

func (s *c44Sys) newGroup(rule *AlertingRule, shouldRestore bool) *Group {
	return NewGroup(GroupOptions{Name: "g", File: "f", Interval: time.Second, Rules: []Rule{rule}, ShouldRestore: shouldRestore, Opts: s.opts})
}

func c44DescribeNotified(a *Alert) string {
	l := a.Labels.Get("s")
	switch {
	case !a.ResolvedAt.IsZero():
		return fmt.Sprintf("%s resolved resolvedAt=%d", l, a.ResolvedAt.Unix()-c44T0)
	case a.State == StateFiring:
		return fmt.Sprintf("%s firing activeAt=%d", l, a.ActiveAt.Unix()-c44T0)
	default:
		return fmt.Sprintf("%s UNEXPECTED state=%s", l, a.State)
	}
}

var c44Sets = []string{"-", "A", "B", "AB"}
var c44Dts = []int64{1, c44D - 1, c44D, c44D + 1, c44Ret}
var c44Holds = []int64{0, c44D, 2 * c44D}

func (s *c44Sys) Ops() []string {
	var ops []string
	if !s.m.Restored && s.m.EvalsSinceRestart >= 2 {
		// Group.run restores right after the second evaluation following a start.
		return []string{"restore"}
	}
	for _, dt := range c44Dts {
		for _, set := range c44Sets {
			ops = append(ops, fmt.Sprintf("e/%s/%d", set, dt))
		}
	}
	if !s.m.Restored {
		if s.m.EvalsSinceRestart >= 1 {
			ops = append(ops, "restore")
		}
		return ops
	}
	if s.cfg.Ops == "base" || s.cfg.Ops == "full" {
		ops = append(ops, "restart")
	}
	for _, h := range c44Holds {
		if h != s.m.For && (s.cfg.Ops == "hold" || s.cfg.Ops == "full") {
			ops = append(ops, fmt.Sprintf("hold/%d", h))
		}
	}
	return ops
}

func (s *c44Sys) Apply(op string, check bool) *vx.Fail {
	s.hist = append(s.hist, op)
	var f *vx.Fail
	p, stack := vx.Guard(func() { f = s.apply(op, check) })
	if p != nil {
		return vx.Failf("alerting-panic", "panic %v during %s after %v\n%s", p, op, s.hist, stack)
	}
	return f
}

func (s *c44Sys) count(check bool, evs []string) {
	if !check {
		return
	}
	for _, e := range evs {
		s.r.Count("ev_"+e, 1)
	}
}

func (s *c44Sys) apply(op string, check bool) *vx.Fail {
	parts := strings.Split(op, "/")
	switch parts[0] {
	case "e":
		dt, err := strconv.ParseInt(parts[2], 10, 64)
		if err != nil {
			panic(err)
		}
		now := s.m.Now + dt
		s.present = map[string]bool{}
		for _, l := range c44Labels {
			if strings.Contains(parts[1], l) {
				s.present[l] = true
			}
		}
		nb := len(s.rec.batches)
		s.notified = nil
		s.g.Eval(context.Background(), c44Time(now))
		ex := s.m.eval(now, s.present, func(l string) bool {
			for _, a := range s.rule.currentAlerts() {
				if a.Labels.Get("s") == l {
					return a.State == StatePending
				}
			}
			return false
		})
		s.count(check, ex.Events)
		// samples committed by this evaluation
		var got []string
		for _, b := range s.rec.batches[nb:] {
			for _, sm := range b {
				d, err := c44DescribeSample(sm, now, s.alert)
				if err != "" {
					return vx.Failf("alerts-series-malformed", "evaluation at %d wrote %s: %s (history %v)", now, d, err, s.hist)
				}
				got = append(got, d)
			}
		}
		sort.Strings(got)
		if ex.Soft != "" {
			// known finding: report (soft) and carry on with the implementation's answer adopted
			c44SoftSeen.Store(true)
			s.r.Violation("keep-firing-alert-below-new-for-turns-pending-while-absent",
				fmt.Sprintf("alert %s is absent from the evaluation at %d and within keep_firing_for, but its activation is less than 'for'=%ds ago (hold duration raised by a reload, or activation shifted by RestoreForState): the statement keeps it firing, the implementation reports it as pending (ALERTS{alertstate=\"pending\"}) although the expression does not return it, and drops it without a resolved notification at the next evaluation; history %v", ex.Soft, now, s.m.For, s.hist),
				map[string]any{"config": s.name, "ops": append([]string{}, s.hist...)})
		}
		if strings.Join(got, ";") != strings.Join(ex.Writes, ";") {
			return vx.Failf("alerts-series-mismatch", "evaluation at %d (present %v, for=%d kff=%d restored=%v): stored samples %v, want %v (history %v)", now, parts[1], s.m.For, s.m.Kff, s.m.Restored, got, ex.Writes, s.hist)
		}
		sort.Strings(s.notified)
		if strings.Join(s.notified, ";") != strings.Join(ex.Notified, ";") {
			return vx.Failf("notified-alerts-mismatch", "evaluation at %d (present %v, for=%d kff=%d): notify function got %v, want %v (history %v)", now, parts[1], s.m.For, s.m.Kff, s.notified, ex.Notified, s.hist)
		}
		if check {
			s.r.Distinct("distinct_outcomes", s.m.summary()+"|"+strings.Join(ex.Writes, ";"))
		}
	case "restart":
		// process restart: new rule and group objects, nothing copied; the storage survives
		s.rule = s.newRule(s.m.For, false)
		s.g = s.newGroup(s.rule, true)
		s.m.restart()
	case "restore":
		if f := s.materialise(); f != nil {
			return f
		}
		s.g.RestoreForState(c44Time(s.m.Now))
		s.count(check, s.m.restore(s.m.Now))
		if s.g.shouldRestore || !s.rule.Restored() {
			return vx.Failf("restore-flag-not-set", "after RestoreForState: group.shouldRestore=%v rule.Restored=%v (history %v)", s.g.shouldRestore, s.rule.Restored(), s.hist)
		}
	case "hold":
		h, err := strconv.ParseInt(parts[1], 10, 64)
		if err != nil {
			panic(err)
		}
		// reload with a changed 'for': Manager.Update creates new rule objects (restored=true once
		// the manager has loaded before) and a new group, then newg.CopyState(oldg).
		nr := s.newRule(h, true)
		ng := s.newGroup(nr, false)
		ng.CopyState(s.g)
		s.rule, s.g = nr, ng
		s.m.For = h
		s.count(check, []string{"hold-changed"})
	default:
		panic("bad op " + op)
	}
	return s.compareMemory(op)
}

// c44DescribeSample renders an appended sample canonically and validates its shape.
func c44DescribeSample(sm c44Sample, now int64, alert string) (string, string) {
	name := sm.L.Get("__name__")
	l := sm.L.Get("s")
	var key string
	want := 3
	switch name {
	case alertMetricName:
		key = c44AlertsKey(l, sm.L.Get("alertstate"))
		want = 4
	case alertForStateMetricName:
		key = c44ForKey(l)
	default:
		key = sm.L.String()
	}
	var val string
	switch {
	case value.IsStaleNaN(sm.V):
		val = "stale"
	case sm.V == math.Trunc(sm.V):
		val = strconv.FormatInt(int64(sm.V), 10)
	default:
		val = strconv.FormatFloat(sm.V, 'g', -1, 64)
	}
	d := key + "=" + val
	switch {
	case sm.L.Get("alertname") != alert || sm.L.Len() != want || (name != alertMetricName && name != alertForStateMetricName):
		return d, "unexpected label set " + sm.L.String()
	case sm.T != (c44T0+now)*1000:
		return d, fmt.Sprintf("timestamp %d, want evaluation time %d", sm.T, (c44T0+now)*1000)
	}
	return d, ""
}

// materialise copies the samples committed since the last call into the real test storage, so
// that it holds exactly what the rule evaluations of this instance have written so far.
func (s *c44Sys) materialise() *vx.Fail {
	if s.store == nil {
		s.store = c44Acquire()
	}
	app := s.store.st.Appender(context.Background())
	for _, b := range s.rec.batches[s.flushed:] {
		for _, sm := range b {
			if _, err := app.Append(0, sm.L, sm.T, sm.V); err != nil {
				app.Rollback()
				return vx.Failf("alerts-series-not-storable", "sample %s@%d=%v written by rule evaluation is rejected by the storage: %v (history %v)", sm.L, sm.T, sm.V, err, s.hist)
			}
		}
	}
	s.flushed = len(s.rec.batches)
	if err := app.Commit(); err != nil {
		panic(err)
	}
	return nil
}

// compareMemory compares the rule's in-memory alerts with the model.
func (s *c44Sys) compareMemory(op string) *vx.Fail {
	got := map[string]string{}
	for _, a := range s.rule.currentAlerts() {
		l := a.Labels.Get("s")
		if a.Labels.Len() != 2 || a.Labels.Get("alertname") != s.alert || (l != "A" && l != "B") {
			return vx.Failf("alert-labels-wrong", "alert with labels %s (history %v)", a.Labels, s.hist)
		}
		if _, dup := got[l]; dup {
			return vx.Failf("alert-duplicated", "two alerts for %s (history %v)", l, s.hist)
		}
		switch a.State {
		case StatePending, StateFiring:
			if !a.ResolvedAt.IsZero() {
				return vx.Failf("active-alert-has-resolved-time", "alert %s is %s with ResolvedAt set (history %v)", l, a.State, s.hist)
			}
			got[l] = fmt.Sprintf("%s activeAt=%d", a.State, a.ActiveAt.Unix()-c44T0)
		case StateInactive:
			got[l] = fmt.Sprintf("resolved resolvedAt=%d", a.ResolvedAt.Unix()-c44T0)
		default:
			got[l] = "state " + a.State.String()
		}
	}
	want := map[string]string{}
	for l, a := range s.m.Alerts {
		if a.St == c44Resolved {
			want[l] = fmt.Sprintf("resolved resolvedAt=%d", a.ResolvedAt)
		} else {
			want[l] = fmt.Sprintf("%s activeAt=%d", a.St, a.ActiveAt)
		}
	}
	if vx.J(got) != vx.J(want) {
		sig := "alert-state-mismatch"
		if op == "restore" {
			sig = "restored-activation-mismatch"
		}
		return vx.Failf(sig, "after %s at %d (for=%d kff=%d): alerts in memory %s, want %s (history %v)", op, s.m.Now, s.m.For, s.m.Kff, vx.J(got), vx.J(want), s.hist)
	}
	// ActiveAlerts = pending + firing
	n := 0
	for _, a := range s.m.Alerts {
		if a.St != c44Resolved {
			n++
		}
	}
	if g := len(s.rule.ActiveAlerts()); g != n {
		return vx.Failf("active-alerts-count", "ActiveAlerts() has %d entries, want %d (history %v)", g, n, s.hist)
	}
	return nil
}

// Key: model state plus the implementation state, times relative to now. Every field of the
// implementation state that Eval / sendAlerts / RestoreForState / CopyState read is represented:
//   - ActiveAt (age capped like the model's, same argument; not represented for inactive alerts,
//     whose ActiveAt is never read again: a reappearing inactive alert is replaced by a new Alert),
//   - ResolvedAt (capped like the model's), KeepFiringSince, LastSentAt, ValidUntil, Value, State,
//   - FiredAt only as zero/non-zero: it is written by Eval and read only by the notifier glue
//     (rules.SendAlerts), which is not under test here,
//   - the restored flags, the hold duration, seriesInPreviousEval, staleSeries.
// The committed-sample log is represented by the model's Stored part, which every transition has
// checked against the real appends.
func (s *c44Sys) Key() string {
	var b strings.Builder
	b.WriteString(s.m.key())
	now := c44Time(s.m.Now)
	age := func(t time.Time, limit int64) string {
		if t.IsZero() {
			return "z"
		}
		a := int64(now.Sub(t) / time.Second)
		if limit >= 0 {
			a = c44Cap(a, limit)
		}
		return strconv.FormatInt(a, 10)
	}
	var as []string
	for _, a := range s.rule.currentAlerts() {
		act := "-"
		if a.State != StateInactive {
			act = age(a.ActiveAt, c44MaxFor)
		}
		as = append(as, fmt.Sprintf("%s:%s,a%s,f%v,r%s,l%s,v%s,k%s,val%g", a.Labels.Get("s"), a.State, act, a.FiredAt.IsZero(), age(a.ResolvedAt, c44Ret+1), age(a.LastSentAt, -1), age(a.ValidUntil, -1), age(a.KeepFiringSince, -1), a.Value))
	}
	sort.Strings(as)
	fmt.Fprintf(&b, " | impl hold=%s restored=%v shouldRestore=%v alerts=%v", s.rule.holdDuration, s.rule.Restored(), s.g.shouldRestore, as)
	var prev []string
	for _, m := range s.g.seriesInPreviousEval {
		for _, l := range m {
			// the instance-specific alert name is normalised away
			prev = append(prev, strings.ReplaceAll(l.String(), `"`+s.alert+`"`, `"al"`))
		}
	}
	sort.Strings(prev)
	fmt.Fprintf(&b, " prev=%v stale=%d", prev, len(s.g.staleSeries))
	return b.String()
}

func (s *c44Sys) Close() {
	if s.store != nil {
		c44Release(s.store)
		s.store = nil
	}
}

// ---------------------------------------------------------------------------------------------

// c44SelfTest shows that the oracle is not vacuous: after a short run on which implementation and
// model agree, the model's expectation is corrupted in several ways and every corruption must be
// reported. (If the short run itself disagrees, that is a violation like any other and the
// self-test is skipped.)
func c44SelfTest(t *testing.T, r *vx.Run) {
	cfg := c44Cfg{For: c44D, Kff: c44D, ModelFor: c44D, ModelKff: c44D}
	prefix := []string{"e/AB/1", "e/A/3", "restart", "e/A/1", "e/A/2"}
	build := func() *c44Sys {
		s := c44NewSys(r, "for=3,kff=3,full", cfg)
		for _, op := range prefix {
			if f := s.Apply(op, true); f != nil {
				r.Violation(f.Signature, f.Message, map[string]any{"config": s.name, "ops": s.hist})
				s.Close()
				return nil
			}
		}
		return s
	}
	type corruption struct {
		what string
		do   func(s *c44Sys) *vx.Fail
	}
	cs := []corruption{
		{"state flipped", func(s *c44Sys) *vx.Fail {
			a := s.m.Alerts["A"]
			if a.St == c44Pending {
				a.St = c44Firing
			} else {
				a.St = c44Pending
			}
			return s.compareMemory("e")
		}},
		{"activation time off by one", func(s *c44Sys) *vx.Fail { s.m.Alerts["A"].ActiveAt++; return s.compareMemory("e") }},
		{"alert missing", func(s *c44Sys) *vx.Fail { delete(s.m.Alerts, "A"); return s.compareMemory("e") }},
		{"extra alert", func(s *c44Sys) *vx.Fail {
			s.m.Alerts["B"] = &c44Alert{St: c44Resolved, ResolvedAt: 1}
			return s.compareMemory("e")
		}},
		{"keep_firing_for ignored by the model", func(s *c44Sys) *vx.Fail {
			s.Apply("restore", false)
			s.Apply("e/A/1", false)
			s.m.Kff = 0
			return s.Apply("e/-/1", false)
		}},
		{"'for' of the model larger", func(s *c44Sys) *vx.Fail { s.m.For = 2 * c44D; s.Apply("restore", false); return s.Apply("e/A/1", false) }},
		{"stored for-state sample forgotten by the model", func(s *c44Sys) *vx.Fail { delete(s.m.Stored, "A"); return s.Apply("restore", false) }},
		{"staleness marker expected but not written", func(s *c44Sys) *vx.Fail {
			s.Apply("restore", false)
			s.m.Prev[c44AlertsKey("B", c44Pending)] = true
			return s.Apply("e/A/1", false)
		}},
	}
	for _, c := range cs {
		s := build()
		if s == nil {
			return
		}
		f := c.do(s)
		s.Close()
		if f == nil {
			t.Fatalf("self-test: oracle accepted a wrong expectation (%s)", c.what)
		}
	}
}

func TestVerifC44(t *testing.T) {
	r := vx.Start(t, "C44", "model_checking")
	defer r.Finish()
	mk := func(name string) func() vx.Sys {
		var cfg c44Cfg
		var ops string
		if _, err := fmt.Sscanf(name, "for=%d,kff=%d,%s", &cfg.For, &cfg.Kff, &ops); err != nil {
			t.Fatalf("bad config name %q: %v", name, err)
		}
		cfg.ModelFor, cfg.ModelKff, cfg.Ops = cfg.For, cfg.Kff, ops
		return func() vx.Sys { return c44NewSys(r, name, cfg) }
	}
	if r.Replay != "" {
		var rp struct {
			Config string   `json:"config"`
			Ops    []string `json:"ops"`
		}
		r.LoadReplay(&rp)
		if f := r.ReplayOps(mk(rp.Config), rp.Ops); f != nil {
			r.Violation(f.Signature, f.Message, rp)
		}
		return
	}
	debug.SetGCPercent(400)
	defer c44DrainPool()
	c44SelfTest(t, r)
	type plan struct {
		name  string
		depth int
	}
	var plans []plan
	add := func(forD, kff int64, ops string, depth int) {
		plans = append(plans, plan{fmt.Sprintf("for=%d,kff=%d,%s", forD, kff, ops), depth})
	}
	// "evals": every timeline of evaluations; "base": + restart / RestoreForState; "hold": evaluations
	// + reload with a changed 'for'; "full": everything. Sizes are chosen from measured transition
	// counts (about 0.3 ms CPU per transition).
	dEvals := vx.Pick(r, 5, 7)
	for _, f := range []int64{0, c44D} {
		for _, k := range []int64{0, c44D} {
			add(f, k, "evals", dEvals)
		}
	}
	if r.Quick() {
		add(c44D, c44D, "base", 5)
		add(c44D, 0, "base", 5)
		add(c44D, c44D, "full", 4)
		add(0, c44D, "full", 4)
	} else {
		add(c44D, c44D, "base", 7)
		add(c44D, 0, "base", 7)
		add(0, c44D, "base", 5)
		add(0, 0, "base", 5)
		add(c44D, c44D, "hold", 6)
		add(c44D, c44D, "full", 5)
		add(0, c44D, "full", 5)
	}
	custom := false
	if v := os.Getenv("VERIF_C44_PLAN"); v != "" { // e.g. "for=3,kff=3,full:4;for=0,kff=0,norestart:6"
		plans, custom = nil, true
		for _, p := range strings.Split(v, ";") {
			name, d, _ := strings.Cut(p, ":")
			depth, _ := strconv.Atoi(d)
			plans = append(plans, plan{name, depth})
		}
	}
	for _, p := range plans {
		if r.Expired() {
			r.NotExhaustive("deadline before plan " + p.name)
			break
		}
		res := r.BFS(p.name, mk(p.name), p.depth)
		t.Logf("C44 %s depth %d: states=%d transitions=%d depthCompleted=%d", p.name, p.depth, res.States, res.Transitions, res.DepthCompleted)
	}
	r.Set("rule", "explicit-state BFS over timelines of one alerting rule in a real Group; operations: evaluation with result set in {-,A,B,AB} (sample values change with the parity of the timestamp) after an interval in {1,d-1,d,d+1,retention} s (d=3s), restart, RestoreForState (after the 1st or 2nd evaluation following a restart) against a real test storage, reload with 'for' changed to one of {0,d,2d}; after every transition in-memory alerts, appended ALERTS/ALERTS_FOR_STATE samples incl. staleness markers and notified alerts are compared with the reference state machine")
	r.Set("alphabet", map[string]any{"result_sets": c44Sets, "intervals_s": c44Dts, "for_s": c44Holds, "keep_firing_for_s": []int64{0, c44D}, "outage_tolerance_s": c44Tol, "grace_period_s": c44Grace, "resolved_retention_s": c44Ret})
	pl := map[string]int{}
	for _, p := range plans {
		pl[p.name] = p.depth
	}
	r.Set("depth", pl)
	r.Assume("keep_firing_for is measured from the first evaluation in which the alert was absent (the moment the condition was observed to have cleared)")
	r.Assume("a resolved alert is retained while evaluation time - resolved time <= 15m (inclusive)")
	r.Assume("resend delay 0: every non-pending alert in memory is passed to the notify function at every evaluation")
	r.Assume("timestamps are whole seconds (ALERTS_FOR_STATE stores the activation time in seconds); state de-duplication treats states that differ only by a shift of all times by an even number of seconds as equal")
	r.Assume("samples committed by Group.Eval are recorded by an in-memory Appendable and copied unchanged into a real test storage (util/teststorage) before RestoreForState runs")
	// vacuity: every class of behaviour named in the statement must have been exercised
	need := []string{"pending-to-firing", "pending-dropped", "resolved", "kept-firing", "resolved-after-keep-firing", "resolved-reappears", "reappears-while-kept-firing", "retained", "retention-expired", "stale-marker", "hold-changed",
		"restore-skipped-for-below-grace", "restore-was-firing", "restore-grace", "restore-shift-by-downtime", "restore-outage-exceeded", "restore-last-sample-stale", "restore-no-series", "firing-back-to-pending"}
	hard := r.Violations()
	if c44SoftSeen.Load() {
		hard--
	}
	if hard > 0 {
		return // states behind a violation are not expanded, coverage is then incomplete by design
	}
	for _, e := range need {
		if r.Get("ev_"+e) == 0 && !r.Expired() && !custom {
			t.Fatalf("vacuous run: behaviour %q was never exercised", e)
		}
	}
	if n := r.Distinct("distinct_outcomes", ""); !custom && !r.Expired() && r.Get("states") < 1000 {
		t.Fatalf("vacuous run: only %d states (%v)", r.Get("states"), n)
	}
}
