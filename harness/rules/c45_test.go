package rules

// C45: recording rules write their results and staleness markers — explicit-state BFS (engine E1,
// state mode) over histories of ticks (scrape of a subset of 2 base series, then the evaluation of
// both rule groups through the real Group.Eval with a real PromQL engine on a real test storage)
// and reloads (add / remove / move / reorder / alter a rule; groups are built by the real
// Manager.LoadGroups and carried over by Group.Equals / Group.CopyState exactly as Manager.Update
// does). After every group evaluation the complete stored contents of all rule output series are
// compared with the reference model. All timestamps are scripted.

import (
	"context"
	"fmt"
	"math"
	"os"
	"runtime/debug"
	"sort"
	"strconv"
	"strings"
	"sync/atomic"
	"testing"
	"time"

	"github.com/prometheus/common/model"
	"github.com/prometheus/common/promslog"

	"github.com/prometheus/prometheus/internal/verif/vx"
	"github.com/prometheus/prometheus/model/labels"
	"github.com/prometheus/prometheus/model/rulefmt"
	"github.com/prometheus/prometheus/promql"
	"github.com/prometheus/prometheus/promql/parser"
	"github.com/prometheus/prometheus/tsdb"
	"github.com/prometheus/prometheus/tsdb/chunkenc"
	"github.com/prometheus/prometheus/util/teststorage"
)

// Real test storages are expensive to open, so a pool of them is shared by consecutive system
// instances; every instance suffixes all its metric names with a unique number, hence its series
// are disjoint from those of every other instance. A storage is retired after c45StoreUses uses.
type c45PooledStore struct {
	st   *teststorage.TestStorage
	uses int
}

const c45StoreUses = 3000

var (
	c45Pool    = make(chan *c45PooledStore, 64)
	c45Seq     atomic.Int64
	c45Engine  = promql.NewEngine(promql.EngineOpts{MaxSamples: 10000, Timeout: time.Minute})
	c45Metrics = NewGroupMetrics(nil)
	c45Parser  = parser.NewParser(parser.Options{})
)

func c45Acquire() *c45PooledStore {
	select {
	case st := <-c45Pool:
		return st
	default:
	}
	// no write-ahead log: the storage is never reopened, and the log only costs system calls
	st, err := teststorage.NewWithError(func(o *tsdb.Options) { o.WALSegmentSize = -1 })
	if err != nil {
		panic(err)
	}
	return &c45PooledStore{st: st}
}

func c45Release(st *c45PooledStore) {
	st.uses++
	if st.uses < c45StoreUses {
		select {
		case c45Pool <- st:
			return
		default:
		}
	}
	st.st.Close()
}

func c45DrainPool() {
	for {
		select {
		case st := <-c45Pool:
			st.st.Close()
		default:
			return
		}
	}
}

// c45Loader serves the current configuration of one system instance to Manager.LoadGroups.
type c45Loader struct{ s *c45Sys }

func (l c45Loader) Load(string, bool, model.ValidationScheme) (*rulefmt.RuleGroups, []error) {
	var rgs rulefmt.RuleGroups
	g1, g2 := c45ParseConfig(l.s.loadCfg)
	for name, rules := range map[string][]string{"g1": g1, "g2": g2} {
		if len(rules) == 0 {
			continue
		}
		rg := rulefmt.RuleGroup{Name: name, Limit: l.s.limits[name]}
		for _, r := range rules {
			d := c45Rules[r]
			rg.Rules = append(rg.Rules, rulefmt.Rule{Record: d.Record + l.s.sfx, Expr: d.expr(l.s.sfx), Labels: d.Labels})
		}
		rgs.Groups = append(rgs.Groups, rg)
	}
	sort.Slice(rgs.Groups, func(i, j int) bool { return rgs.Groups[i].Name < rgs.Groups[j].Name })
	return &rgs, nil
}

func (c45Loader) Parse(q string) (parser.Expr, error) { return c45Parser.ParseExpr(q) }

type c45Removed struct {
	g   *Group
	due int
	ts  int64
}

type c45Sys struct {
	r       *vx.Run
	name    string
	m       *c45Model
	mgr     *Manager
	store   *c45PooledStore
	sfx     string
	groups  map[string]*Group // by group name
	removed []c45Removed
	loadCfg string
	limits  map[string]int
	hist    []string
	// ticksOnly: the configuration is fixed, only tick operations are enabled
	ticksOnly bool
	// corrupt is a self-test hook: it is applied to the model's expectation before comparing
	corrupt func(m *c45Model)
}

// config name: "<g1 rules>|<g2 rules>[;lim1=N][;conc][;ticks]"
func c45NewSys(r *vx.Run, name string) *c45Sys {
	s := &c45Sys{r: r, name: name, store: c45Acquire(), sfx: fmt.Sprintf("_%d", c45Seq.Add(1)), groups: map[string]*Group{}, limits: map[string]int{}}
	parts := strings.Split(name, ";")
	conc := false
	for _, p := range parts[1:] {
		switch {
		case p == "conc":
			conc = true
		case p == "ticks":
			s.ticksOnly = true
		case strings.HasPrefix(p, "lim1="):
			s.limits["g1"], _ = strconv.Atoi(strings.TrimPrefix(p, "lim1="))
		default:
			panic("bad config " + name)
		}
	}
	s.m = &c45Model{Concurrent: conc, Groups: map[string]*c45Group{}, Store: c45Store{}, PrevBase: map[string]bool{}}
	st := s.store.st
	s.mgr = NewManager(&ManagerOptions{
		Appendable:             st,
		Queryable:              st,
		QueryFunc:              EngineQueryFunc(c45Engine, st),
		Context:                context.Background(),
		Logger:                 promslog.NewNopLogger(),
		Metrics:                c45Metrics,
		GroupLoader:            c45Loader{s},
		ConcurrentEvalsEnabled: conc,
		MaxConcurrentEvals:     4,
	})
	s.reload(parts[0])
	return s
}

// reload follows Manager.Update: load the new groups, keep an old group that Equals the new one,
// otherwise CopyState from the old group of the same key; groups that disappeared are stopped with
// markStale. The goroutine glue of Group.run (collect the removed group's series, wait two
// intervals, cleanupStaleSeries at the removal time) cannot run without the wall clock, so it is
// replicated in removeGroup / endTick around the real cleanupStaleSeries.
func (s *c45Sys) reload(cfg string) {
	s.loadCfg = cfg
	loaded, errs := s.mgr.LoadGroups(time.Duration(c45Interval)*time.Millisecond, labels.EmptyLabels(), "", nil, false, "f")
	if errs != nil {
		panic(fmt.Sprint(errs))
	}
	next := map[string]*Group{}
	for _, ng := range loaded {
		old, ok := s.groups[ng.Name()]
		if ok && old.Equals(ng) {
			next[ng.Name()] = old
			continue
		}
		if ok {
			ng.CopyState(old)
		}
		next[ng.Name()] = ng
	}
	for name, old := range s.groups {
		if _, ok := next[name]; ok {
			continue
		}
		// as in the deferred function of Group.run when markStale is set
		for _, rule := range old.seriesInPreviousEval {
			for _, l := range rule {
				old.staleSeries = append(old.staleSeries, l)
			}
		}
		old.seriesInPreviousEval = nil
		s.removed = append(s.removed, c45Removed{g: old, due: s.m.K + 2, ts: s.m.now()})
	}
	s.groups = next
	s.m.reload(cfg, s.limits)
}

func (s *c45Sys) Ops() []string {
	ops := []string{"tick/-", "tick/a", "tick/b", "tick/ab"}
	if s.ticksOnly {
		return ops
	}
	g1, g2 := c45ParseConfig(s.m.config())
	where := map[string]int{}
	for _, r := range g1 {
		where[c45Rules[r].ID] = 1
	}
	for _, r := range g2 {
		where[c45Rules[r].ID] = 2
	}
	for _, id := range []string{"X", "Y", "W"} {
		if where[id] == 0 {
			ops = append(ops, "add/"+id+"/1", "add/"+id+"/2")
		} else {
			ops = append(ops, "rm/"+id, "mv/"+id)
		}
	}
	if len(g1) >= 2 {
		ops = append(ops, "swap/1")
	}
	if len(g2) >= 2 {
		ops = append(ops, "swap/2")
	}
	if where["X"] != 0 {
		ops = append(ops, "chg")
	}
	if s.m.Concurrent {
		// With concurrent evaluation a rule placed BEFORE the rule it reads from races with it (the
		// statement only orders a rule after the earlier rules it depends on), which would make
		// the explored state space differ from run to run; such configurations are not entered.
		var keep []string
		for _, op := range ops {
			if strings.HasPrefix(op, "tick/") || !c45Racy(c45NextConfig(s.m.config(), op)) {
				keep = append(keep, op)
			}
		}
		ops = keep
	}
	return ops
}

// c45Racy: some group evaluates Y before X.
func c45Racy(cfg string) bool {
	g1, g2 := c45ParseConfig(cfg)
	for _, g := range [][]string{g1, g2} {
		y := -1
		for i, r := range g {
			if c45Rules[r].ID == "Y" {
				y = i
			}
			if c45Rules[r].ID == "X" && y >= 0 {
				return true
			}
		}
	}
	return false
}

// c45NextConfig applies a reload operation to a configuration string.
func c45NextConfig(cfg, op string) string {
	g1, g2 := c45ParseConfig(cfg)
	gs := [][]string{g1, g2}
	parts := strings.Split(op, "/")
	find := func(id string) (int, int) {
		for gi, g := range gs {
			for ri, r := range g {
				if c45Rules[r].ID == id {
					return gi, ri
				}
			}
		}
		panic("rule not in config: " + id)
	}
	switch parts[0] {
	case "add":
		gi, _ := strconv.Atoi(parts[2])
		gs[gi-1] = append(gs[gi-1], parts[1])
	case "rm":
		gi, ri := find(parts[1])
		gs[gi] = append(append([]string{}, gs[gi][:ri]...), gs[gi][ri+1:]...)
	case "mv":
		gi, ri := find(parts[1])
		v := gs[gi][ri]
		gs[gi] = append(append([]string{}, gs[gi][:ri]...), gs[gi][ri+1:]...)
		gs[1-gi] = append(gs[1-gi], v)
	case "swap":
		gi, _ := strconv.Atoi(parts[1])
		g := append([]string{}, gs[gi-1]...)
		for i, j := 0, len(g)-1; i < j; i, j = i+1, j-1 {
			g[i], g[j] = g[j], g[i]
		}
		gs[gi-1] = g
	case "chg":
		gi, ri := find("X")
		g := append([]string{}, gs[gi]...)
		if g[ri] == "X" {
			g[ri] = "Xa"
		} else {
			g[ri] = "X"
		}
		gs[gi] = g
	default:
		panic("bad op " + op)
	}
	return strings.Join(gs[0], ",") + "|" + strings.Join(gs[1], ",")
}

func (s *c45Sys) Apply(op string, check bool) *vx.Fail {
	s.hist = append(s.hist, op)
	var f *vx.Fail
	p, stack := vx.Guard(func() { f = s.apply(op, check) })
	if p != nil {
		return vx.Failf("rules-panic", "panic %v during %s after %v\n%s", p, op, s.hist, stack)
	}
	return f
}

func (s *c45Sys) apply(op string, check bool) *vx.Fail {
	if !strings.HasPrefix(op, "tick/") {
		s.reload(c45NextConfig(s.m.config(), op))
		if check {
			s.r.Count("ev_reload-"+strings.SplitN(op, "/", 2)[0], 1)
		}
		// a reload itself writes nothing
		return s.compare(op, []*c45Model{s.m}, check)
	}
	subset := strings.TrimPrefix(op, "tick/")
	s.m.Events = nil
	s.m.writeBase(subset)
	t := c45T0 + int64(s.m.K)*c45Interval
	app := s.store.st.Appender(context.Background())
	for _, l := range []string{"a", "b"} {
		// mirror exactly what the model's scrape wrote at t (sample or staleness marker)
		ml := s.m.Store[c45Series("b", map[string]string{"s": l})]
		if n := len(ml); n > 0 && ml[n-1].T == t {
			if _, err := app.Append(0, labels.FromStrings("__name__", "b"+s.sfx, "s", l), t, ml[n-1].V); err != nil {
				panic(err)
			}
		}
	}
	if err := app.Commit(); err != nil {
		panic(err)
	}
	for _, ge := range []struct {
		name string
		off  int64
	}{{"g1", c45Off1}, {"g2", c45Off2}} {
		g := s.groups[ge.name]
		if g == nil {
			continue
		}
		ts := t + ge.off
		g.Eval(context.Background(), time.UnixMilli(ts).UTC())
		if f := s.compare(op+" (after evaluation of "+ge.name+")", s.m.evalGroup(ge.name, ts), check); f != nil {
			return f
		}
	}
	// removed groups whose two intervals have elapsed
	var rest []c45Removed
	for _, rm := range s.removed {
		if rm.due > s.m.K {
			rest = append(rest, rm)
			continue
		}
		rm.g.cleanupStaleSeries(context.Background(), time.UnixMilli(rm.ts).UTC())
	}
	s.removed = rest
	s.m.endTick()
	if f := s.compare(op+" (end of tick)", []*c45Model{s.m}, check); f != nil {
		return f
	}
	if check {
		for _, e := range s.m.Events {
			s.r.Count("ev_"+e, 1)
		}
		s.r.Distinct("distinct_outcomes", s.m.storeString())
	}
	return nil
}

// readImpl reads every sample of the rule output series of this instance from the real storage.
func (s *c45Sys) readImpl() map[string][]c45Smp {
	out := map[string][]c45Smp{}
	q, err := s.store.st.Querier(math.MinInt64, math.MaxInt64)
	if err != nil {
		panic(err)
	}
	defer q.Close()
	for _, name := range []string{"x", "y", "w"} {
		ss := q.Select(context.Background(), true, nil, labels.MustNewMatcher(labels.MatchEqual, "__name__", name+s.sfx))
		var it chunkenc.Iterator
		for ss.Next() {
			sr := ss.At()
			key := strings.Replace(sr.Labels().String(), name+s.sfx, name, 1)
			it = sr.Iterator(it)
			var l []c45Smp
			for vt := it.Next(); vt != chunkenc.ValNone; vt = it.Next() {
				if vt != chunkenc.ValFloat {
					panic("histogram sample in rule output")
				}
				t, v := it.At()
				l = append(l, c45Smp{t, v})
			}
			if it.Err() != nil {
				panic(it.Err())
			}
			out[key] = l
		}
		if ss.Err() != nil {
			panic(ss.Err())
		}
	}
	return out
}

// c45Diff describes the first difference between the stored samples and one acceptable outcome.
func c45Diff(got map[string][]c45Smp, want c45Store) (sig, msg string) {
	keys := map[string]bool{}
	for k := range got {
		keys[k] = true
	}
	for k := range want {
		if !strings.Contains(k, `__name__="b"`) {
			keys[k] = true
		}
	}
	ks := make([]string, 0, len(keys))
	for k := range keys {
		ks = append(ks, k)
	}
	sort.Strings(ks)
	stale := func(v float64) bool { return math.Float64bits(v) == math.Float64bits(c45Stale) }
	for _, k := range ks {
		g, w := got[k], want[k]
		for i := 0; i < len(g) || i < len(w); i++ {
			switch {
			case i >= len(g) || (i < len(w) && w[i].T < g[i].T):
				if stale(w[i].V) {
					return "stale-marker-missing", fmt.Sprintf("series %s: no staleness marker at %d; stored %v, want %v", k, w[i].T-c45T0, g, w)
				}
				return "recorded-sample-missing", fmt.Sprintf("series %s: sample %v missing; stored %v, want %v", k, w[i], g, w)
			case i >= len(w) || g[i].T < w[i].T:
				if stale(g[i].V) {
					return "stale-marker-unexpected", fmt.Sprintf("series %s: unexpected staleness marker at %d; stored %v, want %v", k, g[i].T-c45T0, g, w)
				}
				return "recorded-sample-unexpected", fmt.Sprintf("series %s: unexpected sample %v; stored %v, want %v", k, g[i], g, w)
			case math.Float64bits(g[i].V) != math.Float64bits(w[i].V):
				switch {
				case stale(g[i].V):
					return "stale-marker-unexpected", fmt.Sprintf("series %s: staleness marker instead of %v; stored %v, want %v", k, w[i], g, w)
				case stale(w[i].V):
					return "stale-marker-missing", fmt.Sprintf("series %s: %v instead of a staleness marker; stored %v, want %v", k, g[i], g, w)
				}
				return "recorded-value-wrong", fmt.Sprintf("series %s: stored %v, want %v (all stored %v, want %v)", k, g[i], w[i], g, w)
			}
		}
	}
	return "", ""
}

// compare checks the real storage against the acceptable outcomes and adopts the matching one.
func (s *c45Sys) compare(what string, cands []*c45Model, check bool) *vx.Fail {
	got := s.readImpl()
	var firstSig, firstMsg string
	for i, c := range cands {
		if s.corrupt != nil {
			s.corrupt(c)
		}
		sig, msg := c45Diff(got, c.Store)
		if sig == "" {
			s.m = c
			if check && s.m.Concurrent {
				s.r.Count("ev_concurrent-evaluation", 1)
			}
			return nil
		}
		if i == 0 {
			firstSig, firstMsg = sig, msg
		}
	}
	return vx.Failf(firstSig, "config %s after %s: %s (%d acceptable outcome(s); history %v)", s.name, what, firstMsg, len(cands), s.hist)
}

// Key: model state + the implementation's group state (rules, seriesInPreviousEval, staleSeries,
// pending removed groups), instance suffix normalised away.
func (s *c45Sys) Key() string {
	var b strings.Builder
	b.WriteString(s.m.key())
	norm := func(x string) string { return strings.ReplaceAll(x, s.sfx, "") }
	for _, name := range []string{"g1", "g2"} {
		g := s.groups[name]
		if g == nil {
			continue
		}
		fmt.Fprintf(&b, " | %s lim=%d", name, g.limit)
		for i, r := range g.rules {
			var prev []string
			for _, l := range g.seriesInPreviousEval[i] {
				prev = append(prev, norm(l.String()))
			}
			sort.Strings(prev)
			fmt.Fprintf(&b, " %s<-%s prev=%v", norm(r.Name()), norm(r.Query().String()), prev)
		}
		var st []string
		for _, l := range g.staleSeries {
			st = append(st, norm(l.String()))
		}
		sort.Strings(st)
		fmt.Fprintf(&b, " stale=%v", st)
	}
	for _, rm := range s.removed {
		var st []string
		for _, l := range rm.g.staleSeries {
			st = append(st, norm(l.String()))
		}
		sort.Strings(st)
		fmt.Fprintf(&b, " | removed due+%d %v", rm.due-s.m.K, st)
	}
	return b.String()
}

func (s *c45Sys) Close() {
	if s.store != nil {
		c45Release(s.store)
		s.store = nil
	}
}

// c45SelfTest: after a run on which implementation and model agree, corrupted expectations must
// all be reported.
func c45SelfTest(t *testing.T, r *vx.Run) {
	prefix := []string{"tick/ab", "tick/a"}
	type corruption struct {
		what string
		op   string
		do   func(m *c45Model)
		sig  string
	}
	sa := c45Series("x", map[string]string{"s": "a"})
	sb := c45Series("x", map[string]string{"s": "b"})
	ya := c45Series("y", map[string]string{"s": "a"})
	cs := []corruption{
		{"staleness marker not expected", "tick/a", func(m *c45Model) {
			l := m.Store[sb]
			if math.Float64bits(l[len(l)-1].V) == math.Float64bits(c45Stale) {
				m.Store[sb] = l[:len(l)-1]
			}
		}, "stale-marker-unexpected"},
		{"extra staleness marker expected", "tick/a", func(m *c45Model) { m.Store.append(sa, m.now(), c45Stale) }, "stale-marker-missing"},
		{"dependent rule expected to see the previous evaluation", "tick/a", func(m *c45Model) {
			l := m.Store[ya]
			l[len(l)-1].V = 2 * c45BaseValue(m.K-1)
		}, "recorded-value-wrong"},
		{"result sample not expected", "tick/a", func(m *c45Model) { l := m.Store[sa]; m.Store[sa] = l[:len(l)-1] }, "recorded-sample-unexpected"},
		{"result sample expected but absent", "tick/a", func(m *c45Model) { m.Store.append(sb, m.now(), 7) }, "recorded-sample-missing"},
	}
	for _, c := range cs {
		s := c45NewSys(r, "X,Y|W")
		ok := true
		for _, op := range prefix {
			if f := s.Apply(op, true); f != nil {
				r.Violation(f.Signature, f.Message, map[string]any{"config": s.name, "ops": s.hist})
				ok = false
				break
			}
		}
		if !ok {
			s.Close()
			return
		}
		s.corrupt = c.do
		f := s.Apply(c.op, false)
		s.Close()
		if f == nil {
			t.Fatalf("self-test: oracle accepted a wrong expectation (%s)", c.what)
		}
		if f.Signature != c.sig {
			t.Fatalf("self-test: corruption %q reported as %s, want %s: %s", c.what, f.Signature, c.sig, f.Message)
		}
	}
}

func TestVerifC45(t *testing.T) {
	r := vx.Start(t, "C45", "model_checking")
	defer r.Finish()
	defer c45DrainPool()
	debug.SetGCPercent(400)
	mk := func(name string) func() vx.Sys { return func() vx.Sys { return c45NewSys(r, name) } }
	if r.Replay != "" {
		var rp struct {
			Config string   `json:"config"`
			Ops    []string `json:"ops"`
		}
		r.LoadReplay(&rp)
		if f := r.ReplayOps(mk(rp.Config), rp.Ops); f != nil {
			r.Violation(f.Signature, f.Message, rp)
		}
		return
	}
	c45SelfTest(t, r)
	type plan struct {
		name  string
		depth int
	}
	var plans []plan
	if r.Quick() {
		// full operation alphabet (ticks + reloads)
		plans = []plan{{"X,Y|W", 4}, {"Y,X|", 3}, {"X,Y|;lim1=1", 3}, {"X,W,Y|;conc", 3},
			// fixed configuration, ticks only (deeper output churn)
			{"X,Y|W;ticks", 5}, {"Y,X|W;ticks", 5}, {"Xa,Y|;lim1=1;ticks", 5}, {"X,W,Y|;conc;ticks", 5}}
	} else {
		plans = []plan{{"X,Y|W", 5}, {"Y,X|W", 5}, {"X|Y", 4}, {"X,Y|;lim1=1", 5}, {"X,W,Y|;conc", 5}, {"W|X,Y;conc", 4},
			{"X,Y|W;ticks", 7}, {"Y,X|W;ticks", 7}, {"X|Y;ticks", 7}, {"X,Y|;lim1=1;ticks", 7}, {"X,W,Y|;conc;ticks", 7}, {"W,X,Y|;conc;ticks", 7}}
	}
	custom := false
	if v := os.Getenv("VERIF_C45_PLAN"); v != "" { // e.g. "X,Y|W:4+Y,X|;conc:3"
		plans, custom = nil, true
		for _, p := range strings.Split(v, "+") {
			i := strings.LastIndex(p, ":")
			d, _ := strconv.Atoi(p[i+1:])
			plans = append(plans, plan{p[:i], d})
		}
	}
	pl := map[string]int{}
	for _, p := range plans {
		if r.Expired() {
			r.NotExhaustive("deadline before plan " + p.name)
			break
		}
		res := r.BFS(p.name, mk(p.name), p.depth)
		pl[p.name] = p.depth
		t.Logf("C45 %s depth %d: states=%d transitions=%d depthCompleted=%d", p.name, p.depth, res.States, res.Transitions, res.DepthCompleted)
	}
	r.Set("depth", pl)
	r.Set("rule", "explicit-state BFS over histories of ticks (scrape of a subset of the base series b{s=a}, b{s=b} with a value that changes every tick, then Group.Eval of g1 at +10s and g2 at +40s, then due removed-group cleanups) and reloads (add/remove/move/reorder a rule, alter X's expression) over the rules X: x=b, Y: y=x*2, W: w{l=1}=b+10; after every group evaluation all stored samples of x,y,w are compared with the reference model")
	r.Assume("the goroutine glue in Group.run that marks a removed group's series stale (collect series, wait two intervals, cleanupStaleSeries at the removal time) is replicated by the harness around the real cleanupStaleSeries; Manager.Update's keep-if-Equals / CopyState skeleton is replicated around the real LoadGroups, Equals and CopyState")
	r.Assume("storage contract: per series samples are accepted in time order, an equal timestamp with a different value is rejected; consecutive system instances share pooled test storages with disjoint metric names")
	r.Assume("groups g1 and g2 are evaluated at different offsets of the interval (+10s, +40s), reloads happen at +50s")
	if custom || r.Violations() > 0 || r.Expired() {
		return
	}
	need := []string{"stale-marker-vanished-series", "stale-marker-removed-rule", "dependent-saw-same-evaluation", "dependent-saw-older-evaluation", "evaluation-failed-limit", "reload-add", "reload-rm", "reload-mv", "reload-swap", "reload-chg", "concurrent-evaluation"}
	if r.Thorough() {
		need = append(need, "stale-marker-removed-group", "stale-marker-removed-group-rejected", "stale-marker-removed-rule-rejected")
	}
	for _, e := range need {
		if r.Get("ev_"+e) == 0 {
			t.Fatalf("vacuous run: behaviour %q was never exercised", e)
		}
	}
}
