package rules

// C44 reference state machine. Written from the property statement, from
// docs/configuration/alerting_rules.md ("for", "keep_firing_for", ALERTS series, staleness of the
// synthetic series) and from the documentation of --rules.alert.for-outage-tolerance /
// --rules.alert.for-grace-period. All times are whole seconds relative to c44T0.

import (
	"fmt"
	"sort"
	"strings"
)

const (
	c44D     = 3    // the 'for' / keep_firing_for duration d (seconds)
	c44T0    = 1_700_000_000
	c44Tol   = 5    // outage tolerance (seconds)
	c44Grace = 2    // for-grace-period (seconds)
	c44Ret   = 900  // resolved retention: 15 minutes (documented constant)
)

const (
	c44Pending  = "pending"
	c44Firing   = "firing"
	c44Resolved = "resolved"
)

var c44Labels = []string{"A", "B"}

type c44Alert struct {
	St          string
	ActiveAt    int64
	AbsentSince int64 // first evaluation of the current run of absences, -1 when present
	ResolvedAt  int64
}

type c44Stored struct {
	T, V  int64
	Stale bool
}

type c44Model struct {
	For, Kff          int64
	Now               int64
	Restored          bool
	EvalsSinceRestart int // evaluations since the last restart (only meaningful while !Restored)
	Alerts            map[string]*c44Alert
	Prev              map[string]bool      // synthetic series written by the previous evaluation of this process
	Stored            map[string]c44Stored // newest ALERTS_FOR_STATE sample per alert label set, as stored
}

func c44NewModel(forD, kff int64) *c44Model {
	return &c44Model{For: forD, Kff: kff, Restored: true, Alerts: map[string]*c44Alert{}, Prev: map[string]bool{}, Stored: map[string]c44Stored{}}
}

// c44Expect is what one evaluation must produce.
type c44Expect struct {
	Writes   []string // canonical "series=value" strings, sorted
	Notified []string // canonical alert descriptions, sorted
	// Soft is set when the evaluation hit the precondition of the known finding (an absent alert
	// that is kept firing although its activation is less than 'for' ago); the model then adopts
	// the implementation's answer so that exploration can continue.
	Soft   string
	Events []string // coverage events (for vacuity checks)
}

func c44AlertsKey(l, st string) string { return fmt.Sprintf("ALERTS{s=%s,alertstate=%s}", l, st) }
func c44ForKey(l string) string        { return fmt.Sprintf("ALERTS_FOR_STATE{s=%s}", l) }

// eval advances the model by one rule evaluation at time now in which exactly the label sets in
// present are returned by the alert expression.
//
// implPending is consulted only in the situation of the known finding (see c44Expect.Soft): it
// reports whether the implementation turned the absent, kept-firing alert l into a pending one.
func (m *c44Model) eval(now int64, present map[string]bool, implPending func(l string) bool) c44Expect {
	var ex c44Expect
	ev := func(s string) { ex.Events = append(ex.Events, s) }
	m.Now = now
	if !m.Restored {
		m.EvalsSinceRestart++
	}
	for _, l := range c44Labels {
		a := m.Alerts[l]
		if present[l] {
			// "pending from its first active evaluation"; "a resolved alert that reappears starts
			// a new pending period".
			if a == nil || a.St == c44Resolved {
				if a != nil {
					ev("resolved-reappears")
				}
				a = &c44Alert{St: c44Pending, ActiveAt: now, AbsentSince: -1}
				m.Alerts[l] = a
			}
			if a.AbsentSince >= 0 {
				ev("reappears-while-kept-firing")
			}
			a.AbsentSince = -1
			// "becomes firing at the first evaluation at least the 'for' duration after its
			// activation while it stayed active". The activation time may have been shifted by a
			// restore and the duration changed by a reload; the state is a function of both.
			old := a.St
			if now-a.ActiveAt >= m.For {
				a.St = c44Firing
			} else {
				a.St = c44Pending
			}
			if old == c44Pending && a.St == c44Firing && now > a.ActiveAt {
				ev("pending-to-firing")
			}
			if old == c44Firing && a.St == c44Pending {
				ev("firing-back-to-pending")
			}
			continue
		}
		if a == nil {
			continue
		}
		switch a.St {
		case c44Pending:
			// "when it is absent from an evaluation, a pending alert is dropped"
			delete(m.Alerts, l)
			ev("pending-dropped")
		case c44Firing:
			// "a firing alert is resolved unless it is still within keep_firing_for"
			keep := false
			if m.Kff > 0 {
				if a.AbsentSince < 0 {
					a.AbsentSince = now
				}
				keep = now-a.AbsentSince < m.Kff
			}
			if !keep {
				a.St = c44Resolved
				a.ResolvedAt = now
				if m.Kff > 0 {
					ev("resolved-after-keep-firing")
				} else {
					ev("resolved")
				}
				break
			}
			ev("kept-firing")
			if now-a.ActiveAt < m.For && implPending != nil && implPending(l) {
				// Statement: the alert stays firing. The implementation turns it into a pending
				// alert although the expression does not return it (known finding); adopt that.
				ex.Soft = l
				a.St = c44Pending
				a.AbsentSince = -1
			}
		case c44Resolved:
			// "Resolved alerts are retained for the resolved-retention period" (inclusive: the
			// code comment says "keep it for at least the retention period").
			if now-a.ResolvedAt > c44Ret {
				delete(m.Alerts, l)
				ev("retention-expired")
			} else {
				ev("retained")
			}
		}
	}
	// Synthetic series: one ALERTS sample (value 1, label alertstate) and one ALERTS_FOR_STATE
	// sample (value = activation time in unix seconds) per pending/firing alert, only once the
	// for-state restore has run; series written by the previous evaluation and not by this one
	// are marked stale ("the series is marked stale when this is no longer the case").
	cur := map[string]bool{}
	if m.Restored {
		for _, l := range c44Labels {
			a := m.Alerts[l]
			if a == nil || a.St == c44Resolved {
				continue
			}
			k := c44AlertsKey(l, a.St)
			cur[k] = true
			ex.Writes = append(ex.Writes, k+"=1")
			k = c44ForKey(l)
			cur[k] = true
			ex.Writes = append(ex.Writes, fmt.Sprintf("%s=%d", k, c44T0+a.ActiveAt))
			m.Stored[l] = c44Stored{T: now, V: a.ActiveAt}
		}
	}
	for k := range m.Prev {
		if !cur[k] {
			ex.Writes = append(ex.Writes, k+"=stale")
			ev("stale-marker")
			if strings.HasPrefix(k, "ALERTS_FOR_STATE") {
				l := strings.TrimSuffix(strings.TrimPrefix(k, "ALERTS_FOR_STATE{s="), "}")
				m.Stored[l] = c44Stored{T: now, Stale: true}
			}
		}
	}
	m.Prev = cur
	sort.Strings(ex.Writes)
	// Notifications (resend delay 0): every firing alert and every retained resolved alert.
	for _, l := range c44Labels {
		a := m.Alerts[l]
		if a == nil {
			continue
		}
		switch a.St {
		case c44Firing:
			ex.Notified = append(ex.Notified, fmt.Sprintf("%s firing activeAt=%d", l, a.ActiveAt))
		case c44Resolved:
			ex.Notified = append(ex.Notified, fmt.Sprintf("%s resolved resolvedAt=%d", l, a.ResolvedAt))
		}
	}
	sort.Strings(ex.Notified)
	return ex
}

// restart: the process is restarted; all in-memory alert state is lost, the stored series stay.
func (m *c44Model) restart() {
	m.Alerts = map[string]*c44Alert{}
	m.Prev = map[string]bool{}
	m.Restored = false
	m.EvalsSinceRestart = 0
}

// restore models Group.RestoreForState at time ts as documented:
//   - only alerts whose 'for' is at least the grace period are restored;
//   - only if the newest stored ALERTS_FOR_STATE sample of the alert lies within the outage
//     tolerance before ts and is not a staleness marker;
//   - an alert that had already been firing keeps its old activation time;
//   - otherwise the time spent down does not count as pending time (activation shifted by the
//     down time), but the alert must wait at least the grace period after ts before it fires.
func (m *c44Model) restore(ts int64) (events []string) {
	m.Restored = true
	if m.For < c44Grace {
		return []string{"restore-skipped-for-below-grace"}
	}
	for _, l := range c44Labels {
		a := m.Alerts[l]
		if a == nil {
			continue
		}
		s, ok := m.Stored[l]
		if !ok {
			events = append(events, "restore-no-series")
			continue
		}
		if s.T < ts-c44Tol {
			events = append(events, "restore-outage-exceeded")
			continue
		}
		if s.Stale {
			events = append(events, "restore-last-sample-stale")
			continue
		}
		if a.St == c44Resolved {
			continue // the activation time of a resolved alert has no meaning
		}
		spent := s.T - s.V
		remaining := m.For - spent
		switch {
		case remaining <= 0:
			a.ActiveAt = s.V
			events = append(events, "restore-was-firing")
		case remaining < c44Grace:
			a.ActiveAt = ts + c44Grace - m.For // fires exactly one grace period after ts
			events = append(events, "restore-grace")
		default:
			a.ActiveAt = s.V + (ts - s.T)
			events = append(events, "restore-shift-by-downtime")
		}
	}
	return events
}

// c44MaxFor is the largest hold duration any operation can configure.
const c44MaxFor = 2 * c44D

func c44Cap(v, c int64) int64 {
	if v > c {
		return c
	}
	return v
}

// key is the canonical abstract model state. Times are relative to Now (plus the parity of Now,
// which decides the sample values). Ages are capped where the cap provably cannot be observed:
//   - activation age: only ever compared with a 'for' duration (<= c44MaxFor) and ages only
//     grow, so all ages >= c44MaxFor are equivalent;
//   - resolved age: only compared with the retention (dropped when > retention), ages only grow,
//     so all ages > retention are equivalent;
//   - newest stored ALERTS_FOR_STATE sample: its age is only compared with the outage tolerance
//     (a restore at ts >= Now reads [ts-tolerance, ts]) and ages only grow, so all ages >
//     tolerance are equivalent - but they stay distinct from "no sample", so that a restore is
//     also executed on the real code with a too-old sample in the storage; of the value only the
//     pending time it records (sample time - activation, compared with 'for') matters.
// Every cap keeps both sides of its threshold as separate classes.
func (m *c44Model) key() string {
	var b strings.Builder
	fmt.Fprintf(&b, "for=%d kff=%d par=%d restored=%v n=%d", m.For, m.Kff, m.Now%2, m.Restored, m.EvalsSinceRestart)
	for _, l := range c44Labels {
		if a := m.Alerts[l]; a != nil {
			fmt.Fprintf(&b, " %s:%s", l, a.St)
			if a.St == c44Resolved {
				fmt.Fprintf(&b, ",res=%d", c44Cap(m.Now-a.ResolvedAt, c44Ret+1))
			} else {
				fmt.Fprintf(&b, ",act=%d", c44Cap(m.Now-a.ActiveAt, c44MaxFor))
				if a.AbsentSince >= 0 {
					fmt.Fprintf(&b, ",abs=%d", m.Now-a.AbsentSince)
				}
			}
		}
		if s, ok := m.Stored[l]; ok {
			if s.Stale {
				fmt.Fprintf(&b, " st%s:%d,stale", l, c44Cap(m.Now-s.T, c44Tol+1))
			} else {
				fmt.Fprintf(&b, " st%s:%d,spent=%d", l, c44Cap(m.Now-s.T, c44Tol+1), c44Cap(s.T-s.V, c44MaxFor))
			}
		}
	}
	prev := make([]string, 0, len(m.Prev))
	for k := range m.Prev {
		prev = append(prev, k)
	}
	sort.Strings(prev)
	fmt.Fprintf(&b, " prev=%v", prev)
	return b.String()
}

func (m *c44Model) summary() string {
	var parts []string
	for _, l := range c44Labels {
		if a := m.Alerts[l]; a != nil {
			parts = append(parts, l+":"+a.St)
		}
	}
	return strings.Join(parts, " ")
}
