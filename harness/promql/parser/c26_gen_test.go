package parser

// C26 generator: bounded-exhaustive, typed, *text level* expression generator.
//
// Every case is a PromQL text assembled from a typed tree (scalar / instant vector / range
// vector / string) with the harness' own renderer (never the printer under test), so every AST
// that enters the round trip has been produced by the real parser from some input text: the
// quantifier of C26 is "every expression accepted by the parser".
//
// Layers (children of layer n templates come from the "core" sets of the layers below, and every
// member of the full leaf sets is used at least once in every child position of a default
// template):
//   L0  leaves: number/duration/string literals, vector selectors (name x matchers x modifiers),
//       matrix selectors, duration expressions to depth 2 in every bracket/offset context
//   L1  every composite node kind over leaves with the full per-node parameter alphabet
//   L2  every composite node kind over L1 core children (one per node kind / precedence class)
//   LP  precedence family: all two-operator trees x paren placement x unary minus position
//   L3  (thorough) binary/aggregate/call/subquery over L2 core children

import (
	"fmt"
	"sort"
	"strings"
)

type c26Gen struct {
	seen  map[string]struct{}
	cases []string
	layer []uint8
	cur   uint8
}

func (g *c26Gen) add(ss ...string) {
	for _, s := range ss {
		if _, ok := g.seen[s]; ok {
			continue
		}
		g.seen[s] = struct{}{}
		g.cases = append(g.cases, s)
		g.layer = append(g.layer, g.cur)
	}
}

var c26BinOps = []string{"+", "-", "*", "/", "%", "^", "atan2", "==", "!=", ">", "<", ">=", "<=", "</", ">/", "and", "or", "unless"}

// one operator per precedence class (plus both members where associativity/kind differs)
var c26PrecOps = []string{"or", "and", "unless", "==", ">=", "+", "-", "*", "/", "%", "atan2", "^"}

var c26AggOps = []string{"sum", "avg", "count", "min", "max", "group", "stddev", "stdvar", "topk", "bottomk", "count_values", "quantile", "limitk", "limit_ratio"}

func c26AggHasParam(op string) bool {
	switch op {
	case "topk", "bottomk", "count_values", "quantile", "limitk", "limit_ratio":
		return true
	}
	return false
}

// full modifier alphabet of a binary operator (text between operator and right operand)
var c26BinModsFull = []string{
	"", "bool", "on (a)", "ignoring (a)", "on ()", "ignoring ()", "on (a, b)",
	"on (a) group_left", "on (a) group_left ()", "on (a) group_left (b)", "ignoring (a) group_right (b)",
	"ignoring (a) group_right (b, c)", "on (a, b) group_left ()", "on () group_right (b)",
	"bool on (a)", "bool ignoring (a) group_left (b)", "on (a) group_left (a)",
	"fill (1)", "fill_left (1)", "fill_right (2)", "fill_left (1) fill_right (2)", "fill_right (2) fill_left (1)",
	"fill_left (3) fill_right (3)", "fill (-1)", "fill (+1)", "fill (NaN)", "fill (Inf)", "fill (-Inf)", "fill (5m)", "fill (1e21)",
	"fill (0x10)", "fill (0.1)", "fill (-0)", "on (a) fill (0)", "on (a) group_left (b) fill_left (1)",
	"ignoring (a) group_right () fill_right (-2.5)", "bool fill (1)", "bool on (a) fill (1)",
	`on ("a.b")`, `ignoring ("a b", c)`, "on (on)", "on (bool, by, sum, start, fill)", "ignoring (a,)", "group_left (b)",
	"on (a) bool", "fill (1) on (a)", "fill (foo)", "fill ()", "fill (1) fill (2)",
}

var c26BinModsSmall = []string{"", "bool", "on (a)", "ignoring (a) group_left (b)", "fill (1)", "bool on (a) group_right ()"}

var c26Groupings = []string{"", "by ()", "by (a)", "by (a, b)", "without ()", "without (a)", `by ("a.b")`, `without ("a b", c)`,
	"by (by)", "by (without, on, bool, sum, offset, fill, start, atan2)", "by (a,)", "by (a, a)", `by ("")`, "by (1)", "by (a b)"}

var c26GroupingsSmall = []string{"", "by (a)", "without ()"}

func c26Cross(f func(a, b string), as, bs []string) {
	for _, a := range as {
		for _, b := range bs {
			f(a, b)
		}
	}
}

// duration expressions (text that may stand inside [...] / after offset)
func c26DurExprs() (all, core []string) {
	atoms := []string{"5m", "2", "step()", "range()", "1s1ms", "1.5", "0x10"}
	ops := []string{"+", "-", "*", "/", "%", "^"}
	seen := map[string]struct{}{}
	add := func(s string) {
		if _, ok := seen[s]; !ok {
			seen[s] = struct{}{}
			all = append(all, s)
		}
	}
	for _, a := range atoms {
		add(a)
	}
	d0 := append([]string{}, all...)
	for _, a := range d0 {
		add("-" + a)
		add("+" + a)
		add("(" + a + ")")
	}
	for _, op := range ops {
		c26Cross(func(a, b string) { add(a + " " + op + " " + b) }, d0, d0)
	}
	c26Cross(func(a, b string) { add("max_of(" + a + ", " + b + ")"); add("min_of(" + a + ", " + b + ")") }, d0, d0)
	d1 := append([]string{}, all...)
	core = []string{"5m", "2", "step()", "-5m", "(5m)", "(2)", "5m + 1", "5m - 1m", "5m * 2", "6 / 2", "7 % 4", "2 ^ 3",
		"max_of(step(), 5m)", "-step()", "1s1ms", "0 * 5m"}
	for _, a := range d1 {
		add("-" + a)
		add("+" + a)
		add("(" + a + ")")
		add("-(" + a + ")")
	}
	for _, op := range ops {
		c26Cross(func(a, b string) { add(a + " " + op + " " + b) }, core, core)
	}
	c26Cross(func(a, b string) { add("max_of(" + a + ", " + b + ")"); add("min_of(" + a + ", " + b + ")") }, core, core)
	// zero divisors and nested special forms
	for _, s := range []string{"5m / 0", "5m % 0", "5m / (1 - 1)", "0", "0s", "-0", "(-5m)", "-(-5m)", "- -5m", "+ +5m", "+-5m",
		"((5m))", "((2)) * 2", "max_of(max_of(1, 2), min_of(3, 4))", "-max_of(1, 2)", "+max_of(1, 2)", "-(max_of(1, 2))",
		"2 ^ 3 ^ 2", "(2 ^ 3) ^ 2", "2 ^ (3 ^ 2)", "-2 ^ 2", "(-2) ^ 2", "2 ^ -2", "1 - 2 - 3", "1 - (2 - 3)", "(1 - 2) - 3",
		"1 + 2 * 3", "(1 + 2) * 3", "1 * 2 + 3", "1 * (2 + 3)", "6 / 3 / 2", "6 / (3 / 2)", "7 % 4 % 2", "2 * 3 % 4", "2 * (3 % 4)",
		"1e3", "1e-3", "0.001", "1_000", ".5", "Inf", "NaN", "9223372036", "9223372037", "1e300", "292y", "293y", "1y1w1d1h1m1s1ms",
		"5M", "5 m", "STEP()", "step( )", "step ()", "max_of (1, 2)", "max_of(1)", "max_of(1, 2, 3)", "step() + range()",
		"step() * step()", "range() / 2", "foo", `"a"`, "time()", "5m:", "", "()", "+", "5m +", "* 5m"} {
		add(s)
	}
	return all, core
}

func c26Selectors() (sel []string) {
	names := []string{"foo", "a:b", "sum", "offset", "fill", "anchored", "step", "start", "Inf_x", "on_x"}
	matchers := []string{"", "{}", `{a="b"}`, `{a!="b",c=~"d.*",e!~"f"}`, `{"a.b"="c"}`, `{a="b",}`, `{a=""}`, `{b="2",a="1"}`,
		`{a="\"q\\"}`, `{a="b",a="c"}`, `{on="x",bool!="y",fill=~"z"}`, "{a='b'}", "{a=`b\\c`}", `{a="日本"}`, `{a="\xff"}`}
	for _, n := range names {
		for _, m := range matchers {
			sel = append(sel, n+m)
		}
	}
	sel = append(sel, `{__name__="foo"}`, `{"foo.bar"}`, `{"foo.bar",a="b"}`, `{a="b","foo bar"}`, `{a="b"}`, `{a=~".+"}`, `{a!=""}`,
		`{__name__=~"f.*"}`, `{__name__!="foo",a="b"}`, `{"foo"}`, `{'foo'}`, `{"foo","bar"}`, `foo{"bar"}`, `foo{__name__="bar"}`,
		`{a=""}`, `{a!="b"}`, `{}`, `{a=~"("}`, `foo{a=~"("}`, `{"a.b"=~"c|d","e f"!~"g"}`, `{__name__=""}`, `{__name__="",a="b"}`,
		`{"":"x"}`, `{""="x"}`, `{"\xff"="x"}`, `{"日本"="x"}`, `{"日本"}`)
	return sel
}

var c26SelMods = []string{"", " offset 5m", " offset -5m", " offset 1s1ms", " offset 1h30m", " offset 5", " offset 1.5", " offset +5m",
	" offset 0", " offset 0s", " offset -0",
	" @ 1", " @ -1.5", " @ 0", " @ 1.0005", " @ 4492372648465.894", " @ 1e15", " @ 5m", " @ 0x10", " @ +1", " @ start()", " @ end()",
" @ -0.001", " @ -0.5", " @ -0.999", " @ -1.001", " @ -0.25", " @ 0.001", " @ 0.5", " @ 1.5", " @ 0.999", " @ -1", " @ -1000.001",
	" @ 9223372036854775.807", " @ -9223372036854775.808", " @ 9223372036854.775", " @ -9223372036854.775", " @ -0.5 offset 5m", " offset -5m @ -0.25", " @ -0.001 offset -1ms",
	" @ 1 offset 5m", " offset 5m @ 1", " @ start() offset -1m", " offset -1m @ end()",
	" anchored", " smoothed", " anchored offset 5m", " offset 5m anchored", " @ 1 smoothed", " smoothed @ 1", " anchored smoothed",
	" @ 1 anchored offset 5m", " offset step()", " offset -step()", " offset +step()", " offset (5m + 1)", " offset -(5m)", " offset (5m)",
	" offset (2)", " offset -(2)", " offset max_of(step(), 1m)", " offset -max_of(step(), 1m)", " offset range()", " offset 5m * 2", " offset (5m * 2)",
	" offset -5m ^ 2", " offset 5m offset 1m", " @ 1 @ 2", " @ Inf", " @ NaN", " @ 1e300", " @ 9223372036854775", " @ step()", " offset",
	" @", " offset foo", " offset 300y", " offset 9223372037", " offset -9223372037"}

var c26MatRanges = []string{"5m", "1h30m", "5", "1.5", "1s1ms", "0x10", "step()", "range()", "5m + 1", "(5m)", "(5)", "-5m", "0", "0s", "292y"}

var c26MatMods = []string{"", " offset 5m", " offset -5m", " @ 1", " @ -0.25", " @ -0.001", " @ -0.999 offset 5m", " @ 0.5", " @ -1.001", " offset -5m @ -0.5", " @ -9223372036854.775", " @ start()", " anchored", " smoothed", " anchored @ 1 offset -5m",
	" @ 1 smoothed", " offset step()", " offset 5m @ 1", " smoothed offset -(5m) @ end()"}

func c26ScalarLeaves() []string {
	return []string{"1", "2.5", "-1", "+1", "0", "-0", "0x1F", "0X_1f", "1e21", "1e-7", "1E3", "Inf", "-Inf", "+Inf", "inf", "NaN", "-NaN", "nan",
		"1_000", "1_0.0_1", ".5", "5.", "007", "0o17", "0b11", "9007199254740993", "1e400", "4.9e-324", "1.7976931348623157e308",
		"0.1", "123456789.123456789", "5m", "-5m", "+5m", "1h30m", "1s1ms", "1m0s1ms", "292y", "1ms", "0s", "0ms", "1w2d", "1y", "5h0m",
		"time()", "pi()", "start()", "end()", "step()", "range()", "max_of(1, 2)", "min_of(step(), 5m)", "max_of(5m, range())"}
}

func c26StringLeaves() []string {
	return []string{`"a"`, `""`, `"a\"b\\c\n\t"`, `'a'`, `'it\'s'`, "`raw\\n`", "`a\"b`", `"\xff"`, `"日本"`, `"日"`, `"\x00"`, `"\101"`, `"a`, `"\q"`}
}

type c26Func struct {
	name string
	args string // one letter per declared argument: v s m t
	vari int
}

func c26FuncTable() []c26Func {
	var fs []c26Func
	names := make([]string, 0, len(Functions))
	for n := range Functions {
		names = append(names, n)
	}
	sort.Strings(names)
	for _, n := range names {
		f := Functions[n]
		a := ""
		for _, t := range f.ArgTypes {
			switch t {
			case ValueTypeVector:
				a += "v"
			case ValueTypeScalar:
				a += "s"
			case ValueTypeMatrix:
				a += "m"
			case ValueTypeString:
				a += "t"
			default:
				a += "?"
			}
		}
		fs = append(fs, c26Func{n, a, f.Variadic})
	}
	return fs
}

// c26Calls renders calls of f with every admissible argument count (and one too few / one too
// many) and every combination of the given per-type argument pools; wide signatures only vary
// the first three arguments.
func c26Calls(f c26Func, pool map[byte][]string, addWrong bool) (out []string) {
	decl := len(f.args)
	counts := map[int]bool{decl: true}
	switch {
	case f.vari > 0:
		for k := decl - 1; k <= decl-1+f.vari && k <= decl+2; k++ {
			counts[k] = true
		}
		counts[decl-1+f.vari] = true
		if addWrong {
			counts[decl+f.vari] = true
		}
	case f.vari < 0:
		counts[decl-1] = true
		counts[decl+1] = true
		counts[decl+2] = true
	}
	if addWrong {
		counts[decl+1] = true
		if decl > 0 {
			counts[decl-1] = true
		}
		if decl > 1 && f.vari != 0 {
			counts[decl-2] = true
		}
	}
	var ks []int
	for k := range counts {
		if k >= 0 && k <= 12 {
			ks = append(ks, k)
		}
	}
	sort.Ints(ks)
	argT := func(i int) byte {
		if decl == 0 {
			return 's'
		}
		if i >= decl {
			return f.args[decl-1]
		}
		return f.args[i]
	}
	for _, k := range ks {
		dims := make([]int, k)
		for i := 0; i < k; i++ {
			dims[i] = len(pool[argT(i)])
			if i >= 3 {
				dims[i] = 1
			}
		}
		total := 1
		for _, d := range dims {
			total *= d
		}
		for x := 0; x < total; x++ {
			idx := x
			args := make([]string, k)
			for i := k - 1; i >= 0; i-- {
				args[i] = pool[argT(i)][idx%dims[i]]
				idx /= dims[i]
			}
			out = append(out, f.name+"("+strings.Join(args, ", ")+")")
		}
		if addWrong && k > 0 {
			// one wrongly typed argument per position
			for i := 0; i < k && i < 4; i++ {
				args := make([]string, k)
				for j := 0; j < k; j++ {
					args[j] = pool[argT(j)][0]
				}
				for _, wt := range []byte{'v', 's', 'm', 't'} {
					if wt != argT(i) {
						args[i] = pool[wt][0]
						out = append(out, f.name+"("+strings.Join(args, ", ")+")")
					}
				}
			}
		}
	}
	if addWrong {
		out = append(out, f.name, f.name+"(", f.name+"()", f.name+"(,)", f.name+" ("+pool[argT(0)][0]+")")
		if decl > 0 {
			out = append(out, f.name+"("+pool[argT(0)][0]+",)")
		}
	}
	return out
}

type c26Sets struct {
	V, S, M, T []string
}

func (c c26Sets) pool() map[byte][]string {
	return map[byte][]string{'v': c.V, 's': c.S, 'm': c.M, 't': c.T, '?': c.S}
}

func (c c26Sets) all() []string {
	var o []string
	o = append(o, c.V...)
	o = append(o, c.S...)
	o = append(o, c.M...)
	o = append(o, c.T...)
	return o
}

func (c c26Sets) plus(d c26Sets) c26Sets {
	j := func(a, b []string) []string { return append(append([]string{}, a...), b...) }
	return c26Sets{j(c.V, d.V), j(c.S, d.S), j(c.M, d.M), j(c.T, d.T)}
}

// composites renders every composite node kind over children. "fresh" are the children new at
// this layer, "old" the core children of the layers below: unary templates range over fresh,
// n-ary templates over all combinations of fresh+old that contain at least one fresh child
// (combinations of old children only were generated by the previous layer).
// full selects the full per-node parameter alphabets (layer 1), wide the wider operator/modifier
// sets for deeper layers (thorough tier).
func (g *c26Gen) composites(fresh, old c26Sets, full, wide bool, funcs []c26Func) {
	c := fresh.plus(old)
	isFresh := map[string]bool{}
	for _, x := range fresh.all() {
		isFresh[x] = true
	}
	vs := append(append([]string{}, c.V...), c.S...)
	// parentheses, unary
	for _, x := range fresh.all() {
		g.add("("+x+")", "-"+x, "+"+x, "-("+x+")", "(("+x+"))")
	}
	// binary
	ops, mods := c26PrecOps, []string{"", "bool", "on (a) group_left (b)"}
	if wide {
		ops, mods = c26BinOps, c26BinModsSmall
	}
	if full {
		ops = c26BinOps
		// every operator x every modifier over the four typical operand pairs kinds ...
		four := []string{c.V[0], c.V[1], c.S[0], c.S[1]}
		for _, op := range ops {
			for _, m := range c26BinModsFull {
				mid := " " + op + " "
				if m != "" {
					mid = " " + op + " " + m + " "
				}
				c26Cross(func(a, b string) { g.add(a + mid + b) }, four, four)
			}
		}
		mods = c26BinModsSmall
	}
	for _, op := range ops {
		for _, m := range mods {
			mid := " " + op + " "
			if m != "" {
				mid = " " + op + " " + m + " "
			}
			c26Cross(func(a, b string) {
				if isFresh[a] || isFresh[b] {
					g.add(a + mid + b)
				}
			}, vs, vs)
		}
		// non-scalar/vector operands (type errors) once per operator
		for _, x := range append(append([]string{}, fresh.M[:min(2, len(fresh.M))]...), fresh.T[:min(1, len(fresh.T))]...) {
			g.add(x+" "+op+" "+vs[0], vs[0]+" "+op+" "+x)
		}
	}
	// aggregations
	grps := c26GroupingsSmall
	if full {
		grps = c26Groupings
	}
	for _, op := range c26AggOps {
		var params []string
		if c26AggHasParam(op) {
			if op == "count_values" {
				params = append(params, c.T...)
				params = append(params, c.S[0])
			} else {
				params = append(params, c.S...)
				params = append(params, c.T[0], c.V[0])
			}
		} else {
			params = []string{""}
		}
		for _, p := range params {
			for _, x := range c.V {
				if !isFresh[x] && !isFresh[p] {
					continue
				}
				body := "(" + x + ")"
				if p != "" {
					body = "(" + p + ", " + x + ")"
				}
				for _, gr := range grps {
					if gr == "" {
						g.add(op + body)
						continue
					}
					g.add(op+" "+gr+" "+body, op+body+" "+gr)
				}
			}
		}
		if full {
			x := c.V[0]
			g.add(op, op+"()", op+"("+x+", "+x+")", op+"(1, 2, "+x+")", op+" by (a) by (b) ("+x+")", op+" by (a) ("+x+") by (b)",
				op+"("+c.M[0]+")", op+"("+c.S[0]+")", op+"("+c.T[0]+")", op+" ("+x+",)", op+" by (a)")
		}
	}
	// calls: all argument combinations containing a fresh child
	pool := c.pool()
	for _, f := range funcs {
		for _, call := range c26Calls(f, pool, full) {
			if full || c26HasAny(call, isFresh) {
				g.add(call)
			}
		}
	}
	// subqueries and postfix modifiers on arbitrary expressions
	for _, x := range fresh.all() {
		ranges := []string{"5m"}
		steps := []string{"", "1m"}
		smods := []string{"", " offset 5m", " @ 1", " @ -0.001", " @ -0.5 offset 5m"}
		if full && (x == fresh.V[0] || x == fresh.S[0]) {
			ranges = []string{"5m", "step()", "5m + 1", "(5m)", "5", "1s1ms", "-5m", "0"}
			steps = []string{"", "1m", "step()", "1m * 2", "30", "(30)", "1s1ms", "-1m", "0"}
			smods = []string{"", " offset 5m", " offset -5m", " @ 1", " @ end() offset -1m", " offset step()", " offset 1m @ start()", " anchored", " smoothed",
				" offset 5m offset 5m", " @ 1 @ 1", " offset (1m + 1)", " @ 0.0005",
				" @ -0.001", " @ -0.5", " @ -0.999", " @ -1.001", " @ 0.001", " @ 1.5", " @ -0.25 offset -5m", " offset 5m @ -0.75", " @ -9223372036854.775", " @ 9223372036854775.807"}
		}
		for _, rg := range ranges {
			for _, st := range steps {
				for _, m := range smods {
					g.add(x+"["+rg+":"+st+"]"+m, "("+x+")["+rg+":"+st+"]"+m)
				}
			}
		}
		for _, m := range []string{" offset 5m", " @ 1", " @ -0.5", " anchored", " smoothed", "[5m]", " @ start()", " offset -step()"} {
			g.add(x+m, "("+x+")"+m)
		}
	}
}

// c26HasAny reports whether the rendered call has an argument from the fresh set.
func c26HasAny(call string, fresh map[string]bool) bool {
	for f := range fresh {
		if strings.Contains(call, f) {
			return true
		}
	}
	return false
}

func c26Generate(thorough bool) *c26Gen {
	g := &c26Gen{seen: map[string]struct{}{}}

	// ---- L0 leaves
	g.cur = 0
	sLeaves := c26ScalarLeaves()
	tLeaves := c26StringLeaves()
	sels := c26Selectors()
	var vLeaves, mLeaves []string
	// every selector with a small modifier set; three selectors with every modifier
	for _, s := range sels {
		for _, m := range []string{"", " offset 5m", " @ 1", " anchored", " @ end() offset -1m", " offset step()"} {
			vLeaves = append(vLeaves, s+m)
		}
	}
	for _, s := range []string{"foo", `sum{a="b"}`, `{"foo.bar"}`} {
		for _, m := range c26SelMods {
			vLeaves = append(vLeaves, s+m)
		}
	}
	for _, s := range []string{"foo", `foo{a="b"}`, `{"foo.bar"}`, "sum", `{a="b"}`} {
		for _, rg := range c26MatRanges {
			for _, m := range c26MatMods {
				mLeaves = append(mLeaves, s+"["+rg+"]"+m)
			}
		}
	}
	mLeaves = append(mLeaves, "foo[5m", "foo[]", "foo[5m]]", "foo[[5m]]", "foo[5m][5m]", "foo[5m][5m:]", "foo[5m]{}", "foo[5m:1m:1m]", "foo[:1m]", "foo[5m::]",
		"foo offset 5m[5m]", "foo @ 1[5m]", "foo anchored[5m]", "(foo)[5m]", "foo[ 5m ]", "foo[5m :1m]", "foo [5m]")
	durs, _ := c26DurExprs()
	g.add(sLeaves...)
	g.add(tLeaves...)
	g.add(vLeaves...)
	g.add(mLeaves...)
	for _, d := range durs {
		g.add("foo["+d+"]", "foo["+d+":]", "foo[5m:"+d+"]", "foo offset "+d, "foo[1m:] offset "+d, "foo["+d+"] offset "+d, "foo["+d+":"+d+"]")
	}

	core0 := c26Sets{
		V: []string{"foo", `bar{a="b"}`, "foo offset 5m", "up @ end()", "up @ -0.5"},
		S: []string{"1", "-2", "5m", "time()"},
		M: []string{"foo[5m]", "foo[5m] offset 5m", `bar{a="b"}[1h]`, "foo[5m] @ -0.25"},
		T: []string{`"a"`, `"b\"c"`},
	}
	funcs := c26FuncTable()

	// ---- L1
	g.cur = 1
	// every leaf in every child position of a default template
	for _, x := range vLeaves {
		g.add("("+x+")", "-"+x, x+" + bar", "bar - "+x, "sum("+x+")", "abs("+x+")", x+"[5m:]", x+" offset 5m", x+" @ 1", x+" anchored", x+" smoothed", x+"[5m]",
			x+" ^ 2", "2 ^ "+x)
	}
	for _, x := range mLeaves {
		g.add("("+x+")", "-"+x, "rate("+x+")", x+"[5m:]", x+" offset 5m", x+" @ 1", x+" anchored", x+" smoothed", x+" + 1", "sum("+x+")")
	}
	for _, x := range sLeaves {
		g.add("("+x+")", "-"+x, "+"+x, "-("+x+")", x+" + 1", "1 - "+x, x+" ^ 2", "2 ^ "+x, "-"+x+" ^ 2", x+" == bool 1", x+" == 1", "vector("+x+")", "topk("+x+", foo)",
			"foo * "+x, x+" atan2 foo", x+"[5m:]", x+" offset 5m", "clamp_max(foo, "+x+")", "foo @ "+x, "foo offset "+x, "foo["+x+"]", "foo + fill ("+x+") bar")
	}
	for _, x := range tLeaves {
		g.add("("+x+")", "-"+x, "count_values("+x+", foo)", "label_replace(foo, "+x+", "+x+", "+x+", "+x+")", x+" + 1", "foo{a="+x+"}", "{"+x+"}", "{"+x+"="+x+"}",
			"sum by ("+x+") (foo)", "foo + on ("+x+") bar", x+"[5m:]")
	}
	g.composites(core0, c26Sets{}, true, true, funcs)

	// ---- LP precedence family
	g.cur = 2
	for _, kind := range [][3]string{{"a", "b", "c"}, {"1", "2", "3"}, {"a", "2", "c"}} {
		for _, o1 := range c26PrecOps {
			for _, o2 := range c26PrecOps {
				for u := 0; u < 8; u++ {
					x := [3]string{kind[0], kind[1], kind[2]}
					for k := 0; k < 3; k++ {
						if u&(1<<k) != 0 {
							x[k] = "-" + x[k]
						}
					}
					g.add(x[0]+" "+o1+" "+x[1]+" "+o2+" "+x[2],
						"("+x[0]+" "+o1+" "+x[1]+") "+o2+" "+x[2],
						x[0]+" "+o1+" ("+x[1]+" "+o2+" "+x[2]+")",
						"-("+x[0]+" "+o1+" "+x[1]+") "+o2+" "+x[2],
						x[0]+" "+o1+" -("+x[1]+" "+o2+" "+x[2]+")")
				}
			}
		}
	}
	for _, o1 := range []string{"==", ">=", "!="} {
		for _, o2 := range c26PrecOps {
			g.add("1 "+o1+" bool 2 "+o2+" 3", "1 "+o2+" 2 "+o1+" bool 3", "(1 "+o1+" bool 2) "+o2+" 3", "1 "+o2+" (2 "+o1+" bool 3)", "-1 "+o1+" bool -2 "+o2+" -3")
		}
	}
	for _, s := range []string{"- -a", "-(-a)", "+-a", "-+a", "- - -a", "-1 ^ 2", "(-1) ^ 2", "-(1) ^ 2", "2 ^ -1", "-(1)", "a - -1", "a - -b", "a + +b", "a ^ -b ^ -c",
		"-a ^ -b", "-a[5m:]", "(-a)[5m:]", "-a offset 5m", "-a @ 1", "-sum(a)", "-abs(a)", "- 1", "-\n1", "-Inf ^ 2", "-NaN", "-5m ^ 2", "(-5m) ^ 2", "-0x10",
		"a offset 5m ^ 2", "a offset -5m ^ 2", "a offset - 5m", "a @ -1 ^ 2", "a @ - 1", "a @ 1 ^ 2", "-a @ -1", "a[5m:] offset -1m ^ 2", "-(a)", "-((a))", "(-(a))"} {
		g.add(s)
	}

	// ---- L2
	g.cur = 3
	core1 := c26Sets{
		V: []string{"(foo)", "-foo", "foo or bar", "foo and bar", "foo unless bar", "foo == bar", "foo + bar", "foo * bar", "foo ^ bar", "foo atan2 bar",
			"foo - on (a) group_left (b) bar", "foo > bool 1", "1 + foo", "sum by (a) (foo)", "topk(2, foo)", "count_values(\"v\", foo)", "abs(foo)",
			"rate(foo[5m])", "vector(1)", "foo + fill (1) bar", "foo anchored"},
		S: []string{"(1)", "1 + 2", "2 ^ 3", "1 == bool 2", "scalar(foo)", "-(1)", "5m * 2", "1 - 2", "pi()"},
		M: []string{"foo[5m:1m]", "foo[5m:]", "(foo)[5m:] offset 5m", "foo[5m:1m] @ 1", "foo[5m] anchored"},
		T: []string{`("a")`},
	}
	var repFuncs []c26Func
	seenSig := map[string]bool{}
	for _, f := range funcs {
		k := fmt.Sprintf("%s/%d", f.args, f.vari)
		if !seenSig[k] {
			seenSig[k] = true
			repFuncs = append(repFuncs, f)
		}
	}
	g.composites(core1, core0, false, thorough, repFuncs)

	// ---- L3 (thorough)
	if thorough {
		g.cur = 4
		core2 := c26Sets{
			V: []string{"(foo + bar)", "-(foo + bar)", "foo + bar * baz", "(foo + bar) * baz", "foo ^ bar ^ baz", "sum(foo + bar)", "sum by (a) (rate(foo[5m]))",
				"rate(foo[5m:1m])", "-foo ^ 2", "abs(-foo)", "foo and on (a) (bar or baz)", "topk(1 + 2, foo)", "-(-foo)", "((foo))", "foo == bool on (a) sum(bar)",
				"max_over_time(rate(foo[5m])[1h:1m] offset 5m)", "clamp(foo, -1, scalar(bar))", "(foo offset 5m)", "-(foo @ end())", "foo + fill (1) (bar - baz)"},
			S: []string{"(-1)", "-(1 + 2)", "2 ^ (3 ^ 2)", "(2 ^ 3) ^ 2", "scalar(sum(foo))", "(1 == bool 2)", "-(5m)", "1 - (2 - 3)"},
			M: []string{"(foo + bar)[5m:]", "sum(foo)[5m:1m] offset 5m", "rate(foo[5m])[1h:]", "abs(foo)[5m:step()]"},
			T: []string{`(("a"))`},
		}
		g.composites(core2, core1.plus(core0), false, false, repFuncs)
	}
	return g
}

// structural tokens for the totality enumeration
var c26Tokens = []string{"(", ")", "{", "}", "[", "]", ",", ":", "+", "-", "*", "/", "^", "%", "==", "!=", "<", ">=", "</", "=", "=~", "!~", "@",
	"and", "or", "unless", "atan2", "sum", "topk", "count_values", "by", "without", "on", "ignoring", "group_left", "bool", "offset",
	"fill", "fill_left", "anchored", "smoothed", "start", "end", "step", "range", "max_of", "foo", "rate", "time", "1", "5m", `"s"`, "NaN", "#", "!", "\n"}
