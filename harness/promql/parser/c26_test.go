package parser

// C26: PromQL expressions print to text that parses back unchanged (String and Prettify), under
// every combination of the parser's optional syntax features; the parser is total (any input
// parses or is rejected with ParseErrors, never ErrUnexpected / a foreign error / a panic).
//
// Engine E1, input enumeration. See c26_gen_test.go for the enumerated space.
//
// Oracle (from the statement): for every input text T and option set F
//   parse_F(T) = (e0, nil)            -> e0 is "an expression accepted by the parser"
//     s1 = e0.String(); parse_F(s1) must succeed with e1, dump(e1) == dump(e0), e1.String() == s1
//     p  = Prettify(e0); parse_F(p) must succeed with e2, dump(e2) == dump(e0)
//   parse_F(T) = (_, err)             -> err must be ParseErrors (syntax/type error)
//   never: panic, ErrUnexpected, any other error type.
// dump() is a reflective listing of every field of every node except position ranges; nil and
// empty slices are identified, label matchers of one selector are compared as a multiset (the
// printer sorts them; their order has no meaning), all NaNs are identified.

import (
	"errors"
	"fmt"
	"math"
	"os"
	"reflect"
	"runtime/debug"
	"sort"
	"strconv"
	"strings"
	"sync"
	"sync/atomic"
	"testing"

	"github.com/prometheus/prometheus/internal/verif/vx"
	"github.com/prometheus/prometheus/model/labels"
	"github.com/prometheus/prometheus/promql/parser/posrange"
)

// ---------------------------------------------------------------------------
// structural dump
// ---------------------------------------------------------------------------

var (
	c26PosT     = reflect.TypeOf(posrange.Pos(0))
	c26PosRT    = reflect.TypeOf(posrange.PositionRange{})
	c26MatcherT = reflect.TypeOf(&labels.Matcher{})
	c26FuncT    = reflect.TypeOf(&Function{})
)

type c26FieldInfo struct {
	idx        int
	label      string
	unexported bool
}

type c26TypeInfo struct {
	head   string
	fields []c26FieldInfo
}

var c26TypeCache sync.Map

func c26TypeInfoOf(t reflect.Type) *c26TypeInfo {
	if ti, ok := c26TypeCache.Load(t); ok {
		return ti.(*c26TypeInfo)
	}
	ti := &c26TypeInfo{head: "<" + t.Name() + ">"}
	for i := 0; i < t.NumField(); i++ {
		f := t.Field(i)
		if f.Type == c26PosT || f.Type == c26PosRT {
			continue
		}
		ti.fields = append(ti.fields, c26FieldInfo{idx: i, label: t.Name() + "." + f.Name, unexported: !f.IsExported()})
	}
	c26TypeCache.Store(t, ti)
	return ti
}

type c26Dumper struct {
	b     strings.Builder
	nodes int
}

const c26Spaces = "                                                                "

func (d *c26Dumper) line(depth int, label, val string) {
	d.b.WriteString(c26Spaces[:depth&63])
	d.b.WriteString(label)
	d.b.WriteByte('=')
	d.b.WriteString(val)
	d.b.WriteByte('\n')
}

func c26MatcherStr(m *labels.Matcher) string {
	if m == nil {
		return "nil-matcher"
	}
	return strconv.Quote(m.Name) + m.Type.String() + strconv.Quote(m.Value)
}

func (d *c26Dumper) val(label string, v reflect.Value, depth int) {
	if !v.IsValid() {
		d.line(depth, label, "nil")
		return
	}
	t := v.Type()
	if t == c26PosT || t == c26PosRT {
		return
	}
	switch v.Kind() {
	case reflect.Interface:
		if v.IsNil() {
			d.line(depth, label, "nil")
			return
		}
		d.val(label, v.Elem(), depth)
	case reflect.Ptr:
		if v.IsNil() {
			d.line(depth, label, "nil")
			return
		}
		switch t {
		case c26MatcherT:
			d.line(depth, label, c26MatcherStr(v.Interface().(*labels.Matcher)))
		case c26FuncT:
			d.line(depth, label, "func:"+v.Interface().(*Function).Name)
		default:
			d.val(label, v.Elem(), depth)
		}
	case reflect.Struct:
		ti := c26TypeInfoOf(t)
		d.line(depth, label, ti.head)
		d.nodes++
		for _, f := range ti.fields {
			if f.unexported {
				d.line(depth+1, f.label, "unexported")
				continue
			}
			d.val(f.label, v.Field(f.idx), depth+1)
		}
	case reflect.Slice:
		if v.Len() == 0 {
			d.line(depth, label, "[]")
			return
		}
		if t.Elem() == c26MatcherT {
			ms := make([]string, v.Len())
			for i := range ms {
				ms[i] = c26MatcherStr(v.Index(i).Interface().(*labels.Matcher))
			}
			sort.Strings(ms)
			d.line(depth, label, "{"+strings.Join(ms, ",")+"}")
			return
		}
		d.line(depth, label, "["+strconv.Itoa(v.Len())+"]")
		for i := 0; i < v.Len(); i++ {
			d.val(label, v.Index(i), depth+1)
		}
	case reflect.Float64, reflect.Float32:
		f := v.Float()
		if math.IsNaN(f) {
			d.line(depth, label, "NaN")
		} else {
			d.line(depth, label, strconv.FormatUint(math.Float64bits(f), 16))
		}
	case reflect.Int, reflect.Int8, reflect.Int16, reflect.Int32, reflect.Int64:
		d.line(depth, label, strconv.FormatInt(v.Int(), 10))
	case reflect.Uint, reflect.Uint8, reflect.Uint16, reflect.Uint32, reflect.Uint64:
		d.line(depth, label, strconv.FormatUint(v.Uint(), 10))
	case reflect.Bool:
		d.line(depth, label, strconv.FormatBool(v.Bool()))
	case reflect.String:
		d.line(depth, label, strconv.Quote(v.String()))
	default:
		d.line(depth, label, "kind:"+v.Kind().String())
	}
}

func c26Dump(e Expr) (dump string, nodes int) {
	var d c26Dumper
	d.b.Grow(512)
	d.val("root", reflect.ValueOf(e), 0)
	return d.b.String(), d.nodes
}

// c26Diff returns "" when equal, otherwise the label of the first differing line ("Type.Field")
// and both lines.
func c26Diff(da, db string) (label, la, lb string) {
	if da == db {
		return "", "", ""
	}
	a, b := strings.Split(da, "\n"), strings.Split(db, "\n")
	n := len(a)
	if len(b) < n {
		n = len(b)
	}
	for i := 0; i < n; i++ {
		if a[i] != b[i] {
			x, y := strings.TrimLeft(a[i], " "), strings.TrimLeft(b[i], " ")
			l, va, _ := strings.Cut(x, "=")
			_, vb, _ := strings.Cut(y, "=")
			if len(va) >= 13 && len(vb) >= 13 {
				if ua, err := strconv.ParseUint(va, 16, 64); err == nil {
					if ub, err := strconv.ParseUint(vb, 16, 64); err == nil {
						x += fmt.Sprintf(" (float64 %v)", math.Float64frombits(ua))
						y += fmt.Sprintf(" (float64 %v)", math.Float64frombits(ub))
					}
				}
			}
			if strings.HasPrefix(va, "<") || strings.HasPrefix(vb, "<") {
				// a different node kind at the same place: classify by the two kinds, not by the place
				return "node-kind:" + strings.Trim(va, "<>") + "->" + strings.Trim(vb, "<>"), x, y
			}
			return l, x, y
		}
	}
	if len(a) != len(b) {
		return "length", strconv.Itoa(len(a)), strconv.Itoa(len(b))
	}
	return "", "", ""
}


// ---------------------------------------------------------------------------
// preconditions of the defects already recorded in known_findings.json
// ---------------------------------------------------------------------------

// c26Walk visits e and every sub-expression, including duration expressions.
func c26Walk(e Expr, f func(Expr)) {
	if e == nil || (reflect.ValueOf(e).Kind() == reflect.Ptr && reflect.ValueOf(e).IsNil()) {
		return
	}
	f(e)
	switch n := e.(type) {
	case *AggregateExpr:
		c26Walk(n.Expr, f)
		c26Walk(n.Param, f)
	case *BinaryExpr:
		c26Walk(n.LHS, f)
		c26Walk(n.RHS, f)
	case *Call:
		for _, a := range n.Args {
			c26Walk(a, f)
		}
	case *MatrixSelector:
		c26Walk(n.VectorSelector, f)
		c26Walk(n.RangeExpr, f)
	case *SubqueryExpr:
		c26Walk(n.Expr, f)
		c26Walk(n.RangeExpr, f)
		c26Walk(n.StepExpr, f)
		c26Walk(n.OriginalOffsetExpr, f)
	case *ParenExpr:
		c26Walk(n.Expr, f)
	case *UnaryExpr:
		c26Walk(n.Expr, f)
	case *StepInvariantExpr:
		c26Walk(n.Expr, f)
	case *VectorSelector:
		c26Walk(n.OriginalOffsetExpr, f)
	case *DurationExpr:
		c26Walk(n.LHS, f)
		c26Walk(n.RHS, f)
	}
}

func c26IsArith(op ItemType) bool {
	switch op {
	case ADD, SUB, MUL, DIV, MOD, POW:
		return true
	}
	return false
}

// c26Precondition computes which known-defect preconditions the accepted AST e satisfies. A
// round-trip failure is reported under "<precondition>:<kind of failure>" only when c26Pick finds
// a satisfied precondition that matches the place of the failure; every other failure keeps its
// detailed signature.
// The preconditions are properties of the parser's OUTPUT for the input, they do not mention
// concrete inputs:
//
//	nan-duration                        a range/step/offset field holds the int64 conversion of NaN (MinInt64)
//	duration-expr-gate-hole             a DurationExpr node although ExperimentalDurationExpr is off
//	offset-duration-expr-extent         an offset whose duration expression is (a chain of unary signs over) an unparenthesised
//	                                    binary expression, or a selector with an offset duration expression that is a
//	                                    direct operand of an arithmetic binary operator (how far the duration
//	                                    expression after "offset" extends depends on its first token)
//	duration-expr-unary-plus            an unparenthesised unary-plus DurationExpr node
//	inf-literal                         a number literal +Inf (printed as "+Inf")
//	duration-literal-float-truncation   a duration literal whose seconds*1e9 is below the exact nanosecond count
//	duration-not-ms-representable       a range/step/offset with a sub-millisecond part or rounded to 0ns, a duration literal -0,
//	                                    or one whose float nanosecond count is no whole number of ms or overflows int64
func c26Precondition(e Expr, opts Options) (p c26Pre) {
	var nanDur, gateHole, extent, uplus, inf, trunc, subms bool
	dur := func(d int64) {
		if d == math.MinInt64 {
			nanDur = true
		} else if d%1000000 != 0 {
			subms = true
		}
	}
	var spineBinary func(d *DurationExpr) bool
	spineBinary = func(d *DurationExpr) bool {
		switch {
		case d == nil || d.Wrapped:
			return false
		case d.LHS != nil && d.RHS != nil:
			return c26IsArith(d.Op)
		case d.LHS == nil:
			r, _ := d.RHS.(*DurationExpr)
			return spineBinary(r)
		}
		return false
	}
	offExpr := func(d *DurationExpr) {
		if spineBinary(d) {
			extent = true
		}
	}
	hasOffExpr := func(x Expr) bool {
		switch n := x.(type) {
		case *VectorSelector:
			return n.OriginalOffsetExpr != nil
		case *SubqueryExpr:
			return n.OriginalOffsetExpr != nil
		case *MatrixSelector:
			if vs, ok := n.VectorSelector.(*VectorSelector); ok {
				return vs.OriginalOffsetExpr != nil
			}
		}
		return false
	}
	c26Walk(e, func(x Expr) {
		switch n := x.(type) {
		case *VectorSelector:
			dur(int64(n.OriginalOffset))
			offExpr(n.OriginalOffsetExpr)
		case *MatrixSelector:
			dur(int64(n.Range))
			if n.Range == 0 && n.RangeExpr == nil {
				subms = true // a positive literal that rounds to 0ns
			}
		case *SubqueryExpr:
			dur(int64(n.OriginalOffset))
			dur(int64(n.Range))
			dur(int64(n.Step))
			if n.Range == 0 && n.RangeExpr == nil {
				subms = true
			}
			offExpr(n.OriginalOffsetExpr)
		case *BinaryExpr:
			if c26IsArith(n.Op) && (hasOffExpr(n.LHS) || hasOffExpr(n.RHS)) {
				extent = true
			}
		case *DurationExpr:
			if !opts.ExperimentalDurationExpr {
				gateHole = true
			}
			if n.Op == ADD && n.LHS == nil && n.RHS != nil && !n.Wrapped {
				uplus = true
			}
		case *NumberLiteral:
			if !n.Duration {
				if math.IsInf(n.Val, 1) {
					inf = true
				}
				return
			}
			v := math.Abs(n.Val) * 1e9
			switch {
			case n.Val == 0 && math.Signbit(n.Val), v >= 9223372036854775000, int64(math.Round(v))%1000000 != 0:
				subms = true
			case int64(v) != int64(math.Round(v)):
				trunc = true
			}
		}
	})
	return c26Pre{nanDur, gateHole, extent, uplus, inf, trunc, subms}
}

type c26Pre struct{ nanDur, gateHole, extent, uplus, inf, trunc, subms bool }

// c26Pick chooses the known-defect class of a round-trip failure from WHERE the failure shows
// (kind: the failing step; detail: first differing field / node kinds, or the class of the error
// that rejected the printed form) among the preconditions the expression satisfies. "" = none:
// the failure keeps its detailed signature and is a new violation.
func c26Pick(kind, detail string, p c26Pre) string {
	first := func(cands ...string) string {
		have := map[string]bool{"nan-duration": p.nanDur, "duration-expr-gate-hole": p.gateHole, "offset-duration-expr-extent": p.extent,
			"duration-expr-unary-plus": p.uplus, "inf-literal": p.inf, "duration-literal-float-truncation": p.trunc, "duration-not-ms-representable": p.subms}
		for _, c := range cands {
			if have[c] {
				return c
			}
		}
		return ""
	}
	if strings.HasSuffix(kind, "-form-rejected") {
		switch {
		case strings.Contains(detail, "experimental duration expression"):
			return first("duration-expr-gate-hole")
		case strings.Contains(detail, "duration must be greater"):
			return first("duration-not-ms-representable", "nan-duration")
		}
		// any other rejection: the text after "offset" was re-read with a different extent
		return first("offset-duration-expr-extent", "nan-duration")
	}
	switch {
	case detail == "NumberLiteral.Val":
		return first("duration-literal-float-truncation", "duration-not-ms-representable")
	case strings.HasSuffix(detail, ".OriginalOffset"), strings.HasSuffix(detail, ".Range"), strings.HasSuffix(detail, ".Step"):
		return first("nan-duration", "duration-not-ms-representable")
	case strings.HasPrefix(detail, "node-kind:") && strings.Contains(detail, "UnaryExpr"):
		return first("inf-literal", "offset-duration-expr-extent")
	case strings.HasPrefix(detail, "node-kind:"):
		return first("offset-duration-expr-extent", "duration-expr-unary-plus")
	case strings.HasPrefix(detail, "DurationExpr."):
		return first("duration-expr-unary-plus", "offset-duration-expr-extent")
	}
	return ""
}

// ---------------------------------------------------------------------------
// oracle
// ---------------------------------------------------------------------------

type c26Env struct {
	opts   Options
	parse  func(string) (Expr, error)
	print  func(Expr) string
	pretty func(Expr) string
}

type c26Fail struct{ sig, msg string }

type c26Result struct {
	accepted bool
	outcome  string
	printed  string
	dump     string
	nodes    int
	fail     *c26Fail
	// Prettify returned exactly the String() text
	prettySame bool
}

func c26Norm(s string) string {
	var b strings.Builder
	inq := false
	for i := 0; i < len(s) && b.Len() < 60; i++ {
		c := s[i]
		switch {
		case c == '"':
			inq = !inq
			if inq {
				b.WriteByte('Q')
			}
		case inq, c >= '0' && c <= '9', c >= 0x80:
		default:
			b.WriteByte(c)
		}
	}
	return b.String()
}

// c26Classify maps a parser error to (class, internal?).
func c26Classify(err error) (string, bool) {
	if errors.Is(err, ErrUnexpected) {
		return "ErrUnexpected", true
	}
	var pes ParseErrors
	if errors.As(err, &pes) {
		if len(pes) == 0 || pes[0].Err == nil {
			return "empty ParseErrors", true
		}
		return c26Norm(pes[0].Err.Error()), false
	}
	var pe *ParseErr
	if errors.As(err, &pe) && pe.Err != nil {
		return c26Norm(pe.Err.Error()), false
	}
	return fmt.Sprintf("%T", err), true
}

func c26ParseGuard(env *c26Env, in string) (e Expr, err error, pan any, stack string) {
	pan, stack = vx.Guard(func() { e, err = env.parse(in) })
	return
}

func c26Short(stack string) string {
	if len(stack) > 1500 {
		return stack[:1500]
	}
	return stack
}

// c26Check evaluates one input; round-trip failures of expressions that satisfy a known-defect
// precondition are re-labelled "<precondition>:<kind>".
func c26Check(env *c26Env, in string, doRT, doPretty bool) (res c26Result) {
	var e0 Expr
	res = c26CheckRaw(env, in, doRT, doPretty, &e0)
	if res.fail != nil && res.accepted && e0 != nil {
		kind, detail, _ := strings.Cut(res.fail.sig, "@")
		if k, d, ok := strings.Cut(kind, ":"); ok {
			kind, detail = k, d
		}
		switch kind {
		case "reparse-ast-differs", "printed-form-rejected", "pretty-ast-differs", "pretty-form-rejected":
			var pre string
			if p, _ := vx.Guard(func() { pre = c26Pick(kind, detail, c26Precondition(e0, env.opts)) }); p == nil && pre != "" {
				res.fail.sig = pre + ":" + kind
			}
		}
	}
	return res
}

func c26CheckRaw(env *c26Env, in string, doRT, doPretty bool, e0p *Expr) (res c26Result) {
	e0, err, pan, st := c26ParseGuard(env, in)
	*e0p = e0
	if pan != nil {
		res.fail = &c26Fail{"parse-panic", fmt.Sprintf("ParseExpr(%q) panicked: %v\n%s", in, pan, c26Short(st))}
		return
	}
	if err != nil {
		cl, internal := c26Classify(err)
		res.outcome = "err:" + cl
		if internal {
			res.fail = &c26Fail{"parse-internal-error", fmt.Sprintf("ParseExpr(%q) failed with an internal (non syntax/type) error: %v (%s)", in, err, cl)}
		}
		return
	}
	if e0 == nil {
		res.fail = &c26Fail{"parse-nil-without-error", fmt.Sprintf("ParseExpr(%q) returned nil, nil", in)}
		return
	}
	res.accepted = true
	res.outcome = "ok:" + fmt.Sprintf("%T", e0)
	var s1 string
	if pan, st := vx.Guard(func() { s1 = env.print(e0) }); pan != nil {
		res.fail = &c26Fail{"print-panic", fmt.Sprintf("String() of the AST of %q panicked: %v\n%s", in, pan, c26Short(st))}
		return
	}
	res.printed = s1
	var d0 string
	if pan, st := vx.Guard(func() { d0, res.nodes = c26Dump(e0) }); pan != nil {
		res.fail = &c26Fail{"harness-dump-panic", fmt.Sprintf("dump of AST of %q panicked: %v\n%s", in, pan, c26Short(st))}
		return
	}
	res.dump = d0
	if doRT {
		e1, err, pan, st := c26ParseGuard(env, s1)
		switch {
		case pan != nil:
			res.fail = &c26Fail{"parse-panic", fmt.Sprintf("ParseExpr(%q) panicked: %v\n%s", s1, pan, c26Short(st))}
			return
		case err != nil:
			cl, _ := c26Classify(err)
			res.fail = &c26Fail{"printed-form-rejected:" + cl, fmt.Sprintf("input %q is accepted, prints as %q, which is rejected: %v", in, s1, err)}
			return
		}
		d1, _ := c26Dump(e1)
		if l, a, b := c26Diff(d0, d1); l != "" {
			res.fail = &c26Fail{"reparse-ast-differs@" + l, fmt.Sprintf("input %q is accepted, prints as %q, which parses to a different AST: first difference at %s: original %s, re-parsed %s", in, s1, l, a, b)}
			return
		}
		var s2 string
		if pan, st := vx.Guard(func() { s2 = env.print(e1) }); pan != nil {
			res.fail = &c26Fail{"print-panic", fmt.Sprintf("String() of the AST of %q panicked: %v\n%s", s1, pan, c26Short(st))}
			return
		}
		if s2 != s1 {
			res.fail = &c26Fail{"reprint-differs", fmt.Sprintf("input %q prints as %q; its re-parsed AST prints as %q", in, s1, s2)}
			return
		}
	}
	if doPretty {
		var p string
		if pan, st := vx.Guard(func() { p = env.pretty(e0) }); pan != nil {
			res.fail = &c26Fail{"pretty-panic", fmt.Sprintf("Prettify of the AST of %q panicked: %v\n%s", in, pan, c26Short(st))}
			return
		}
		if p == s1 {
			// the same text as String(): covered by the String round trip (phase 1 runs it for every input)
			res.prettySame = true
			return
		}
		e2, err, pan, st := c26ParseGuard(env, p)
		switch {
		case pan != nil:
			res.fail = &c26Fail{"parse-panic", fmt.Sprintf("ParseExpr(%q) panicked: %v\n%s", p, pan, c26Short(st))}
			return
		case err != nil:
			cl, _ := c26Classify(err)
			res.fail = &c26Fail{"pretty-form-rejected:" + cl, fmt.Sprintf("input %q is accepted, Prettify gives %q, which is rejected: %v", in, p, err)}
			return
		}
		d2, _ := c26Dump(e2)
		if l, a, b := c26Diff(d0, d2); l != "" {
			res.fail = &c26Fail{"pretty-ast-differs@" + l, fmt.Sprintf("input %q is accepted, Prettify gives %q, which parses to a different AST: first difference at %s: original %s, re-parsed %s", in, p, l, a, b)}
			return
		}
	}
	return
}

func c26Options(bits int) Options {
	return Options{
		EnableExperimentalFunctions:  bits&1 != 0,
		ExperimentalDurationExpr:     bits&2 != 0,
		EnableExtendedRangeSelectors: bits&4 != 0,
		EnableBinopFillModifiers:     bits&8 != 0,
	}
}

func c26RealEnv(bits int) *c26Env {
	p := NewParser(c26Options(bits))
	return &c26Env{
		opts:   c26Options(bits),
		parse:  p.ParseExpr,
		print:  func(e Expr) string { return e.String() },
		pretty: func(e Expr) string { return Prettify(e) },
	}
}

func c26Lex(s string) []string {
	var out []string
	vx.Guard(func() {
		l := Lex(s)
		var it Item
		for len(out) < 200 {
			l.NextItem(&it)
			if it.Typ == EOF || it.Typ == ERROR {
				return
			}
			out = append(out, it.Val)
		}
	})
	return out
}

// option sets in evaluation order: none, all, then the mixed ones
var c26FlagOrder = []int{0, 15, 1, 2, 3, 4, 5, 6, 7, 8, 9, 10, 11, 12, 13, 14}

type c26Replay struct {
	Input string `json:"input"`
	Flags int    `json:"flags"`
	Width int    `json:"width"`
	Phase string `json:"phase"`
}

type c26StrSet struct {
	mu [64]sync.Mutex
	m  [64]map[string]uint8
}

func (s *c26StrSet) add(x string, layer uint8) {
	h := 0
	for i := 0; i < len(x); i++ {
		h = h*31 + int(x[i])
	}
	k := uint(h) % 64
	s.mu[k].Lock()
	if s.m[k] == nil {
		s.m[k] = map[string]uint8{}
	}
	if old, ok := s.m[k][x]; !ok || layer < old {
		s.m[k][x] = layer
	}
	s.mu[k].Unlock()
}

func (s *c26StrSet) sorted(maxLayer uint8) []string {
	var out []string
	for k := range s.m {
		for x, l := range s.m[k] {
			if l <= maxLayer {
				out = append(out, x)
			}
		}
	}
	sort.Slice(out, func(i, j int) bool {
		if len(out[i]) != len(out[j]) {
			return len(out[i]) < len(out[j])
		}
		return out[i] < out[j]
	})
	return out
}

func TestVerifC26(t *testing.T) {
	r := vx.Start(t, "C26", "exploration")
	defer r.Finish()
	defer debug.SetGCPercent(debug.SetGCPercent(400))
	defaultWidth := maxCharactersPerLine
	defer func() { maxCharactersPerLine = defaultWidth }()

	var envs [16]*c26Env
	for i := range envs {
		envs[i] = c26RealEnv(i)
	}
	var dbgMu sync.Mutex
	var dbgFile *os.File
	if p := os.Getenv("C26_DEBUG_FAILS"); p != "" {
		dbgFile, _ = os.Create(p)
		defer dbgFile.Close()
	}
	report := func(f *c26Fail, in string, flags, width int, phase string) {
		if dbgFile != nil {
			dbgMu.Lock()
			fmt.Fprintf(dbgFile, "%s\t%q\t%d\t%d\t%s\n", f.sig, in, flags, width, phase)
			dbgMu.Unlock()
		}
		r.Violation(f.sig, fmt.Sprintf("[options %+v, prettify width %d, phase %s] %s", c26Options(flags), width, phase, f.msg),
			c26Replay{Input: in, Flags: flags, Width: width, Phase: phase})
	}

	if r.Replay != "" {
		var rp c26Replay
		r.LoadReplay(&rp)
		if rp.Width > 0 {
			maxCharactersPerLine = rp.Width
		}
		res := c26Check(envs[rp.Flags&15], rp.Input, true, true)
		if res.fail != nil {
			report(res.fail, rp.Input, rp.Flags, rp.Width, rp.Phase)
		}
		return
	}

	// ---- self-test: the oracle is not vacuous
	{
		all := envs[15]
		d := func(s string) string {
			e, err := all.parse(s)
			if err != nil {
				t.Fatalf("self-test: %q: %v", s, err)
			}
			l, _ := c26Dump(e)
			return l
		}
		if l, _, _ := c26Diff(d("foo + bar"), d("foo   +\n bar")); l != "" {
			t.Fatalf("self-test: dump depends on positions (%s)", l)
		}
		if l, _, _ := c26Diff(d(`foo{b="1",a="2"}`), d(`foo{a="2",b="1"}`)); l != "" {
			t.Fatalf("self-test: dump depends on matcher order (%s)", l)
		}
		for _, pair := range [][2]string{{"foo + bar", "foo - bar"}, {"foo + bar", "foo + on () bar"}, {"foo == 1", "foo == bool 1"}, {"foo", "foo offset 1ms"},
			{"foo[5m]", "foo[5m1ms]"}, {"foo @ 1", "foo @ 1.001"}, {"sum by (a) (foo)", "sum without (a) (foo)"}, {"1", "1.0000000000000002"},
			{"foo[5m:]", "foo[5m:1m]"}, {"foo", "(foo)"}, {`foo{a="b"}`, `foo{a=~"b"}`}, {"foo[5m + 1]", "foo[(5m + 1)]"}, {"foo + fill_left (1) bar", "foo + fill_right (1) bar"}} {
			if l, _, _ := c26Diff(d(pair[0]), d(pair[1])); l == "" {
				t.Fatalf("self-test: dump does not distinguish %q from %q", pair[0], pair[1])
			}
		}
		// a printer that drops "bool", one that reorders nothing but loses an offset, a parser that fails internally
		bad := *all
		bad.print = func(e Expr) string { return strings.ReplaceAll(e.String(), " bool", "") }
		if res := c26Check(&bad, "foo == bool 1", true, true); res.fail == nil || !strings.HasPrefix(res.fail.sig, "reparse-ast-differs@BinaryExpr.ReturnBool") {
			t.Fatalf("self-test: broken printer not detected: %+v", res.fail)
		}
		bad = *all
		bad.pretty = func(e Expr) string { return strings.ReplaceAll(Prettify(e), "offset 5m", "") }
		if res := c26Check(&bad, "foo offset 5m", true, true); res.fail == nil || !strings.HasPrefix(res.fail.sig, "pretty-ast-differs@") {
			t.Fatalf("self-test: broken prettifier not detected: %+v", res.fail)
		}
		bad = *all
		bad.print = func(e Expr) string { return e.String() + " +" }
		if res := c26Check(&bad, "foo", true, true); res.fail == nil || !strings.HasPrefix(res.fail.sig, "printed-form-rejected:") {
			t.Fatalf("self-test: unparsable printed form not detected: %+v", res.fail)
		}
		bad = *all
		bad.parse = func(s string) (Expr, error) { return nil, ErrUnexpected }
		if res := c26Check(&bad, "foo", true, true); res.fail == nil || res.fail.sig != "parse-internal-error" {
			t.Fatalf("self-test: internal error not detected: %+v", res.fail)
		}
		bad.parse = func(s string) (Expr, error) { var m map[string]int; m["x"] = 1; return nil, nil }
		if res := c26Check(&bad, "foo", true, true); res.fail == nil || res.fail.sig != "parse-panic" {
			t.Fatalf("self-test: panic not detected: %+v", res.fail)
		}
		if res := c26Check(all, "foo +", true, true); res.fail != nil || res.accepted {
			t.Fatalf("self-test: a plain syntax error must be an allowed outcome: %+v", res)
		}
	}

	gen := c26Generate(r.Thorough())
	cases := gen.cases
	r.Set("generated_inputs", len(cases))
	perLayer := map[string]int{}
	for _, l := range gen.layer {
		perLayer[[]string{"L0 leaves", "L1 composites over leaves", "LP precedence family", "L2 composites over L1 core", "L3 composites over L2 core"}[l]]++
	}
	r.Set("inputs_per_layer", perLayer)

	// Quick tier: an input with the same verdict (accepted / rejected) under no optional feature and
	// under all of them is not re-run under the 14 mixed option sets; thorough runs all 16 always.
	quickSkip := r.Quick()
	var evals, accepted, rejected, flagSensitive, rts, pretties atomic.Int64
	printed := &c26StrSet{}

	// ---- phase 1: every generated input x 16 option sets: totality, String round trip, Prettify (default width)
	failed1 := make([]uint16, len(cases)) // per input: option sets under which phase 1 already reported a failure
	phase1 := func(in string, layer uint8, k int64, phase string, collect bool) {
		var acc [16]bool
		nacc := 0
		var a0, a15 bool
		for fi, f := range c26FlagOrder {
			if fi == 2 && quickSkip && a0 == a15 {
				break // quick tier: same verdict without and with all features, see the rule text
			}
			res := c26Check(envs[f], in, true, true)
			a0, a15 = a0 || (f == 0 && res.accepted), a15 || (f == 15 && res.accepted)
			evals.Add(1)
			r.Distinct("distinct_outcomes", res.outcome)
			if res.fail != nil {
				failed1[k] |= 1 << f
				report(res.fail, in, f, maxCharactersPerLine, phase)
			}
			if res.accepted {
				acc[f] = true
				nacc++
				accepted.Add(1)
				rts.Add(1)
				if !res.prettySame {
					pretties.Add(1)
				}
				if f == 15 || nacc == 1 {
					if res.nodes >= 2 {
						r.Distinct("distinct_nontrivial", res.dump)
					}
					r.Distinct("distinct_printed_forms", res.printed)
					if collect {
						printed.add(res.printed, layer)
					}
				}
			} else {
				rejected.Add(1)
			}
		}
		if a0 != a15 {
			flagSensitive.Add(1)
		}
		r.SampleAt(k, func() any {
			e, err := envs[15].parse(in)
			s := map[string]any{"input": in, "accepted_under_evaluated_option_sets": nacc}
			if err == nil {
				s["printed"] = e.String()
				s["prettified"] = Prettify(e)
			} else {
				s["error_all_features_on"] = err.Error()
			}
			return s
		})
	}
	var done1 atomic.Int64
	r.ParallelN(int64(len(cases)), func(i int64) {
		phase1(cases[i], gen.layer[i], i, "generated", true)
		done1.Add(1)
	})
	r.Set("phase1_inputs_done", done1.Load())

	// ---- phase 2: Prettify at narrow widths (the splitting code paths)
	widths := vx.Pick(r, []int{10}, []int{10, 1, 30})
	for _, w := range widths {
		if r.Expired() {
			break
		}
		maxCharactersPerLine = w
		var done atomic.Int64
		r.ParallelN(int64(len(cases)), func(i int64) {
			var a0, a15 bool
			for fi, f := range c26FlagOrder {
				if fi == 2 && quickSkip && a0 == a15 {
					break // quick tier: same verdict without and with all features, see the rule text
				}
				if failed1[i]&(1<<f) != 0 {
					continue // String round trip already fails; Prettify is built on String
				}
				res := c26Check(envs[f], cases[i], false, true)
				a0, a15 = a0 || (f == 0 && res.accepted), a15 || (f == 15 && res.accepted)
				evals.Add(1)
				if res.fail != nil {
					report(res.fail, cases[i], f, w, "prettify-width")
				}
				if res.accepted && !res.prettySame {
					pretties.Add(1)
				}
			}
			done.Add(1)
		})
		r.Set(fmt.Sprintf("phase2_width%d_inputs_done", w), done.Load())
	}
	maxCharactersPerLine = defaultWidth

	// ---- phase 3: all token strings up to length L (joined with " " and with "")
	// all strings of <= 3 tokens over the whole alphabet; thorough: also all 4-token strings over
	// its first 40 (most structural) tokens
	L := 3
	ntok := len(c26Tokens)
	total := vx.SeqCount(ntok, 1, L)
	const ntok4 = 40
	total4 := int64(0)
	if r.Thorough() {
		total4 = vx.SeqCount(ntok4, 4, 4)
	}
	var tokStrings, tokAccepted atomic.Int64
	if !r.Expired() {
		r.ParallelN(total+total4, func(i int64) {
			var seq []int
			if i < total {
				seq = vx.SeqAt(ntok, 1, L, i, nil)
			} else {
				seq = vx.SeqAt(ntok4, 4, 4, i-total, nil)
			}
			parts := make([]string, len(seq))
			for k, s := range seq {
				parts[k] = c26Tokens[s]
			}
			for _, sep := range []string{" ", ""} {
				if sep == "" && len(parts) == 1 {
					continue
				}
				in := strings.Join(parts, sep)
				tokStrings.Add(1)
				var a0, a15 bool
				for fi, f := range c26FlagOrder {
					if fi == 2 && quickSkip && a0 == a15 {
						break // quick tier: same verdict without and with all features, see the rule text
					}
					res := c26Check(envs[f], in, true, true)
					a0, a15 = a0 || (f == 0 && res.accepted), a15 || (f == 15 && res.accepted)
					evals.Add(1)
					if res.fail != nil {
						report(res.fail, in, f, defaultWidth, "token-strings")
					}
					if res.accepted {
						tokAccepted.Add(1)
						accepted.Add(1)
						rts.Add(1)
						if f == 15 {
							r.Distinct("distinct_outcomes", res.outcome)
							if res.nodes >= 2 {
								r.Distinct("distinct_nontrivial", res.dump)
							}
						}
					} else {
						rejected.Add(1)
						if f == 15 {
							r.Distinct("distinct_outcomes", res.outcome)
						}
					}
				}
			}
		})
	}
	r.Set("token_alphabet", ntok)
	r.Set("token_string_max_len", L)
	r.Set("token_strings_len4_alphabet", vx.Pick(r, 0, ntok4))

	// ---- phase 4: every single-token deletion / duplication of every printed form
	maxLayer := vx.Pick(r, uint8(2), uint8(9))
	forms := printed.sorted(maxLayer)
	r.Set("printed_forms_mutated", len(forms))
	var muts, mutAccepted atomic.Int64
	if !r.Expired() {
		r.ParallelN(int64(len(forms)), func(i int64) {
			toks := c26Lex(forms[i])
			var ms []string
			for k := range toks {
				del := append(append([]string{}, toks[:k]...), toks[k+1:]...)
				dup := append(append(append([]string{}, toks[:k+1]...), toks[k]), toks[k+1:]...)
				ms = append(ms, strings.Join(del, " "), strings.Join(dup, " "))
			}
			for _, in := range ms {
				muts.Add(1)
				var a0, a15 bool
				for fi, f := range c26FlagOrder {
					if fi == 2 && a0 == a15 {
						break // both tiers: mutated strings get the mixed option sets only when the verdict depends on the features
					}
					res := c26Check(envs[f], in, true, true)
					a0, a15 = a0 || (f == 0 && res.accepted), a15 || (f == 15 && res.accepted)
					evals.Add(1)
					if res.fail != nil {
						report(res.fail, in, f, defaultWidth, "token-mutation")
					}
					if res.accepted {
						mutAccepted.Add(1)
						accepted.Add(1)
						rts.Add(1)
						if f == 15 && res.nodes >= 2 {
							r.Distinct("distinct_nontrivial", res.dump)
						}
					} else {
						rejected.Add(1)
					}
					if f == 15 {
						r.Distinct("distinct_outcomes", res.outcome)
					}
				}
			}
		})
	}

	r.Count("evaluations", int(evals.Load()))
	r.Count("accepted", int(accepted.Load()))
	r.Count("rejected_with_parse_error", int(rejected.Load()))
	r.Count("string_roundtrips_checked", int(rts.Load()))
	r.Count("prettify_roundtrips_with_text_different_from_String", int(pretties.Load()))
	r.Count("inputs_whose_acceptance_depends_on_options", int(flagSensitive.Load()))
	r.Count("token_strings", int(tokStrings.Load()))
	r.Count("token_strings_accepted_evals", int(tokAccepted.Load()))
	r.Count("token_mutations", int(muts.Load()))
	r.Count("token_mutations_accepted_evals", int(mutAccepted.Load()))
	r.Set("option_sets", 16)
	r.Set("prettify_widths", append([]int{defaultWidth}, widths...))
	r.Set("rule", "one evaluation = one input text under one of the 16 parser option sets (experimental functions x duration expressions x extended range selectors x binop fill modifiers). "+
		"Inputs: (1) the typed text generator of c26_gen_test.go (layers L0 leaves, L1 every node kind with its full parameter alphabet over core leaves and every leaf in every child position of a default template, "+
		"LP all two-operator precedence/unary-minus trees, L2 every node kind over one L1 representative per node kind and precedence class, thorough: L3 over L2 representatives); "+
		"(2) every string of 1..3 tokens over the 56-token structural alphabet (thorough: also every 4-token string over its first 40 tokens), joined with and without spaces; (3) every single-token deletion and duplication of every printed form (quick: forms of L0, L1, LP; thorough: all forms). Token mutations (both tiers) and, in the quick tier only, all other inputs with the same verdict under no feature and under all features are not re-run under the 14 mixed option sets. "+
		"Every accepted input is printed, re-parsed, compared field by field (positions ignored) and re-printed, and prettified at each width and re-parsed; every rejected input must carry ParseErrors. "+
		"distinct_nontrivial = distinct accepted ASTs (by full field dump) with at least two nodes; distinct_outcomes = root node types of accepted inputs and normalised first error messages of rejected ones.")
	r.Assume("structural equality ignores position ranges, identifies nil with empty slices, compares the label matchers of one selector as a multiset and identifies all NaN payloads")
	{
		r.Assume("quick tier, and token mutations in both tiers: optional features only ever turn a rejection into an acceptance, so an input accepted without any feature or rejected with all features behaves the same under the mixed option sets (the thorough tier does not assume this for generated inputs and token strings)")
	}
	r.Assume("inputs are produced by the harness' own renderer / token enumeration; ASTs that only hand construction (not the parser) can produce are outside the quantifier")

	if r.Replay == "" && r.Violations() == 0 {
		if accepted.Load() == 0 || rejected.Load() == 0 || flagSensitive.Load() == 0 {
			t.Fatalf("vacuous run: accepted=%d rejected=%d option-sensitive=%d", accepted.Load(), rejected.Load(), flagSensitive.Load())
		}
	}
}
