package promql_test

// C34: limit_ratio(r, v) and limit_ratio(r-1, v) partition v; raising r never deselects; whether a
// sample is selected depends only on its labels.
//
// Engine E1 (input enumeration), two observation points:
//  (a) the sampler's exported offset API (HashRatioSampler.AddRatioSampleWithOffset): a grid of
//      ratios with their +-1,2 ulp neighbours x offsets at / next to the selection boundary, ALL
//      doubles between r and 1+(r-1) where those differ, and the extreme offsets 0, 2^-64, 1-2^-53, 1;
//  (b) real instant and range queries through the engine over a vector of N series, with ratios
//      from the grid plus, for every series, its own sampling offset and the doubles next to it
//      (so that the boundary is hit through the query path too).
// The oracle is the statement: exactly one of the two selects every sample; monotone in r; the same
// labels get the same verdict whatever the value, timestamp, neighbours or grouping.

import (
	"context"
	"fmt"
	"math"
	"sort"
	"strconv"
	"strings"
	"sync"
	"sync/atomic"
	"testing"
	"time"

	"github.com/prometheus/prometheus/internal/verif/vx"
	"github.com/prometheus/prometheus/model/labels"
	"github.com/prometheus/prometheus/promql"
	"github.com/prometheus/prometheus/promql/promqltest"
	"github.com/prometheus/prometheus/storage"
)

type c34Replay struct {
	Kind   string  `json:"kind"` // "offset" or "query"
	R      float64 `json:"r"`
	RBits  uint64  `json:"r_bits"`
	Offset float64 `json:"offset,omitempty"`
	OBits  uint64  `json:"offset_bits,omitempty"`
	N      int     `json:"n,omitempty"`
	Series string  `json:"series,omitempty"`
}

func c34ulps(x float64, k int) float64 {
	for ; k > 0; k-- {
		x = math.Nextafter(x, math.Inf(1))
	}
	for ; k < 0; k++ {
		x = math.Nextafter(x, math.Inf(-1))
	}
	return x
}

// c34Reachable: the offset can be produced by SampleOffset, i.e. it is float64(h)/2^64 for some
// uint64 h (every double in [2^-11,1] is; below that only multiples of 2^-64).
func c34Reachable(o float64) bool {
	if o < 0 || o > 1 || math.IsNaN(o) {
		return false
	}
	s := o * math.Ldexp(1, 64)
	return s == math.Trunc(s)
}

func c34BaseRatios() []float64 {
	rs := []float64{0, 1, 0.5, 1.0 / 3, 2.0 / 3, 0.05, 0.95, 0.001, 0.999, 0.25, 0.75, 0.49999999999999994, 0.5000000000000001}
	for k := 1; k <= 9; k++ {
		rs = append(rs, float64(k)/10)
	}
	for k := 2; k <= 12; k++ {
		rs = append(rs, math.Ldexp(1, -k), 1-math.Ldexp(1, -k))
	}
	var out []float64
	for _, r := range rs {
		for d := -2; d <= 2; d++ {
			x := c34ulps(r, d)
			if x >= 0 && x <= 1 {
				out = append(out, x)
			}
		}
	}
	return c34SortUniq(out)
}

func c34SortUniq(in []float64) []float64 {
	sort.Float64s(in)
	var out []float64
	for i, x := range in {
		if i == 0 || x != in[i-1] {
			out = append(out, x)
		}
	}
	return out
}

// c34Class names the known failure class of the pair (r, offset), or "" when the pair is in no
// known class. r' = 1+(r-1) evaluated in float64 is where the complement's selection starts.
//   - r' < r and r' <= o < r : both select          (r-1 was rounded away from zero)
//   - r' > r and r <= o < r' : neither selects      (r-1 was rounded towards zero)
//   - r == 1 and o == 1      : neither selects      (offset 1.0 = hash >= 2^64-1024; limit_ratio(1) uses o < 1, limit_ratio(0) selects nothing)
func c34Class(r, o float64) string {
	rp := 1.0 + (r - 1.0)
	switch {
	case r == 1 && o == 1:
		return "offset-one-unselected-at-ratio-one"
	case rp < r && rp <= o && o < r:
		return "complement-overlap-float-rounding"
	case rp > r && r <= o && o < rp:
		return "complement-gap-float-rounding"
	}
	return ""
}

type c34Sel func(ratio, offset float64) bool

// c34CheckOffset is the statement for one (r, offset): exactly one of sel(r,o), sel(r-1,o).
// limit_ratio(0, v) is the empty vector (the engine returns before consulting the sampler).
func c34CheckOffset(sel c34Sel, r, o float64) (ok bool, sig, msg string) {
	a := r != 0 && sel(r, o)
	rc := r - 1
	b := rc != 0 && sel(rc, o)
	if a != b {
		return true, "", ""
	}
	what := "NEITHER selects"
	if a {
		what = "BOTH select"
	}
	sig = c34Class(r, o)
	if sig == "" {
		sig = "partition-violated"
	}
	return false, sig, fmt.Sprintf("limit_ratio(%v) and limit_ratio(%v): %s a sample with sampling offset %v (1+(r-1)=%v)", r, rc, what, o, 1.0+rc)
}

type c34Data struct {
	stor    storage.Storage
	eng     *promql.Engine
	lsets   []labels.Labels
	keys    []string
	offsets []float64
}

func c34Load(t *testing.T, n int) *c34Data {
	var sb strings.Builder
	sb.WriteString("load 1m\n")
	d := &c34Data{}
	sampler := promql.NewHashRatioSampler()
	for i := 0; i < n; i++ {
		ls := labels.FromStrings("__name__", "m", "i", strconv.Itoa(i), "grp", "g"+strconv.Itoa(i%3))
		d.lsets = append(d.lsets, ls)
		d.keys = append(d.keys, ls.String())
		d.offsets = append(d.offsets, sampler.SampleOffset(&ls))
		// value differs per series and per step; every 7th series is a native histogram
		if i%7 == 3 {
			fmt.Fprintf(&sb, " m{i=\"%d\",grp=\"g%d\"} {{schema:0 count:%d sum:%d buckets:[%d]}}+{{schema:0 count:1 sum:1 buckets:[1]}}x10\n", i, i%3, i+1, i+1, i+1)
		} else {
			fmt.Fprintf(&sb, " m{i=\"%d\",grp=\"g%d\"} %d+%dx10\n", i, i%3, i, i%5+1)
		}
	}
	// ratio series for parameters that vary from step to step: rr{k="<profile>"}
	for j, prof := range c34Profiles {
		fmt.Fprintf(&sb, " rr{k=\"%d\"}", j)
		for _, v := range prof {
			fmt.Fprintf(&sb, " %s", c34f(v))
		}
		sb.WriteString("\n")
	}
	d.stor = promqltest.LoadedStorage(t, sb.String())
	d.eng = promqltest.NewTestEngine(t, false, 0, 10000000)
	return d
}

// c34Profiles: per-step ratios (11 steps, 1m apart) for range queries whose ratio parameter is not a
// literal. They mix 0, 1 and interior ratios so that the per-query extremes of r and of r-1 take every
// combination of {0, interior, 1} / {-1, interior, 0}.
var c34Profiles = [][]float64{
	{0.3, 1, 0, 0.5, 1, 0.7, 0.25, 1, 0, 0.9, 0.1},
	{0.3, 0.5, 1, 0.5, 0.3, 0.7, 0.25, 0.6, 0.4, 0.9, 0.1}, // max exactly 1 at one step, never 0
	{0.3, 0.5, 0, 0.5, 0.3, 0.7, 0.25, 0.6, 0.4, 0.9, 0.1}, // min exactly 0 at one step, never 1
	{1, 1, 1, 1, 1, 1, 1, 1, 1, 1, 1},
	{0, 0, 0, 0, 0, 0, 0, 0, 0, 0, 0},
	{0, 1, 0, 1, 0, 1, 0, 1, 0, 1, 0},
	{0.5, 0.5, 0.5, 0.5, 0.5, 0.5, 0.5, 0.5, 0.5, 0.5, 0.5},
}

// c34Varying: a range query whose ratio comes from scalar(rr) must select, at every step, exactly what
// the instant query with that step's ratio as a literal selects — for r and for the complement r-1.
func c34Varying(r *vx.Run, d *c34Data) {
	lit := map[string]map[string]bool{}
	litSel := func(expr string) map[string]bool {
		if m, ok := lit[expr]; ok {
			return m
		}
		m, err := d.instant(expr, time.Unix(120, 0))
		if err != nil {
			r.Violation("query-error", fmt.Sprintf("%s: %v", expr, err), c34Replay{Kind: "varying", N: len(d.lsets)})
			m = map[string]bool{}
		}
		lit[expr] = m
		return m
	}
	for j, prof := range c34Profiles {
		for _, compl := range []bool{false, true} {
			param := fmt.Sprintf("scalar(rr{k=\"%d\"})", j)
			if compl {
				param += " - 1"
			}
			q := fmt.Sprintf("limit_ratio(%s, m)", param)
			steps, err := d.rng(q, time.Unix(0, 0), time.Unix(600, 0), time.Minute)
			r.Count("evaluations", 1)
			if err != nil {
				r.Violation("query-error", fmt.Sprintf("%s (range): %v", q, err), c34Replay{Kind: "varying", N: len(d.lsets)})
				continue
			}
			for i, got := range steps {
				le := fmt.Sprintf("limit_ratio(%s, m)", c34f(prof[i]))
				if compl {
					le = fmt.Sprintf("limit_ratio(%s - 1, m)", c34f(prof[i]))
				}
				want := litSel(le)
				if c34SetKey(got) != c34SetKey(want) {
					r.Violation("varying-ratio-range-step-differs-from-literal", fmt.Sprintf("%s over [0,600s] step 1m, profile %v: step %d (ratio %v) selects %d series, the instant query %s selects %d", q, prof, i, prof[i], len(got), le, len(want)), c34Replay{Kind: "varying", R: prof[i], N: len(d.lsets), Series: q})
					break
				}
				r.Distinct("distinct_outcomes", "varying "+c34SetKey(got))
			}
		}
	}
}

func (d *c34Data) instant(q string, ts time.Time) (map[string]bool, error) {
	qry, err := d.eng.NewInstantQuery(context.Background(), d.stor, nil, q, ts)
	if err != nil {
		return nil, err
	}
	defer qry.Close()
	res := qry.Exec(context.Background())
	if res.Err != nil {
		return nil, res.Err
	}
	v, err := res.Vector()
	if err != nil {
		return nil, err
	}
	out := map[string]bool{}
	for _, s := range v {
		k := s.Metric.String()
		if out[k] {
			return nil, fmt.Errorf("duplicate series %s in result of %s", k, q)
		}
		out[k] = true
	}
	return out, nil
}

func (d *c34Data) rng(q string, from, to time.Time, step time.Duration) ([]map[string]bool, error) {
	qry, err := d.eng.NewRangeQuery(context.Background(), d.stor, nil, q, from, to, step)
	if err != nil {
		return nil, err
	}
	defer qry.Close()
	res := qry.Exec(context.Background())
	if res.Err != nil {
		return nil, res.Err
	}
	m, err := res.Matrix()
	if err != nil {
		return nil, err
	}
	steps := int(to.Sub(from)/step) + 1
	out := make([]map[string]bool, steps)
	for i := range out {
		out[i] = map[string]bool{}
	}
	for _, s := range m {
		k := s.Metric.String()
		for _, p := range s.Floats {
			out[int(time.UnixMilli(p.T).Sub(from)/step)][k] = true
		}
		for _, p := range s.Histograms {
			out[int(time.UnixMilli(p.T).Sub(from)/step)][k] = true
		}
	}
	return out, nil
}

func c34f(x float64) string { return strconv.FormatFloat(x, 'g', -1, 64) }

func c34SetKey(m map[string]bool) string {
	ks := make([]string, 0, len(m))
	for k := range m {
		ks = append(ks, k)
	}
	sort.Strings(ks)
	return strings.Join(ks, ",")
}

// c34Query checks one ratio through the engine. Returns the selected set at t0 (for monotonicity).
func c34Query(r *vx.Run, d *c34Data, ratio float64) map[string]bool {
	t0 := time.Unix(120, 0)
	t1 := time.Unix(420, 0)
	rp := func(series string) c34Replay {
		return c34Replay{Kind: "query", R: ratio, RBits: math.Float64bits(ratio), N: len(d.lsets), Series: series}
	}
	qa := fmt.Sprintf("limit_ratio(%s, m)", c34f(ratio))
	qb := fmt.Sprintf("limit_ratio(%s - 1, m)", c34f(ratio))
	fail := func(q string, err error) {
		r.Violation("query-error", fmt.Sprintf("%s: %v", q, err), rp(""))
	}
	all, err := d.instant("m", t0)
	if err != nil {
		fail("m", err)
		return nil
	}
	a, err := d.instant(qa, t0)
	if err != nil {
		fail(qa, err)
		return nil
	}
	b, err := d.instant(qb, t0)
	if err != nil {
		fail(qb, err)
		return nil
	}
	r.Count("evaluations", 3)
	if len(all) != len(d.lsets) {
		r.T.Fatalf("harness: selector m returned %d series, want %d", len(all), len(d.lsets))
	}
	for k := range a {
		if !all[k] {
			r.Violation("selects-foreign-sample", fmt.Sprintf("%s returned %s which is not in the input", qa, k), rp(k))
		}
	}
	for k := range b {
		if !all[k] {
			r.Violation("selects-foreign-sample", fmt.Sprintf("%s returned %s which is not in the input", qb, k), rp(k))
		}
	}
	for i, k := range d.keys {
		if a[k] != b[k] {
			continue
		}
		what := "NEITHER returns"
		if a[k] {
			what = "BOTH return"
		}
		sig := c34Class(ratio, d.offsets[i])
		if sig == "" {
			sig = "partition-violated"
		}
		r.Count("failing_ratio_series_pairs_query_path", 1)
		if r.Get("failing_ratio_series_pairs_query_path") <= 6 {
			r.Sample(map[string]any{"query_path_failure": fmt.Sprintf("%s / %s: %s %s", qa, qb, what, k), "sampling_offset": c34f(d.offsets[i]), "class": sig})
		}
		r.Violation(sig, fmt.Sprintf("%s and %s over %d series: %s %s (sampling offset %v, 1+(r-1)=%v)", qa, qb, len(d.lsets), what, k, d.offsets[i], 1.0+(ratio-1.0)), rp(k))
	}
	// selection depends only on the labels: other evaluation time (other values), fewer neighbours,
	// grouping, and every step of a range query give the same verdict for the same labels.
	same := func(what string, got, universe map[string]bool) {
		for k := range universe {
			if got[k] != a[k] {
				r.Violation("selection-depends-on-more-than-labels", fmt.Sprintf("%s: %s selected=%v, but %s selected=%v", what, k, got[k], qa, a[k]), rp(k))
				return
			}
		}
		for k := range got {
			if !universe[k] {
				r.Violation("selects-foreign-sample", fmt.Sprintf("%s returned %s", what, k), rp(k))
				return
			}
		}
	}
	if got, err := d.instant(qa, t1); err != nil {
		fail(qa, err)
	} else {
		same(qa+" @420s", got, all)
	}
	sub := map[string]bool{}
	for i, k := range d.keys {
		if i%3 == 1 {
			sub[k] = true
		}
	}
	qs := fmt.Sprintf("limit_ratio(%s, m{grp=\"g1\"})", c34f(ratio))
	if got, err := d.instant(qs, t0); err != nil {
		fail(qs, err)
	} else {
		same(qs, got, sub)
	}
	qg := fmt.Sprintf("limit_ratio(%s, m) by (grp)", c34f(ratio))
	if got, err := d.instant(qg, t0); err != nil {
		fail(qg, err)
	} else {
		same(qg, got, all)
	}
	qw := fmt.Sprintf("limit_ratio(%s, m) without (i)", c34f(ratio))
	if got, err := d.instant(qw, t0); err != nil {
		fail(qw, err)
	} else {
		same(qw, got, all)
	}
	if steps, err := d.rng(qa, time.Unix(0, 0), time.Unix(600, 0), time.Minute); err != nil {
		fail(qa+" (range)", err)
	} else {
		for i, got := range steps {
			same(fmt.Sprintf("%s range step %d", qa, i), got, all)
		}
	}
	r.Count("evaluations", 5)
	if len(a) > 0 && len(a) < len(all) {
		r.Distinct("distinct_nontrivial", "query "+c34SetKey(a))
	}
	r.Distinct("distinct_outcomes", c34SetKey(a))
	return a
}

func TestVerifC34(t *testing.T) {
	r := vx.Start(t, "C34", "exploration")
	defer r.Finish()
	sampler := promql.NewHashRatioSampler()
	sel := c34Sel(sampler.AddRatioSampleWithOffset)
	n := vx.Pick(r, 60, 400)

	if r.Replay != "" {
		var rp c34Replay
		r.LoadReplay(&rp)
		ratio, off := math.Float64frombits(rp.RBits), math.Float64frombits(rp.OBits)
		if rp.Kind == "offset" {
			if ok, sig, msg := c34CheckOffset(sel, ratio, off); !ok {
				r.Violation(sig, msg, rp)
			}
			return
		}
		if rp.Kind == "varying" {
			c34Varying(r, c34Load(t, rp.N))
			return
		}
		c34Query(r, c34Load(t, rp.N), ratio)
		return
	}

	// self-test: the oracle rejects wrong samplers, accepts an exact one
	exact := func(ratio, o float64) bool {
		if ratio >= 0 {
			return o < ratio
		}
		return o >= ratio+1 && ratio+1 == math.Trunc((ratio+1)*4)/4 // only used on multiples of 1/4
	}
	if ok, _, _ := c34CheckOffset(exact, 0.25, 0.25); !ok {
		t.Fatal("self-test: oracle rejects an exact partition")
	}
	if ok, _, _ := c34CheckOffset(func(ratio, o float64) bool { return ratio >= 0 && o <= ratio || ratio < 0 && o >= 1+ratio }, 0.25, 0.25); ok {
		t.Fatal("self-test: oracle accepts a sampler where both select the boundary offset")
	}
	if ok, _, _ := c34CheckOffset(func(ratio, o float64) bool { return ratio >= 0 && o < ratio || ratio < 0 && o > 1+ratio }, 0.25, 0.25); ok {
		t.Fatal("self-test: oracle accepts a sampler where neither selects the boundary offset")
	}
	if c34Class(0.25, 0.25) != "" || c34Class(0.75, 0.75) != "" || c34Class(1, 0.5) != "" {
		t.Fatal("self-test: classification claims a known class where 1+(r-1)==r")
	}
	if !c34Reachable(0.1) || !c34Reachable(1) || c34Reachable(math.Ldexp(1, -65)) || !c34Reachable(math.Ldexp(3, -64)) {
		t.Fatal("self-test: reachable offsets")
	}

	// ---------------- (a) offset API ----------------
	ratios := c34BaseRatios()
	extremes := []float64{0, math.Ldexp(1, -64), math.Ldexp(1, -11), 0.5, 1 - math.Ldexp(1, -53), 1}
	var failingPairs atomic.Int64
	var exMu sync.Mutex
	examples := map[string][]string{}
	checkPair := func(ratio, o float64) {
		if !c34Reachable(o) {
			return
		}
		r.Count("evaluations", 1)
		ok, sig, msg := c34CheckOffset(sel, ratio, o)
		if !ok {
			failingPairs.Add(1)
			exMu.Lock()
			k := sig + " r=" + c34f(ratio)
			if len(examples[k]) < 4 {
				examples[k] = append(examples[k], c34f(o))
			}
			exMu.Unlock()
			r.Violation(sig, msg, c34Replay{Kind: "offset", R: ratio, RBits: math.Float64bits(ratio), Offset: o, OBits: math.Float64bits(o)})
		}
		if d := math.Abs(o - ratio); d <= 4*math.Abs(ratio-c34ulps(ratio, 1)) {
			r.Distinct("distinct_nontrivial", fmt.Sprintf("offset %x %x", math.Float64bits(ratio), math.Float64bits(o)))
		}
		r.Distinct("distinct_outcomes", fmt.Sprintf("%v %v", ratio != 0 && sel(ratio, o), ratio-1 != 0 && sel(ratio-1, o)))
	}
	offsetsFor := func(ratio float64) []float64 {
		rp := 1.0 + (ratio - 1.0)
		var os []float64
		for d := -2; d <= 2; d++ {
			os = append(os, c34ulps(ratio, d), c34ulps(rp, d))
		}
		lo, hi := math.Min(ratio, rp), math.Max(ratio, rp)
		for x, k := lo, 0; x < hi && k < 5000; x, k = math.Nextafter(x, 2), k+1 {
			os = append(os, x)
		}
		return append(os, extremes...)
	}
	r.ParallelN(int64(len(ratios)), func(i int64) {
		for _, o := range c34SortUniq(offsetsFor(ratios[i])) {
			checkPair(ratios[i], o)
		}
	})
	// monotone in r at the API: once selected, selected for every larger ratio
	var allOffsets []float64
	for _, ratio := range ratios {
		for d := -2; d <= 2; d++ {
			allOffsets = append(allOffsets, c34ulps(ratio, d))
		}
	}
	allOffsets = c34SortUniq(append(allOffsets, extremes...))
	r.ParallelN(int64(len(allOffsets)), func(i int64) {
		o := allOffsets[i]
		if !c34Reachable(o) {
			return
		}
		selected := false
		for _, ratio := range ratios {
			now := ratio != 0 && sel(ratio, o)
			if selected && !now {
				r.Violation("raising-r-deselects", fmt.Sprintf("offset %v selected below but not by limit_ratio(%v)", o, ratio), c34Replay{Kind: "offset", R: ratio, RBits: math.Float64bits(ratio), Offset: o, OBits: math.Float64bits(o)})
			}
			selected = selected || now
			r.Count("evaluations", 1)
		}
	})

	// ---------------- (b) query path ----------------
	d := c34Load(t, n)
	qr := append([]float64{}, ratios...)
	for _, o := range d.offsets {
		qr = append(qr, o, c34ulps(o, 1), c34ulps(o, -1))
	}
	qr = c34SortUniq(qr)
	sets := make([]map[string]bool, len(qr))
	c34Varying(r, d)
	r.ParallelN(int64(len(qr)), func(i int64) { sets[i] = c34Query(r, d, qr[i]) })
	var prev map[string]bool
	var prevR float64
	for i, s := range sets {
		if s == nil {
			continue
		}
		if prev != nil {
			for k := range prev {
				if !s[k] {
					r.Violation("raising-r-deselects", fmt.Sprintf("%s is returned by limit_ratio(%v, m) but not by limit_ratio(%v, m)", k, prevR, qr[i]), c34Replay{Kind: "query", R: qr[i], RBits: math.Float64bits(qr[i]), N: n, Series: k})
					break
				}
			}
		}
		prev, prevR = s, qr[i]
	}
	r.Set("ratios_offset_api", len(ratios))
	r.Set("ratios_query_path", len(qr))
	r.Set("series", n)
	r.Set("failing_ratio_offset_pairs", failingPairs.Load())
	exMu.Lock()
	r.Set("failing_examples", examples)
	exMu.Unlock()
	r.Sample(map[string]any{"ratio": 0.1, "complement": 0.1 - 1.0, "one_plus_complement": 1.0 + (0.1 - 1.0), "offsets_checked": fmt.Sprint(c34SortUniq(offsetsFor(0.1)))})
	r.Sample(map[string]any{"query": "limit_ratio(" + c34f(qr[len(qr)/2]) + ", m)", "selected": len(sets[len(qr)/2]), "of": n})
	r.Set("rule", fmt.Sprintf("(a) offset API: %d ratios (0, 1, k/10, 1/3, 2/3, 2^-k, 1-2^-k, ... each with its +-1,2 ulp neighbours) x {r, 1+(r-1)} +-0..2 ulp, every double between r and 1+(r-1), and offsets 0, 2^-64, 2^-11, 0.5, 1-2^-53, 1 (only offsets SampleOffset can produce, i.e. multiples of 2^-64); monotonicity over the sorted ratio list for every such offset. (b) query path: %d series (floats and native histograms, 3 groups), %d ratios = the grid plus every series' own offset and its two neighbouring doubles; per ratio: limit_ratio(r,m), limit_ratio(r-1,m), other evaluation time, sub-selector, by(grp), without(i), 11-step range query; monotonicity across the sorted ratios. distinct_nontrivial = distinct (ratio, offset) pairs within 4 ulp of the boundary + distinct proper non-empty selections returned by queries", len(ratios), n, len(qr)))
	r.Assume("offsets not reachable by label search are observed through HashRatioSampler.AddRatioSampleWithOffset (the function the engine calls); the engine's r==0 early return is modelled as 'selects nothing'")
	r.Assume("failure classes complement-overlap/gap-float-rounding are decided by the precondition 1+(r-1) != r in float64 and the offset lying between the two; anything else is reported as partition-violated")
}
