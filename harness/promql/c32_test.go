package promql_test

// C32: histogram query functions agree with the histograms they describe.
//
// Engine E1 (input enumeration):
//   - native: every shape of histmodel.ShapesAll() x a quantile grid (0..1 in steps of 0.05, values
//     next to 0, 0.5 and 1, and every cumulative-count tie point of the shape with its neighbouring
//     doubles) and x ALL PAIRS of a bounds grid (-Inf, +Inf, fixed values, the shape's own bucket
//     boundaries), through promql.HistogramQuantile / HistogramFraction and through real instant
//     queries (histogram_count/sum/avg/fraction/quantile) over a TSDB holding the shapes;
//   - classic: every assignment of counts {0,1,2,3,3(1+3e-13),NaN} to 4 buckets for 4 bound sets
//     (positive, non-positive first bound, duplicate le) through promql.BucketQuantile and through
//     histogram_quantile queries.
//
// Oracle = the inequalities of the statement, evaluated on the bucket list of the histmodel model.

import (
	"context"
	"fmt"
	"math"
	"sort"
	"strconv"
	"strings"
	"sync/atomic"
	"testing"
	"time"

	"github.com/prometheus/prometheus/internal/verif/histmodel"
	"github.com/prometheus/prometheus/internal/verif/vx"
	"github.com/prometheus/prometheus/model/labels"
	"github.com/prometheus/prometheus/promql"
	"github.com/prometheus/prometheus/promql/parser/posrange"
	"github.com/prometheus/prometheus/promql/promqltest"
	"github.com/prometheus/prometheus/util/teststorage"
)

type c32Replay struct {
	Kind   string    `json:"kind"` // native-quantile, native-fraction, classic, query
	Shape  string    `json:"shape,omitempty"`
	Q      float64   `json:"q,omitempty"`
	QBits  uint64    `json:"q_bits,omitempty"`
	Lower  string    `json:"lower,omitempty"`
	Upper  string    `json:"upper,omitempty"`
	Bounds []string  `json:"bounds,omitempty"`
	Counts []string  `json:"counts,omitempty"`
	Query  string    `json:"query,omitempty"`
	Extra  []float64 `json:"extra,omitempty"`
}

type c32Bucket struct{ lo, up, n float64 }

// c32Buckets lists the populated buckets of the model in ascending order of value, with the zero
// bucket clipping the regular buckets it overlaps (as documented for AllBucketIterator).
func c32Buckets(m *histmodel.H) []c32Bucket {
	var out []c32Bucket
	idx := func(mm map[int32]float64) []int32 {
		ks := make([]int32, 0, len(mm))
		for k := range mm {
			ks = append(ks, k)
		}
		sort.Slice(ks, func(i, j int) bool { return ks[i] < ks[j] })
		return ks
	}
	if m.Custom {
		for _, k := range idx(m.Pos) {
			lo, up := math.Inf(-1), math.Inf(1)
			if k > 0 {
				lo = m.Bounds[k-1]
			}
			if int(k) < len(m.Bounds) {
				up = m.Bounds[k]
			}
			out = append(out, c32Bucket{lo, up, m.Pos[k]})
		}
		return out
	}
	neg := idx(m.Neg)
	for i := len(neg) - 1; i >= 0; i-- {
		k := neg[i]
		lo, up := -histmodel.Bound(m.Schema, k), -histmodel.Bound(m.Schema, k-1)
		if up > -m.ZeroThreshold {
			up = -m.ZeroThreshold
		}
		out = append(out, c32Bucket{lo, up, m.Neg[k]})
	}
	if m.ZeroCount != 0 {
		out = append(out, c32Bucket{-m.ZeroThreshold, m.ZeroThreshold, m.ZeroCount})
	}
	for _, k := range idx(m.Pos) {
		lo, up := histmodel.Bound(m.Schema, k-1), histmodel.Bound(m.Schema, k)
		if lo < m.ZeroThreshold {
			lo = m.ZeroThreshold
		}
		out = append(out, c32Bucket{lo, up, m.Pos[k]})
	}
	return out
}

func c32Within(v, lo, up float64) bool {
	const tol = 1e-12
	if math.IsNaN(v) {
		return false
	}
	l := lo - tol*math.Abs(lo)
	u := up + tol*math.Abs(up)
	return v >= l && v <= u
}

func c32f(x float64) string { return strconv.FormatFloat(x, 'g', -1, 64) }

// c32QuantileOracle: for q in [0,1] the value must lie within the bounds of a populated bucket that
// holds rank q*count (cumulative count before <= rank <= cumulative count through; both ends closed
// because at an exact tie either neighbour is a legitimate holder).
func c32QuantileOracle(m *histmodel.H, bs []c32Bucket, q, v float64) (ok bool, why string) {
	if m.Count == 0 {
		if math.IsNaN(v) {
			return true, ""
		}
		return false, "empty histogram must give NaN"
	}
	rank := q * m.Count
	eps := 1e-9 * math.Max(1, m.Count)
	var cum float64
	var holders []c32Bucket
	for _, b := range bs {
		before := cum
		cum += b.n
		if before-eps <= rank && rank <= cum+eps {
			holders = append(holders, b)
		}
	}
	if len(holders) == 0 {
		// only possible when count exceeds the bucket total: NaN observations (Sum is NaN)
		if math.IsNaN(m.Sum) && math.IsNaN(v) {
			return true, ""
		}
		return false, fmt.Sprintf("rank %g is beyond all buckets (total %g); want NaN for a histogram with NaN observations", rank, cum)
	}
	for _, b := range holders {
		if c32Within(v, b.lo, b.up) {
			return true, ""
		}
	}
	if math.IsNaN(m.Sum) && math.IsNaN(v) && rank >= cum-eps {
		return true, "" // at (within rounding of) the top of the buckets of a histogram with NaN observations
	}
	var hs []string
	for _, b := range holders {
		hs = append(hs, fmt.Sprintf("[%g,%g]", b.lo, b.up))
	}
	return false, fmt.Sprintf("rank %g is held by bucket(s) %s", rank, strings.Join(hs, " or "))
}

// c32HolderIsLast reports whether every bucket holding rank q*count is the LAST bucket the
// ascending bucket iterator of the real histogram yields (stored empty buckets included).
func c32HolderIsLast(s histmodel.Shape, bs []c32Bucket, q float64) bool {
	var last struct{ lo, up float64 }
	seen := false
	for it := s.Float.AllBucketIterator(); it.Next(); {
		b := it.At()
		last.lo, last.up, seen = b.Lower, b.Upper, true
	}
	if !seen {
		return true
	}
	rank := q * s.Model.Count
	var cum float64
	for _, b := range bs {
		before := cum
		cum += b.n
		if before <= rank && rank <= cum {
			if !(c32Within(b.up, last.up, last.up) && (c32Within(b.lo, last.lo, last.lo) || b.lo > last.lo)) {
				return false
			}
		}
	}
	return true
}

// c32QuantileSig narrows the signature of a native quantile failure to the two known classes:
//   - the histogram has NaN observations (Sum is NaN) and the rank is not held by the last bucket of
//     the iteration (HistogramQuantile's NaN-skew loop overwrites the bucket it interpolates in);
//   - the result is NaN and the rank is held by a bucket with an infinite bound that is interpolated
//     in: the +-Inf overflow bucket of an exponential schema, or the only bucket (-Inf,+Inf) of a
//     custom-bucket histogram without bounds (the interpolation computes Inf*0).
func c32QuantileSig(base string, s histmodel.Shape, bs []c32Bucket, q, v float64) string {
	m := s.Model
	if math.IsNaN(m.Sum) && !c32HolderIsLast(s, bs, q) {
		return "native-quantile-nan-observations-last-bucket-used"
	}
	if math.IsNaN(v) {
		rank := q * m.Count
		var cum float64
		for _, b := range bs {
			before := cum
			cum += b.n
			if before <= rank && rank <= cum && (math.IsInf(b.up, 0) || math.IsInf(b.lo, 0)) {
				return "native-quantile-nan-in-infinite-bucket"
			}
		}
	}
	return base
}

func c32QGrid(m *histmodel.H, bs []c32Bucket) []float64 {
	qs := []float64{0, 1, 1e-9, 1 - 1e-9, math.Nextafter(0.5, 0), 0.5, math.Nextafter(0.5, 1), math.Nextafter(0, 1), math.Nextafter(1, 0)}
	for k := 1; k < 20; k++ {
		qs = append(qs, float64(k)/20)
	}
	if m.Count > 0 && !math.IsInf(m.Count, 0) {
		var cum float64
		for _, b := range bs {
			cum += b.n
			t := cum / m.Count
			for _, x := range []float64{math.Nextafter(t, 0), t, math.Nextafter(t, 2)} {
				if x >= 0 && x <= 1 {
					qs = append(qs, x)
				}
			}
		}
	}
	sort.Float64s(qs)
	var out []float64
	for i, x := range qs {
		if i == 0 || x != qs[i-1] {
			out = append(out, x)
		}
	}
	return out
}

func c32Decreased(prev, cur float64) bool {
	if math.IsNaN(prev) || math.IsNaN(cur) {
		return false
	}
	if cur >= prev {
		return false
	}
	return prev-cur > 1e-12*math.Max(math.Abs(prev), math.Abs(cur))
}

// c32NativeQuantiles checks one shape; returns the (q, value) table for the query cross-check.
func c32NativeQuantiles(r *vx.Run, s histmodel.Shape) {
	m := s.Model
	bs := c32Buckets(m)
	qs := c32QGrid(m, bs)
	nanObs := math.IsNaN(m.Sum)
	prev, prevQ := math.Inf(-1), -1.0
	for _, q := range qs {
		h := s.Float.Copy()
		var v float64
		p, st := vx.Guard(func() { v, _ = promql.HistogramQuantile(q, h, "h", posrange.PositionRange{}) })
		rp := c32Replay{Kind: "native-quantile", Shape: s.Name, Q: q, QBits: math.Float64bits(q)}
		r.Count("evaluations", 1)
		if p != nil {
			r.Violation("native-quantile-panic", fmt.Sprintf("%s q=%v: %v\n%s", s.Name, q, p, st), rp)
			continue
		}
		if !h.Equals(s.Float) {
			r.Violation("native-quantile-mutates-histogram", fmt.Sprintf("%s q=%v", s.Name, q), rp)
		}
		if ok, why := c32QuantileOracle(m, bs, q, v); !ok {
			sig := "native-quantile-outside-holding-bucket"
			if math.IsNaN(v) && !nanObs && m.Count > 0 {
				sig = "native-quantile-nan"
			}
			r.Violation(c32QuantileSig(sig, s, bs, q, v), fmt.Sprintf("%s: histogram_quantile(%v) = %v but %s\nhistogram %v", s.Name, q, v, why, m), rp)
		}
		cmp := v
		if math.IsNaN(v) && nanObs {
			cmp = math.Inf(1) // documented: NaN observations rank above every bucket
		}
		if c32Decreased(prev, cmp) {
			sig := "native-quantile-decreases"
			if a, b := c32QuantileSig(sig, s, bs, q, v), c32QuantileSig(sig, s, bs, prevQ, prev); a != sig {
				sig = a
			} else if b != sig {
				sig = b
			}
			r.Violation(sig, fmt.Sprintf("%s: histogram_quantile(%v)=%v > histogram_quantile(%v)=%v\nhistogram %v", s.Name, prevQ, prev, q, v, m), rp)
		}
		if !math.IsNaN(cmp) {
			prev, prevQ = cmp, q
		}
		r.Distinct("distinct_outcomes", c32f(v))
		if len(bs) > 1 && !math.IsNaN(v) {
			r.Distinct("distinct_nontrivial", "nq "+m.String()+c32f(q))
		}
	}
	// documented values outside [0,1]
	for _, c := range []struct{ q, want float64 }{{-0.1, math.Inf(-1)}, {1.1, math.Inf(1)}, {math.NaN(), math.NaN()}} {
		v, _ := promql.HistogramQuantile(c.q, s.Float.Copy(), "h", posrange.PositionRange{})
		if !(v == c.want || math.IsNaN(v) && math.IsNaN(c.want)) {
			r.Violation("native-quantile-out-of-range-q", fmt.Sprintf("%s: histogram_quantile(%v)=%v, documented %v", s.Name, c.q, v, c.want), c32Replay{Kind: "native-quantile", Shape: s.Name, Q: c.q, QBits: math.Float64bits(c.q)})
		}
	}
}

func c32BoundsGrid(bs []c32Bucket) []float64 {
	g := []float64{math.Inf(-1), -10, -2, -1.5, -1, -0.5, -0.001, 0, 0.001, 0.5, 1, 1.5, 2, 3, 4, 10, 1e300, math.Inf(1)}
	for i, b := range bs {
		if i < 6 || i >= len(bs)-3 {
			g = append(g, b.lo, b.up)
			if !math.IsInf(b.lo, 0) && !math.IsInf(b.up, 0) {
				g = append(g, b.lo+(b.up-b.lo)/4)
			}
		}
	}
	sort.Float64s(g)
	var out []float64
	for i, x := range g {
		if math.IsNaN(x) {
			continue
		}
		if i == 0 || x != g[i-1] {
			out = append(out, x)
		}
	}
	return out
}

func c32NativeFractions(r *vx.Run, s histmodel.Shape) {
	m := s.Model
	bs := c32Buckets(m)
	g := c32BoundsGrid(bs)
	n := len(g)
	f := make([][]float64, n)
	nanObs := math.IsNaN(m.Sum)
	for i := range g {
		f[i] = make([]float64, n)
		for j := range g {
			h := s.Float.Copy()
			var v float64
			rp := c32Replay{Kind: "native-fraction", Shape: s.Name, Lower: c32f(g[i]), Upper: c32f(g[j])}
			p, st := vx.Guard(func() { v, _ = promql.HistogramFraction(g[i], g[j], h, "h", posrange.PositionRange{}) })
			r.Count("evaluations", 1)
			if p != nil {
				r.Violation("native-fraction-panic", fmt.Sprintf("%s [%v,%v]: %v\n%s", s.Name, g[i], g[j], p, st), rp)
				v = math.NaN()
			}
			f[i][j] = v
			if m.Count == 0 {
				if !math.IsNaN(v) {
					r.Violation("native-fraction-empty-not-nan", fmt.Sprintf("%s [%v,%v] = %v", s.Name, g[i], g[j], v), rp)
				}
				continue
			}
			if math.IsNaN(v) || v < -1e-12 || v > 1+1e-12 {
				r.Violation("native-fraction-outside-0-1", fmt.Sprintf("%s: histogram_fraction(%v, %v) = %v\nhistogram %v", s.Name, g[i], g[j], v, m), rp)
			}
			r.Distinct("distinct_outcomes", c32f(v))
			if v > 0 && v < 1 {
				r.Distinct("distinct_nontrivial", "nf "+m.String()+rp.Lower+","+rp.Upper)
			}
		}
	}
	if m.Count == 0 {
		return
	}
	if full := f[0][n-1]; !nanObs && math.Abs(full-1) > 1e-12 {
		r.Violation("native-fraction-full-range-not-1", fmt.Sprintf("%s: histogram_fraction(-Inf, +Inf) = %v\nhistogram %v", s.Name, full, m), c32Replay{Kind: "native-fraction", Shape: s.Name, Lower: "-Inf", Upper: "+Inf"})
	}
	// growing the interval by one grid step on either side never decreases the fraction
	for i := 0; i < n; i++ {
		for j := i + 1; j < n; j++ {
			if i > 0 && c32Decreased(f[i][j], f[i-1][j]) {
				r.Violation("native-fraction-decreases-when-interval-grows", fmt.Sprintf("%s: fraction(%v,%v)=%v but fraction(%v,%v)=%v\nhistogram %v", s.Name, g[i], g[j], f[i][j], g[i-1], g[j], f[i-1][j], m), c32Replay{Kind: "native-fraction", Shape: s.Name, Lower: c32f(g[i-1]), Upper: c32f(g[j])})
			}
			if j+1 < n && c32Decreased(f[i][j], f[i][j+1]) {
				r.Violation("native-fraction-decreases-when-interval-grows", fmt.Sprintf("%s: fraction(%v,%v)=%v but fraction(%v,%v)=%v\nhistogram %v", s.Name, g[i], g[j], f[i][j], g[i], g[j+1], f[i][j+1], m), c32Replay{Kind: "native-fraction", Shape: s.Name, Lower: c32f(g[i]), Upper: c32f(g[j+1])})
			}
		}
	}
}

// ---------------------------------------------------------------------------------------------
// classic buckets

var c32ClassicBounds = [][]float64{
	{0.5, 1, 2, math.Inf(1)},
	{-1, 0, 1, math.Inf(1)},
	{1, 1, 2, math.Inf(1)}, // duplicate le (e.g. le="1" and le="1.0"): coalesced
	{-2, -1, 5, math.Inf(1)},
}

var c32ClassicCounts = []float64{0, 1, 2, 3, 3 * (1 + 3e-13), math.NaN()}

func c32ClassicQs() []float64 {
	qs := []float64{0, 1e-9, 0.25, 1.0 / 3, 0.5, 2.0 / 3, 0.75, 1 - 1e-9, 1}
	for k := 1; k < 10; k++ {
		qs = append(qs, float64(k)/10)
	}
	sort.Float64s(qs)
	return qs
}

func c32Classic(r *vx.Run, bi int, ci []int) {
	bounds := c32ClassicBounds[bi]
	finite := true
	counts := make([]float64, len(ci))
	for k, c := range ci {
		counts[k] = c32ClassicCounts[c]
		if math.IsNaN(counts[k]) {
			finite = false
		}
	}
	rp := c32Replay{Kind: "classic"}
	for k := range bounds {
		rp.Bounds = append(rp.Bounds, c32f(bounds[k]))
		rp.Counts = append(rp.Counts, c32f(counts[k]))
	}
	prev, prevQ := math.Inf(-1), -1.0
	for _, q := range c32ClassicQs() {
		bs := make(promql.Buckets, len(bounds))
		for k := range bounds {
			bs[k] = promql.Bucket{UpperBound: bounds[k], Count: counts[k]}
		}
		var v float64
		p, st := vx.Guard(func() { v, _, _, _, _, _ = promql.BucketQuantile(q, bs) })
		r.Count("evaluations", 1)
		if p != nil {
			r.Violation("classic-quantile-panic", fmt.Sprintf("bounds %v counts %v q=%v: %v\n%s", bounds, counts, q, p, st), rp)
			return
		}
		if !finite {
			continue
		}
		if c32Decreased(prev, v) {
			rp.Q, rp.QBits = q, math.Float64bits(q)
			r.Violation("classic-quantile-decreases", fmt.Sprintf("le=%v counts=%v: histogram_quantile(%v)=%v > histogram_quantile(%v)=%v", bounds, counts, prevQ, prev, q, v), rp)
		}
		if !math.IsNaN(v) {
			prev, prevQ = v, q
		}
		r.Distinct("distinct_outcomes", c32f(v))
		nonMono := false
		for k := 1; k < len(counts); k++ {
			if counts[k] < counts[k-1] {
				nonMono = true
			}
		}
		if nonMono && !math.IsNaN(v) {
			r.Distinct("distinct_nontrivial", fmt.Sprintf("cq %d %v %v", bi, ci, q))
		}
	}
}

// ---------------------------------------------------------------------------------------------
// query path

type c32DB struct {
	stor *teststorage.TestStorage
	eng  *promql.Engine
}

func (d *c32DB) query(q string) (map[string]float64, error) {
	qry, err := d.eng.NewInstantQuery(context.Background(), d.stor, nil, q, time.Unix(10, 0))
	if err != nil {
		return nil, err
	}
	defer qry.Close()
	res := qry.Exec(context.Background())
	if res.Err != nil {
		return nil, res.Err
	}
	v, err := res.Vector()
	if err != nil {
		return nil, err
	}
	out := map[string]float64{}
	for _, s := range v {
		if s.H != nil {
			return nil, fmt.Errorf("%s returned a histogram sample", q)
		}
		out[s.Metric.Get("shape")+s.Metric.Get("set")] = s.F
	}
	return out, nil
}

func c32SameFloat(a, b float64) bool { return a == b || math.IsNaN(a) && math.IsNaN(b) }

func c32Queries(r *vx.Run, t *testing.T, shapes []histmodel.Shape) {
	d := &c32DB{stor: teststorage.New(t), eng: promqltest.NewTestEngine(t, false, 0, 50000000)}
	app := d.stor.Appender(context.Background())
	var stored []histmodel.Shape
	for _, s := range shapes {
		if s.Model.Stale {
			continue
		}
		ls := labels.FromStrings("__name__", "h", "shape", s.Name)
		if _, err := app.AppendHistogram(0, ls, 0, nil, s.Float.Copy()); err != nil {
			r.Count("shapes_rejected_by_storage", 1)
			continue
		}
		stored = append(stored, s)
	}
	// classic bucket sets as float series b{set="<bounds index>:<count indices>", le="..."}; the
	// duplicate-le bound set uses le="1" and le="1.0".
	type cset struct {
		bi int
		ci []int
	}
	var csets []cset
	nc := len(c32ClassicCounts)
	for bi := range c32ClassicBounds {
		total := vx.ProductSize([]int{nc, nc, nc, nc})
		for i := int64(0); i < total; i++ {
			ci := vx.ProductAt([]int{nc, nc, nc, nc}, i, nil)
			csets = append(csets, cset{bi, ci})
			name := fmt.Sprintf("%d:%v", bi, ci)
			seenLe := map[string]bool{}
			for k, ub := range c32ClassicBounds[bi] {
				le := labels.FormatOpenMetricsFloat(ub)
				if seenLe[le] {
					le = c32f(ub) // "1" instead of "1.0"
				}
				seenLe[le] = true
				ls := labels.FromStrings("__name__", "b_bucket", "set", name, "le", le)
				if _, err := app.Append(0, ls, 0, c32ClassicCounts[ci[k]]); err != nil {
					t.Fatalf("append classic bucket: %v", err)
				}
			}
		}
	}
	if err := app.Commit(); err != nil {
		t.Fatalf("commit: %v", err)
	}
	fail := func(q string, err error) {
		r.Violation("query-error", fmt.Sprintf("%s: %v", q, err), c32Replay{Kind: "query", Query: q})
	}
	// histogram_count / sum / avg
	for _, fn := range []string{"histogram_count", "histogram_sum", "histogram_avg"} {
		q := fn + "(h)"
		got, err := d.query(q)
		if err != nil {
			fail(q, err)
			continue
		}
		for _, s := range stored {
			want := map[string]float64{"histogram_count": s.Model.Count, "histogram_sum": s.Model.Sum, "histogram_avg": s.Model.Sum / s.Model.Count}[fn]
			v, ok := got[s.Name]
			r.Count("evaluations", 1)
			if !ok || !c32SameFloat(v, want) {
				r.Violation(strings.ReplaceAll(fn, "_", "-")+"-wrong", fmt.Sprintf("%s{shape=%q} = %v (present=%v), want %v\nhistogram %v", fn, s.Name, v, ok, want, s.Model), c32Replay{Kind: "query", Query: q, Shape: s.Name})
			}
		}
	}
	// fraction over everything
	{
		q := "histogram_fraction(-Inf, +Inf, h)"
		got, err := d.query(q)
		if err != nil {
			fail(q, err)
		}
		for _, s := range stored {
			v, ok := got[s.Name]
			r.Count("evaluations", 1)
			switch {
			case !ok:
				r.Violation("native-fraction-full-range-not-1", fmt.Sprintf("%s: no result for %s", q, s.Name), c32Replay{Kind: "query", Query: q, Shape: s.Name})
			case s.Model.Count == 0:
				if !math.IsNaN(v) {
					r.Violation("native-fraction-empty-not-nan", fmt.Sprintf("%s %s = %v", q, s.Name, v), c32Replay{Kind: "query", Query: q, Shape: s.Name})
				}
			case math.IsNaN(s.Model.Sum):
			case math.Abs(v-1) > 1e-12:
				r.Violation("native-fraction-full-range-not-1", fmt.Sprintf("%s{shape=%q} = %v\nhistogram %v", q, s.Name, v, s.Model), c32Replay{Kind: "query", Query: q, Shape: s.Name})
			}
		}
	}
	// quantiles through the engine: same oracle as the direct calls, plus agreement with them
	qs := []float64{0, 0.05, 0.25, 0.5, 0.75, 0.95, 1}
	prevN := map[string]float64{}
	prevC := map[string]float64{}
	for _, qv := range qs {
		q := fmt.Sprintf("histogram_quantile(%s, h)", c32f(qv))
		got, err := d.query(q)
		if err != nil {
			fail(q, err)
			continue
		}
		for _, s := range stored {
			v, ok := got[s.Name]
			r.Count("evaluations", 1)
			if !ok {
				r.Violation("native-quantile-missing-in-query", fmt.Sprintf("%s has no result for %s", q, s.Name), c32Replay{Kind: "query", Query: q, Shape: s.Name})
				continue
			}
			direct, _ := promql.HistogramQuantile(qv, s.Float.Copy(), "h", posrange.PositionRange{})
			if !c32SameFloat(v, direct) && !(math.Abs(v-direct) <= 1e-12*math.Abs(direct)) {
				r.Violation("native-quantile-query-differs-from-function", fmt.Sprintf("%s{shape=%q} = %v, promql.HistogramQuantile = %v", q, s.Name, v, direct), c32Replay{Kind: "query", Query: q, Shape: s.Name})
			}
			if ok2, why := c32QuantileOracle(s.Model, c32Buckets(s.Model), qv, v); !ok2 {
				sig := "native-quantile-outside-holding-bucket"
				if math.IsNaN(v) && !math.IsNaN(s.Model.Sum) && s.Model.Count > 0 {
					sig = "native-quantile-nan"
				}
				r.Violation(c32QuantileSig(sig, s, c32Buckets(s.Model), qv, v), fmt.Sprintf("%s{shape=%q} = %v but %s\nhistogram %v", q, s.Name, v, why, s.Model), c32Replay{Kind: "query", Query: q, Shape: s.Name})
			}
			cmp := v
			if math.IsNaN(v) && math.IsNaN(s.Model.Sum) {
				cmp = math.Inf(1)
			}
			if p, seen := prevN[s.Name]; seen && c32Decreased(p, cmp) {
				sig := "native-quantile-decreases"
				if math.IsNaN(s.Model.Sum) {
					sig = "native-quantile-nan-observations-last-bucket-used"
				}
				r.Violation(sig, fmt.Sprintf("%s{shape=%q} = %v after %v for a smaller quantile", q, s.Name, v, p), c32Replay{Kind: "query", Query: q, Shape: s.Name})
			}
			if !math.IsNaN(cmp) {
				prevN[s.Name] = cmp
			}
		}
		qc := fmt.Sprintf("histogram_quantile(%s, b_bucket)", c32f(qv))
		gotc, err := d.query(qc)
		if err != nil {
			fail(qc, err)
			continue
		}
		for _, cs := range csets {
			name := fmt.Sprintf("%d:%v", cs.bi, cs.ci)
			finite := true
			for _, c := range cs.ci {
				if math.IsNaN(c32ClassicCounts[c]) {
					finite = false
				}
			}
			v, ok := gotc[name]
			r.Count("evaluations", 1)
			if !ok {
				r.Violation("classic-quantile-missing-in-query", fmt.Sprintf("%s has no result for set %s", qc, name), c32Replay{Kind: "query", Query: qc, Shape: name})
				continue
			}
			if !finite {
				continue
			}
			if p, seen := prevC[name]; seen && c32Decreased(p, v) {
				r.Violation("classic-quantile-decreases", fmt.Sprintf("%s{set=%q} = %v after %v for a smaller quantile (le=%v)", qc, name, v, p, c32ClassicBounds[cs.bi]), c32Replay{Kind: "query", Query: qc, Shape: name})
			}
			if !math.IsNaN(v) {
				prevC[name] = v
			}
		}
	}
	r.Set("shapes_in_storage", len(stored))
	r.Set("classic_sets_in_storage", len(csets))
}

func TestVerifC32(t *testing.T) {
	r := vx.Start(t, "C32", "exploration")
	defer r.Finish()
	all := histmodel.ShapesAll()
	shapes := all
	if r.Quick() {
		// quick: every specification in two layouts (compact and padded) - the query functions only
		// see buckets through the iterators, which C31 checks for every layout.
		shapes = nil
		for _, s := range all {
			if s.Layout == 0 || s.Layout == 1 {
				shapes = append(shapes, s)
			}
		}
	}
	byName := map[string]histmodel.Shape{}
	for _, s := range all {
		byName[s.Name] = s
	}
	if r.Replay != "" {
		var rp c32Replay
		r.LoadReplay(&rp)
		switch rp.Kind {
		case "native-quantile":
			c32NativeQuantiles(r, byName[rp.Shape])
		case "native-fraction":
			c32NativeFractions(r, byName[rp.Shape])
		case "classic":
			for bi, b := range c32ClassicBounds {
				same := len(b) == len(rp.Bounds)
				for k := range b {
					same = same && c32f(b[k]) == rp.Bounds[k]
				}
				if !same {
					continue
				}
				var ci []int
				for _, cs := range rp.Counts {
					for k, c := range c32ClassicCounts {
						if c32f(c) == cs {
							ci = append(ci, k)
							break
						}
					}
				}
				c32Classic(r, bi, ci)
			}
		default:
			c32Queries(r, t, shapes)
		}
		return
	}

	// self-test: the oracle rejects wrong answers
	{
		s := byName["e02-s0-two/L0"] // +{1:1 2:2}: buckets (1,2]:1 (2,4]:2
		bs := c32Buckets(s.Model)
		if len(bs) != 2 || bs[0].lo != 1 || bs[0].up != 2 || bs[1].up != 4 {
			t.Fatalf("self-test: bucket list %v", bs)
		}
		if ok, _ := c32QuantileOracle(s.Model, bs, 0.5, 3); !ok {
			t.Fatal("self-test: oracle rejects a value inside the holding bucket")
		}
		if ok, _ := c32QuantileOracle(s.Model, bs, 0.5, 1.5); ok {
			t.Fatal("self-test: oracle accepts a value from the wrong bucket")
		}
		if ok, _ := c32QuantileOracle(s.Model, bs, 1.0/3, 2); !ok {
			t.Fatal("self-test: oracle rejects the shared boundary at an exact tie")
		}
		if !c32Decreased(2, 1) || c32Decreased(1, 1) || c32Decreased(1, 1-1e-15) {
			t.Fatal("self-test: c32Decreased")
		}
	}

	var n atomic.Int64
	r.ParallelN(int64(len(shapes)), func(i int64) {
		c32NativeQuantiles(r, shapes[i])
		c32NativeFractions(r, shapes[i])
		k := n.Add(1)
		r.SampleAt(k, func() any {
			v, _ := promql.HistogramQuantile(0.5, shapes[i].Float.Copy(), "h", posrange.PositionRange{})
			f, _ := promql.HistogramFraction(0, 2, shapes[i].Float.Copy(), "h", posrange.PositionRange{})
			return map[string]any{"histogram": shapes[i].Model.String(), "quantile_0.5": c32f(v), "fraction_0_2": c32f(f)}
		})
	})
	nc := len(c32ClassicCounts)
	dims := []int{len(c32ClassicBounds), nc, nc, nc, nc}
	r.ParallelN(vx.ProductSize(dims), func(i int64) {
		x := vx.ProductAt(dims, i, nil)
		c32Classic(r, x[0], x[1:])
	})
	c32Queries(r, t, shapes)

	r.Set("shapes", len(shapes))
	r.Set("classic_bucket_sets", vx.ProductSize(dims))
	r.Set("rule", fmt.Sprintf("native: %d shapes x quantile grid (21 fixed values, neighbours of 0/0.5/1, every cumulative tie point +-1 ulp) and x all ordered pairs of a bounds grid (18 fixed values incl. +-Inf plus the shape's bucket boundaries and interior points) via promql.HistogramQuantile/HistogramFraction; the same shapes through instant queries histogram_count/sum/avg, histogram_fraction(-Inf,+Inf), histogram_quantile at 7 quantiles. classic: %d bucket sets (4 le-sets x counts {0,1,2,3,3(1+3e-13),NaN}^4, non-monotonic included) x 18 quantiles via promql.BucketQuantile and 7 quantiles via histogram_quantile queries. distinct_nontrivial = distinct (histogram, q) with >1 populated bucket and a non-NaN quantile, distinct (histogram, interval) with a fraction strictly between 0 and 1, distinct (non-monotonic classic set, q) with a non-NaN quantile", len(shapes), vx.ProductSize(dims)))
	r.Assume("bucket lists come from lib/histmodel (bounds 2^(idx*2^-schema), zero bucket clipping its overlapping neighbours); containment allows 1e-12 relative slack on bounds and 1e-9 on ranks; 'never decreases' ignores decreases below 1e-12 relative (floating-point rounding)")
	r.Assume("histograms with NaN observations (Sum NaN, Count > bucket total): the documented behaviour is taken (fraction over everything may be < 1, quantile above all buckets is NaN and ordered as +Inf)")
}
