package config

// C49: printing a loaded configuration and loading it back is lossless.
//
// Engine E1, input enumeration. A case is a configuration TEXT assembled from one variant per
// section (global, runtime, rule/scrape-config files, scrape_configs, alerting, remote_write,
// remote_read, storage, tracing, otlp). Load(text) = c0 is "a valid configuration" (texts that
// Load rejects are counted, they are outside the quantifier; no variant contains a secret).
// Oracle (statement): s1 = c0.String(); Load(s1) succeeds with c1; c1 equals c0 field by field;
// c1.String() == s1.
// Enumerated: every variant of every section alone, every PAIR of variants of two different
// sections, and the full product over the first k variants of every section.

import (
	"fmt"
	"math"
	"net/url"
	"reflect"
	"regexp"
	"sort"
	"strconv"
	"strings"
	"sync"
	"sync/atomic"
	"testing"

	"github.com/prometheus/common/promslog"

	_ "github.com/prometheus/prometheus/discovery/dns"
	_ "github.com/prometheus/prometheus/discovery/file"
	"github.com/prometheus/prometheus/internal/verif/vx"
	"github.com/prometheus/prometheus/model/labels"
	"github.com/prometheus/prometheus/model/relabel"
)

// ---------------------------------------------------------------------------
// structural dump (every field, exported or not; nil == empty; maps sorted)
// ---------------------------------------------------------------------------

var (
	c49LabelsT = reflect.TypeOf(labels.Labels{})
	c49RegexpT = reflect.TypeOf(relabel.Regexp{})
	c49ReT     = reflect.TypeOf(&regexp.Regexp{})
	c49URLT    = reflect.TypeOf(&url.URL{})
)

type c49Dumper struct {
	b    strings.Builder
	seen map[uintptr]bool
}

func (d *c49Dumper) line(depth int, label, val string) {
	for i := 0; i < depth; i++ {
		d.b.WriteByte(' ')
	}
	d.b.WriteString(label)
	d.b.WriteByte('=')
	d.b.WriteString(val)
	d.b.WriteByte('\n')
}

type c49TypeInfo struct {
	head   string
	labels []string
}

var c49Types sync.Map

func c49Info(t reflect.Type) *c49TypeInfo {
	if ti, ok := c49Types.Load(t); ok {
		return ti.(*c49TypeInfo)
	}
	ti := &c49TypeInfo{head: "<" + t.Name() + ">"}
	for i := 0; i < t.NumField(); i++ {
		ti.labels = append(ti.labels, t.Name()+"."+t.Field(i).Name)
	}
	c49Types.Store(t, ti)
	return ti
}

func (d *c49Dumper) val(label string, v reflect.Value, depth int) {
	if !v.IsValid() {
		d.line(depth, label, "nil")
		return
	}
	t := v.Type()
	switch t {
	case c49LabelsT:
		if v.CanInterface() {
			d.line(depth, label, v.Interface().(labels.Labels).String())
			return
		}
	case c49RegexpT:
		if v.CanInterface() {
			d.line(depth, label, "regex:"+strconv.Quote(v.Interface().(relabel.Regexp).String()))
			return
		}
	case c49ReT:
		if v.IsNil() {
			d.line(depth, label, "nil")
		} else if v.CanInterface() {
			d.line(depth, label, "re:"+strconv.Quote(v.Interface().(*regexp.Regexp).String()))
		} else {
			d.line(depth, label, "re:unexported")
		}
		return
	case c49URLT:
		if v.IsNil() {
			d.line(depth, label, "nil")
		} else if v.CanInterface() {
			d.line(depth, label, "url:"+strconv.Quote(v.Interface().(*url.URL).String()))
		} else {
			d.line(depth, label, "url:unexported")
		}
		return
	}
	switch v.Kind() {
	case reflect.Interface:
		if v.IsNil() {
			d.line(depth, label, "nil")
			return
		}
		d.val(label, v.Elem(), depth)
	case reflect.Ptr:
		if v.IsNil() {
			d.line(depth, label, "nil")
			return
		}
		if d.seen[v.Pointer()] && v.Elem().Kind() == reflect.Struct {
			d.line(depth, label, "seen-pointer")
			return
		}
		d.seen[v.Pointer()] = true
		d.val(label, v.Elem(), depth)
		delete(d.seen, v.Pointer())
	case reflect.Struct:
		ti := c49Info(t)
		d.line(depth, label, ti.head)
		for i := 0; i < t.NumField(); i++ {
			d.val(ti.labels[i], v.Field(i), depth+1)
		}
	case reflect.Slice, reflect.Array:
		if v.Len() == 0 {
			d.line(depth, label, "[]")
			return
		}
		if t.Elem().Kind() == reflect.Uint8 {
			d.line(depth, label, "bytes:"+strconv.Quote(string(v.Bytes())))
			return
		}
		d.line(depth, label, "["+strconv.Itoa(v.Len())+"]")
		for i := 0; i < v.Len(); i++ {
			d.val(label, v.Index(i), depth+1)
		}
	case reflect.Map:
		if v.Len() == 0 {
			d.line(depth, label, "[]")
			return
		}
		type kv struct {
			k string
			v reflect.Value
		}
		var kvs []kv
		it := v.MapRange()
		for it.Next() {
			kvs = append(kvs, kv{fmt.Sprint(it.Key()), it.Value()})
		}
		sort.Slice(kvs, func(i, j int) bool { return kvs[i].k < kvs[j].k })
		d.line(depth, label, "map["+strconv.Itoa(len(kvs))+"]")
		for _, e := range kvs {
			d.val(label+"["+strconv.Quote(e.k)+"]", e.v, depth+1)
		}
	case reflect.Float64, reflect.Float32:
		f := v.Float()
		if math.IsNaN(f) {
			d.line(depth, label, "NaN")
		} else {
			d.line(depth, label, strconv.FormatFloat(f, 'g', -1, 64))
		}
	case reflect.Int, reflect.Int8, reflect.Int16, reflect.Int32, reflect.Int64:
		d.line(depth, label, strconv.FormatInt(v.Int(), 10))
	case reflect.Uint, reflect.Uint8, reflect.Uint16, reflect.Uint32, reflect.Uint64, reflect.Uintptr:
		d.line(depth, label, strconv.FormatUint(v.Uint(), 10))
	case reflect.Bool:
		d.line(depth, label, strconv.FormatBool(v.Bool()))
	case reflect.String:
		d.line(depth, label, strconv.Quote(v.String()))
	case reflect.Func, reflect.Chan, reflect.UnsafePointer:
		if v.IsNil() {
			d.line(depth, label, "nil")
		} else {
			d.line(depth, label, "kind:"+v.Kind().String())
		}
	default:
		d.line(depth, label, "kind:"+v.Kind().String())
	}
}

func c49Dump(c *Config) string {
	d := c49Dumper{seen: map[uintptr]bool{}}
	d.val("root", reflect.ValueOf(c), 0)
	return d.b.String()
}

func c49Diff(da, db string) (label, la, lb string) {
	if da == db {
		return "", "", ""
	}
	a, b := strings.Split(da, "\n"), strings.Split(db, "\n")
	for i := 0; i < len(a) && i < len(b); i++ {
		if a[i] != b[i] {
			x, y := strings.TrimLeft(a[i], " "), strings.TrimLeft(b[i], " ")
			l, va, _ := strings.Cut(x, "=")
			_, vb, _ := strings.Cut(y, "=")
			if k := strings.Index(l, "["); k >= 0 {
				l = l[:k] // drop the map key
			}
			if (strings.HasPrefix(va, "<") || strings.HasPrefix(vb, "<") || va == "nil" || vb == "nil") && va != vb {
				return l + ":" + c49Shape(va) + "->" + c49Shape(vb), x, y
			}
			return l, x, y
		}
	}
	return "length", strconv.Itoa(len(a)), strconv.Itoa(len(b))
}

func c49Shape(v string) string {
	switch {
	case v == "nil" || v == "[]":
		return "absent"
	case strings.HasPrefix(v, "<"):
		return strings.Trim(v, "<>")
	}
	return "value"
}

// ---------------------------------------------------------------------------
// oracle
// ---------------------------------------------------------------------------

type c49Env struct {
	load  func(string) (*Config, error)
	print func(*Config) string
}

type c49Fail struct{ sig, msg string }

func c49Norm(s string) string {
	var b strings.Builder
	inq := false
	for i := 0; i < len(s) && b.Len() < 70; i++ {
		c := s[i]
		switch {
		case c == '"':
			inq = !inq
			if inq {
				b.WriteByte('Q')
			}
		case inq, c >= '0' && c <= '9', c >= 0x80:
		default:
			b.WriteByte(c)
		}
	}
	return b.String()
}

type c49Result struct {
	accepted bool
	outcome  string
	printed  string
	fail     *c49Fail
}

func c49Check(env *c49Env, text string) (res c49Result) {
	var c0 *Config
	var err error
	if p, st := vx.Guard(func() { c0, err = env.load(text) }); p != nil {
		res.fail = &c49Fail{"load-panic", fmt.Sprintf("Load panicked: %v\n%.1500s\nconfig:\n%s", p, st, text)}
		return
	}
	if err != nil {
		res.outcome = "rejected:" + c49Norm(err.Error())
		return
	}
	res.accepted = true
	res.outcome = "accepted"
	var s1 string
	if p, st := vx.Guard(func() { s1 = env.print(c0) }); p != nil {
		res.fail = &c49Fail{"print-panic", fmt.Sprintf("String panicked: %v\n%.1500s\nconfig:\n%s", p, st, text)}
		return
	}
	res.printed = s1
	if strings.Contains(s1, "<secret>") {
		res.outcome = "has-secret"
		return
	}
	if strings.HasPrefix(s1, "<error creating config string") {
		res.fail = &c49Fail{"print-error", fmt.Sprintf("String() of a loaded config failed: %s\nconfig:\n%s", s1, text)}
		return
	}
	var c1 *Config
	if p, st := vx.Guard(func() { c1, err = env.load(s1) }); p != nil {
		res.fail = &c49Fail{"load-panic", fmt.Sprintf("Load of a printed config panicked: %v\n%.1500s\nprinted:\n%s", p, st, s1)}
		return
	}
	if err != nil {
		res.fail = &c49Fail{"printed-config-rejected:" + c49Norm(err.Error()), fmt.Sprintf("the config loads, its printed form is rejected: %v\n--- config:\n%s\n--- printed:\n%s", err, text, s1)}
		return
	}
	d0, d1 := c49Dump(c0), c49Dump(c1)
	if l, a, b := c49Diff(d0, d1); l != "" {
		kind := "reload-differs@"
		_, va, _ := strings.Cut(a, "=")
		_, vb, _ := strings.Cut(b, "=")
		switch {
		case (va == "0" || va == `""` || va == "false") && vb != va:
			// precondition of the recorded findings: the loaded value is the type's zero value (printed
			// with omitempty => absent => the section's non-zero default comes back)
			kind = "explicit-zero-dropped@"
		case l == "GlobalConfig.ExternalLabels" && strings.Contains(va, "$"):
			// precondition: a loaded external label value contains '$' (re-expanded on reload)
			kind = "external-label-dollar-reexpanded@"
		}
		res.fail = &c49Fail{kind + l, fmt.Sprintf("the reloaded config differs at %s: loaded %s, reloaded %s\n--- config:\n%s\n--- printed:\n%s", l, a, b, text, s1)}
		return
	}
	s2 := env.print(c1)
	if s2 != s1 {
		res.fail = &c49Fail{"reprint-differs", fmt.Sprintf("the reloaded config prints differently\n--- first print:\n%s\n--- second print:\n%s", s1, s2)}
	}
	return
}

// ---------------------------------------------------------------------------
// section variants (YAML). Variant 0 of every section is "absent".
// ---------------------------------------------------------------------------

type c49Section struct {
	name     string
	variants []string
}

const c49Relabel = `
      - source_labels: [__name__, job]
        separator: ";"
        regex: "(.+);(.*)"
        target_label: x
        replacement: "$1-$2"
        action: replace
      - regex: "a.*|b"
        action: labeldrop
      - source_labels: [a]
        modulus: 8
        target_label: shard
        action: hashmod
      - source_labels: [a]
        regex: ""
        action: drop
      - source_labels: [b]
        separator: ""
        replacement: ""
        target_label: c
      - action: lowercase
        source_labels: [d]
        target_label: e
      - action: keepequal
        source_labels: [d]
        target_label: e
      - action: labelmap
        regex: "__meta_(.+)"
        replacement: "m_${1}"
`

func c49Sections() []c49Section {
	ind := func(s string, n int) string { // re-indent c49Relabel (written at indent 6) to indent n
		return strings.ReplaceAll(s, "\n      ", "\n"+strings.Repeat(" ", n))
	}
	return []c49Section{
		{"global", []string{"",
			"global:\n  scrape_interval: 15s\n  scrape_timeout: 5s\n  evaluation_interval: 30s\n  external_labels:\n    monitor: codelab\n    zone: \"eu-1\"\n",
			"global:\n  scrape_interval: 1h30m\n  scrape_timeout: 1m1s\n  rule_query_offset: 5s\n  query_log_file: query.log\n  scrape_failure_log_file: fail.log\n  body_size_limit: 15MB\n  sample_limit: 1500\n  target_limit: 30\n  label_limit: 30\n  label_name_length_limit: 200\n  label_value_length_limit: 200\n  keep_dropped_targets: 7\n",
			"global:\n  scrape_protocols: [PrometheusProto, OpenMetricsText1.0.0, PrometheusText0.0.4]\n  scrape_native_histograms: true\n  convert_classic_histograms_to_nhcb: true\n  always_scrape_classic_histograms: true\n  extra_scrape_metrics: true\n",
			"global:\n  metric_name_validation_scheme: legacy\n  metric_name_escaping_scheme: underscores\n  scrape_native_histograms: false\n  extra_scrape_metrics: false\n",
			"global:\n  metric_name_validation_scheme: utf8\n  metric_name_escaping_scheme: dots\n  body_size_limit: 1GiB\n  external_labels:\n    \"utf8.label\": \"v\\u00e4l\\n\"\n    empty: \"\"\n",
			"global:\n  external_labels:\n    dollar: \"a$$b\"\n",
			"global:\n  external_labels:\n    cost: \"5$\"\n    brace: \"${}x\"\n",
			"global:\n  scrape_interval: 1ms\n  scrape_timeout: 1ms\n  evaluation_interval: 1y\n  body_size_limit: 0\n  sample_limit: 0\n",
			"global: {}\n",
			// one of interval / timeout given, the other inferred from a default that may not fit it
			"global:\n  scrape_interval: 5s\n",
			"global:\n  scrape_interval: 10s\n",
			"global:\n  scrape_interval: 2m\n",
			"global:\n  scrape_timeout: 3s\n",
			"global:\n  scrape_timeout: 1m\n",
			"global:\n  evaluation_interval: 0s\n  rule_query_offset: 0s\n",
		}},
		{"runtime", []string{"", "runtime:\n  gogc: 42\n", "runtime:\n  gogc: 75\n", "runtime:\n  gogc: -1\n", "runtime:\n  gogc: 0\n", "runtime: {}\n"}},
		{"files", []string{"",
			"rule_files:\n  - \"first.rules\"\n  - \"my/*.rules\"\n",
			"rule_files: []\nscrape_config_files:\n  - scrape_configs/*.yml\n  - \"/abs/x.yaml\"\n",
			"rule_files:\n  - \"with space/and: colon #hash.rules\"\n  - \"quote'\\\"s.yml\"\n",
		}},
		{"scrape", []string{"",
			"scrape_configs:\n  - job_name: prometheus\n    static_configs:\n      - targets: ['localhost:9090', 'localhost:9191']\n        labels:\n          my: label\n          your: label\n",
			"scrape_configs:\n  - job_name: a\n    honor_labels: true\n    honor_timestamps: false\n    track_timestamps_staleness: true\n    enable_compression: false\n    scrape_interval: 50s\n    scrape_timeout: 5s\n    metrics_path: /my_path\n    scheme: https\n    params:\n      module: [a, b]\n      \"q p\": [\"x y\"]\n    static_configs:\n      - targets: [\"h:1\"]\n",
			"scrape_configs:\n  - job_name: relabelled\n    relabel_configs:" + c49Relabel + "    metric_relabel_configs:\n      - source_labels: [__name__]\n        regex: expensive_metric.*\n        action: drop\n    static_configs:\n      - targets: [\"h:1\"]\n",
			"scrape_configs:\n  - job_name: limits\n    body_size_limit: 10MB\n    sample_limit: 1000\n    target_limit: 35\n    label_limit: 35\n    label_name_length_limit: 210\n    label_value_length_limit: 210\n    native_histogram_bucket_limit: 100\n    native_histogram_min_bucket_factor: 1.5\n    keep_dropped_targets: 3\n    scrape_failure_log_file: f.log\n  - job_name: second\n    file_sd_configs:\n      - files: [\"foo/*.slow.json\", \"single/file.yml\"]\n        refresh_interval: 10m\n      - files: [\"bar/*.yaml\"]\n",
			"scrape_configs:\n  - job_name: protocols\n    scrape_protocols: [OpenMetricsText0.0.1, PrometheusText1.0.0]\n    fallback_scrape_protocol: PrometheusText0.0.4\n    scrape_native_histograms: true\n    always_scrape_classic_histograms: false\n    convert_classic_histograms_to_nhcb: true\n    extra_scrape_metrics: true\n    metric_name_validation_scheme: legacy\n    metric_name_escaping_scheme: underscores\n    static_configs:\n      - targets: []\n",
			"scrape_configs:\n  - job_name: http\n    follow_redirects: false\n    enable_http2: false\n    proxy_url: http://proxy:3128\n    no_proxy: \"a.b,c\"\n    tls_config:\n      ca_file: ca.pem\n      cert_file: cert.pem\n      key_file: key.pem\n      server_name: sn\n      insecure_skip_verify: true\n      min_version: TLS12\n      max_version: TLS13\n    http_headers:\n      X-Custom:\n        values: [a, b]\n        files: [hdr.txt]\n    dns_sd_configs:\n      - names: [first.dns.address.domain.com, second.dns.address.domain.com]\n        refresh_interval: 15s\n        type: A\n        port: 80\n",
			"scrape_configs:\n  - job_name: authfiles\n    authorization:\n      type: Bearer\n      credentials_file: cred.txt\n    proxy_from_environment: true\n    static_configs:\n      - targets: [\"[::1]:9090\", \"a.b:1\"]\n        labels: {}\n      - targets: [\"x:1\"]\n",
			"scrape_configs:\n  - job_name: \"utf8 job/\\u00e4 \\\"q\\\"\"\n    metrics_path: \"/p?x=1&y=%20\"\n    params:\n      \"\": [\"\"]\n    static_configs:\n      - targets: [\"h:1\"]\n        labels:\n          \"utf8.l\": \"multi\\nline\"\n",
			"scrape_configs:\n  - job_name: zeros\n    scrape_interval: 15s\n    scrape_timeout: 15s\n    sample_limit: 0\n    native_histogram_min_bucket_factor: 0\n    relabel_configs: []\n    static_configs: []\n",
			"scrape_configs:\n  - job_name: emptypath\n    metrics_path: \"\"\n    static_configs:\n      - targets: [\"h:1\"]\n",
			"scrape_configs:\n  - job_name: emptyscheme\n    scheme: \"\"\n    static_configs:\n      - targets: [\"h:1\"]\n",
			"scrape_configs:\n  - job_name: oauth-nosecret\n    basic_auth:\n      username: u\n      password_file: pw.txt\n    static_configs:\n      - targets: [\"h:1\"]\n",
		}},
		{"alerting", []string{"",
			"alerting:\n  alertmanagers:\n    - scheme: https\n      static_configs:\n        - targets: [\"1.2.3.4:9093\", \"1.2.3.5:9093\"]\n",
			"alerting:\n  alert_relabel_configs:" + ind(c49Relabel, 4) + "  alertmanagers:\n    - path_prefix: /am\n      timeout: 3s\n      api_version: v2\n      relabel_configs:\n        - source_labels: [a]\n          target_label: b\n      alert_relabel_configs:\n        - action: labeldrop\n          regex: c\n      static_configs:\n        - targets: [\"am:1\"]\n    - file_sd_configs:\n        - files: [\"am/*.json\"]\n",
			"alerting:\n  alertmanagers:\n    - timeout: 0s\n      follow_redirects: false\n      enable_http2: false\n      tls_config:\n        insecure_skip_verify: true\n      static_configs:\n        - targets: []\n",
			"alerting:\n  alertmanagers:\n    - scheme: \"\"\n      path_prefix: \"\"\n      static_configs:\n        - targets: [\"am:1\"]\n",
			"alerting: {}\n",
			"alerting:\n  alertmanagers: []\n  alert_relabel_configs: []\n",
		}},
		{"remote_write", []string{"",
			"remote_write:\n  - url: http://remote1/push\n",
			"remote_write:\n  - url: http://remote1/push\n    name: drop_expensive\n    remote_timeout: 45s\n    write_relabel_configs:\n      - source_labels: [__name__]\n        regex: expensive.*\n        action: drop\n    headers:\n      name: value\n      \"X-Y\": \"a: b\"\n  - url: https://remote2/push?q=1&r=%20\n    name: rw2\n    protobuf_message: io.prometheus.write.v2.Request\n    send_exemplars: true\n    send_native_histograms: true\n    round_robin_dns: true\n",
			"remote_write:\n  - url: http://r/push\n    queue_config:\n      capacity: 1\n      max_shards: 3\n      min_shards: 2\n      max_samples_per_send: 1\n      batch_send_deadline: 1s\n      min_backoff: 1ms\n      max_backoff: 1ms\n      retry_on_http_429: true\n      sample_age_limit: 1h\n    metadata_config:\n      send: false\n      send_interval: 5m\n      max_samples_per_send: 10\n",
			"remote_write:\n  - url: http://r/push\n    follow_redirects: false\n    enable_http2: true\n    metadata_config:\n      send: true\n      send_interval: 0s\n    queue_config:\n      sample_age_limit: 0s\n      retry_on_http_429: false\n",
			"remote_write:\n  - url: http://r/push\n    tls_config:\n      cert_file: c\n      key_file: k\n    proxy_url: socks5://p:1\n    proxy_connect_header:\n      H: [f.txt]\n",
			"remote_write: []\n",
			"remote_write:\n  - url: http://r/push\n    remote_timeout: 0s\n    name: \"\"\n",
			"remote_write:\n  - url: http://r/push\n    queue_config:\n      capacity: 0\n      batch_send_deadline: 0s\n      min_backoff: 0s\n      max_backoff: 0s\n",
			"remote_write:\n  - url: http://r/push\n    queue_config:\n      min_shards: 0\n      max_shards: 1\n    metadata_config:\n      max_samples_per_send: 0\n",
		}},
		{"remote_read", []string{"",
			"remote_read:\n  - url: http://remote1/read\n    read_recent: true\n    name: default\n    enable_http2: false\n",
			"remote_read:\n  - url: http://remote3/read\n    read_recent: false\n    name: read_special\n    remote_timeout: 2m\n    chunked_read_limit: 1024\n    required_matchers:\n      job: special\n      \"u.tf\": \"8\"\n    headers:\n      h: v\n    tls_config:\n      cert_file: c\n      key_file: k\n",
			"remote_read:\n  - url: http://r/read\n    filter_external_labels: false\n",
			"remote_read:\n  - url: http://r/read\n    filter_external_labels: true\n    chunked_read_limit: 0\n    follow_redirects: false\n",
			"remote_read: []\n",
			"remote_read:\n  - url: http://r/read\n    remote_timeout: 0s\n",
		}},
		{"storage", []string{"",
			"storage:\n  tsdb:\n    out_of_order_time_window: 30m\n",
			"storage:\n  tsdb:\n    out_of_order_time_window: 0s\n  exemplars:\n    max_exemplars: 500\n",
			"storage:\n  exemplars:\n    max_exemplars: 0\n",
			"storage:\n  tsdb:\n    retention:\n      time: 15d\n      size: 512MB\n",
			"storage:\n  tsdb:\n    retention:\n      time: 0s\n      size: 0\n      percentage: 50\n    stale_series_compaction_threshold: 0.5\n",
			"storage: {}\n",
			"storage:\n  tsdb: {}\n  exemplars: {}\n",
		}},
		{"tracing", []string{"",
			"tracing:\n  endpoint: \"localhost:4317\"\n",
			"tracing:\n  endpoint: \"localhost:4318\"\n  client_type: http\n  sampling_fraction: 0.5\n  insecure: true\n  compression: gzip\n  timeout: 5s\n  tls_config:\n    ca_file: ca\n    insecure_skip_verify: true\n",
			"tracing:\n  endpoint: \"h:1\"\n  client_type: grpc\n  sampling_fraction: 1\n  headers:\n    foo: bar\n    \"x-y\": \"z: w\"\n",
			"tracing:\n  endpoint: \"h:1\"\n  sampling_fraction: 0\n  insecure: false\n  timeout: 0s\n",
		}},
		{"otlp", []string{"",
			"otlp:\n  promote_resource_attributes: [\"k8s.cluster.name\", \"k8s.job.name\", \"k8s.namespace.name\"]\n",
			"otlp:\n  translation_strategy: UnderscoreEscapingWithoutSuffixes\n  keep_identifying_resource_attributes: true\n  convert_histograms_to_nhcb: true\n  promote_scope_metadata: true\n",
			"otlp:\n  translation_strategy: NoUTF8EscapingWithSuffixes\n  promote_all_resource_attributes: true\n  ignore_resource_attributes: [\"a.b\", c]\n",
			"otlp:\n  translation_strategy: NoTranslation\n",
			"otlp:\n  label_name_underscore_sanitization: false\n",
			"otlp:\n  label_name_preserve_multiple_underscores: false\n  label_name_underscore_sanitization: true\n",
			"otlp:\n  translation_strategy: \"\"\n",
			"otlp: {}\n",
		}},
	}
}

func c49Text(secs []c49Section, choice []int) string {
	var b strings.Builder
	for i, s := range secs {
		b.WriteString(s.variants[choice[i]])
	}
	return b.String()
}

type c49Replay struct {
	Choice []int  `json:"choice"`
	Text   string `json:"text"`
}

func TestVerifC49(t *testing.T) {
	r := vx.Start(t, "C49", "exploration")
	defer r.Finish()
	logger := promslog.NewNopLogger()
	env := &c49Env{
		load:  func(s string) (*Config, error) { return Load(s, logger) },
		print: func(c *Config) string { return c.String() },
	}
	secs := c49Sections()

	if r.Replay != "" {
		var rp c49Replay
		r.LoadReplay(&rp)
		if res := c49Check(env, rp.Text); res.fail != nil {
			r.Violation(res.fail.sig, res.fail.msg, rp)
		}
		return
	}

	// ---- self-test
	{
		base := "global:\n  scrape_interval: 15s\nscrape_configs:\n  - job_name: x\n    honor_labels: true\n    static_configs:\n      - targets: [\"a:1\"]\n"
		if res := c49Check(env, base); res.fail != nil || !res.accepted {
			// the real code may be broken by a change under test: not a tool failure, but say so
			t.Logf("self-test: base config does not round-trip on this tree: %+v", res.fail)
		}
		bad := *env
		bad.print = func(c *Config) string { return strings.Replace(c.String(), "  honor_labels: true\n", "", 1) }
		if res := c49Check(&bad, base); res.fail == nil || !strings.HasPrefix(res.fail.sig, "reload-differs@ScrapeConfig.HonorLabels") {
			t.Fatalf("self-test: a printer that drops a field is not detected: %+v", res.fail)
		}
		bad.print = func(c *Config) string { return c.String() + "bogus_field: 1\n" }
		if res := c49Check(&bad, base); res.fail == nil || !strings.HasPrefix(res.fail.sig, "printed-config-rejected:") {
			t.Fatalf("self-test: an unloadable printed form is not detected: %+v", res.fail)
		}
		n := 0
		bad.print = func(c *Config) string { n++; return c.String() + strings.Repeat("\n", n) }
		if res := c49Check(&bad, base); res.fail == nil || res.fail.sig != "reprint-differs" {
			t.Fatalf("self-test: unstable printing is not detected: %+v", res.fail)
		}
		c0, err := Load(base, logger)
		c1, _ := Load(strings.Replace(base, "15s", "16s", 1), logger)
		if err != nil || c49Dump(c0) == c49Dump(c1) || c49Dump(c0) != c49Dump(c0) {
			t.Fatalf("self-test: dump does not distinguish configs")
		}
	}

	// ---- enumeration: singles, pairs, small full product
	dims := make([]int, len(secs))
	for i, s := range secs {
		dims[i] = len(s.variants)
	}
	var choices [][]int
	seen := map[string]bool{}
	add := func(c []int) {
		k := fmt.Sprint(c)
		if !seen[k] {
			seen[k] = true
			choices = append(choices, append([]int{}, c...))
		}
	}
	zero := make([]int, len(secs))
	add(zero)
	for i := range secs {
		for a := 1; a < dims[i]; a++ {
			c := append([]int{}, zero...)
			c[i] = a
			add(c)
		}
	}
	nSingles := len(choices)
	for i := range secs {
		for j := i + 1; j < len(secs); j++ {
			for a := 1; a < dims[i]; a++ {
				for b := 1; b < dims[j]; b++ {
					c := append([]int{}, zero...)
					c[i], c[j] = a, b
					add(c)
				}
			}
		}
	}
	nPairs := len(choices) - nSingles
	k := vx.Pick(r, 2, 3) // full product over variants 0..k-1 (quick) / 0..k (thorough: 0..2 plus the last)
	pd := make([]int, len(secs))
	for i := range pd {
		pd[i] = k
	}
	total := vx.ProductSize(pd)
	for x := int64(0); x < total; x++ {
		c := vx.ProductAt(pd, x, nil)
		add(c)
	}
	if r.Thorough() {
		// triples of sections with every variant, for the three sections that interact through defaults
		gi, si, oi := 0, 3, 9
		for a := 0; a < dims[gi]; a++ {
			for b := 0; b < dims[si]; b++ {
				for c := 0; c < dims[oi]; c++ {
					ch := append([]int{}, zero...)
					ch[gi], ch[si], ch[oi] = a, b, c
					add(ch)
				}
			}
		}
	}
	r.Set("sections", len(secs))
	r.Set("variants_per_section", dims)
	r.Set("single_section_cases", nSingles)
	r.Set("pair_cases", nPairs)
	r.Set("product_and_triple_cases", len(choices)-nSingles-nPairs)

	var accepted, rejected atomic.Int64
	var n atomic.Int64
	r.ParallelN(int64(len(choices)), func(i int64) {
		text := c49Text(secs, choices[i])
		res := c49Check(env, text)
		r.Distinct("distinct_outcomes", res.outcome)
		if res.fail != nil {
			r.Violation(res.fail.sig, res.fail.msg, c49Replay{Choice: choices[i], Text: text})
		}
		if res.accepted {
			accepted.Add(1)
			r.Distinct("distinct_nontrivial", res.printed)
		} else {
			rejected.Add(1)
			if i < int64(nSingles) {
				r.Distinct("rejected_single_variants", res.outcome)
			}
		}
		k := n.Add(1)
		r.SampleAt(k, func() any { return map[string]any{"choice": choices[i], "config": text, "outcome": res.outcome} })
	})
	r.Count("evaluations", int(n.Load()))
	r.Count("accepted_configs", int(accepted.Load()))
	r.Count("rejected_by_load", int(rejected.Load()))
	r.Set("rule", "one evaluation = one configuration text (one variant per section, variant 0 = section absent): every single variant, every pair of variants of two different sections, the full product over the first k variants of every section"+
		" (thorough: also global x scrape_configs x otlp in full). Accepted texts are loaded, printed, re-loaded, compared field by field (reflective dump incl. unexported fields) and re-printed. "+
		"distinct_nontrivial = distinct printed configurations of accepted texts; distinct_outcomes = accepted / normalised Load errors.")
	r.Assume("equality ignores nil vs empty slices/maps; regexps and URLs are compared by their source text; label sets by their canonical string")
	r.Assume("no variant contains a secret (printed as <secret>); files named in a config need not exist for Load")
	if r.Violations() == 0 && (accepted.Load() == 0 || accepted.Load() < n.Load()/2) {
		t.Fatalf("vacuous run: only %d of %d texts accepted", accepted.Load(), n.Load())
	}
}
