package notifier

// C46: the notifier drops only the oldest alerts and preserves order.
//
// Engine E5 (evloop): the REAL notifier.Manager (NewManager, ApplyConfig, Run with its target
// update loop, alertmanagerSet.sync/send, one sendLoop goroutine per Alertmanager, stop with and
// without DrainOnShutdown) runs inside a synctest bubble with a small queue capacity and batch
// size. Options.Do is a fake whose completions are explorer events. The explorer (vx.BFS,
// canonical-state de-duplication) enumerates every ordering of <= depth external events:
//   send/<k>        Manager.Send of a batch of fresh alerts (1, 3 = larger than the queue, "d" =
//                   one alert removed by global alert relabeling + one by the Alertmanager
//                   config's alert relabeling + one surviving)
//   sd/<set>        a target-group update through Run's channel changes the Alertmanager set
//   cfg/same|other  Manager.ApplyConfig with an identical / a different Alertmanager config
//   ok|fail/<am>/<k>  the fake Alertmanager <am> processes its k-th oldest pending request
//                   successfully / the request fails
//   stop            Manager.Stop (Run then stops every send loop, draining if configured)
// Plans with Park (overlapping calls): Manager.Send is also explored as TWO events with other events
// enumerated in between,
//   psend/<k>/<am>  Manager.Send of k alerts is called on its own goroutine and is PAUSED inside the
//                   notifier immediately before it hands the alerts to the send loop of <am> (the
//                   harness holds that send loop's mutex as a gate; the notifier package is built
//                   with lock waits that synctest regards as durable, so "Send is paused" and "an
//                   operation is waiting for a lock" are quiescent states)
//   resume          the gate is opened: the paused Send runs to completion, the system quiesces,
//                   then the operation that was invoked meanwhile (if it had to wait) proceeds
// While a Send is paused the menu is: ApplyConfig (every same/changed combination of the
// Alertmanager configs), a discovery update that adds no Alertmanager, Stop (at most one of these),
// and answers of Alertmanagers other than the gated one. Reference: an operation invoked while a
// Send is in progress takes effect after that Send (both linearisations agree for every
// Alertmanager that the operation keeps; for an Alertmanager that it stops, the paused alerts need
// not be attempted by the drain - they are "optional").
// Plans with K=2 have two Alertmanager configs (config-0 discovers am1, config-1 discovers am2),
// so that ApplyConfig can change one set and keep (transfer the send loops of) the other.
// The fake Alertmanager RECEIVES a batch when it processes the request (ok event): two requests
// that are in flight to the same Alertmanager at the same time can be processed in either order,
// as with real concurrent HTTP requests.

import (
	"context"
	"encoding/json"
	"fmt"
	"io"
	"net/http"
	"os"
	"runtime"
	"sort"
	"strings"
	"sync"
	"testing"
	"testing/synctest"

	"github.com/prometheus/client_golang/prometheus"
	dto "github.com/prometheus/client_model/go"
	"github.com/prometheus/common/model"

	"github.com/prometheus/prometheus/config"
	"github.com/prometheus/prometheus/discovery/targetgroup"
	"github.com/prometheus/prometheus/internal/verif/evloop"
	"github.com/prometheus/prometheus/internal/verif/vsync"
	"github.com/prometheus/prometheus/internal/verif/vx"
	"github.com/prometheus/prometheus/model/labels"
)

const c46ConfigHead = `
alerting:
  alert_relabel_configs:
  - source_labels: [sev]
    regex: drop
    action: drop
  alertmanagers:
`

const c46ConfigAM = `  - timeout: %s
    alert_relabel_configs:
    - source_labels: [sev]
      regex: amdrop
      action: drop
`

type c46Plan struct {
	Q, B  int
	Drain bool
	K     int  // Alertmanager configs: 1 = config-0 discovers am1 and am2; 2 = config-0 discovers am1, config-1 discovers am2
	Park  bool // paused-Send events (psend/resume)
}

var c46Plans = map[string]c46Plan{
	"q2b1-drain":          {2, 1, true, 1, false},
	"q2b1-nodrain":        {2, 1, false, 1, false},
	"q3b2-drain":          {3, 2, true, 1, false},
	"q3b2-nodrain":        {3, 2, false, 1, false},
	"q1b1-drain":          {1, 1, true, 1, false},
	"k2park-q2b1-drain":   {2, 1, true, 2, true},
	"k2park-q2b1-nodrain": {2, 1, false, 2, true},
	"k1park-q2b1-drain":   {2, 1, true, 1, true},
	"k1park-q3b2-nodrain": {3, 2, false, 1, true},
}

// cfgOf: which Alertmanager config discovers the Alertmanager.
func (p c46Plan) cfgOf(am string) int {
	if p.K == 2 && am == "2" {
		return 1
	}
	return 0
}

// c46CfgMask: cfg/same, cfg/other (one config) or cfg/<s|o per config> -> bit c set = config c changes.
func c46CfgMask(v string) int {
	switch v {
	case "same":
		return 0
	case "other":
		return 1
	}
	m := 0
	for i, c := range v {
		if c == 'o' {
			m |= 1 << i
		}
	}
	return m
}

// ---------------------------------------------------------------------------
// reference model (from the statement), per Alertmanager
// ---------------------------------------------------------------------------

type c46Req struct {
	am     string
	alerts []int // alert numbers, in payload order
	drain  bool  // issued by stop()'s drain (sendLoop.drainQueue on the call stack), not by the send loop
	gen    int   // which send loop of this Alertmanager URL issued it (1 = first)
	reply  chan bool
}

type c46AM struct {
	live     bool // a send loop should exist and receive new alerts
	draining bool // loop stopped with DrainOnShutdown; the stopping operation must attempt all of queue
	gens     int  // number of send loops this URL has had
	queue    []int
	pending  []*c46Req // requests in flight, arrival order
	// accounting for the current loop (only compared with the metrics while gens == 1)
	okN, failN, lostN int
	maxReceived       int  // highest alert number received so far
	maxReceivedDrain  bool // ... and whether it arrived in a request issued by stop()'s drain
	maxReceivedGen    int  // ... and the send loop generation that issued that request
	received          []int
	offered           map[int]bool // every alert ever offered to a loop of this Alertmanager
	requested         map[int]bool // every alert that appeared in a request
	optional          map[int]bool // queued alerts of a Send that overlapped with the operation stopping this loop: the drain need not attempt them
	owed              []int        // alerts of the Send in progress (paused) that this Alertmanager's loop may or may not have been handed yet
}

// c46Parked: a Send that is in progress (paused inside the notifier).
type c46Parked struct {
	gate   string // paused immediately before the send loop of this Alertmanager
	alerts []int  // its surviving alerts
	op     string // the operation invoked while it is paused ("" = none yet); takes effect at resume
}

type c46Model struct {
	plan    c46Plan
	ams     map[string]*c46AM
	stopReq bool
	cfgVar  int // bit c: Alertmanager config c is currently its second variant
	next    int // next alert number
	parked  *c46Parked
	// alerts of the Send that overlaps with the operation being applied (see stopLoop)
	overlapping []int
}

func c46NewModel(p c46Plan) *c46Model {
	m := &c46Model{plan: p, ams: map[string]*c46AM{}}
	for _, a := range []string{"1", "2"} {
		m.ams[a] = &c46AM{offered: map[int]bool{}, requested: map[int]bool{}, optional: map[int]bool{}}
	}
	return m
}

// offer: the surviving alerts of one Send, in order. Queue overflow loses the OLDEST alerts.
// paused: the Send stays in progress; when each Alertmanager's loop is handed the alerts (at the
// latest when the Send returns) is not known to the reference: they are owed.
func (m *c46Model) offer(alerts []int, paused bool) {
	if m.stopReq {
		return
	}
	for _, a := range m.ams {
		if !a.live {
			continue
		}
		for _, x := range alerts {
			a.offered[x] = true
		}
		a.owed = append([]int{}, alerts...)
		if !paused {
			m.handOver(a)
		}
	}
}

// handOver: the loop is handed the owed alerts now.
func (m *c46Model) handOver(a *c46AM) {
	if len(a.owed) == 0 {
		return
	}
	all := append(append([]int{}, a.queue...), a.owed...)
	if d := len(all) - m.plan.Q; d > 0 {
		a.lostN += d
		all = all[d:]
	}
	a.queue = all
	a.owed = nil
}

// stopLoop: the Alertmanager leaves the set or the notifier stops.
func (m *c46Model) stopLoop(a *c46AM) {
	if !a.live {
		return
	}
	a.live = false
	if m.plan.Drain {
		a.draining = true // every queued alert must be attempted before the stopping operation returns
		// ... except those of a Send that was still in progress when the stopping operation was
		// invoked: ordering the operation before that Send is just as legitimate
		for _, x := range m.overlapping {
			a.optional[x] = true
		}
	} else {
		a.queue = nil // lost: stopped without draining
	}
}

func (m *c46Model) setAMs(set string) {
	for name, a := range m.ams {
		in := strings.Contains(set, name)
		switch {
		case in && !a.live:
			if a.draining {
				panic("c46: Alertmanager re-added while its old loop is still draining")
			}
			a.live = true
			a.gens++
			a.okN, a.failN, a.lostN = 0, 0, 0
		case !in && a.live:
			m.stopLoop(a)
		}
	}
}

// applyOp: reference effect of a set-changing operation / Stop.
func (m *c46Model) applyOp(f []string) {
	switch f[0] {
	case "sd":
		set := f[1]
		if set == "0" {
			set = ""
		}
		m.setAMs(set)
	case "cfg":
		// a changed Alertmanager config: the loops of its old set are stopped, the new set has no
		// Alertmanagers until the next discovery update; an unchanged config keeps its loops
		mask := c46CfgMask(f[1])
		for _, name := range []string{"1", "2"} {
			if mask>>m.plan.cfgOf(name)&1 == 1 {
				m.stopLoop(m.ams[name])
			}
		}
		m.cfgVar ^= mask
	case "stop":
		m.stopReq = true
		for _, name := range []string{"1", "2"} {
			m.stopLoop(m.ams[name])
		}
	default:
		panic("c46: applyOp " + f[0])
	}
}

// ---------------------------------------------------------------------------
// the world
// ---------------------------------------------------------------------------

type c46World struct {
	r    *vx.Run
	name string
	plan c46Plan
	m    *Manager
	reg  *prometheus.Registry
	conf []*config.Config // index = cfgVar bit mask

	tsets   chan map[string][]*targetgroup.Group
	runDone bool
	applyIn int // ApplyConfig calls that have not returned
	sendIn  int // (paused) Send calls that have not returned
	park    *c46Park

	mu    sync.Mutex
	mdl   *c46Model
	fails []*vx.Fail // oracle failures detected when a request arrives / is answered
	soft  []*vx.Fail // known-finding class: reported, exploration continues
	hist  []string
	// coverage features
	sawOverflow, sawOverlap, sawPark, sawOpInPark, sawOpWaited bool
}

// c46Park: the gate that pauses a Send.
type c46Park struct {
	sl *sendLoop // its mutex is held by the harness
}

// The two configurations are parsed once and shared read-only by all worlds (ApplyConfig only
// writes a relabel config's NameValidationScheme when it is unset; it is set here).
var (
	c46ConfOnce sync.Once
	c46Conf     [3][]*config.Config
)

func c46LoadConfig(timeouts ...string) *config.Config {
	y := c46ConfigHead
	for _, t := range timeouts {
		y += fmt.Sprintf(c46ConfigAM, t)
	}
	c, err := config.Load(y, nil)
	if err != nil {
		panic("c46: config: " + err.Error())
	}
	for _, rc := range c.AlertingConfig.AlertRelabelConfigs {
		switch rc.NameValidationScheme {
		case model.LegacyValidation, model.UTF8Validation:
		default:
			rc.NameValidationScheme = model.UTF8Validation
		}
	}
	if c.GlobalConfig.MetricNameValidationScheme != model.UTF8Validation {
		panic("c46: unexpected default validation scheme")
	}
	return c
}

func c46Configs(k int) []*config.Config {
	c46ConfOnce.Do(func() {
		c46Conf[1] = []*config.Config{c46LoadConfig("10s"), c46LoadConfig("11s")}
		c46Conf[2] = []*config.Config{c46LoadConfig("10s", "20s"), c46LoadConfig("11s", "20s"), c46LoadConfig("10s", "21s"), c46LoadConfig("11s", "21s")}
	})
	return c46Conf[k]
}

func c46NewWorld(r *vx.Run, name string) *c46World {
	p, ok := c46Plans[name]
	if !ok {
		panic("c46: unknown plan " + name)
	}
	w := &c46World{r: r, name: name, plan: p, mdl: c46NewModel(p), tsets: make(chan map[string][]*targetgroup.Group)}
	w.reg = prometheus.NewRegistry()
	w.conf = c46Configs(p.K)
	w.m = NewManager(&Options{QueueCapacity: p.Q, MaxBatchSize: p.B, DrainOnShutdown: p.Drain, Do: w.do, Registerer: w.reg}, model.UTF8Validation, nil)
	if err := w.m.ApplyConfig(w.conf[0]); err != nil {
		panic("c46: ApplyConfig: " + err.Error())
	}
	go func() {
		w.m.Run(w.tsets)
		w.mu.Lock()
		w.runDone = true
		w.mu.Unlock()
	}()
	// initial state: Alertmanager am1 discovered (saves one event of depth in every history); with two
	// Alertmanager configs both are discovered, one by each config
	init := "1"
	if p.K == 2 {
		init = "12"
	}
	w.mdl.setAMs(init)
	w.tsets <- w.targetSet(init)
	return w
}

func (w *c46World) targetSet(set string) map[string][]*targetgroup.Group {
	out := map[string][]*targetgroup.Group{}
	for c := 0; c < w.plan.K; c++ {
		tg := &targetgroup.Group{Source: "sd"}
		for _, ch := range set {
			if w.plan.cfgOf(string(ch)) == c {
				tg.Targets = append(tg.Targets, model.LabelSet{model.AddressLabel: model.LabelValue(fmt.Sprintf("am%c:9093", ch))})
			}
		}
		out[fmt.Sprintf("config-%d", c)] = []*targetgroup.Group{tg}
	}
	return out
}

// do is Options.Do: the request stays in flight until an ok/fail event answers it.
func (w *c46World) do(ctx context.Context, _ *http.Client, req *http.Request) (*http.Response, error) {
	body, err := io.ReadAll(req.Body)
	if err != nil {
		panic(err)
	}
	var payload []struct {
		Labels map[string]string `json:"labels"`
	}
	if err := json.Unmarshal(body, &payload); err != nil {
		panic("c46: payload: " + err.Error())
	}
	rq := &c46Req{am: strings.TrimPrefix(strings.Split(req.URL.Host, ":")[0], "am"), reply: make(chan bool)}
	for _, a := range payload {
		var n int
		fmt.Sscanf(a.Labels["alertname"], "a%d", &n)
		rq.alerts = append(rq.alerts, n)
	}
	rq.drain = c46CalledFromDrain()
	w.arrive(rq)
	select {
	case ok := <-rq.reply:
		if !ok {
			return nil, fmt.Errorf("c46: injected delivery failure")
		}
		return &http.Response{StatusCode: 200, Status: "200 OK", Body: io.NopCloser(strings.NewReader(""))}, nil
	case <-ctx.Done():
		panic("c46: request context ended; the fake clock must not advance")
	}
}

// c46CalledFromDrain reports whether the current goroutine is inside sendLoop.drainQueue, i.e.
// the request is issued by stop()'s drain in stop()'s caller and not by the send loop. (Only used
// to give the known reordering its narrow signature; when several Alertmanagers are stopped one
// after the other the model cannot tell from the event alone which of them is already draining.)
func c46CalledFromDrain() bool {
	pc := make([]uintptr, 32)
	n := runtime.Callers(2, pc)
	frames := runtime.CallersFrames(pc[:n])
	for {
		fr, more := frames.Next()
		if strings.HasSuffix(fr.Function, "(*sendLoop).drainQueue") {
			return true
		}
		if !more {
			return false
		}
	}
}

// arrive: model side of a request reaching the fake Alertmanager.
func (w *c46World) arrive(rq *c46Req) {
	w.mu.Lock()
	defer w.mu.Unlock()
	a := w.mdl.ams[rq.am]
	if a == nil {
		w.fails = append(w.fails, vx.Failf("request-to-unknown-alertmanager", "request to %q", rq.am))
		return
	}
	rq.gen = a.gens
	if len(a.pending) > 0 {
		w.sawOverlap = true
	}
	a.pending = append(a.pending, rq)
	switch {
	case len(rq.alerts) == 0:
		w.fails = append(w.fails, vx.Failf("empty-request", "am%s received a request without alerts", rq.am))
	case len(rq.alerts) > w.plan.B:
		w.fails = append(w.fails, vx.Failf("batch-larger-than-max", "am%s: request carries %v, max batch size is %d", rq.am, rq.alerts, w.plan.B))
	}
	if !a.live && !a.draining {
		w.fails = append(w.fails, vx.Failf("request-from-stopped-loop", "am%s: request %v although its send loop is stopped and nothing is to be drained", rq.am, rq.alerts))
	}
	// the batch must be the oldest queued alerts, in order: anything else skips, repeats or reorders
	n := len(rq.alerts)
	if (n > len(a.queue) || fmt.Sprint(a.queue[:n]) != fmt.Sprint(rq.alerts)) && len(a.owed) > 0 {
		// not the head of the queue as it was before the Send in progress: then the loop must have
		// been handed that Send's alerts already
		w.mdl.handOver(a)
	}
	if n > len(a.queue) || fmt.Sprint(a.queue[:n]) != fmt.Sprint(rq.alerts) {
		w.fails = append(w.fails, vx.Failf("batch-not-oldest-queued", "am%s: request carries %v, the queue of surviving alerts is %v", rq.am, rq.alerts, a.queue))
		for _, x := range rq.alerts {
			a.requested[x] = true
		}
		return
	}
	a.queue = a.queue[n:]
	for _, x := range rq.alerts {
		if a.requested[x] {
			w.fails = append(w.fails, vx.Failf("alert-sent-twice", "am%s: alert a%d requested twice", rq.am, x))
		}
		a.requested[x] = true
	}
}

// answer: model side of the fake Alertmanager processing a request.
func (w *c46World) answer(rq *c46Req, ok bool) {
	a := w.mdl.ams[rq.am]
	for i, p := range a.pending {
		if p == rq {
			a.pending = append(a.pending[:i:i], a.pending[i+1:]...)
		}
	}
	if !ok {
		a.failN += len(rq.alerts)
		return
	}
	a.okN += len(rq.alerts)
	for _, x := range rq.alerts {
		if !a.offered[x] {
			w.fails = append(w.fails, vx.Failf("received-alert-never-offered", "am%s received a%d which was never sent to it after relabeling", rq.am, x))
		}
		if x <= a.maxReceived {
			// the received sequence is no longer an in-order subsequence of the sent alerts
			f := vx.Failf("received-out-of-order", "am%s received %v and now %v: not in the order the alerts were sent (history %v)", rq.am, a.received, rq.alerts, w.hist)
			switch {
			case rq.gen < a.maxReceivedGen:
				// narrow class 1: the Alertmanager left the set while its send loop had a request in
				// flight, came back (new send loop), and a request of the NEW loop was processed
				// before the old loop's request.
				f.Signature = "readded-alertmanager-request-overtakes-inflight-request-of-stopped-loop"
				w.soft = append(w.soft, f)
			case w.plan.Drain && rq.gen == a.maxReceivedGen && !rq.drain && a.maxReceivedDrain:
				// narrow class 2: this request was issued by the send loop and was still in flight
				// when stop() began draining the queue from its caller; a drained (newer) batch of
				// the same loop was processed by the Alertmanager first.
				f.Signature = "drain-request-overtakes-inflight-loop-request"
				w.soft = append(w.soft, f)
			default:
				w.fails = append(w.fails, f)
			}
		} else {
			a.maxReceived, a.maxReceivedDrain, a.maxReceivedGen = x, rq.drain, rq.gen
		}
		a.received = append(a.received, x)
	}
}

func (w *c46World) busy() bool {
	if w.m.mtx.TryLock() {
		w.m.mtx.Unlock()
		return false
	}
	return true
}

// quiet: no call into the notifier is in progress (none paused by the harness, none waiting in a
// drain) - the only states in which the harness itself takes the notifier's locks.
func (w *c46World) quiet() bool {
	return w.park == nil && w.sendIn == 0 && w.applyIn == 0 && !w.busy()
}

func (w *c46World) cfgOps() []string {
	if w.plan.K == 2 {
		return []string{"cfg/ss", "cfg/os", "cfg/so", "cfg/oo"}
	}
	return []string{"cfg/same", "cfg/other"}
}

func (w *c46World) Ops() []string {
	w.mu.Lock()
	defer w.mu.Unlock()
	var ops []string
	if pk := w.mdl.parked; pk != nil {
		// a Send is paused: open the gate, or invoke ONE operation that overlaps with it (a second
		// one would only queue behind the first), or let another Alertmanager answer
		ops = append(ops, "resume")
		if pk.op == "" {
			ops = append(ops, w.cfgOps()...)
			for _, set := range []string{"1", "12", "2", "0"} {
				adds := false
				for _, name := range []string{"1", "2"} {
					if strings.Contains(set, name) && !w.mdl.ams[name].live {
						adds = true // both linearisations are legitimate and differ for the new loop: not explored
					}
				}
				if !adds {
					ops = append(ops, "sd/"+set)
				}
			}
			ops = append(ops, "stop")
		}
		for _, name := range []string{"1", "2"} {
			if name == pk.gate {
				continue // its send loop may be waiting at the gate as well
			}
			for k := range w.mdl.ams[name].pending {
				if k < 2 {
					ops = append(ops, fmt.Sprintf("ok/%s/%d", name, k), fmt.Sprintf("fail/%s/%d", name, k))
				}
			}
		}
		return ops
	}
	// Everything that needs Manager.mtx is only injected while the lock is free. (While
	// the lock is held, its holder is blocked in Do inside a drain; the real callers would simply
	// wait, which is the same as being ordered after the drain.)
	if w.quiet() {
		if !w.mdl.stopReq {
			ops = append(ops, "send/1", "send/3", "send/d", "sd/1", "sd/12", "sd/2", "sd/0")
			ops = append(ops, w.cfgOps()...)
			ops = append(ops, "stop")
			if w.plan.Park {
				for _, k := range []string{"1", "3"} {
					for _, name := range []string{"1", "2"} {
						if w.mdl.ams[name].live {
							ops = append(ops, "psend/"+k+"/"+name)
						}
					}
				}
			}
		} else {
			ops = append(ops, "send/1")
		}
	}
	for _, name := range []string{"1", "2"} {
		for k := range w.mdl.ams[name].pending {
			if k < 2 {
				ops = append(ops, fmt.Sprintf("ok/%s/%d", name, k), fmt.Sprintf("fail/%s/%d", name, k))
			}
		}
	}
	return ops
}

func (w *c46World) newAlert(sev string) (*Alert, int) {
	w.mdl.next++
	n := w.mdl.next
	ls := []string{labels.AlertName, fmt.Sprintf("a%d", n)}
	if sev != "" {
		ls = append(ls, "sev", sev)
	}
	return &Alert{Labels: labels.FromStrings(ls...)}, n
}

func (w *c46World) Apply(op string) {
	w.mu.Lock()
	w.hist = append(w.hist, op)
	w.soft = nil
	f := strings.Split(op, "/")
	switch f[0] {
	case "send", "psend":
		var alerts []*Alert
		var surviving []int
		add := func(sev string) {
			a, n := w.newAlert(sev)
			alerts = append(alerts, a)
			if sev == "" {
				surviving = append(surviving, n)
			}
		}
		switch f[1] {
		case "1":
			add("")
		case "3":
			add("")
			add("")
			add("")
		case "d":
			add("drop")
			add("amdrop")
			add("")
		}
		before := 0
		for _, a := range w.mdl.ams {
			before += a.lostN
		}
		w.mdl.offer(surviving, f[0] == "psend") // model first: the loops may call Do before Send returns
		for _, a := range w.mdl.ams {
			before -= a.lostN
		}
		if before != 0 {
			w.sawOverflow = true
		}
		if f[0] == "send" {
			w.mu.Unlock()
			w.m.Send(alerts...)
			break
		}
		// psend: close the gate in front of the send loop of Alertmanager f[2], then call Send on
		// its own goroutine; it stops at the gate (after whatever it does before reaching it)
		sl := w.findLoop(f[2])
		if sl == nil {
			w.mu.Unlock()
			panic("c46: no send loop to pause at: " + op)
		}
		sl.mtx.Lock()
		w.park = &c46Park{sl: sl}
		w.mdl.parked = &c46Parked{gate: f[2], alerts: surviving}
		w.sawPark = true
		w.sendIn++
		w.mu.Unlock()
		go func() {
			w.m.Send(alerts...)
			w.mu.Lock()
			w.sendIn--
			w.mu.Unlock()
		}()
	case "resume":
		pk, gate := w.mdl.parked, w.park
		if pk == nil {
			w.mu.Unlock()
			panic("c46: resume without a paused Send")
		}
		// An operation invoked meanwhile that had to wait for the Send (it needs Manager.mtx, which
		// the Send holds for reading) is kept waiting a little longer by a second read lock, so that
		// the step is two quiescent phases (Send completes; the operation runs) and not a race
		// between the resumed send loops and the operation. If the operation did NOT have to wait,
		// it holds or has already released the lock and nothing is delayed.
		held := w.m.mtx.TryRLock()
		if strings.HasPrefix(pk.op, "cfg") && w.applyIn > 0 {
			w.sawOpWaited = true // the overlapping ApplyConfig has not returned while the Send is paused
		}
		w.mu.Unlock()
		gate.sl.mtx.Unlock()
		synctest.Wait()
		w.mu.Lock()
		w.park, w.mdl.parked = nil, nil
		for _, name := range []string{"1", "2"} {
			a := w.mdl.ams[name]
			l := a.lostN
			w.mdl.handOver(a) // the Send has returned
			if a.lostN != l {
				w.sawOverflow = true
			}
		}
		if pk.op != "" {
			w.mdl.overlapping = pk.alerts
			w.mdl.applyOp(strings.Split(pk.op, "/"))
			w.mdl.overlapping = nil
		}
		w.mu.Unlock()
		if held {
			w.m.mtx.RUnlock()
		}
	case "sd", "cfg", "stop":
		cfgIdx := 0
		if f[0] == "cfg" {
			cfgIdx = w.mdl.cfgVar ^ c46CfgMask(f[1])
			w.applyIn++
		}
		if pk := w.mdl.parked; pk != nil {
			// invoked while a Send is in progress: takes effect (in the reference) after that Send
			pk.op = op
			w.sawOpInPark = true
			if f[0] == "stop" {
				w.mdl.stopReq = true // Stop itself returns at once; no further Send is accepted
			}
		} else {
			w.mdl.applyOp(f) // model first: the stopping operation may call Do before it returns
		}
		w.mu.Unlock()
		switch f[0] {
		case "sd":
			set := f[1]
			if set == "0" {
				set = ""
			}
			w.tsets <- w.targetSet(set)
		case "cfg":
			go func() {
				if err := w.m.ApplyConfig(w.conf[cfgIdx]); err != nil {
					panic("c46: ApplyConfig: " + err.Error())
				}
				w.mu.Lock()
				w.applyIn--
				w.mu.Unlock()
			}()
		case "stop":
			w.m.Stop()
		}
	case "ok", "fail":
		var k int
		fmt.Sscan(f[2], &k)
		a := w.mdl.ams[f[1]]
		if k >= len(a.pending) {
			w.mu.Unlock()
			panic("c46: no such pending request: " + op)
		}
		rq := a.pending[k]
		w.answer(rq, f[0] == "ok")
		w.mu.Unlock()
		rq.reply <- f[0] == "ok"
	default:
		w.mu.Unlock()
		panic("c46: unknown op " + op)
	}
}

func c46Counter(c *prometheus.CounterVec, lv string) float64 {
	var d dto.Metric
	m, err := c.GetMetricWithLabelValues(lv)
	if err != nil {
		panic(err)
	}
	if err := m.Write(&d); err != nil {
		panic(err)
	}
	return d.GetCounter().GetValue()
}

func c46URL(am string) string { return "http://am" + am + ":9093/api/v2/alerts" }

// implLoops reads the real send loops (only called while Manager.mtx is free and the bubble is
// quiescent).
func (w *c46World) implLoops() map[string][]int {
	out := map[string][]int{}
	w.m.mtx.RLock()
	defer w.m.mtx.RUnlock()
	for _, ams := range w.m.alertmanagers {
		ams.mtx.RLock()
		for u, sl := range ams.sendLoops {
			q := []int{}
			sl.mtx.RLock()
			for _, a := range sl.queue {
				var n int
				fmt.Sscanf(a.Name(), "a%d", &n)
				q = append(q, n)
			}
			sl.mtx.RUnlock()
			out[u] = q
		}
		ams.mtx.RUnlock()
	}
	return out
}

// findLoop: the real send loop of an Alertmanager (only called in quiet states).
func (w *c46World) findLoop(am string) *sendLoop {
	w.m.mtx.RLock()
	defer w.m.mtx.RUnlock()
	for _, ams := range w.m.alertmanagers {
		ams.mtx.RLock()
		sl := ams.sendLoops[c46URL(am)]
		ams.mtx.RUnlock()
		if sl != nil {
			return sl
		}
	}
	return nil
}

// stateString renders model + real queues. canon=true is the de-duplication key:
//   - alert numbers are replaced by their rank among the numbers still present (queues, requests
//     in flight, highest alert received per Alertmanager): the code under test never looks at
//     alert names, the oracle only compares numbers with each other, and every future alert is
//     newer than all of them;
//   - the delivered/failed/lost counters and the alert counter are left out: they are write-only
//     (metrics) for the code under test, and the oracle compares them with the metrics in EVERY
//     state, so a later disagreement can only come from a later increment, which does not depend
//     on their absolute values.
func (w *c46World) stateString(canon bool, impl map[string][]int) string {
	ren := func(x int) int { return x }
	if canon {
		present := map[int]bool{}
		for _, a := range w.mdl.ams {
			for _, x := range a.queue {
				present[x] = true
			}
			for _, p := range a.pending {
				for _, x := range p.alerts {
					present[x] = true
				}
			}
			if a.maxReceived > 0 {
				present[a.maxReceived] = true
			}
		}
		var l []int
		for x := range present {
			l = append(l, x)
		}
		sort.Ints(l)
		rank := map[int]int{}
		for i, x := range l {
			rank[x] = i + 1
		}
		ren = func(x int) int { return rank[x] }
	}
	renl := func(l []int) []int {
		o := make([]int, len(l))
		for i, x := range l {
			o[i] = ren(x)
		}
		return o
	}
	var sb strings.Builder
	for _, name := range []string{"1", "2"} {
		a := w.mdl.ams[name]
		var ps []string
		for _, p := range a.pending {
			ps = append(ps, fmt.Sprintf("%v/drain=%v/old=%v", renl(p.alerts), p.drain, p.gen < a.gens))
		}
		fmt.Fprintf(&sb, "am%s{live=%v draining=%v gens=%d queue=%v pending=%v maxrecv=%d/%v/old=%v", name, a.live, a.draining, min(a.gens, 2), renl(a.queue), ps, ren(a.maxReceived), a.maxReceivedDrain, a.maxReceivedGen < a.gens)
		if len(a.owed) > 0 {
			fmt.Fprintf(&sb, " owed=%d", len(a.owed))
		}
		if len(a.optional) > 0 {
			var o []int
			for _, x := range a.queue {
				if a.optional[x] {
					o = append(o, x)
				}
			}
			fmt.Fprintf(&sb, " optional=%v", renl(o))
		}
		if !canon {
			fmt.Fprintf(&sb, " ok=%d fail=%d lost=%d received=%v", a.okN, a.failN, a.lostN, a.received)
		}
		sb.WriteString("} ")
	}
	fmt.Fprintf(&sb, "stop=%v cfgOther=%v", w.mdl.stopReq, w.mdl.cfgVar)
	if pk := w.mdl.parked; pk != nil {
		// the paused alerts are the newest ones of every queue they are still in
		fmt.Fprintf(&sb, " paused{before am%s, %d alerts, meanwhile %q}", pk.gate, len(pk.alerts), pk.op)
	}
	if !canon {
		fmt.Fprintf(&sb, " next=%d", w.mdl.next)
	}
	is := "busy"
	if impl != nil {
		var l []string
		for _, u := range vx.SortedKeys(impl) {
			l = append(l, fmt.Sprintf("%s=%v", u, renl(impl[u])))
		}
		is = strings.Join(l, ",")
	}
	return fmt.Sprintf("%s | impl %s applyIn=%d sendIn=%d runDone=%v nfails=%d", sb.String(), is, w.applyIn, w.sendIn, w.runDone, len(w.fails))
}

// settle: once every stopping operation has returned (Manager.mtx free, no ApplyConfig in
// progress), a draining stop must have attempted every queued alert.
func (w *c46World) settle() {
	if !w.quiet() {
		return
	}
	for _, name := range []string{"1", "2"} {
		a := w.mdl.ams[name]
		if a.draining {
			var left []int
			for _, x := range a.queue {
				if !a.optional[x] {
					left = append(left, x)
				}
			}
			if len(left) > 0 {
				w.fails = append(w.fails, vx.Failf("drain-incomplete", "am%s: DrainOnShutdown is set, the stopping operation returned, but %v were never attempted", name, left))
			}
			a.queue = nil
			a.draining = false
		}
		if !a.live && len(a.optional) > 0 {
			a.optional = map[int]bool{}
		}
	}
}

func (w *c46World) render(canon bool) string {
	w.mu.Lock()
	defer w.mu.Unlock()
	w.settle()
	var impl map[string][]int
	if w.park == nil && w.sendIn == 0 && !w.busy() {
		impl = w.implLoops()
	}
	return w.stateString(canon, impl)
}

func (w *c46World) Key() string { return w.render(true) }

func (w *c46World) Obs() string { return w.render(false) }

func (w *c46World) Check() *vx.Fail {
	w.mu.Lock()
	defer w.mu.Unlock()
	for _, s := range w.soft {
		c46SoftFound.add(s, w.name, w.hist)
	}
	soft := len(w.soft) > 0
	w.soft = nil
	w.settle()
	if len(w.fails) > 0 {
		return w.fails[0]
	}
	if w.quiet() {
		if w.mdl.stopReq && !w.runDone {
			return vx.Failf("run-did-not-return", "Stop was called, nothing is in progress, but Run has not returned")
		}
		impl := w.implLoops()
		for _, name := range []string{"1", "2"} {
			a := w.mdl.ams[name]
			q, exists := impl[c46URL(name)]
			if a.live != exists {
				return vx.Failf("send-loop-set-differs", "am%s: model live=%v, implementation has a send loop=%v (loops %v)", name, a.live, exists, vx.SortedKeys(impl))
			}
			if !a.live {
				continue
			}
			if fmt.Sprint(q) != fmt.Sprint(append([]int{}, a.queue...)) {
				return vx.Failf("queue-differs", "am%s: queued alerts %v, reference (oldest dropped on overflow, batches taken from the head) %v", name, q, a.queue)
			}
			if a.gens == 1 {
				// every loss is counted
				u := c46URL(name)
				sent, errs, dropped := c46Counter(w.m.metrics.sent, u), c46Counter(w.m.metrics.errors, u), c46Counter(w.m.metrics.dropped, u)
				if int(sent) != a.okN || int(errs) != a.failN || int(dropped) != a.failN+a.lostN {
					return vx.Failf("loss-accounting", "am%s: metrics sent=%v errors=%v dropped=%v; reference: delivered %d, failed %d, lost to overflow %d (dropped must be failed+lost)", name, sent, errs, dropped, a.okN, a.failN, a.lostN)
				}
			}
		}
		if len(impl) > 2 {
			return vx.Failf("send-loop-set-differs", "unexpected send loops %v", vx.SortedKeys(impl))
		}
	}
	if w.r != nil {
		out := fmt.Sprintf("%v|%v|%v", w.mdl.ams["1"].received, w.mdl.ams["2"].received, w.mdl.ams["1"].lostN+w.mdl.ams["2"].lostN)
		if w.r.Distinct("distinct_outcomes", out) {
			w.r.Count("outcome_kinds", 1)
		}
		if w.sawOverflow {
			w.r.Count("histories_with_queue_overflow", 1)
		}
		if w.sawOverlap {
			w.r.Count("histories_with_two_requests_in_flight_to_one_alertmanager", 1)
		}
		if soft {
			w.r.Count("histories_with_swapped_reception", 1)
		}
		if w.sawPark {
			w.r.Count("histories_with_paused_send", 1)
		}
		if w.sawOpInPark {
			w.r.Count("histories_with_operation_invoked_during_paused_send", 1)
		}
		if w.sawOpWaited {
			w.r.Count("histories_where_applyconfig_waited_for_paused_send", 1)
		}
	}
	return nil
}

func (w *c46World) Close() {
	// release everything: fail pending requests until nothing is in flight, stop, repeat
	w.mu.Lock()
	if w.park != nil {
		sl := w.park.sl
		w.park, w.mdl.parked = nil, nil
		w.mu.Unlock()
		sl.mtx.Unlock()
		synctest.Wait()
	} else {
		w.mu.Unlock()
	}
	for i := 0; i < 64; i++ {
		w.mu.Lock()
		var ps []*c46Req
		for _, a := range w.mdl.ams {
			ps = append(ps, a.pending...)
			a.pending = nil
		}
		done := w.runDone && w.applyIn == 0 && w.sendIn == 0
		w.mu.Unlock()
		for _, p := range ps {
			p.reply <- false
		}
		if len(ps) == 0 {
			if done {
				// Send loops that Run's shutdown did not stop (only possible when the code under test
				// lost track of them, which the oracle has reported as send-loop-set-differs) would
				// keep the bubble alive: stop the reachable ones so that the verdict can be delivered.
				left := false
				for _, ams := range w.m.alertmanagers {
					for u, sl := range ams.sendLoops {
						left = true
						delete(ams.sendLoops, u)
						go sl.stop()
					}
				}
				if !left {
					return
				}
			}
			w.m.Stop()
		}
		synctest.Wait()
	}
	panic("c46: could not shut the world down")
}

// ---------------------------------------------------------------------------
// the check
// ---------------------------------------------------------------------------

// c46SoftSet collects the soft (known-finding class) violations found by the workers and keeps,
// per signature, the smallest history (shortest, then lexicographically first, then plan name), so
// that the reported replay does not depend on worker timing.
type c46SoftSet struct {
	mu   sync.Mutex
	best map[string]c46SoftHit
	n    map[string]int
}

type c46SoftHit struct {
	msg, config string
	ops         []string
}

var c46SoftFound = &c46SoftSet{best: map[string]c46SoftHit{}, n: map[string]int{}}

func (c *c46SoftSet) add(f *vx.Fail, config string, hist []string) {
	c.mu.Lock()
	defer c.mu.Unlock()
	c.n[f.Signature]++
	h := c46SoftHit{f.Message, config, append([]string{}, hist...)}
	old, ok := c.best[f.Signature]
	less := func(a, b c46SoftHit) bool {
		if len(a.ops) != len(b.ops) {
			return len(a.ops) < len(b.ops)
		}
		if x, y := strings.Join(a.ops, " "), strings.Join(b.ops, " "); x != y {
			return x < y
		}
		return a.config < b.config
	}
	if !ok || less(h, old) {
		c.best[f.Signature] = h
	}
}

func (c *c46SoftSet) report(r *vx.Run) {
	c.mu.Lock()
	defer c.mu.Unlock()
	for _, sig := range vx.SortedKeys(c.best) {
		h := c.best[sig]
		r.Violation(sig, h.msg, map[string]any{"config": h.config, "ops": h.ops})
		r.Count("soft:"+sig, c.n[sig])
	}
}

// c46Sabotaged drops the overflow rule from the reference (self-test only).
type c46Sabotaged struct{ *c46World }

func (s *c46Sabotaged) Apply(op string) {
	if op == "send/3" {
		s.mdl.plan.Q = 99
		defer func() { s.mdl.plan.Q = s.plan.Q }()
	}
	s.c46World.Apply(op)
}

// c46SabotagedPark forgets that a Send in progress still owes its alerts to the Alertmanagers it
// has not reached yet when an operation overlaps with it (self-test only).
type c46SabotagedPark struct{ *c46World }

func (s *c46SabotagedPark) Apply(op string) {
	if op == "resume" {
		s.mu.Lock()
		if pk := s.mdl.parked; pk != nil && pk.op != "" {
			for _, a := range s.mdl.ams {
				a.owed = nil
			}
		}
		s.mu.Unlock()
	}
	s.c46World.Apply(op)
}

func c46SelfTest(t *testing.T, r *vx.Run, eng *evloop.Engine) {
	// a fixed history with overflow, failure, two Alertmanagers; the oracle must accept it ...
	ops := []string{"sd/12", "send/1", "send/3", "ok/1/0", "fail/2/0", "send/d", "ok/1/0"} // (am1 is already in the set initially)
	if f := eng.Replay(func() evloop.World { return c46NewWorld(nil, "q2b1-nodrain") }, ops); f != nil {
		r.Violation(f.Signature, f.Message, map[string]any{"config": "q2b1-nodrain", "ops": ops})
		return
	}
	// ... and must complain when the reference forgets that overflow drops the oldest alerts
	if f := eng.Replay(func() evloop.World { return &c46Sabotaged{c46NewWorld(nil, "q2b1-nodrain")} }, ops); f == nil {
		t.Fatalf("self-test: oracle accepted a reference without queue overflow")
	}
	// the notifier package must be built with synctest-visible lock waits (spec: flavour sched,
	// rewrite_pkgs notifier): a paused Send and an operation waiting for it block on mutexes
	var mgr Manager
	if _, ok := any(&mgr.mtx).(*vsync.RWMutex); !ok {
		t.Fatalf("self-test: notifier.Manager.mtx is %T, not the bubble-aware vsync.RWMutex (check spec flavour/rewrite_pkgs)", &mgr.mtx)
	}
	// a Send paused before am1's loop, overlapped by an ApplyConfig that changes config-0 and keeps
	// config-1, then resumed: accepted on a correct notifier, and ...
	pops := []string{"psend/1/1", "cfg/os", "resume"}
	if f := eng.Replay(func() evloop.World { return c46NewWorld(nil, "k2park-q2b1-nodrain") }, pops); f != nil {
		// not reported from here: this history is inside the explored space of every tier, the
		// exploration reports it (with the shortest history of its signature)
		t.Logf("self-test: history %v is rejected on this tree (%s); sabotage test skipped", pops, f.Signature)
	} else if f := eng.Replay(func() evloop.World { return &c46SabotagedPark{c46NewWorld(nil, "k2park-q2b1-nodrain")} }, pops); f == nil {
		// ... the oracle must complain when the reference drops the alerts of the overlapped Send
		t.Fatalf("self-test: oracle accepted a reference that loses the alerts of a Send overlapped by ApplyConfig")
	}
	// model: overflow drops oldest
	m := c46NewModel(c46Plan{2, 1, true, 1, false})
	m.setAMs("1")
	m.offer([]int{1}, false)
	m.offer([]int{2, 3, 4}, false)
	if a := m.ams["1"]; fmt.Sprint(a.queue) != "[3 4]" || a.lostN != 2 {
		t.Fatalf("self-test: model overflow wrong: %v lost %d", a.queue, a.lostN)
	}
}

func TestVerifC46(t *testing.T) {
	r := vx.Start(t, "C46", "model_checking")
	defer r.Finish()
	vsync.BubbleMode.Store(true)
	eng := &evloop.Engine{T: t, GuardFirst: 50}
	if r.Replay != "" {
		var rp struct {
			Config string   `json:"config"`
			Ops    []string `json:"ops"`
		}
		r.LoadReplay(&rp)
		if f := eng.Replay(func() evloop.World { return c46NewWorld(r, rp.Config) }, rp.Ops); f != nil {
			r.Violation(f.Signature, f.Message, rp)
		}
		c46SoftFound.report(r)
		return
	}
	c46SelfTest(t, r, &evloop.Engine{T: t})
	type plan struct {
		name  string
		depth int
	}
	plans := vx.Pick(r,
		[]plan{{"k2park-q2b1-nodrain", 4}, {"k2park-q2b1-drain", 4}, {"q2b1-drain", 6}, {"q2b1-nodrain", 6}},
		[]plan{{"k2park-q2b1-nodrain", 6}, {"k2park-q2b1-drain", 6}, {"k1park-q2b1-drain", 6}, {"k1park-q3b2-nodrain", 6}, {"q2b1-nodrain", 8}, {"q3b2-drain", 7}, {"q3b2-nodrain", 7}, {"q1b1-drain", 7}, {"q2b1-drain", 9}})
	if v := os.Getenv("VERIF_C46_PLAN"); v != "" { // experiments only, e.g. "q2b1-drain:6"
		plans = nil
		for _, p := range strings.Split(v, ",") {
			var pl plan
			q := strings.Split(p, ":")
			pl.name = q[0]
			fmt.Sscan(q[1], &pl.depth)
			plans = append(plans, pl)
		}
	}
	depths := map[string]int{}
	for _, p := range plans {
		if r.Expired() {
			r.NotExhaustive("deadline before plan " + p.name)
			break
		}
		name := p.name
		res := r.BFS(name, func() vx.Sys { return eng.Sys(func() evloop.World { return c46NewWorld(r, name) }) }, p.depth)
		depths[name] = p.depth
		t.Logf("C46 %s depth %d: states=%d transitions=%d depthCompleted=%d", name, p.depth, res.States, res.Transitions, res.DepthCompleted)
	}
	c46SoftFound.report(r)
	if d := eng.Diverged(); len(d) > 0 {
		t.Fatalf("determinism guard: %d of %d twice-executed histories diverged, e.g. %s", len(d), eng.Guarded(), d[0])
	}
	if eng.Guarded() < 50 && eng.Checked() >= 50 {
		t.Fatalf("determinism guard ran on %d histories only", eng.Guarded())
	}
	r.Count("histories_executed_twice", int(eng.Guarded()))
	r.Count("evaluations", int(eng.Checked()))
	r.Set("depth", depths)
	var pn []string
	for _, p := range plans {
		pn = append(pn, fmt.Sprintf("%s(queue %d, batch %d, drain %v)", p.name, c46Plans[p.name].Q, c46Plans[p.name].B, c46Plans[p.name].Drain))
	}
	sort.Strings(pn)
	r.Set("alphabet", map[string]any{"plans": pn, "events": []string{"send/1", "send/3", "send/d", "sd/1", "sd/12", "sd/2", "sd/0", "cfg/same", "cfg/other", "cfg/<s|o><s|o> (two Alertmanager configs)", "stop", "ok/<am>/<k<2>", "fail/<am>/<k<2>", "psend/<1|3>/<am> (Send paused before the send loop of a live Alertmanager; park plans)", "resume"}})
	r.Set("rule", "every ordering of <= depth events (Send of 1 / 3 / relabel-filtered alerts, Alertmanager set change by discovery update or ApplyConfig, fake Alertmanager processes or fails its oldest or second-oldest pending request, Stop; in the park plans also: Send split into psend (paused inside the notifier before it hands the alerts to the send loop of a chosen Alertmanager) and resume, with one ApplyConfig / non-adding discovery update / Stop and answers of the other Alertmanager enumerated in between) on a fresh real notifier.Manager in a synctest bubble, de-duplicated on (per Alertmanager: loop live/draining, queue, requests in flight, delivered/failed/lost counts, highest alert received; stop requested; config; real queues); oracle after every transition: batches <= max and equal to the oldest queued alerts, received sequence in send order, real queue == reference queue (oldest dropped on overflow), sent/errors/dropped metrics == delivered/failed/failed+lost, with draining nothing left unattempted when the stopping operation has returned")
	r.Assume("between two quiescent points the order of runnable goroutines, select tie-breaks and map iteration are the Go runtime's; each event is injected only when every goroutine is durably blocked; events needing Manager.mtx are not injected while a drain holds it (they would simply wait)")
	r.Assume("a fake Alertmanager receives a batch when it processes the request; two requests in flight to the same Alertmanager may be processed in either order (as concurrent HTTP requests can be)")
	r.Assume("park plans: the notifier package is built with the vsync lock shims in bubble mode (a goroutine waiting for a notifier mutex is durably blocked for synctest) and the deterministic-runtime overlay (fixed map iteration / select order); the pause point is the mutex of a send loop held by the harness; an operation invoked while a Send is paused takes effect, in the reference, after that Send (for an Alertmanager it stops, the paused alerts need not be attempted by the drain); on resume an operation that had to wait for Manager.mtx is released only after the resumed Send has quiesced; operations that would ADD an Alertmanager while a Send is paused, a second paused Send, and answers of the gated Alertmanager while paused are not explored")
	r.Assume("loss counters are compared with the metrics only for the first send loop of an Alertmanager URL (stop() deletes the label values, so the count of alerts dropped by a non-draining stop is not observable)")
	if r.Violations() == 0 && (r.Get("outcome_kinds") < 2 || r.Get("histories_with_queue_overflow") == 0) {
		t.Fatalf("vacuous run: %d distinct outcomes, %d histories with overflow", r.Get("outcome_kinds"), r.Get("histories_with_queue_overflow"))
	}
	parkPlans := false
	for _, p := range plans {
		parkPlans = parkPlans || c46Plans[p.name].Park
	}
	if r.Violations() == 0 && parkPlans && r.Get("histories_with_operation_invoked_during_paused_send") == 0 {
		t.Fatalf("vacuous run: no history in which an operation overlapped with a paused Send")
	}
}
