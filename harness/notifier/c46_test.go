package notifier

// C46: the notifier drops only the oldest alerts and preserves order.
//
// Engine E5 (evloop): the REAL notifier.Manager (NewManager, ApplyConfig, Run with its target
// update loop, alertmanagerSet.sync/send, one sendLoop goroutine per Alertmanager, stop with and
// without DrainOnShutdown) runs inside a synctest bubble with a small queue capacity and batch
// size. Options.Do is a fake whose completions are explorer events. The explorer (vx.BFS,
// canonical-state de-duplication) enumerates every ordering of <= depth external events:
//   send/<k>        Manager.Send of a batch of fresh alerts (1, 3 = larger than the queue, "d" =
//                   one alert removed by global alert relabeling + one by the Alertmanager
//                   config's alert relabeling + one surviving)
//   sd/<set>        a target-group update through Run's channel changes the Alertmanager set
//   cfg/same|other  Manager.ApplyConfig with an identical / a different Alertmanager config
//   ok|fail/<am>/<k>  the fake Alertmanager <am> processes its k-th oldest pending request
//                   successfully / the request fails
//   stop            Manager.Stop (Run then stops every send loop, draining if configured)
// The fake Alertmanager RECEIVES a batch when it processes the request (ok event): two requests
// that are in flight to the same Alertmanager at the same time can be processed in either order,
// as with real concurrent HTTP requests.

import (
	"context"
	"encoding/json"
	"fmt"
	"io"
	"net/http"
	"os"
	"runtime"
	"sort"
	"strings"
	"sync"
	"testing"
	"testing/synctest"

	"github.com/prometheus/client_golang/prometheus"
	dto "github.com/prometheus/client_model/go"
	"github.com/prometheus/common/model"

	"github.com/prometheus/prometheus/config"
	"github.com/prometheus/prometheus/discovery/targetgroup"
	"github.com/prometheus/prometheus/internal/verif/evloop"
	"github.com/prometheus/prometheus/internal/verif/vx"
	"github.com/prometheus/prometheus/model/labels"
)

const c46ConfigYAML = `
alerting:
  alert_relabel_configs:
  - source_labels: [sev]
    regex: drop
    action: drop
  alertmanagers:
  - timeout: %s
    alert_relabel_configs:
    - source_labels: [sev]
      regex: amdrop
      action: drop
`

type c46Plan struct {
	Q, B  int
	Drain bool
}

var c46Plans = map[string]c46Plan{
	"q2b1-drain":   {2, 1, true},
	"q2b1-nodrain": {2, 1, false},
	"q3b2-drain":   {3, 2, true},
	"q3b2-nodrain": {3, 2, false},
	"q1b1-drain":   {1, 1, true},
}

// ---------------------------------------------------------------------------
// reference model (from the statement), per Alertmanager
// ---------------------------------------------------------------------------

type c46Req struct {
	am     string
	alerts []int // alert numbers, in payload order
	drain  bool  // issued by stop()'s drain (sendLoop.drainQueue on the call stack), not by the send loop
	gen    int   // which send loop of this Alertmanager URL issued it (1 = first)
	reply  chan bool
}

type c46AM struct {
	live     bool // a send loop should exist and receive new alerts
	draining bool // loop stopped with DrainOnShutdown; the stopping operation must attempt all of queue
	gens     int  // number of send loops this URL has had
	queue    []int
	pending  []*c46Req // requests in flight, arrival order
	// accounting for the current loop (only compared with the metrics while gens == 1)
	okN, failN, lostN int
	maxReceived       int // highest alert number received so far
	maxReceivedDrain  bool // ... and whether it arrived in a request issued by stop()'s drain
	maxReceivedGen    int  // ... and the send loop generation that issued that request
	received          []int
	offered           map[int]bool // every alert ever offered to a loop of this Alertmanager
	requested         map[int]bool // every alert that appeared in a request
}

type c46Model struct {
	plan     c46Plan
	ams      map[string]*c46AM
	stopReq  bool
	cfgOther bool
	next     int // next alert number
}

func c46NewModel(p c46Plan) *c46Model {
	m := &c46Model{plan: p, ams: map[string]*c46AM{}}
	for _, a := range []string{"1", "2"} {
		m.ams[a] = &c46AM{offered: map[int]bool{}, requested: map[int]bool{}}
	}
	return m
}

// offer: the surviving alerts of one Send, in order. Queue overflow loses the OLDEST alerts.
func (m *c46Model) offer(alerts []int) {
	if m.stopReq {
		return
	}
	for _, a := range m.ams {
		if !a.live {
			continue
		}
		for _, x := range alerts {
			a.offered[x] = true
		}
		all := append(append([]int{}, a.queue...), alerts...)
		if d := len(all) - m.plan.Q; d > 0 {
			a.lostN += d
			all = all[d:]
		}
		a.queue = all
	}
}

// stopLoop: the Alertmanager leaves the set or the notifier stops.
func (m *c46Model) stopLoop(a *c46AM) {
	if !a.live {
		return
	}
	a.live = false
	if m.plan.Drain {
		a.draining = true // every queued alert must be attempted before the stopping operation returns
	} else {
		a.queue = nil // lost: stopped without draining
	}
}

func (m *c46Model) setAMs(set string) {
	for name, a := range m.ams {
		in := strings.Contains(set, name)
		switch {
		case in && !a.live:
			if a.draining {
				panic("c46: Alertmanager re-added while its old loop is still draining")
			}
			a.live = true
			a.gens++
			a.okN, a.failN, a.lostN = 0, 0, 0
		case !in && a.live:
			m.stopLoop(a)
		}
	}
}

// ---------------------------------------------------------------------------
// the world
// ---------------------------------------------------------------------------

type c46World struct {
	r    *vx.Run
	name string
	plan c46Plan
	m    *Manager
	reg  *prometheus.Registry
	conf [2]*config.Config

	tsets   chan map[string][]*targetgroup.Group
	runDone bool
	applyIn int // ApplyConfig calls that have not returned

	mu    sync.Mutex
	mdl   *c46Model
	fails []*vx.Fail // oracle failures detected when a request arrives / is answered
	soft  []*vx.Fail // known-finding class: reported, exploration continues
	hist  []string
	// coverage features
	sawOverflow, sawOverlap bool
}

// The two configurations are parsed once and shared read-only by all worlds (ApplyConfig only
// writes a relabel config's NameValidationScheme when it is unset; it is set here).
var (
	c46ConfOnce sync.Once
	c46Conf     [2]*config.Config
)

func c46LoadConfig(timeout string) *config.Config {
	c, err := config.Load(fmt.Sprintf(c46ConfigYAML, timeout), nil)
	if err != nil {
		panic("c46: config: " + err.Error())
	}
	for _, rc := range c.AlertingConfig.AlertRelabelConfigs {
		switch rc.NameValidationScheme {
		case model.LegacyValidation, model.UTF8Validation:
		default:
			rc.NameValidationScheme = model.UTF8Validation
		}
	}
	if c.GlobalConfig.MetricNameValidationScheme != model.UTF8Validation {
		panic("c46: unexpected default validation scheme")
	}
	return c
}

func c46Configs() [2]*config.Config {
	c46ConfOnce.Do(func() { c46Conf[0], c46Conf[1] = c46LoadConfig("10s"), c46LoadConfig("11s") })
	return c46Conf
}

func c46NewWorld(r *vx.Run, name string) *c46World {
	p, ok := c46Plans[name]
	if !ok {
		panic("c46: unknown plan " + name)
	}
	w := &c46World{r: r, name: name, plan: p, mdl: c46NewModel(p), tsets: make(chan map[string][]*targetgroup.Group)}
	w.reg = prometheus.NewRegistry()
	w.conf = c46Configs()
	w.m = NewManager(&Options{QueueCapacity: p.Q, MaxBatchSize: p.B, DrainOnShutdown: p.Drain, Do: w.do, Registerer: w.reg}, model.UTF8Validation, nil)
	if err := w.m.ApplyConfig(w.conf[0]); err != nil {
		panic("c46: ApplyConfig: " + err.Error())
	}
	go func() {
		w.m.Run(w.tsets)
		w.mu.Lock()
		w.runDone = true
		w.mu.Unlock()
	}()
	// initial state: Alertmanager am1 discovered (saves one event of depth in every history)
	w.mdl.setAMs("1")
	w.tsets <- c46TargetSet("1")
	return w
}

func c46TargetSet(set string) map[string][]*targetgroup.Group {
	tg := &targetgroup.Group{Source: "sd"}
	for _, c := range set {
		tg.Targets = append(tg.Targets, model.LabelSet{model.AddressLabel: model.LabelValue(fmt.Sprintf("am%c:9093", c))})
	}
	return map[string][]*targetgroup.Group{"config-0": {tg}}
}

// do is Options.Do: the request stays in flight until an ok/fail event answers it.
func (w *c46World) do(ctx context.Context, _ *http.Client, req *http.Request) (*http.Response, error) {
	body, err := io.ReadAll(req.Body)
	if err != nil {
		panic(err)
	}
	var payload []struct {
		Labels map[string]string `json:"labels"`
	}
	if err := json.Unmarshal(body, &payload); err != nil {
		panic("c46: payload: " + err.Error())
	}
	rq := &c46Req{am: strings.TrimPrefix(strings.Split(req.URL.Host, ":")[0], "am"), reply: make(chan bool)}
	for _, a := range payload {
		var n int
		fmt.Sscanf(a.Labels["alertname"], "a%d", &n)
		rq.alerts = append(rq.alerts, n)
	}
	rq.drain = c46CalledFromDrain()
	w.arrive(rq)
	select {
	case ok := <-rq.reply:
		if !ok {
			return nil, fmt.Errorf("c46: injected delivery failure")
		}
		return &http.Response{StatusCode: 200, Status: "200 OK", Body: io.NopCloser(strings.NewReader(""))}, nil
	case <-ctx.Done():
		panic("c46: request context ended; the fake clock must not advance")
	}
}

// c46CalledFromDrain reports whether the current goroutine is inside sendLoop.drainQueue, i.e.
// the request is issued by stop()'s drain in stop()'s caller and not by the send loop. (Only used
// to give the known reordering its narrow signature; when several Alertmanagers are stopped one
// after the other the model cannot tell from the event alone which of them is already draining.)
func c46CalledFromDrain() bool {
	pc := make([]uintptr, 32)
	n := runtime.Callers(2, pc)
	frames := runtime.CallersFrames(pc[:n])
	for {
		fr, more := frames.Next()
		if strings.HasSuffix(fr.Function, "(*sendLoop).drainQueue") {
			return true
		}
		if !more {
			return false
		}
	}
}

// arrive: model side of a request reaching the fake Alertmanager.
func (w *c46World) arrive(rq *c46Req) {
	w.mu.Lock()
	defer w.mu.Unlock()
	a := w.mdl.ams[rq.am]
	if a == nil {
		w.fails = append(w.fails, vx.Failf("request-to-unknown-alertmanager", "request to %q", rq.am))
		return
	}
	rq.gen = a.gens
	if len(a.pending) > 0 {
		w.sawOverlap = true
	}
	a.pending = append(a.pending, rq)
	switch {
	case len(rq.alerts) == 0:
		w.fails = append(w.fails, vx.Failf("empty-request", "am%s received a request without alerts", rq.am))
	case len(rq.alerts) > w.plan.B:
		w.fails = append(w.fails, vx.Failf("batch-larger-than-max", "am%s: request carries %v, max batch size is %d", rq.am, rq.alerts, w.plan.B))
	}
	if !a.live && !a.draining {
		w.fails = append(w.fails, vx.Failf("request-from-stopped-loop", "am%s: request %v although its send loop is stopped and nothing is to be drained", rq.am, rq.alerts))
	}
	// the batch must be the oldest queued alerts, in order: anything else skips, repeats or reorders
	n := len(rq.alerts)
	if n > len(a.queue) || fmt.Sprint(a.queue[:n]) != fmt.Sprint(rq.alerts) {
		w.fails = append(w.fails, vx.Failf("batch-not-oldest-queued", "am%s: request carries %v, the queue of surviving alerts is %v", rq.am, rq.alerts, a.queue))
		for _, x := range rq.alerts {
			a.requested[x] = true
		}
		return
	}
	a.queue = a.queue[n:]
	for _, x := range rq.alerts {
		if a.requested[x] {
			w.fails = append(w.fails, vx.Failf("alert-sent-twice", "am%s: alert a%d requested twice", rq.am, x))
		}
		a.requested[x] = true
	}
}

// answer: model side of the fake Alertmanager processing a request.
func (w *c46World) answer(rq *c46Req, ok bool) {
	a := w.mdl.ams[rq.am]
	for i, p := range a.pending {
		if p == rq {
			a.pending = append(a.pending[:i:i], a.pending[i+1:]...)
		}
	}
	if !ok {
		a.failN += len(rq.alerts)
		return
	}
	a.okN += len(rq.alerts)
	for _, x := range rq.alerts {
		if !a.offered[x] {
			w.fails = append(w.fails, vx.Failf("received-alert-never-offered", "am%s received a%d which was never sent to it after relabeling", rq.am, x))
		}
		if x <= a.maxReceived {
			// the received sequence is no longer an in-order subsequence of the sent alerts
			f := vx.Failf("received-out-of-order", "am%s received %v and now %v: not in the order the alerts were sent (history %v)", rq.am, a.received, rq.alerts, w.hist)
			switch {
			case rq.gen < a.maxReceivedGen:
				// narrow class 1: the Alertmanager left the set while its send loop had a request in
				// flight, came back (new send loop), and a request of the NEW loop was processed
				// before the old loop's request.
				f.Signature = "readded-alertmanager-request-overtakes-inflight-request-of-stopped-loop"
				w.soft = append(w.soft, f)
			case w.plan.Drain && rq.gen == a.maxReceivedGen && !rq.drain && a.maxReceivedDrain:
				// narrow class 2: this request was issued by the send loop and was still in flight
				// when stop() began draining the queue from its caller; a drained (newer) batch of
				// the same loop was processed by the Alertmanager first.
				f.Signature = "drain-request-overtakes-inflight-loop-request"
				w.soft = append(w.soft, f)
			default:
				w.fails = append(w.fails, f)
			}
		} else {
			a.maxReceived, a.maxReceivedDrain, a.maxReceivedGen = x, rq.drain, rq.gen
		}
		a.received = append(a.received, x)
	}
}

func (w *c46World) busy() bool {
	if w.m.mtx.TryLock() {
		w.m.mtx.Unlock()
		return false
	}
	return true
}

func (w *c46World) Ops() []string {
	w.mu.Lock()
	defer w.mu.Unlock()
	var ops []string
	// Everything that needs Manager.mtx is only injected while the lock is free: a goroutine
	// blocked on a mutex is not durably blocked, the bubble could never become quiescent. (While
	// the lock is held, its holder is blocked in Do inside a drain; the real callers would simply
	// wait, which is the same as being ordered after the drain.)
	if !w.busy() && w.applyIn == 0 {
		if !w.mdl.stopReq {
			ops = append(ops, "send/1", "send/3", "send/d", "sd/1", "sd/12", "sd/2", "sd/0", "cfg/same", "cfg/other", "stop")
		} else {
			ops = append(ops, "send/1")
		}
	}
	for _, name := range []string{"1", "2"} {
		for k := range w.mdl.ams[name].pending {
			if k < 2 {
				ops = append(ops, fmt.Sprintf("ok/%s/%d", name, k), fmt.Sprintf("fail/%s/%d", name, k))
			}
		}
	}
	return ops
}

func (w *c46World) newAlert(sev string) (*Alert, int) {
	w.mdl.next++
	n := w.mdl.next
	ls := []string{labels.AlertName, fmt.Sprintf("a%d", n)}
	if sev != "" {
		ls = append(ls, "sev", sev)
	}
	return &Alert{Labels: labels.FromStrings(ls...)}, n
}

func (w *c46World) Apply(op string) {
	w.mu.Lock()
	w.hist = append(w.hist, op)
	w.soft = nil
	f := strings.Split(op, "/")
	switch f[0] {
	case "send":
		var alerts []*Alert
		var surviving []int
		add := func(sev string) {
			a, n := w.newAlert(sev)
			alerts = append(alerts, a)
			if sev == "" {
				surviving = append(surviving, n)
			}
		}
		switch f[1] {
		case "1":
			add("")
		case "3":
			add("")
			add("")
			add("")
		case "d":
			add("drop")
			add("amdrop")
			add("")
		}
		before := 0
		for _, a := range w.mdl.ams {
			before += a.lostN
		}
		w.mdl.offer(surviving) // model first: the loops may call Do before Send returns
		for _, a := range w.mdl.ams {
			before -= a.lostN
		}
		if before != 0 {
			w.sawOverflow = true
		}
		w.mu.Unlock()
		w.m.Send(alerts...)
	case "sd":
		set := f[1]
		if set == "0" {
			set = ""
		}
		w.mdl.setAMs(set)
		w.mu.Unlock()
		w.tsets <- c46TargetSet(set)
	case "cfg":
		i := 0
		if w.mdl.cfgOther != (f[1] == "other") {
			i = 1
		}
		if f[1] == "other" {
			// a different Alertmanager config: the old set's loops are stopped, the new set has no
			// Alertmanagers until the next discovery update
			w.mdl.cfgOther = !w.mdl.cfgOther
			w.mdl.setAMs("")
		}
		w.applyIn++
		w.mu.Unlock()
		go func() {
			if err := w.m.ApplyConfig(w.conf[i]); err != nil {
				panic("c46: ApplyConfig: " + err.Error())
			}
			w.mu.Lock()
			w.applyIn--
			w.mu.Unlock()
		}()
	case "ok", "fail":
		var k int
		fmt.Sscan(f[2], &k)
		a := w.mdl.ams[f[1]]
		if k >= len(a.pending) {
			panic("c46: no such pending request: " + op)
		}
		rq := a.pending[k]
		w.answer(rq, f[0] == "ok")
		w.mu.Unlock()
		rq.reply <- f[0] == "ok"
	case "stop":
		w.mdl.stopReq = true
		for _, a := range w.mdl.ams {
			w.mdl.stopLoop(a)
		}
		w.mu.Unlock()
		w.m.Stop()
	default:
		w.mu.Unlock()
		panic("c46: unknown op " + op)
	}
}

func c46Counter(c *prometheus.CounterVec, lv string) float64 {
	var d dto.Metric
	m, err := c.GetMetricWithLabelValues(lv)
	if err != nil {
		panic(err)
	}
	if err := m.Write(&d); err != nil {
		panic(err)
	}
	return d.GetCounter().GetValue()
}

func c46URL(am string) string { return "http://am" + am + ":9093/api/v2/alerts" }

// implLoops reads the real send loops (only called while Manager.mtx is free and the bubble is
// quiescent).
func (w *c46World) implLoops() map[string][]int {
	out := map[string][]int{}
	w.m.mtx.RLock()
	defer w.m.mtx.RUnlock()
	for _, ams := range w.m.alertmanagers {
		ams.mtx.RLock()
		for u, sl := range ams.sendLoops {
			q := []int{}
			sl.mtx.RLock()
			for _, a := range sl.queue {
				var n int
				fmt.Sscanf(a.Name(), "a%d", &n)
				q = append(q, n)
			}
			sl.mtx.RUnlock()
			out[u] = q
		}
		ams.mtx.RUnlock()
	}
	return out
}

// stateString renders model + real queues. canon=true is the de-duplication key:
//   - alert numbers are replaced by their rank among the numbers still present (queues, requests
//     in flight, highest alert received per Alertmanager): the code under test never looks at
//     alert names, the oracle only compares numbers with each other, and every future alert is
//     newer than all of them;
//   - the delivered/failed/lost counters and the alert counter are left out: they are write-only
//     (metrics) for the code under test, and the oracle compares them with the metrics in EVERY
//     state, so a later disagreement can only come from a later increment, which does not depend
//     on their absolute values.
func (w *c46World) stateString(canon bool, impl map[string][]int) string {
	ren := func(x int) int { return x }
	if canon {
		present := map[int]bool{}
		for _, a := range w.mdl.ams {
			for _, x := range a.queue {
				present[x] = true
			}
			for _, p := range a.pending {
				for _, x := range p.alerts {
					present[x] = true
				}
			}
			if a.maxReceived > 0 {
				present[a.maxReceived] = true
			}
		}
		var l []int
		for x := range present {
			l = append(l, x)
		}
		sort.Ints(l)
		rank := map[int]int{}
		for i, x := range l {
			rank[x] = i + 1
		}
		ren = func(x int) int { return rank[x] }
	}
	renl := func(l []int) []int {
		o := make([]int, len(l))
		for i, x := range l {
			o[i] = ren(x)
		}
		return o
	}
	var sb strings.Builder
	for _, name := range []string{"1", "2"} {
		a := w.mdl.ams[name]
		var ps []string
		for _, p := range a.pending {
			ps = append(ps, fmt.Sprintf("%v/drain=%v/old=%v", renl(p.alerts), p.drain, p.gen < a.gens))
		}
		fmt.Fprintf(&sb, "am%s{live=%v draining=%v gens=%d queue=%v pending=%v maxrecv=%d/%v/old=%v", name, a.live, a.draining, min(a.gens, 2), renl(a.queue), ps, ren(a.maxReceived), a.maxReceivedDrain, a.maxReceivedGen < a.gens)
		if !canon {
			fmt.Fprintf(&sb, " ok=%d fail=%d lost=%d received=%v", a.okN, a.failN, a.lostN, a.received)
		}
		sb.WriteString("} ")
	}
	fmt.Fprintf(&sb, "stop=%v cfgOther=%v", w.mdl.stopReq, w.mdl.cfgOther)
	if !canon {
		fmt.Fprintf(&sb, " next=%d", w.mdl.next)
	}
	is := "busy"
	if impl != nil {
		var l []string
		for _, u := range vx.SortedKeys(impl) {
			l = append(l, fmt.Sprintf("%s=%v", u, renl(impl[u])))
		}
		is = strings.Join(l, ",")
	}
	return fmt.Sprintf("%s | impl %s applyIn=%d runDone=%v nfails=%d", sb.String(), is, w.applyIn, w.runDone, len(w.fails))
}

// settle: once every stopping operation has returned (Manager.mtx free, no ApplyConfig in
// progress), a draining stop must have attempted every queued alert.
func (w *c46World) settle() {
	if w.busy() || w.applyIn != 0 {
		return
	}
	for _, name := range []string{"1", "2"} {
		a := w.mdl.ams[name]
		if a.draining {
			if len(a.queue) > 0 {
				w.fails = append(w.fails, vx.Failf("drain-incomplete", "am%s: DrainOnShutdown is set, the stopping operation returned, but %v were never attempted", name, a.queue))
				a.queue = nil
			}
			a.draining = false
		}
	}
}

func (w *c46World) render(canon bool) string {
	w.mu.Lock()
	defer w.mu.Unlock()
	w.settle()
	var impl map[string][]int
	if !w.busy() {
		impl = w.implLoops()
	}
	return w.stateString(canon, impl)
}

func (w *c46World) Key() string { return w.render(true) }

func (w *c46World) Obs() string { return w.render(false) }

func (w *c46World) Check() *vx.Fail {
	w.mu.Lock()
	defer w.mu.Unlock()
	for _, s := range w.soft {
		c46SoftFound.add(s, w.name, w.hist)
	}
	soft := len(w.soft) > 0
	w.soft = nil
	w.settle()
	if len(w.fails) > 0 {
		return w.fails[0]
	}
	busy := w.busy()
	if !busy && w.applyIn == 0 {
		if w.mdl.stopReq && !w.runDone {
			return vx.Failf("run-did-not-return", "Stop was called, nothing is in progress, but Run has not returned")
		}
		impl := w.implLoops()
		for _, name := range []string{"1", "2"} {
			a := w.mdl.ams[name]
			q, exists := impl[c46URL(name)]
			if a.live != exists {
				return vx.Failf("send-loop-set-differs", "am%s: model live=%v, implementation has a send loop=%v (loops %v)", name, a.live, exists, vx.SortedKeys(impl))
			}
			if !a.live {
				continue
			}
			if fmt.Sprint(q) != fmt.Sprint(append([]int{}, a.queue...)) {
				return vx.Failf("queue-differs", "am%s: queued alerts %v, reference (oldest dropped on overflow, batches taken from the head) %v", name, q, a.queue)
			}
			if a.gens == 1 {
				// every loss is counted
				u := c46URL(name)
				sent, errs, dropped := c46Counter(w.m.metrics.sent, u), c46Counter(w.m.metrics.errors, u), c46Counter(w.m.metrics.dropped, u)
				if int(sent) != a.okN || int(errs) != a.failN || int(dropped) != a.failN+a.lostN {
					return vx.Failf("loss-accounting", "am%s: metrics sent=%v errors=%v dropped=%v; reference: delivered %d, failed %d, lost to overflow %d (dropped must be failed+lost)", name, sent, errs, dropped, a.okN, a.failN, a.lostN)
				}
			}
		}
		if len(impl) > 2 {
			return vx.Failf("send-loop-set-differs", "unexpected send loops %v", vx.SortedKeys(impl))
		}
	}
	if w.r != nil {
		out := fmt.Sprintf("%v|%v|%v", w.mdl.ams["1"].received, w.mdl.ams["2"].received, w.mdl.ams["1"].lostN+w.mdl.ams["2"].lostN)
		if w.r.Distinct("distinct_outcomes", out) {
			w.r.Count("outcome_kinds", 1)
		}
		if w.sawOverflow {
			w.r.Count("histories_with_queue_overflow", 1)
		}
		if w.sawOverlap {
			w.r.Count("histories_with_two_requests_in_flight_to_one_alertmanager", 1)
		}
		if soft {
			w.r.Count("histories_with_swapped_reception", 1)
		}
	}
	return nil
}

func (w *c46World) Close() {
	// release everything: fail pending requests until nothing is in flight, stop, repeat
	for i := 0; i < 64; i++ {
		w.mu.Lock()
		var ps []*c46Req
		for _, a := range w.mdl.ams {
			ps = append(ps, a.pending...)
			a.pending = nil
		}
		done := w.runDone && w.applyIn == 0
		w.mu.Unlock()
		for _, p := range ps {
			p.reply <- false
		}
		if len(ps) == 0 {
			if done {
				// Send loops that Run's shutdown did not stop (only possible when the code under test
				// lost track of them, which the oracle has reported as send-loop-set-differs) would
				// keep the bubble alive: stop the reachable ones so that the verdict can be delivered.
				left := false
				for _, ams := range w.m.alertmanagers {
					for u, sl := range ams.sendLoops {
						left = true
						delete(ams.sendLoops, u)
						go sl.stop()
					}
				}
				if !left {
					return
				}
			}
			w.m.Stop()
		}
		synctest.Wait()
	}
	panic("c46: could not shut the world down")
}

// ---------------------------------------------------------------------------
// the check
// ---------------------------------------------------------------------------

// c46SoftSet collects the soft (known-finding class) violations found by the workers and keeps,
// per signature, the smallest history (shortest, then lexicographically first, then plan name), so
// that the reported replay does not depend on worker timing.
type c46SoftSet struct {
	mu   sync.Mutex
	best map[string]c46SoftHit
	n    map[string]int
}

type c46SoftHit struct {
	msg, config string
	ops         []string
}

var c46SoftFound = &c46SoftSet{best: map[string]c46SoftHit{}, n: map[string]int{}}

func (c *c46SoftSet) add(f *vx.Fail, config string, hist []string) {
	c.mu.Lock()
	defer c.mu.Unlock()
	c.n[f.Signature]++
	h := c46SoftHit{f.Message, config, append([]string{}, hist...)}
	old, ok := c.best[f.Signature]
	less := func(a, b c46SoftHit) bool {
		if len(a.ops) != len(b.ops) {
			return len(a.ops) < len(b.ops)
		}
		if x, y := strings.Join(a.ops, " "), strings.Join(b.ops, " "); x != y {
			return x < y
		}
		return a.config < b.config
	}
	if !ok || less(h, old) {
		c.best[f.Signature] = h
	}
}

func (c *c46SoftSet) report(r *vx.Run) {
	c.mu.Lock()
	defer c.mu.Unlock()
	for _, sig := range vx.SortedKeys(c.best) {
		h := c.best[sig]
		r.Violation(sig, h.msg, map[string]any{"config": h.config, "ops": h.ops})
		r.Count("soft:"+sig, c.n[sig])
	}
}

// c46Sabotaged drops the overflow rule from the reference (self-test only).
type c46Sabotaged struct{ *c46World }

func (s *c46Sabotaged) Apply(op string) {
	if op == "send/3" {
		s.mdl.plan.Q = 99
		defer func() { s.mdl.plan.Q = s.plan.Q }()
	}
	s.c46World.Apply(op)
}

func c46SelfTest(t *testing.T, r *vx.Run, eng *evloop.Engine) {
	// a fixed history with overflow, failure, two Alertmanagers; the oracle must accept it ...
	ops := []string{"sd/12", "send/1", "send/3", "ok/1/0", "fail/2/0", "send/d", "ok/1/0"} // (am1 is already in the set initially)
	if f := eng.Replay(func() evloop.World { return c46NewWorld(nil, "q2b1-nodrain") }, ops); f != nil {
		r.Violation(f.Signature, f.Message, map[string]any{"config": "q2b1-nodrain", "ops": ops})
		return
	}
	// ... and must complain when the reference forgets that overflow drops the oldest alerts
	if f := eng.Replay(func() evloop.World { return &c46Sabotaged{c46NewWorld(nil, "q2b1-nodrain")} }, ops); f == nil {
		t.Fatalf("self-test: oracle accepted a reference without queue overflow")
	}
	// model: overflow drops oldest
	m := c46NewModel(c46Plan{2, 1, true})
	m.setAMs("1")
	m.offer([]int{1})
	m.offer([]int{2, 3, 4})
	if a := m.ams["1"]; fmt.Sprint(a.queue) != "[3 4]" || a.lostN != 2 {
		t.Fatalf("self-test: model overflow wrong: %v lost %d", a.queue, a.lostN)
	}
}

func TestVerifC46(t *testing.T) {
	r := vx.Start(t, "C46", "model_checking")
	defer r.Finish()
	eng := &evloop.Engine{T: t, GuardFirst: 50}
	if r.Replay != "" {
		var rp struct {
			Config string   `json:"config"`
			Ops    []string `json:"ops"`
		}
		r.LoadReplay(&rp)
		if f := eng.Replay(func() evloop.World { return c46NewWorld(r, rp.Config) }, rp.Ops); f != nil {
			r.Violation(f.Signature, f.Message, rp)
		}
		c46SoftFound.report(r)
		return
	}
	c46SelfTest(t, r, &evloop.Engine{T: t})
	type plan struct {
		name  string
		depth int
	}
	plans := vx.Pick(r,
		[]plan{{"q2b1-drain", 6}, {"q2b1-nodrain", 6}},
		[]plan{{"q2b1-nodrain", 8}, {"q3b2-drain", 7}, {"q3b2-nodrain", 7}, {"q1b1-drain", 7}, {"q2b1-drain", 9}})
	if v := os.Getenv("VERIF_C46_PLAN"); v != "" { // experiments only, e.g. "q2b1-drain:6"
		plans = nil
		for _, p := range strings.Split(v, ",") {
			var pl plan
			q := strings.Split(p, ":")
			pl.name = q[0]
			fmt.Sscan(q[1], &pl.depth)
			plans = append(plans, pl)
		}
	}
	depths := map[string]int{}
	for _, p := range plans {
		if r.Expired() {
			r.NotExhaustive("deadline before plan " + p.name)
			break
		}
		name := p.name
		res := r.BFS(name, func() vx.Sys { return eng.Sys(func() evloop.World { return c46NewWorld(r, name) }) }, p.depth)
		depths[name] = p.depth
		t.Logf("C46 %s depth %d: states=%d transitions=%d depthCompleted=%d", name, p.depth, res.States, res.Transitions, res.DepthCompleted)
	}
	c46SoftFound.report(r)
	if d := eng.Diverged(); len(d) > 0 {
		t.Fatalf("determinism guard: %d of %d twice-executed histories diverged, e.g. %s", len(d), eng.Guarded(), d[0])
	}
	if eng.Guarded() < 50 && eng.Checked() >= 50 {
		t.Fatalf("determinism guard ran on %d histories only", eng.Guarded())
	}
	r.Count("histories_executed_twice", int(eng.Guarded()))
	r.Count("evaluations", int(eng.Checked()))
	r.Set("depth", depths)
	var pn []string
	for _, p := range plans {
		pn = append(pn, fmt.Sprintf("%s(queue %d, batch %d, drain %v)", p.name, c46Plans[p.name].Q, c46Plans[p.name].B, c46Plans[p.name].Drain))
	}
	sort.Strings(pn)
	r.Set("alphabet", map[string]any{"plans": pn, "events": []string{"send/1", "send/3", "send/d", "sd/1", "sd/12", "sd/2", "sd/0", "cfg/same", "cfg/other", "stop", "ok/<am>/<k<2>", "fail/<am>/<k<2>"}})
	r.Set("rule", "every ordering of <= depth events (Send of 1 / 3 / relabel-filtered alerts, Alertmanager set change by discovery update or ApplyConfig, fake Alertmanager processes or fails its oldest or second-oldest pending request, Stop) on a fresh real notifier.Manager in a synctest bubble, de-duplicated on (per Alertmanager: loop live/draining, queue, requests in flight, delivered/failed/lost counts, highest alert received; stop requested; config; real queues); oracle after every transition: batches <= max and equal to the oldest queued alerts, received sequence in send order, real queue == reference queue (oldest dropped on overflow), sent/errors/dropped metrics == delivered/failed/failed+lost, with draining nothing left unattempted when the stopping operation has returned")
	r.Assume("between two quiescent points the order of runnable goroutines, select tie-breaks and map iteration are the Go runtime's; each event is injected only when every goroutine is durably blocked; events needing Manager.mtx are not injected while a drain holds it (they would simply wait)")
	r.Assume("a fake Alertmanager receives a batch when it processes the request; two requests in flight to the same Alertmanager may be processed in either order (as concurrent HTTP requests can be)")
	r.Assume("loss counters are compared with the metrics only for the first send loop of an Alertmanager URL (stop() deletes the label values, so the count of alerts dropped by a non-draining stop is not observable)")
	if r.Violations() == 0 && (r.Get("outcome_kinds") < 2 || r.Get("histories_with_queue_overflow") == 0) {
		t.Fatalf("vacuous run: %d distinct outcomes, %d histories with overflow", r.Get("outcome_kinds"), r.Get("histories_with_queue_overflow"))
	}
}
