#!/usr/bin/env python3
"""markfixed.py <commit> <property> <signature-substring>... : flip known entries to fixed."""
import json, sys
commit, prop, subs = sys.argv[1], sys.argv[2], sys.argv[3:]
p = '/verif/known_findings.json'
k = json.load(open(p))
n = 0
for e in k["findings"]:
    if e["property"] == prop and e.get("status") == "known" and any(s in e["signature"] for s in subs):
        e["status"] = "fixed"; e["commit"] = commit
        e["what_fails"] = "fixed: property=%s %s %s" % (prop, commit, e["what_fails"])
        n += 1
        print("fixed:", prop, e["signature"])
json.dump(k, open(p, 'w'), indent=1)
if n == 0:
    print("no entry matched")
