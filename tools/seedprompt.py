#!/usr/bin/env python3
"""Prints the prompt for an independent 'seeded change' agent for one property and creates its worktree."""
import json, sys, subprocess, os
pid = sys.argv[1]
wt = "/tmp/seed-" + pid
if not os.path.isdir(wt):
    subprocess.check_call(["git", "-C", "/repo", "worktree", "add", "--detach", wt, "HEAD", "-q"])
p = [json.loads(l) for l in open("/verif/properties.jsonl") if json.loads(l)["id"] == pid][0]
print(f"""You are testing how robust a correctness property of the Prometheus monitoring server (prometheus/prometheus, Go) is against subtle regressions. You work ONLY in your own scratch git worktree of the repository: {wt} (a detached checkout of the current source). Do not touch /repo or /verif and do not read anything under /verif.

The property:
  id: {p['id']} — {p['title']}
  statement: {p['statement']}
  quantified over: {p['quantifier']['text']}
  code most relevant to it: {', '.join(p['anchors']['files'])}

Your task: produce ONE small, realistic change to the repository's non-test source code (the kind of slip a competent developer could make in a refactoring or optimisation: an off-by-one on a boundary, a dropped branch, a wrong comparison, a stale buffer or cursor, an ordering change between two steps, a missing lock or a store moved across another) such that
  1. the repository still compiles and the EXISTING tests of the packages you touched (and their obvious dependants) still pass with the change — run them and make sure;
  2. the property above is violated by the changed code;
  3. the violation needs something SPECIFIC to manifest — a particular interleaving, a crash or fault at a particular point, a multi-step sequence of operations, an unusual input, or two cooperating sites that each look fine alone — not something ordinary use would expose at once.
Also write a demonstration: a Go test (or small program) that FAILS with your change and PASSES without it, exercising the real code.

Practicalities (sealed sandbox, no network):
 - Run go only inside {wt}, with `GOPROXY=off` set and nothing else (do NOT set GOFLAGS, GOSUMDB or GOTOOLCHAIN; the repository is a go.work workspace that auto-selects its toolchain). Example: `cd {wt} && GOPROXY=off go test -count=1 ./tsdb/ -run TestFoo`. Package tests of ./tsdb take ~5 min, ./promql ~5 min; the machine is busy, so run only the packages you touched. tsdb/index TestPersistence_index_e2e and cmd/promtool TestDocumentation may fail for unrelated environment reasons — ignore those two.
 - Keep tool output short (pipe through tail/head).
 - Deliverables, all under {wt}/SEED/ : `patch.diff` (output of `git diff` for the source change only, applicable with `git apply` to a clean checkout), the demonstration test file(s) (say where in the tree each must be placed and the exact `go test` command), and `NOTES.md`: what the change is, why existing tests do not catch it, exactly what is needed for the violation to manifest, and the output of the demonstration with and without the change.
 - Leave the worktree with the change applied and the demonstration in place. Do not commit.
If your first idea is caught by the existing tests, try another; spend your effort on finding a change that is both plausible and hard to notice. Final message: a 10-line summary (change, trigger, demo command, which existing test commands you ran).""")
