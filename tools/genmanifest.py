#!/usr/bin/env python3
"""Regenerates /verif/MANIFEST.json from checks.json (+ na.json for not_applicable reasons)."""
import json, os
V = os.path.dirname(os.path.dirname(os.path.abspath(__file__)))
import glob
checks = json.load(open(os.path.join(V, "checks.json")))
for f in sorted(glob.glob(os.path.join(V, "checks.d", "*.json"))):
    checks.update(json.load(open(f)))
props = [json.loads(l) for l in open(os.path.join(V, "properties.jsonl"))]
enabled = [l.strip() for l in open(os.path.join(V, "enabled.txt")) if l.strip() and not l.startswith("#")]
checks = {k: v for k, v in checks.items() if k in enabled}
na_reasons = {}
if os.path.exists(os.path.join(V, "na.json")):
    na_reasons = json.load(open(os.path.join(V, "na.json")))
baseline = json.load(open("/root/.vp/BASELINE.json"))["cmd"]
m = {
    "version": 1,
    "setup_cmd": "./setup.sh",
    "hooks": {
        "guard": "verif-overlay (no tagged code in /repo: all instrumentation is injected at check time with `go test -overlay`, regenerated from /repo's working tree)",
        "enable": "./check <id> <tier> builds /repo's package with -overlay .cache/overlay/<id>.json (virtual harness _test.go files, virtual internal/verif/* packages, and for the sched/crash flavours rewritten copies of package sources / stdlib os files)",
        "baseline_off_cmd": baseline,
        "source_commits": [],
        "add_only": True,
    },
    "engines": [],
    "checks": [],
    "not_applicable": [],
    "notes": "See DESIGN.md. Fix commits in /repo are listed in known_findings.json (status fixed).",
}
engines = {}
for cid in sorted(checks):
    s = checks[cid]
    eng = s.get("engine", "E1 seqx")
    engines.setdefault(eng, []).append(cid)
    m["checks"].append({
        "property_id": cid,
        "quick_cmd": "./check %s quick" % cid,
        "thorough_cmd": "./check %s thorough" % cid,
        "evidence_file": "/verif/evidence/%s.json" % cid,
        "replay_cmd_template": "./check %s quick --replay {path}" % cid,
        "engine": eng,
        "level_claimed": {"category": s["level"], "text": s.get("level_text", ""), "design_ref": s.get("design_ref", "DESIGN.md §6 " + cid)},
        "level_note": s.get("level_note", ""),
        "technique": s.get("technique", ""),
    })
kinds = {
    "E1 seqx": "bounded-exhaustive enumeration of operation sequences / inputs and explicit-state BFS over the real code against reference models (lib/vx)",
    "E2 vsched": "controlled cooperative scheduler over the real code (sync/atomic shims injected by source rewriting), preemption-bounded DFS of thread interleavings",
    "E3 crashfs": "process-crash enumeration: snapshot of the data directory at every file-system operation boundary of a history + recovery oracle",
    "E4 damage": "exhaustive truncation / single-byte damage sweeps of on-disk files + recovery oracle",
    "E5 evloop": "explicit-state search over environment event orderings inside a synctest bubble",
}
for e, ids in sorted(engines.items()):
    m["engines"].append({"name": e, "path": "/verif/lib", "serves_properties": ids, "kind_free_text": kinds.get(e, e)})
for p in props:
    if p["id"] not in checks:
        m["not_applicable"].append({"property_id": p["id"], "reason": na_reasons.get(p["id"], "not claimed: check not built yet (work in progress, see DESIGN.md §11)")})
json.dump(m, open(os.path.join(V, "MANIFEST.json"), "w"), indent=1)
print("MANIFEST: %d checks, %d not_applicable" % (len(m["checks"]), len(m["not_applicable"])))
