// mkoverlay produces the extra `go build -overlay` entries of the "sched" and "crash" flavours:
//
//   - sched: rewritten copies of the non-test sources of the listed repository packages, in
//     which "sync", "sync/atomic" and "go.uber.org/atomic" are replaced by the scheduler shims
//     (same local package name, so no selector changes), `go f(x)` becomes vsched.Go(...), and
//     time.Sleep becomes vsched.Sleep; plus the deterministic-runtime patches (detrt).
//   - crash: patched copies of stdlib os files that call os.VerifHook around mutating
//     file-system operations; plus detrt.
//
// It prints a JSON object {overlay path: replacement path} on stdout.
package main

import (
	"bytes"
	"encoding/json"
	"flag"
	"fmt"
	"go/ast"
	"go/parser"
	"go/printer"
	"go/token"
	"os"
	"path/filepath"
	"strconv"
	"strings"
)

type multi []string

func (m *multi) String() string     { return strings.Join(*m, ",") }
func (m *multi) Set(s string) error { *m = append(*m, s); return nil }

const shimBase = "github.com/prometheus/prometheus/internal/verif/"

func main() {
	var pkgs multi
	repo := flag.String("repo", "/repo", "")
	_ = flag.String("verif", "/verif", "")
	out := flag.String("out", "", "")
	flavour := flag.String("flavour", "sched", "")
	goroot := flag.String("goroot", "", "")
	chanMode := flag.Bool("chan", false, "")
	flag.Var(&pkgs, "pkg", "")
	flag.Parse()
	_ = chanMode
	repl := map[string]string{}
	rtOpts := map[string]bool{}
	must(os.MkdirAll(*out, 0o755))
	if *flavour == "sched" {
		for _, p := range pkgs {
			// "dir:file1.go+file2.go" restricts the rewrite to the named files of the package
			// (needed when other files of it hand sync types to libraries, e.g. *sync.Pool).
			if strings.HasPrefix(p, "@") {
				// "@name": option for the runtime overlay of THIS check only (see detrt)
				rtOpts[p[1:]] = true
				continue
			}
			p, only, _ := strings.Cut(p, ":")
			onlySet := map[string]bool{}
			for _, f := range strings.Split(only, "+") {
				if f != "" {
					onlySet[f] = true
				}
			}
			dir := filepath.Join(*repo, p)
			ents, err := os.ReadDir(dir)
			must(err)
			for _, e := range ents {
				n := e.Name()
				if e.IsDir() || !strings.HasSuffix(n, ".go") || strings.HasSuffix(n, "_test.go") {
					continue
				}
				if len(onlySet) > 0 && !onlySet[n] {
					continue
				}
				src := filepath.Join(dir, n)
				b, changed := rewriteFile(src)
				if !changed {
					continue
				}
				dst := filepath.Join(*out, strings.ReplaceAll(p, "/", "_")+"__"+n)
				writeIfChanged(dst, b)
				repl[src] = dst
			}
		}
	}
	detrt(*goroot, *out, repl, rtOpts)
	if *flavour == "crash" {
		oshooks(*goroot, *out, repl)
	}
	enc := json.NewEncoder(os.Stdout)
	must(enc.Encode(repl))
}

func must(err error) {
	if err != nil {
		fmt.Fprintln(os.Stderr, "mkoverlay:", err)
		os.Exit(1)
	}
}

func writeIfChanged(dst string, b []byte) {
	if old, err := os.ReadFile(dst); err == nil && bytes.Equal(old, b) {
		return
	}
	must(os.WriteFile(dst, b, 0o644))
}

var importMap = map[string]struct{ path, name string }{
	"sync":               {shimBase + "vsync", "sync"},
	"sync/atomic":        {shimBase + "vstdatomic", "atomic"},
	"go.uber.org/atomic": {shimBase + "vatomic", "atomic"},
}

func rewriteFile(path string) ([]byte, bool) {
	fset := token.NewFileSet()
	f, err := parser.ParseFile(fset, path, nil, parser.ParseComments)
	must(err)
	changed := false
	timeName := ""
	for _, im := range f.Imports {
		p, _ := strconv.Unquote(im.Path.Value)
		if p == "time" {
			timeName = "time"
			if im.Name != nil {
				timeName = im.Name.Name
			}
		}
		if m, ok := importMap[p]; ok {
			name := m.name
			if im.Name != nil {
				name = im.Name.Name
			}
			im.Name = ast.NewIdent(name)
			im.Path.Value = strconv.Quote(m.path)
			changed = true
		}
	}
	needSched := false
	// go statements and time.Sleep
	ast.Inspect(f, func(n ast.Node) bool {
		switch x := n.(type) {
		case *ast.BlockStmt:
			rewriteStmts(x.List, &needSched)
		case *ast.CaseClause:
			rewriteStmts(x.Body, &needSched)
		case *ast.CommClause:
			rewriteStmts(x.Body, &needSched)
		case *ast.CallExpr:
			if sel, ok := x.Fun.(*ast.SelectorExpr); ok && timeName != "" {
				if id, ok := sel.X.(*ast.Ident); ok && id.Name == timeName && id.Obj == nil && sel.Sel.Name == "Sleep" {
					x.Fun = &ast.SelectorExpr{X: ast.NewIdent("verifsched"), Sel: ast.NewIdent("Sleep")}
					needSched = true
				}
			}
		}
		return true
	})
	if needSched {
		changed = true
		addImport(f, "verifsched", shimBase+"vsched")
	}
	if !changed {
		return nil, false
	}
	var buf bytes.Buffer
	must(printer.Fprint(&buf, fset, f))
	// an import that became unused (time only used for Sleep) would not compile: keep a reference
	if timeName != "" && needSched {
		buf.WriteString("\nvar _ = " + timeName + ".Now\n")
	}
	return buf.Bytes(), true
}

// rewriteStmts turns `go f(a, b)` into
//
//	{ v0, v1 := a, b; verifsched.Go(func() { f(v0, v1) }) }
//
// (arguments and a method receiver expression are still evaluated at the go statement).
func rewriteStmts(list []ast.Stmt, need *bool) {
	for i, s := range list {
		var lbl *ast.LabeledStmt
		if l, ok := s.(*ast.LabeledStmt); ok {
			lbl = l
			s = l.Stmt
		}
		g, ok := s.(*ast.GoStmt)
		if !ok {
			continue
		}
		*need = true
		call := g.Call
		var lhs []ast.Expr
		var rhs []ast.Expr
		tmp := func(e ast.Expr) ast.Expr {
			switch e.(type) {
			case *ast.BasicLit, *ast.FuncLit:
				return e
			}
			id := ast.NewIdent(fmt.Sprintf("verifArg%d", len(lhs)))
			lhs = append(lhs, id)
			rhs = append(rhs, e)
			return ast.NewIdent(id.Name)
		}
		newCall := &ast.CallExpr{Fun: call.Fun, Ellipsis: call.Ellipsis}
		// receiver of a method value / function value
		switch fn := call.Fun.(type) {
		case *ast.FuncLit:
			// keep
		case *ast.SelectorExpr:
			// x.f(...) : evaluate x now unless it is a package identifier (cannot tell without types:
			// package identifiers have Obj == nil and are lower-case imports; evaluating `pkg` as a value
			// would not compile, so only hoist when X is not a bare identifier).
			if _, isIdent := fn.X.(*ast.Ident); !isIdent {
				newCall.Fun = &ast.SelectorExpr{X: tmp(fn.X), Sel: fn.Sel}
			}
		}
		for _, a := range call.Args {
			newCall.Args = append(newCall.Args, tmp(a))
		}
		goCall := &ast.ExprStmt{X: &ast.CallExpr{
			Fun:  &ast.SelectorExpr{X: ast.NewIdent("verifsched"), Sel: ast.NewIdent("Go")},
			Args: []ast.Expr{&ast.FuncLit{Type: &ast.FuncType{Params: &ast.FieldList{}}, Body: &ast.BlockStmt{List: []ast.Stmt{&ast.ExprStmt{X: newCall}}}}},
		}}
		var blk []ast.Stmt
		if len(lhs) > 0 {
			blk = append(blk, &ast.AssignStmt{Lhs: lhs, Tok: token.DEFINE, Rhs: rhs})
		}
		blk = append(blk, goCall)
		var ns ast.Stmt = &ast.BlockStmt{List: blk}
		if lbl != nil {
			lbl.Stmt = ns
			ns = lbl
		}
		list[i] = ns
	}
}

func addImport(f *ast.File, name, path string) {
	spec := &ast.ImportSpec{Name: ast.NewIdent(name), Path: &ast.BasicLit{Kind: token.STRING, Value: strconv.Quote(path)}}
	for _, d := range f.Decls {
		if gd, ok := d.(*ast.GenDecl); ok && gd.Tok == token.IMPORT {
			gd.Specs = append(gd.Specs, spec)
			if !gd.Lparen.IsValid() {
				gd.Lparen = gd.Pos()
				gd.Rparen = gd.End()
			}
			f.Imports = append(f.Imports, spec)
			return
		}
	}
	gd := &ast.GenDecl{Tok: token.IMPORT, Specs: []ast.Spec{spec}}
	f.Decls = append([]ast.Decl{gd}, f.Decls...)
}

// ---- deterministic runtime -----------------------------------------------------------------

func patch(goroot, out string, repl map[string]string, rel string, edits func(s string) string) {
	src := filepath.Join(goroot, "src", rel)
	b, err := os.ReadFile(src)
	must(err)
	s := edits(string(b))
	if s == string(b) {
		must(fmt.Errorf("patch of %s did not change anything", rel))
	}
	dst := filepath.Join(out, "goroot__"+strings.ReplaceAll(rel, "/", "_"))
	writeIfChanged(dst, []byte(s))
	repl[src] = dst
}

func replaceAllCount(s, old, new string, min int) string {
	if strings.Count(s, old) < min {
		must(fmt.Errorf("expected >= %d occurrences of %q", min, old))
	}
	return strings.ReplaceAll(s, old, new)
}

func detrt(goroot, out string, repl map[string]string, opts map[string]bool) {
	if opts["dettimers"] {
		// opt-in (engine E5): synctest deliberately fires fake timers that expire at the same
		// instant in RANDOM order; make the tie-break a harness-selected rule instead
		// (runtime.VerifTimerTie: 0 = armed first fires first, 1 = armed last fires first).
		patch(goroot, out, repl, "runtime/time.go", func(s string) string {
			return replaceAllCount(s, "t.rand = cheaprand()", "t.rand = verifTimerRand()", 1)
		})
		dst := filepath.Join(out, "goroot__runtime_verif_e5.go")
		writeIfChanged(dst, []byte(`package runtime

import "internal/runtime/atomic"

// VerifTimerTie selects the order in which synctest (fake) timers that expire at the same
// instant fire: 0 = armed first fires first, 1 = armed last fires first (verification build only;
// the stock runtime picks a random order).
var VerifTimerTie int32

var verifTimerSeq atomic.Uint32

func verifTimerRand() uint32 {
	n := verifTimerSeq.Add(1)
	if VerifTimerTie == 1 {
		return ^n
	}
	return n
}
`))
		repl[filepath.Join(goroot, "src/runtime/verif_e5.go")] = dst
	}
	// opt-in (engine E5): sysmon never force-preempts a goroutine that has been running for
	// 10ms of WALL time. On a loaded machine the OS can deschedule the thread for that long in
	// the middle of a microsecond burst, and the forced yield reorders the run queue, which
	// makes an event history a function of the machine load. Checks that do not ask for it
	// keep the stock behaviour (and their build cache).
	if opts["noforcepreempt"] || opts["nosysretake"] {
		patch(goroot, out, repl, "runtime/proc.go", func(s string) string {
			if opts["noforcepreempt"] {
				s = replaceAllCount(s, "} else if pd.schedwhen+forcePreemptNS <= now {", "} else if false && pd.schedwhen+forcePreemptNS <= now {", 1)
			}
			if opts["nosysretake"] {
				// sysmon never takes the P away from a goroutine that sits in a (file) system
				// call for more than 20us of WALL time; with one P the goroutines of an event
				// loop then cannot overtake a watcher that is reading its WAL segment.
				s = replaceAllCount(s, "\t\tif s == _Psyscall {\n\t\t\t// Retake P from syscall", "\t\tif false && s == _Psyscall {\n\t\t\t// Retake P from syscall", 1)
			}
			return s
		})
	}
	// select: poll cases in a fixed order
	patch(goroot, out, repl, "runtime/select.go", func(s string) string {
		return replaceAllCount(s, "j := cheaprandn(uint32(norder + 1))", "j := uint32(norder)", 1)
	})
	// maps: ignore the per-map seed and start every iteration at offset 0
	ents, err := os.ReadDir(filepath.Join(goroot, "src/internal/runtime/maps"))
	must(err)
	for _, e := range ents {
		n := e.Name()
		if !strings.HasSuffix(n, ".go") || strings.HasSuffix(n, "_test.go") {
			continue
		}
		b, err := os.ReadFile(filepath.Join(goroot, "src/internal/runtime/maps", n))
		must(err)
		s := string(b)
		if !strings.Contains(s, ", m.seed)") && !strings.Contains(s, "it.entryOffset = rand()") {
			continue
		}
		patch(goroot, out, repl, "internal/runtime/maps/"+n, func(s string) string {
			s = strings.ReplaceAll(s, ", m.seed)", ", 0x5eed)")
			s = strings.ReplaceAll(s, "it.entryOffset = rand()", "it.entryOffset = 0")
			s = strings.ReplaceAll(s, "it.dirOffset = rand()", "it.dirOffset = 0")
			return s
		})
	}
	// goroutine id for the scheduler shims
	dst := filepath.Join(out, "goroot__runtime_verif_goid.go")
	writeIfChanged(dst, []byte("package runtime\n\n// VerifGoid returns the id of the calling goroutine (verification build only).\nfunc VerifGoid() uint64 { return getg().goid }\n"))
	repl[filepath.Join(goroot, "src/runtime/verif_goid.go")] = dst
}

// ---- os hooks (crash flavour) ----------------------------------------------------------------

func oshooks(goroot, out string, repl map[string]string) {
	hook := `package os

// VerifHook, when set, is called before (phase 0) and after (phase 1) every mutating
// file-system operation of package os (verification build only).
var VerifHook func(op, path string, phase int, n int)

func verifHook(op, path string, phase, n int) {
	if h := VerifHook; h != nil {
		h(op, path, phase, n)
	}
}
`
	dst := filepath.Join(out, "goroot__os_verif_hook.go")
	writeIfChanged(dst, []byte(hook))
	repl[filepath.Join(goroot, "src/os/verif_hook.go")] = dst

	wrap := func(s, sig, op, pathExpr, nExpr string) string {
		i := strings.Index(s, sig)
		if i < 0 {
			must(fmt.Errorf("signature not found: %s", sig))
		}
		j := i + len(sig)
		ins := fmt.Sprintf("\n\tverifHook(%q, %s, 0, %s)\n\tdefer verifHook(%q, %s, 1, %s)", op, pathExpr, nExpr, op, pathExpr, nExpr)
		return s[:j] + ins + s[j:]
	}
	patch(goroot, out, repl, "os/file.go", func(s string) string {
		s = wrap(s, "func (f *File) Write(b []byte) (n int, err error) {", "write", "f.name", "len(b)")
		s = wrap(s, "func (f *File) WriteAt(b []byte, off int64) (n int, err error) {", "writeat", "f.name", "len(b)")
		s = wrap(s, "func (f *File) WriteString(s string) (n int, err error) {", "write", "f.name", "len(s)")
		s = wrap(s, "func (f *File) ReadFrom(r io.Reader) (n int64, err error) {", "readfrom", "f.name", "0")
		s = wrap(s, "func Mkdir(name string, perm FileMode) error {", "mkdir", "name", "0")
		s = wrap(s, "func Rename(oldpath, newpath string) error {", "rename", "oldpath+\"\\x00\"+newpath", "0")
		s = wrap(s, "func OpenFile(name string, flag int, perm FileMode) (*File, error) {", "open", "name", "flag")
		return s
	})
	patch(goroot, out, repl, "os/file_posix.go", func(s string) string {
		s = wrap(s, "func (f *File) Sync() error {", "sync", "f.name", "0")
		s = wrap(s, "func (f *File) Close() error {", "close", "f.name", "0")
		s = wrap(s, "func (f *File) Truncate(size int64) error {", "truncate", "f.name", "int(size)")
		return s
	})
	patch(goroot, out, repl, "os/removeall_at.go", func(s string) string {
		return wrap(s, "func removeAll(path string) error {", "removeall", "path", "0")
	})
	patch(goroot, out, repl, "os/file_unix.go", func(s string) string {
		s = wrap(s, "func Remove(name string) error {", "remove", "name", "0")
		s = wrap(s, "func Truncate(name string, size int64) error {", "truncatepath", "name", "int(size)")
		s = wrap(s, "func Link(oldname, newname string) error {", "link", "oldname+\"\\x00\"+newname", "0")
		s = wrap(s, "func Symlink(oldname, newname string) error {", "symlink", "oldname+\"\\x00\"+newname", "0")
		return s
	})
}
