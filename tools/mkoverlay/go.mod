module verif/mkoverlay

go 1.25
