#!/bin/bash
# usage: tools/runall.sh quick|thorough id...   -> one summary line per check
tier=$1; shift
cd "$(dirname "$0")/.."
for c in "$@"; do
  s=$(date +%s)
  out=$(./check $c $tier 2>&1); rc=$?
  e=$(date +%s)
  echo "$c rc=$rc $((e-s))s $(echo "$out" | grep -c '^KNOWN-FINDING') known | $(echo "$out" | grep '^check ' | cut -c1-160)"
  if [ $rc -ne 0 ]; then echo "$out" | grep -A2 "^VIOLATION\|^TOOL-FAILURE" | cut -c1-400 | head -20; fi
done
