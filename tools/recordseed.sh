#!/bin/bash
# tools/recordseed.sh <ID> "<summary>" "<needs>" "<caught_by>" "<demo cmd>"
id=$1; mkdir -p /verif/seeded/$id
cp /tmp/seed-$id/SEED/patch.diff /verif/seeded/$id/
for f in /tmp/seed-$id/SEED/*_test.go /tmp/seed-$id/SEED/NOTES.md; do [ -f "$f" ] && cp "$f" /verif/seeded/$id/; done
python3 - "$@" <<'PY'
import json, sys
id, summary, needs, caught, demo = sys.argv[1:6]
ran = open('/tmp/verifyseed-%s.log' % id).read()[-0:0] if False else "tools/verifyseed.sh %s: patch applies to a fresh worktree, builds, existing package tests pass, demonstration fails with the change and passes without it; then the listed checks were run with VERIF_REPO=<changed tree>" % id
json.dump({"property": id, "summary": summary, "needs": needs, "ran": ran, "caught_by": caught, "demo": demo}, open('/verif/seeded/%s/meta.json' % id, 'w'), indent=1)
PY
echo recorded $id
