#!/bin/bash
# tools/verifyseed.sh <ID> "<demo go test command run inside the worktree>" "<packages whose own tests must still pass>" [check ids...]
# Verifies an independently written property-breaking change (from /tmp/seed-<ID>/SEED) in a scratch
# worktree: applies cleanly, existing package tests pass, the demonstration fails with it and passes
# without it; then runs the given checks (default: <ID>) against the changed tree.
set -u
ID=$1; DEMO=$2; PKGS=$3; shift 3
CHECKS=${*:-$ID}
SRC=/tmp/seed-$ID/SEED
WT=/tmp/vs-$ID
LOG=/tmp/verifyseed-$ID.log
: > $LOG
git -C /repo worktree remove --force $WT >/dev/null 2>&1
git -C /repo worktree add --detach $WT HEAD -q || exit 2
cd $WT
# demonstration files: everything in SEED except patch.diff / NOTES.md keeps its relative path if it has one
( cd $SRC && find . -type f ! -name patch.diff ! -name NOTES.md ) > /tmp/vs-$ID.files
git apply --check $SRC/patch.diff || { echo "RESULT $ID patch does not apply"; exit 1; }
git apply $SRC/patch.diff
echo "== build" >> $LOG
GOPROXY=off go build ./... >> $LOG 2>&1 || { echo "RESULT $ID does not build"; exit 1; }
echo "== existing tests: $PKGS" >> $LOG
if GOPROXY=off go test -count=1 -timeout 30m $PKGS >> $LOG 2>&1; then T=pass; else T=FAIL; fi
echo "existing-tests=$T"
# place demo: the agent left it in its own worktree; copy every untracked test file from there
( cd /tmp/seed-$ID && git status --porcelain | grep '^??' | awk '{print $2}' | grep -v '^SEED' ) > /tmp/vs-$ID.untracked
while read f; do mkdir -p $(dirname $f); cp -r /tmp/seed-$ID/$f $f; done < /tmp/vs-$ID.untracked
echo "== demo with change: $DEMO" >> $LOG
if (eval "GOPROXY=off $DEMO") >> $LOG 2>&1; then D1=pass; else D1=FAIL; fi
git apply -R $SRC/patch.diff
echo "== demo without change" >> $LOG
if (eval "GOPROXY=off $DEMO") >> $LOG 2>&1; then D0=pass; else D0=FAIL; fi
echo "demo-with-change=$D1 demo-without-change=$D0"
git apply $SRC/patch.diff
while read f; do rm -rf $f; done < /tmp/vs-$ID.untracked
for c in $CHECKS; do
  out=$(cd /verif && VERIF_REPO=$WT VERIF_WORKERS=${VERIF_WORKERS:-8} ./check $c quick 2>&1); rc=$?
  echo "check $c quick on changed tree: rc=$rc $(echo "$out" | grep -c '^VIOLATION') violation(s): $(echo "$out" | grep -A1 '^VIOLATION' | grep signature | head -3 | tr '\n' ' ')"
  echo "$out" >> $LOG
done
echo "RESULT $ID existing-tests=$T demo-with=$D1 demo-without=$D0"
